// probe renders each argument as a template with a small fixed context and
// prints the result; a developer convenience, not part of any check.
package main

import (
	"fmt"
	"os"

	plush "github.com/gobuffalo/plush/v5"
)

func main() {
	for _, src := range os.Args[1:] {
		func() {
			defer func() {
				if p := recover(); p != nil {
					fmt.Printf("%q => PANIC %v\n", src, p)
				}
			}()
			ctx := plush.NewContextWith(map[string]interface{}{
				"xs": []int{1, 2, 3}, "s": "str", "m": map[string]interface{}{"a": 1},
				"boom": func() (string, error) { return "", fmt.Errorf("boom") },
				"id":   func(x interface{}) interface{} { return x },
			})
			out, err := plush.Render(src, ctx)
			fmt.Printf("%q => %q err=%v\n", src, out, err)
		}()
	}
}
