package main

import (
	"errors"
	"fmt"
	"math"

	plush "github.com/gobuffalo/plush/v5"
)

type K struct{ I interface{} }
type It struct{ n int }

func (i *It) Next() interface{} { i.n++; if i.n > 2 { return nil }; return i.n }

func try(name, src string, data map[string]interface{}) {
	defer func() {
		if p := recover(); p != nil {
			fmt.Printf("%-28s PANIC %v\n", name, p)
		}
	}()
	out, err := plush.Render(src, plush.NewContextWith(data))
	fmt.Printf("%-28s out=%q err=%v\n", name, out, err)
}

func main() {
	d := func() map[string]interface{} {
		return map[string]interface{}{
			"errs": []error{errors.New("e")}, "strs": []fmt.Stringer{},
			"mk":   map[interface{}]string{1: "a"}, "k": K{I: []int{1}}, "mks": map[K]string{},
			"nan": map[float64]string{math.NaN(): "x", 1: "y"},
			"nilit": (*It)(nil), "nilslice": (*[]int)(nil),
		}
	}
	try("a1 []error + int", `<%= errs + 1 %>`, d())
	try("a2 []error[0] = int", `<% errs[0] = 1 %>`, d())
	try("a3 []Stringer + str", `<%= strs + "x" %>`, d())
	try("b1 map[any][K]", `<%= mk[k] %>`, d())
	try("b2 map[any][K] = ", `<% mk[k] = "v" %>`, d())
	try("b3 map[K][K]", `<%= mks[k] %>`, d())
	try("c for NaN map", `<%= for (k, v) in nan { %><%= v %><% } %>`, d())
	try("d for nil *It", `<%= for (v) in nilit { %><%= v %><% } %>`, d())
	try("d2 for nil *[]int", `<%= for (v) in nilslice { %><%= v %><% } %>`, d())
}
