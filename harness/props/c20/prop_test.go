// C20 — text and encoding helpers: truncate bound, escaping completeness,
// JSON fidelity.
package c20

import (
	"bytes"
	"encoding/json"
	"fmt"
	"html"
	"html/template"
	"io"
	"math"
	"reflect"
	"regexp"
	"sort"
	"strings"
	"testing"
	"unicode/utf8"

	"verif/internal/gen"
	"verif/internal/vk"

	plush "github.com/gobuffalo/plush/v5"
	"github.com/gobuffalo/plush/v5/helpers/encoders"
	"github.com/gobuffalo/plush/v5/helpers/escapes"
	"github.com/gobuffalo/plush/v5/helpers/hctx"
	"github.com/gobuffalo/plush/v5/helpers/helptest"
	"github.com/gobuffalo/plush/v5/helpers/text"
	"pgregory.net/rapid"
)

func TestMain(m *testing.M) { vk.Main(m) }

// ---- truncate --------------------------------------------------------------

type TruncCase struct {
	S        vk.Text `json:"s"`
	Size     int     `json:"size"`
	HasSize  bool    `json:"has_size"`
	Trail    vk.Text `json:"trail"`
	HasTrail bool    `json:"has_trail"`
	ViaTmpl  bool    `json:"via_template"`
	// Route (when set, it replaces ViaTmpl): how the options reach the helper.
	//   nil        text.Truncate(s, nil)                  (no option given: a nil map)
	//   tmpl-none  <%= raw(truncate(s)) %>                (no option given: argument left out)
	//   tmpl-nil   <%= raw(truncate(s, nil)) %>           (no option given: nil literal)
	//   tmpl-hash  <%= raw(truncate(s, {size: n, trail: t})) %>  hash literal with exactly the given keys
	//   tmpl-gomap <%= raw(truncate(s, opts)) %>          opts a plain map[string]interface{}
	Route string `json:"route,omitempty"`
}

func runeLen(s string) int { return len([]rune(s)) }

// nilOptionsClass: the generator class "no option given, spelled as a nil map"
const nilOptionsClass = "truncate-nil-options"

// truncOracle is the truncate sentence of the statement; "" when got is allowed
func truncOracle(s string, size int, trail, got string) string {
	rs, rt, rg := []rune(s), []rune(trail), []rune(got)
	if len(rs) <= size {
		if got != s {
			return fmt.Sprintf("string has %d <= size characters but came back changed: %q", len(rs), got)
		}
		return ""
	}
	bound := size
	if len(rt) > bound {
		bound = len(rt)
	}
	if len(rg) > bound {
		return fmt.Sprintf("result %q has %d characters > max(size, len(trail)) = %d", got, len(rg), bound)
	}
	if len(rg) < len(rt) || string(rg[len(rg)-len(rt):]) != string(rt) {
		return fmt.Sprintf("result %q does not end with the trail", got)
	}
	k := len(rg) - len(rt)
	if k > len(rs) || string(rg[:k]) != string(rs[:k]) {
		return fmt.Sprintf("result %q is not (prefix of s)+trail in rune space", got)
	}
	if utf8.ValidString(s) && utf8.ValidString(trail) {
		if !utf8.ValidString(got) {
			return fmt.Sprintf("valid UTF-8 in, invalid UTF-8 out: %q (a multi-byte character was split)", got)
		}
		head := got[:len(got)-len(trail)]
		if !strings.HasPrefix(s, head) {
			return fmt.Sprintf("head %q of the result is not a byte prefix of s", head)
		}
	}
	return ""
}

func checkTrunc(r *vk.Run, c TruncCase) *vk.Fail {
	defer r.Watch("truncate", c)()
	s, trail := string(c.S), string(c.Trail)
	size := c.Size
	if !c.HasSize {
		size = 50
	}
	if !c.HasTrail {
		trail = "..."
	}
	opts := hctx.Map{}
	if c.HasSize {
		opts["size"] = c.Size
	}
	if c.HasTrail {
		opts["trail"] = string(c.Trail)
	}
	class := ""
	var res vk.Res
	render := func(src string, data map[string]interface{}) vk.Res {
		return vk.Safe(func() (string, error) { return plush.Render(src, plush.NewContextWith(data)) })
	}
	switch c.Route {
	case "":
		if c.ViaTmpl {
			res = render(`<%= raw(truncate(s, opts)) %>`, map[string]interface{}{"s": s, "opts": opts})
		} else {
			res = vk.Safe(func() (string, error) { return text.Truncate(s, opts), nil })
		}
	case "nil", "tmpl-none", "tmpl-nil":
		if c.HasSize || c.HasTrail {
			return &vk.Fail{Kind: "decode", Msg: "route " + c.Route + " carries no options"}
		}
		switch c.Route {
		case "nil":
			class = nilOptionsClass
			res = vk.Safe(func() (string, error) { return text.Truncate(s, nil), nil })
		case "tmpl-nil":
			class = nilOptionsClass
			res = render(`<%= raw(truncate(s, nil)) %>`, map[string]interface{}{"s": s})
		default:
			res = render(`<%= raw(truncate(s)) %>`, map[string]interface{}{"s": s})
		}
	case "tmpl-hash":
		var parts []string
		data := map[string]interface{}{"s": s}
		if c.HasSize {
			parts = append(parts, "size: n")
			data["n"] = c.Size
		}
		if c.HasTrail {
			parts = append(parts, `"trail": t`)
			data["t"] = string(c.Trail)
		}
		res = render(`<%= raw(truncate(s, {`+strings.Join(parts, ", ")+`})) %>`, data)
	case "tmpl-gomap":
		res = render(`<%= raw(truncate(s, opts)) %>`, map[string]interface{}{"s": s, "opts": map[string]interface{}(opts)})
	default:
		return &vk.Fail{Kind: "decode", Msg: "unknown route " + c.Route}
	}
	fail := func(f string, a ...interface{}) *vk.Fail {
		return &vk.Fail{Kind: "truncate", Class: class, Case: c, Msg: fmt.Sprintf("truncate(%q, size=%d trail=%q) route=%q: ", s, size, trail, c.Route) + fmt.Sprintf(f, a...)}
	}
	nt := ""
	if runeLen(s) > size {
		nt = fmt.Sprintf("T|%q|%d|%q|%v|%s", s, size, trail, c.ViaTmpl, c.Route)
	}
	cls := "truncate"
	if c.Route != "" {
		cls = "truncate/" + c.Route
	}
	r.Count(nt, cls)
	if res.Panicked() || res.Err != nil {
		return fail("%s", res)
	}
	got := res.Out
	if nt != "" {
		r.Sample(func() interface{} {
			return map[string]interface{}{"helper": "truncate", "case": c, "result": vk.Text(got)}
		})
	}
	if msg := truncOracle(s, size, trail, got); msg != "" {
		return fail("%s", msg)
	}
	return nil
}

// TruncSeqCase: ONE options map object serves several calls; between the calls its owner changes it (sets or
// deletes size / trail). Every call must behave as the statement says for the options the owner has given at
// that moment: nothing a previous call did with the map, and nothing remembered about the map, may show.
type TruncStep struct {
	S     vk.Text `json:"s"`
	Op    string  `json:"op,omitempty"` // before the call: "", size, trail, del-size, del-trail
	Size  int     `json:"size,omitempty"`
	Trail vk.Text `json:"trail,omitempty"`
}

type TruncSeqCase struct {
	HasSize  bool        `json:"has_size"`
	Size     int         `json:"size"`
	HasTrail bool        `json:"has_trail"`
	Trail    vk.Text     `json:"trail"`
	Steps    []TruncStep `json:"steps"`
	Mode     string      `json:"mode"` // direct | tmpl (ops are index assignments in the template) | loop (for over the strings, no ops)
}

func checkTruncSeq(r *vk.Run, c TruncSeqCase) *vk.Fail {
	defer r.Watch("truncseq", c)()
	fail := func(f string, a ...interface{}) *vk.Fail {
		return &vk.Fail{Kind: "truncseq", Case: c, Msg: fmt.Sprintf(f, a...)}
	}
	opts := hctx.Map{}
	hasSize, size, hasTrail, trail := c.HasSize, c.Size, c.HasTrail, string(c.Trail)
	if hasSize {
		opts["size"] = size
	}
	if hasTrail {
		opts["trail"] = trail
	}
	key, _ := json.Marshal(c)
	nt := ""
	if len(c.Steps) >= 2 {
		nt = "TS|" + string(key)
	}
	r.Count(nt, "truncseq/"+c.Mode)
	eff := func() (int, string) {
		es, et := 50, "..."
		if hasSize {
			es = size
		}
		if hasTrail {
			et = trail
		}
		return es, et
	}
	var want []string
	var tmpl strings.Builder
	data := map[string]interface{}{"o": opts}
	var xs []string
	for i, st := range c.Steps {
		switch st.Op {
		case "":
		case "size":
			hasSize, size = true, st.Size
		case "trail":
			hasTrail, trail = true, string(st.Trail)
		case "del-size":
			hasSize = false
		case "del-trail":
			hasTrail = false
		default:
			return &vk.Fail{Kind: "decode", Msg: "unknown op " + st.Op}
		}
		if st.Op != "" && c.Mode == "loop" || strings.HasPrefix(st.Op, "del-") && c.Mode != "direct" {
			return &vk.Fail{Kind: "decode", Msg: "op " + st.Op + " cannot be spelled in mode " + c.Mode}
		}
		es, et := eff()
		s := string(st.S)
		if c.Mode == "direct" {
			switch st.Op {
			case "size":
				opts["size"] = st.Size
			case "trail":
				opts["trail"] = string(st.Trail)
			case "del-size":
				delete(opts, "size")
			case "del-trail":
				delete(opts, "trail")
			}
			res := vk.Safe(func() (string, error) { return text.Truncate(s, opts), nil })
			if res.Panicked() || res.Err != nil {
				return fail("call %d truncate(%q): %s", i, s, res)
			}
			if msg := truncOracle(s, es, et, res.Out); msg != "" {
				return fail("call %d of %d on one options map, truncate(%q, size=%d trail=%q): %s", i, len(c.Steps), s, es, et, msg)
			}
			continue
		}
		// the same call made alone, with a map of its own, judged by the statement
		alone := hctx.Map{}
		if hasSize {
			alone["size"] = size
		}
		if hasTrail {
			alone["trail"] = trail
		}
		res := vk.Safe(func() (string, error) { return text.Truncate(s, alone), nil })
		if res.Panicked() || res.Err != nil {
			return fail("call %d alone truncate(%q): %s", i, s, res)
		}
		if msg := truncOracle(s, es, et, res.Out); msg != "" {
			return fail("call %d alone, truncate(%q, size=%d trail=%q): %s", i, s, es, et, msg)
		}
		want = append(want, res.Out)
		xs = append(xs, s)
		switch st.Op {
		case "size":
			data[fmt.Sprintf("n%d", i)] = st.Size
			fmt.Fprintf(&tmpl, `<%% o["size"] = n%d %%>`, i)
		case "trail":
			data[fmt.Sprintf("t%d", i)] = string(st.Trail)
			fmt.Fprintf(&tmpl, `<%% o["trail"] = t%d %%>`, i)
		}
		data[fmt.Sprintf("s%d", i)] = s
		fmt.Fprintf(&tmpl, `<%%= raw(truncate(s%d, o)) %%>|`, i)
	}
	if c.Mode == "direct" {
		return nil
	}
	src := tmpl.String()
	switch c.Mode {
	case "tmpl":
	case "loop":
		src = `<%= for (x) in xs { %><%= raw(truncate(x, o)) %>|<% } %>`
		data["xs"] = xs
	default:
		return &vk.Fail{Kind: "decode", Msg: "unknown mode " + c.Mode}
	}
	res := vk.Safe(func() (string, error) { return plush.Render(src, plush.NewContextWith(data)) })
	if nt != "" {
		r.Sample(func() interface{} { return map[string]interface{}{"case": c, "template": src, "result": res.String()} })
	}
	if res.Panicked() || res.Err != nil {
		return fail("%s: %s", src, res)
	}
	if exp := strings.Join(want, "|") + "|"; res.Out != exp {
		return fail("%s rendered %q; the calls made one by one give %q", src, res.Out, exp)
	}
	return nil
}

func genTruncSeq(t *rapid.T) TruncSeqCase {
	c := TruncSeqCase{Mode: rapid.SampledFrom([]string{"direct", "direct", "tmpl", "loop"}).Draw(t, "mode")}
	if c.HasSize = rapid.Bool().Draw(t, "hs"); c.HasSize {
		c.Size = rapid.IntRange(-2, 70).Draw(t, "size")
	}
	if c.HasTrail = rapid.Bool().Draw(t, "ht"); c.HasTrail {
		c.Trail = vk.Text(shortTrail(t, "trail"))
	}
	ops := []string{"", "", "size", "trail"}
	if c.Mode == "direct" {
		ops = append(ops, "del-size", "del-trail")
	}
	if c.Mode == "loop" {
		ops = []string{""}
	}
	for i, n := 0, rapid.IntRange(2, 5).Draw(t, "calls"); i < n; i++ {
		st := TruncStep{S: vk.Text(gen.Payload(t, "s") + gen.Payload(t, "s2"))}
		if i > 0 {
			st.Op = rapid.SampledFrom(ops).Draw(t, "op")
		}
		switch st.Op {
		case "size":
			st.Size = rapid.IntRange(-2, 70).Draw(t, "nsize")
		case "trail":
			st.Trail = vk.Text(shortTrail(t, "ntrail"))
		}
		c.Steps = append(c.Steps, st)
	}
	return c
}

func shortTrail(t *rapid.T, label string) string {
	tr := []rune(gen.Payload(t, label))
	if len(tr) > 8 {
		tr = tr[:8]
	}
	return string(tr)
}

// ---- escapers ---------------------------------------------------------------

type StrCase struct {
	Helper  string  `json:"helper"`
	S       vk.Text `json:"s"`
	ViaTmpl bool    `json:"via_template"`
	Block   bool    `json:"block,omitempty"`
	// Wrap (template route only, not with Block): where in the template the call stands.
	//   if | ifreturn | for | let | fn | index | hash | content (contentFor + contentOf)
	Wrap string `json:"wrap,omitempty"`
}

// strWraps: template shapes around the emitting expression E (which prints the helper's result unescaped)
var strWraps = map[string]string{
	"if":       `<%= if (yes) { %><%= E %><% } %>`,
	"ifreturn": `<%= if (yes) { return E } %>`,
	"for":      `<%= for (s) in one { %><%= E %><% } %>`,
	"let":      `<% let held = E %><%= held %>`,
	"fn":       `<% let f = fn(s) { return E } %><%= f(s) %>`,
	"index":    `<%= [E][0] %>`,
	"hash":     `<%= {"k": E}["k"] %>`,
	"content":  `<% contentFor("slot") { %><%= E %><% } %><%= contentOf("slot") %>`,
}

var strWrapNames = []string{"if", "ifreturn", "for", "let", "fn", "index", "hash", "content"}

var charRef = regexp.MustCompile(`^&(#[0-9]+|#[xX][0-9a-fA-F]+|[a-zA-Z][a-zA-Z0-9]*);`)

func checkStr(r *vk.Run, c StrCase) *vk.Fail {
	defer r.Watch("str", c)()
	s := string(c.S)
	fail := func(f string, a ...interface{}) *vk.Fail {
		return &vk.Fail{Kind: "str", Case: c, Msg: fmt.Sprintf("%s(%q): ", c.Helper, s) + fmt.Sprintf(f, a...)}
	}
	var res vk.Res
	ctx := func() *plush.Context { return plush.NewContextWith(map[string]interface{}{"s": s}) }
	if c.Wrap != "" {
		shape, ok := strWraps[c.Wrap]
		e := map[string]string{"htmlEscape": "raw(htmlEscape(s))", "jsEscape": "raw(jsEscape(s))", "raw": "raw(s)"}[c.Helper]
		if !ok || e == "" || c.Block || !c.ViaTmpl {
			return &vk.Fail{Kind: "decode", Msg: "bad wrap " + c.Wrap}
		}
		src := strings.ReplaceAll(shape, "E", e)
		res = vk.Safe(func() (string, error) {
			return plush.Render(src, plush.NewContextWith(map[string]interface{}{"s": s, "one": []string{s}, "yes": true}))
		})
	}
	switch c.Helper {
	case "htmlEscape":
		switch {
		case c.Wrap != "": // rendered above
		case c.ViaTmpl && c.Block:
			res = vk.Safe(func() (string, error) { return plush.Render(`<%= raw(htmlEscape("") { %><%= raw(s) %><% }) %>`, ctx()) })
		case c.ViaTmpl:
			res = vk.Safe(func() (string, error) { return plush.Render(`<%= raw(htmlEscape(s)) %>`, ctx()) })
		case c.Block:
			hc := helptest.NewContext()
			hc.BlockFn = func() (string, error) { return s, nil }
			res = vk.Safe(func() (string, error) { return escapes.HTMLEscape("ignored", hc) })
		default:
			res = vk.Safe(func() (string, error) { return escapes.HTMLEscape(s, helptest.NewContext()) })
		}
	case "jsEscape":
		switch {
		case c.Wrap != "": // rendered above
		case c.ViaTmpl:
			res = vk.Safe(func() (string, error) { return plush.Render(`<%= raw(jsEscape(s)) %>`, ctx()) })
		default:
			res = vk.Safe(func() (string, error) { return escapes.JSEscape(s), nil })
		}
	case "raw":
		switch {
		case c.Wrap != "": // rendered above
		case c.ViaTmpl:
			res = vk.Safe(func() (string, error) { return plush.Render(`<%= raw(s) %>`, ctx()) })
		default:
			res = vk.Safe(func() (string, error) { return string(encoders.Raw(s)), nil })
		}
	default:
		return &vk.Fail{Kind: "decode", Msg: "unknown helper " + c.Helper}
	}
	if res.Panicked() || res.Err != nil {
		return fail("%s", res)
	}
	out := res.Out
	nt := ""
	if strings.ContainsAny(s, "<>&'\"=\n\r\\") || strings.Contains(s, "\u2028") || strings.Contains(s, "\u2029") || !utf8.ValidString(s) {
		nt = fmt.Sprintf("S|%s|%q|%v|%v|%s", c.Helper, s, c.ViaTmpl, c.Block, c.Wrap)
	}
	if c.Wrap != "" {
		r.Count(nt, c.Helper+"/"+c.Wrap)
	} else {
		r.Count(nt, c.Helper)
	}
	if nt != "" {
		r.Sample(func() interface{} { return map[string]interface{}{"case": c, "result": vk.Text(out)} })
	}
	if msg := strOracle(c.Helper, s, out); msg != "" {
		return fail("%s", msg)
	}
	return nil
}

// jsDecodeBack: also demand that the jsEscape output, read as the body of a JavaScript string literal, gives the
// input back (the statement lists only what the output must not contain; that an escaper keeps the text is the
// same assumption the htmlEscape decode-back rests on). Set to false to assert the listed predicates only.
const jsDecodeBack = true

// jsUnescape reads s as the body of a JavaScript string literal (every escape form of the language: single
// character escapes, \0, \xHH, \uHHHH, \u{H..}, line continuations, and a backslash before any other character
// standing for that character). ok=false when an escape is malformed.
func jsUnescape(s string) (string, bool) {
	var sb strings.Builder
	hex := func(h string) (rune, bool) {
		if h == "" {
			return 0, false
		}
		var v rune
		for _, c := range h {
			switch {
			case c >= '0' && c <= '9':
				v = v<<4 | (c - '0')
			case c >= 'a' && c <= 'f':
				v = v<<4 | (c - 'a' + 10)
			case c >= 'A' && c <= 'F':
				v = v<<4 | (c - 'A' + 10)
			default:
				return 0, false
			}
			if v > 0x10ffff {
				return 0, false
			}
		}
		return v, true
	}
	var pendingHi rune // a \uD8xx waiting for its low half
	flush := func() {
		if pendingHi != 0 {
			sb.WriteRune(utf8.RuneError)
			pendingHi = 0
		}
	}
	for i := 0; i < len(s); {
		if s[i] != '\\' {
			flush()
			sb.WriteByte(s[i])
			i++
			continue
		}
		if i+1 >= len(s) {
			return "", false
		}
		c := s[i+1]
		i += 2
		var rn rune
		switch c {
		case 'b':
			rn = '\b'
		case 'f':
			rn = '\f'
		case 'n':
			rn = '\n'
		case 'r':
			rn = '\r'
		case 't':
			rn = '\t'
		case 'v':
			rn = '\v'
		case '0':
			if i < len(s) && s[i] >= '0' && s[i] <= '9' {
				return "", false // legacy octal: not produced by any sane escaper, not decoded here
			}
			rn = 0
		case 'x':
			if i+2 > len(s) {
				return "", false
			}
			v, ok := hex(s[i : i+2])
			if !ok {
				return "", false
			}
			rn, i = v, i+2
		case 'u':
			if i < len(s) && s[i] == '{' {
				j := strings.IndexByte(s[i:], '}')
				if j < 0 {
					return "", false
				}
				v, ok := hex(s[i+1 : i+j])
				if !ok {
					return "", false
				}
				rn, i = v, i+j+1
			} else {
				if i+4 > len(s) {
					return "", false
				}
				v, ok := hex(s[i : i+4])
				if !ok {
					return "", false
				}
				rn, i = v, i+4
				if v >= 0xd800 && v < 0xdc00 {
					flush()
					pendingHi = v
					continue
				}
				if v >= 0xdc00 && v < 0xe000 && pendingHi != 0 {
					rn = 0x10000 + (pendingHi-0xd800)<<10 + (v - 0xdc00)
					pendingHi = 0
				}
			}
		case '\n':
			continue // line continuation
		case '\r':
			if i < len(s) && s[i] == '\n' {
				i++
			}
			continue
		default:
			// a backslash before any other character stands for that character (possibly multi-byte)
			flush()
			_, w := utf8.DecodeRuneInString(s[i-1:])
			sb.WriteString(s[i-1 : i-1+w])
			i += w - 1
			continue
		}
		flush()
		sb.WriteRune(rn)
	}
	flush()
	return sb.String(), true
}

// strOracle is the htmlEscape / jsEscape / raw sentence of the statement; "" when out is allowed for input s
func strOracle(helper, s, out string) string {
	switch helper {
	case "htmlEscape":
		if i := strings.IndexAny(out, "<>'\""); i >= 0 {
			return fmt.Sprintf("output %q contains raw %q", out, out[i])
		}
		for i := 0; i < len(out); i++ {
			if out[i] == '&' && !charRef.MatchString(out[i:]) {
				return fmt.Sprintf("output %q has an & at %d that does not start a character reference", out, i)
			}
		}
		// NUL is none of the five characters and has no character reference (a NUL reference is invalid): an escaper
		// may keep it (html.EscapeString does), replace it (html/template writes U+FFFD) or drop it; every other
		// character must come back
		dec := html.UnescapeString(out)
		if dec != s && dec != strings.ReplaceAll(s, "\x00", "\ufffd") && dec != strings.ReplaceAll(s, "\x00", "") {
			return fmt.Sprintf("output %q decodes to %q, not to the input", out, dec)
		}
	case "jsEscape":
		if i := strings.IndexAny(out, "<>&="); i >= 0 {
			return fmt.Sprintf("output %q contains raw %q", out, out[i])
		}
		if strings.ContainsAny(out, "\n\r") || strings.Contains(out, "\u2028") || strings.Contains(out, "\u2029") {
			return fmt.Sprintf("output %q contains a raw line break", out)
		}
		for i := 0; i < len(out); i++ {
			if out[i] == '\'' || out[i] == '"' {
				n := 0
				for j := i - 1; j >= 0 && out[j] == '\\'; j-- {
					n++
				}
				if n%2 == 0 {
					return fmt.Sprintf("output %q has an unescaped quote at %d", out, i)
				}
			}
		}
		if jsDecodeBack {
			// bytes that are not valid UTF-8 have no spelling in a JavaScript string, and what they should read as is not
			// stated: decode-back is demanded of valid text only
			dec, ok := jsUnescape(out)
			if !ok {
				return fmt.Sprintf("output %q is not a well-formed JavaScript string body", out)
			}
			if utf8.ValidString(s) && dec != s {
				return fmt.Sprintf("output %q reads as %q in a JavaScript string, not as the input", out, dec)
			}
		}
	case "raw":
		if out != s {
			return fmt.Sprintf("raw output %q is not byte-identical to the input", out)
		}
	}
	return ""
}

// ---- toJSON -----------------------------------------------------------------

type JSONCase struct {
	// Doc is the JSON spelling of the value (the generator builds the Go value,
	// this is its canonical encoding; replay decodes it back)
	Doc     string `json:"doc"`
	ViaTmpl bool   `json:"via_template"`
	// Lit: the value is spelled as a plush literal inside the tag (<%= toJSON([1, "a<b", {"k": nil}]) %>) instead
	// of being passed in the context; only for values plushLit can spell
	Lit bool `json:"literal,omitempty"`
}

// plushLit spells a JSON value as a plush literal: integral numbers 0..2^31 as int literals, other numbers as plain
// decimals, strings without quote, backslash, percent sign, line break or control character. ok=false when the
// value has no such spelling (negative numbers: plush has no negative literal; exponents; hostile strings).
func plushLit(v interface{}) (string, bool) {
	switch t := v.(type) {
	case nil:
		return "nil", true
	case bool:
		return fmt.Sprint(t), true
	case float64:
		if t < 0 || t >= 1<<31 || math.IsNaN(t) {
			return "", false
		}
		if t == math.Trunc(t) {
			return fmt.Sprintf("%d", int64(t)), true
		}
		sp := fmt.Sprintf("%v", t)
		if strings.ContainsAny(sp, "eE") || !strings.Contains(sp, ".") {
			return "", false
		}
		return sp, true
	case string:
		for _, c := range t {
			if c == '"' || c == '\\' || c == '%' || c < 0x20 || c == 0x7f || c == '\u2028' || c == '\u2029' || c == utf8.RuneError || c == '\ufeff' {
				return "", false
			}
		}
		return `"` + t + `"`, true
	case []interface{}:
		parts := make([]string, len(t))
		for i := range t {
			sp, ok := plushLit(t[i])
			if !ok {
				return "", false
			}
			parts[i] = sp
		}
		return "[" + strings.Join(parts, ", ") + "]", true
	case map[string]interface{}:
		keys := make([]string, 0, len(t))
		for k := range t {
			keys = append(keys, k)
		}
		sort.Strings(keys)
		parts := make([]string, len(keys))
		for i, k := range keys {
			ks, ok1 := plushLit(k)
			vs, ok2 := plushLit(t[k])
			if !ok1 || !ok2 {
				return "", false
			}
			parts[i] = ks + ": " + vs
		}
		return "{" + strings.Join(parts, ", ") + "}", true
	}
	return "", false
}

func checkJSON(r *vk.Run, v interface{}, viaTmpl bool) *vk.Fail {
	return checkJSONCase(r, v, viaTmpl, false)
}

func checkJSONCase(r *vk.Run, v interface{}, viaTmpl, lit bool) *vk.Fail {
	canon, _ := json.Marshal(v)
	c := JSONCase{Doc: string(canon), ViaTmpl: viaTmpl, Lit: lit}
	defer r.Watch("json", c)()
	fail := func(f string, a ...interface{}) *vk.Fail {
		return &vk.Fail{Kind: "json", Case: c, Msg: fmt.Sprintf("toJSON(%s): ", canon) + fmt.Sprintf(f, a...)}
	}
	var res vk.Res
	if viaTmpl {
		ctx := plush.NewContextWith(map[string]interface{}{"v": v})
		src := `<%= toJSON(v) %>`
		if v == nil {
			src = `<%= toJSON(nil) %>` // a nil context value is an unset name; spell it as the literal
		}
		if lit {
			sp, ok := plushLit(v)
			if !ok {
				return &vk.Fail{Kind: "decode", Msg: "value has no plush literal spelling"}
			}
			src = `<%= toJSON(` + sp + `) %>`
		}
		res = vk.Safe(func() (string, error) { return plush.Render(src, ctx) })
	} else {
		res = vk.Safe(func() (string, error) { h, err := encoders.ToJSON(v); return string(h), err })
	}
	if res.Panicked() || res.Err != nil {
		return fail("%s", res)
	}
	out := res.Out
	nt := ""
	if bytes.ContainsAny(canon, "<>&\\{[") || bytes.Contains(canon, []byte(`\u00`)) {
		nt = fmt.Sprintf("J|%s|%v|%v", canon, viaTmpl, lit)
	}
	if lit {
		r.Count(nt, "toJSON/literal")
	} else {
		r.Count(nt, "toJSON")
	}
	if nt != "" {
		r.Sample(func() interface{} {
			return map[string]interface{}{"helper": "toJSON", "value": string(canon), "via_template": viaTmpl, "result": out}
		})
	}
	if msg := jsonOracle(v, out); msg != "" {
		return fail("%s", msg)
	}
	return nil
}

// jsonOracle is the toJSON sentence of the statement for a value a JSON decoder builds; "" when out is allowed
func jsonOracle(v interface{}, out string) string {
	if !json.Valid([]byte(out)) {
		return fmt.Sprintf("output %q is not valid JSON", out)
	}
	if i := strings.IndexAny(out, "<>&"); i >= 0 {
		return fmt.Sprintf("output %q contains raw %q", out, out[i])
	}
	var back interface{}
	if err := json.Unmarshal([]byte(out), &back); err != nil {
		return fmt.Sprintf("output %q does not decode: %v", out, err)
	}
	if !reflect.DeepEqual(norm(back), norm(v)) {
		return fmt.Sprintf("output %q decodes to %#v, not to the input %#v", out, back, v)
	}
	return ""
}

// norm maps empty slices/maps and nil slices/maps to one representative so that
// DeepEqual compares JSON meaning.
func norm(v interface{}) interface{} {
	switch t := v.(type) {
	case []interface{}:
		out := make([]interface{}, len(t))
		for i := range t {
			out[i] = norm(t[i])
		}
		return out
	case map[string]interface{}:
		out := make(map[string]interface{}, len(t))
		for k, x := range t {
			out[k] = norm(x)
		}
		return out
	}
	return v
}

func genJSON(t *rapid.T, depth int) interface{} {
	max := 5
	if depth <= 0 {
		max = 3
	}
	switch rapid.IntRange(0, max).Draw(t, "kind") {
	case 0:
		return nil
	case 1:
		return rapid.Bool().Draw(t, "b")
	case 2:
		f := rapid.Float64().Draw(t, "f")
		if math.IsNaN(f) || math.IsInf(f, 0) {
			f = 0
		}
		return f
	case 3:
		return strings.ToValidUTF8(gen.Payload(t, "s"), "\ufffd")
	case 4:
		n := rapid.IntRange(0, 4).Draw(t, "n")
		out := make([]interface{}, n)
		for i := range out {
			out[i] = genJSON(t, depth-1)
		}
		return out
	default:
		n := rapid.IntRange(0, 4).Draw(t, "n")
		out := map[string]interface{}{}
		for i := 0; i < n; i++ {
			out[strings.ToValidUTF8(gen.Payload(t, "k"), "\ufffd")] = genJSON(t, depth-1)
		}
		return out
	}
}

// ---- toJSON of typed Go values --------------------------------------------------

// TypedCase: a JSON-representable value of a concrete Go type (not only the interface{} trees a decoder builds):
// integers of every width at their extremes, float32, json.Number, named string types, []byte, typed slices,
// arrays and maps, maps with non-string keys, structs with tags, embedded structs and pointers, values with their
// own MarshalJSON / MarshalText, json.RawMessage. The value is rebuilt from Doc by decoding it into the type
// named by Type (for "raw": Doc IS the value, byte for byte), so a case replays from its JSON form.
type TypedCase struct {
	Type    string `json:"type"`
	Doc     string `json:"doc"`
	ViaTmpl bool   `json:"via_template"`
}

type Inner struct {
	Label string            `json:"label"`
	Attrs map[string]string `json:"attrs,omitempty"`
}

type Rec struct {
	Name  string        `json:"name"`
	Tags  []string      `json:"tags"`
	N     int64         `json:"n"`
	U     uint64        `json:"u,omitempty"`
	F     float32       `json:"f"`
	H     template.HTML `json:"h"`
	B     []byte        `json:"b,omitempty"`
	Next  *Rec          `json:"next,omitempty"`
	Inner               // embedded: its fields are promoted
	Plain string        // no tag
}

// wrapM has its own MarshalJSON, which does NOT escape < > & (the encoder has to, when it embeds the result)
type wrapM struct{ S string }

func (w wrapM) MarshalJSON() ([]byte, error) {
	var sb bytes.Buffer
	enc := json.NewEncoder(&sb)
	enc.SetEscapeHTML(false)
	if err := enc.Encode(map[string]string{"w": w.S}); err != nil {
		return nil, err
	}
	return sb.Bytes(), nil
}

func (w *wrapM) UnmarshalJSON(b []byte) error {
	var m map[string]string
	if err := json.Unmarshal(b, &m); err != nil {
		return err
	}
	w.S = m["w"]
	return nil
}

// tkey is a map key with its own MarshalText
type tkey struct{ K string }

func (k tkey) MarshalText() ([]byte, error) { return []byte("k:" + k.K), nil }
func (k *tkey) UnmarshalText(b []byte) error {
	k.K = strings.TrimPrefix(string(b), "k:")
	return nil
}

var typeReg = map[string]reflect.Type{
	"int":     reflect.TypeOf(int(0)),
	"int8":    reflect.TypeOf(int8(0)),
	"int32":   reflect.TypeOf(int32(0)),
	"int64":   reflect.TypeOf(int64(0)),
	"uint":    reflect.TypeOf(uint(0)),
	"uint8":   reflect.TypeOf(uint8(0)),
	"uint64":  reflect.TypeOf(uint64(0)),
	"float32": reflect.TypeOf(float32(0)),
	"float64": reflect.TypeOf(float64(0)),
	"number":  reflect.TypeOf(json.Number("")),
	"string":  reflect.TypeOf(""),
	"html":    reflect.TypeOf(template.HTML("")),
	"bytes":   reflect.TypeOf([]byte(nil)),
	"strs":    reflect.TypeOf([]string(nil)),
	"strs2":   reflect.TypeOf([][]string(nil)),
	"htmls":   reflect.TypeOf([]template.HTML(nil)),
	"ints":    reflect.TypeOf([]int64(nil)),
	"uints":   reflect.TypeOf([]uint64(nil)),
	"arr":     reflect.TypeOf([3]string{}),
	"mss":     reflect.TypeOf(map[string]string(nil)),
	"mis":     reflect.TypeOf(map[int]string(nil)),
	"msints":  reflect.TypeOf(map[string][]int(nil)),
	"rec":     reflect.TypeOf(Rec{}),
	"prec":    reflect.TypeOf((*Rec)(nil)),
	"recs":    reflect.TypeOf([]Rec(nil)),
	"pstr":    reflect.TypeOf((*string)(nil)),
	"ppstr":   reflect.TypeOf((**string)(nil)),
	"marsh":   reflect.TypeOf(wrapM{}),
	"marshs":  reflect.TypeOf([]wrapM(nil)),
	"tkeys":   reflect.TypeOf(map[tkey]string(nil)),
	"any":     reflect.TypeOf((*interface{})(nil)).Elem(),
	"raw":     reflect.TypeOf(json.RawMessage(nil)),
}

var typeNames = func() []string {
	var out []string
	for k := range typeReg {
		out = append(out, k)
	}
	sort.Strings(out)
	return out
}()

// semJSON decodes a document with numbers kept as their text, for comparing meaning
func semJSON(doc []byte) (interface{}, error) {
	dec := json.NewDecoder(bytes.NewReader(doc))
	dec.UseNumber()
	var v interface{}
	if err := dec.Decode(&v); err != nil {
		return nil, err
	}
	if dec.More() {
		return nil, fmt.Errorf("trailing data")
	}
	return v, nil
}

func checkTyped(r *vk.Run, c TypedCase) *vk.Fail {
	defer r.Watch("typed", c)()
	fail := func(f string, a ...interface{}) *vk.Fail {
		return &vk.Fail{Kind: "typed", Case: c, Msg: fmt.Sprintf("toJSON(%s %s): ", c.Type, c.Doc) + fmt.Sprintf(f, a...)}
	}
	typ, ok := typeReg[c.Type]
	if !ok {
		return &vk.Fail{Kind: "decode", Msg: "unknown type " + c.Type}
	}
	var v interface{}
	if c.Type == "raw" {
		if !json.Valid([]byte(c.Doc)) {
			return &vk.Fail{Kind: "decode", Msg: "raw document is not JSON"}
		}
		v = json.RawMessage(c.Doc)
	} else {
		pv := reflect.New(typ)
		if err := json.Unmarshal([]byte(c.Doc), pv.Interface()); err != nil {
			return &vk.Fail{Kind: "decode", Msg: err.Error()}
		}
		v = pv.Elem().Interface()
	}
	// the reference spelling of the value (encoding/json is the trusted reference coder, as in checkJSON)
	canon, err := json.Marshal(v)
	if err != nil {
		return &vk.Fail{Kind: "decode", Msg: "value is not JSON-representable: " + err.Error()}
	}
	var res vk.Res
	if c.ViaTmpl {
		src := `<%= toJSON(v) %>`
		if v == nil {
			src = `<%= toJSON(nil) %>` // a nil context value is an unset name; spell it as the literal
		}
		res = vk.Safe(func() (string, error) { return plush.Render(src, plush.NewContextWith(map[string]interface{}{"v": v})) })
	} else {
		res = vk.Safe(func() (string, error) { h, err := encoders.ToJSON(v); return string(h), err })
	}
	nt := fmt.Sprintf("JT|%s|%s|%v", c.Type, canon, c.ViaTmpl)
	r.Count(nt, "toJSON/typed")
	r.Class("toJSON/typed/" + c.Type)
	if res.Panicked() || res.Err != nil {
		return fail("%s", res)
	}
	out := res.Out
	r.Sample(func() interface{} { return map[string]interface{}{"helper": "toJSON", "case": c, "result": out} })
	if !json.Valid([]byte(out)) {
		return fail("output %q is not valid JSON", out)
	}
	if i := strings.IndexAny(out, "<>&"); i >= 0 {
		return fail("output %q contains raw %q", out, out[i])
	}
	if c.Type == "raw" || c.Type == "any" {
		// no Go type to decode into: compare meaning (numbers by their text)
		got, err1 := semJSON([]byte(out))
		want, err2 := semJSON(canon)
		if err1 != nil || err2 != nil {
			return fail("output %q does not decode: %v %v", out, err1, err2)
		}
		if !reflect.DeepEqual(norm(got), norm(want)) {
			return fail("output %q decodes to %#v, not to the input %#v", out, got, want)
		}
		return nil
	}
	back := reflect.New(typ)
	if err := json.Unmarshal([]byte(out), back.Interface()); err != nil {
		return fail("output %q does not decode into %s: %v", out, typ, err)
	}
	if reflect.DeepEqual(back.Elem().Interface(), v) {
		return nil
	}
	// DeepEqual separates what JSON does not (an omitted empty field decodes to nil): compare reference spellings
	again, err := json.Marshal(back.Elem().Interface())
	if err != nil || !bytes.Equal(again, canon) {
		return fail("output %q decodes to %#v, not to the input %#v", out, back.Elem().Interface(), v)
	}
	return nil
}

var edgeInts = []int64{0, 1, -1, 127, -128, 255, 1 << 31, -(1 << 31), 1<<53 + 1, -(1<<53 + 1), math.MaxInt64, math.MinInt64}
var edgeUints = []uint64{0, 1, 255, 1 << 32, 1<<53 + 1, math.MaxInt64, math.MaxInt64 + 1, math.MaxUint64}

func validPayload(t *rapid.T, label string) string {
	return strings.ToValidUTF8(gen.Payload(t, label), "�")
}

func genStrs(t *rapid.T, label string) []string {
	n := rapid.IntRange(-1, 4).Draw(t, label+"_n")
	if n < 0 {
		return nil
	}
	out := make([]string, n)
	for i := range out {
		out[i] = validPayload(t, label)
	}
	return out
}

func genRec(t *rapid.T, depth int) Rec {
	rec := Rec{Name: validPayload(t, "name"), Tags: genStrs(t, "tags"), N: rapid.SampledFrom(edgeInts).Draw(t, "n"),
		U: rapid.SampledFrom(edgeUints).Draw(t, "u"), F: float32(rapid.Float32().Draw(t, "f")), H: template.HTML(validPayload(t, "h")),
		Plain: validPayload(t, "plain"), Inner: Inner{Label: validPayload(t, "label")}}
	if f := float64(rec.F); math.IsNaN(f) || math.IsInf(f, 0) {
		rec.F = 0
	}
	if rapid.Bool().Draw(t, "hasB") {
		rec.B = []byte(gen.Payload(t, "b"))
	}
	if rapid.Bool().Draw(t, "hasAttrs") {
		rec.Attrs = map[string]string{validPayload(t, "ak"): validPayload(t, "av")}
	}
	if depth > 0 && rapid.Bool().Draw(t, "hasNext") {
		nx := genRec(t, depth-1)
		rec.Next = &nx
	}
	return rec
}

// genTyped builds a Go value of a drawn type and returns its case (the value is re-created from the case)
func genTyped(t *rapid.T) TypedCase {
	name := rapid.SampledFrom(typeNames).Draw(t, "type")
	c := TypedCase{Type: name, ViaTmpl: rapid.IntRange(0, 3).Draw(t, "via") == 0}
	si := func() int64 { return rapid.SampledFrom(edgeInts).Draw(t, "i") }
	ui := func() uint64 { return rapid.SampledFrom(edgeUints).Draw(t, "u") }
	var v interface{}
	switch name {
	case "int":
		v = int(si())
	case "int8":
		v = int8(si())
	case "int32":
		v = int32(si())
	case "int64":
		v = si()
	case "uint":
		v = uint(ui())
	case "uint8":
		v = uint8(ui())
	case "uint64":
		v = ui()
	case "float32":
		f := rapid.Float32().Draw(t, "f")
		if math.IsNaN(float64(f)) || math.IsInf(float64(f), 0) {
			f = 0.1
		}
		v = f
	case "float64":
		f := rapid.Float64().Draw(t, "f")
		if math.IsNaN(f) || math.IsInf(f, 0) {
			f = 0.1
		}
		v = f
	case "number":
		v = json.Number(rapid.SampledFrom([]string{"0", "-0", "1", "18446744073709551616", "-9223372036854775809", "123456789012345678901234567890",
			"0.1", "1e400", "-1.5E-7", "3.141592653589793238462643383279"}).Draw(t, "num"))
	case "string":
		v = validPayload(t, "s")
	case "html":
		v = template.HTML(validPayload(t, "s"))
	case "bytes":
		if rapid.IntRange(0, 5).Draw(t, "nilb") > 0 {
			v = []byte(gen.Payload(t, "b"))
		} else {
			v = []byte(nil)
		}
	case "strs":
		v = genStrs(t, "s")
	case "strs2":
		n := rapid.IntRange(0, 3).Draw(t, "n")
		out := make([][]string, n)
		for i := range out {
			out[i] = genStrs(t, "s")
		}
		v = out
	case "htmls":
		var out []template.HTML
		for _, s := range genStrs(t, "s") {
			out = append(out, template.HTML(s))
		}
		v = out
	case "ints":
		n := rapid.IntRange(0, 4).Draw(t, "n")
		out := make([]int64, n)
		for i := range out {
			out[i] = si()
		}
		v = out
	case "uints":
		n := rapid.IntRange(0, 4).Draw(t, "n")
		out := make([]uint64, n)
		for i := range out {
			out[i] = ui()
		}
		v = out
	case "arr":
		v = [3]string{validPayload(t, "a0"), validPayload(t, "a1"), validPayload(t, "a2")}
	case "mss":
		n := rapid.IntRange(-1, 3).Draw(t, "n")
		if n < 0 {
			v = map[string]string(nil)
			break
		}
		m := map[string]string{}
		for i := 0; i < n; i++ {
			m[validPayload(t, "k")] = validPayload(t, "v")
		}
		v = m
	case "mis":
		m := map[int]string{}
		for i, n := 0, rapid.IntRange(0, 3).Draw(t, "n"); i < n; i++ {
			m[int(si())] = validPayload(t, "v")
		}
		v = m
	case "msints":
		m := map[string][]int{}
		for i, n := 0, rapid.IntRange(0, 3).Draw(t, "n"); i < n; i++ {
			m[validPayload(t, "k")] = []int{int(si()), i}
		}
		v = m
	case "rec":
		v = genRec(t, 2)
	case "prec":
		if rapid.IntRange(0, 4).Draw(t, "nilp") == 0 {
			v = (*Rec)(nil)
		} else {
			rec := genRec(t, 1)
			v = &rec
		}
	case "recs":
		n := rapid.IntRange(0, 3).Draw(t, "n")
		out := make([]Rec, n)
		for i := range out {
			out[i] = genRec(t, 1)
		}
		v = out
	case "pstr", "ppstr":
		var p *string
		if rapid.IntRange(0, 3).Draw(t, "nilp") > 0 {
			s := validPayload(t, "s")
			p = &s
		}
		if name == "pstr" {
			v = p
		} else {
			v = &p
		}
	case "marsh":
		v = wrapM{S: validPayload(t, "s")}
	case "marshs":
		var out []wrapM
		for _, s := range genStrs(t, "s") {
			out = append(out, wrapM{S: s})
		}
		v = out
	case "tkeys":
		m := map[tkey]string{}
		for i, n := 0, rapid.IntRange(0, 3).Draw(t, "n"); i < n; i++ {
			m[tkey{K: validPayload(t, "k")}] = validPayload(t, "v")
		}
		v = m
	case "any":
		v = genJSON(t, 2)
	case "raw":
		// a document spelled by hand: raw < > & inside strings, insignificant white space, numbers kept as text
		inner, _ := json.Marshal(genJSON(t, 2))
		var sb bytes.Buffer
		enc := json.NewEncoder(&sb)
		enc.SetEscapeHTML(false)
		enc.SetIndent("", rapid.SampledFrom([]string{"", " ", "\t"}).Draw(t, "indent"))
		enc.Encode(map[string]interface{}{"s": validPayload(t, "s"), "<k>&": json.RawMessage(inner), "n": json.Number("12345678901234567890")})
		c.Doc = strings.TrimSpace(sb.String())
		return c
	}
	b, err := json.Marshal(v)
	if err != nil {
		panic("harness: genTyped built an unrepresentable value: " + err.Error())
	}
	c.Doc = string(b)
	return c
}

// ---- toJSON of ONE container that changes between the calls -------------------------

// JSONSeqCase: one map or slice OBJECT is encoded several times; between the calls its owner rewrites it in place
// (same map header, same backing array). Every call must encode what the object holds at that moment.
type JSONSeqCase struct {
	Kind string   `json:"kind"` // map | slice | strs
	Docs []string `json:"docs"` // what the container holds at each call: JSON objects (map) or arrays (slice, strs)
	Mode string   `json:"mode"` // direct | tmpl (one Render per call, the object in a fresh context) | assign (maps: one template, index assignments between the calls)
}

func checkJSONSeq(r *vk.Run, c JSONSeqCase) *vk.Fail {
	defer r.Watch("jsonseq", c)()
	fail := func(f string, a ...interface{}) *vk.Fail {
		return &vk.Fail{Kind: "jsonseq", Case: c, Msg: fmt.Sprintf(f, a...)}
	}
	key, _ := json.Marshal(c)
	nt := ""
	if len(c.Docs) >= 2 {
		nt = "JS|" + string(key)
	}
	r.Count(nt, "jsonseq/"+c.Kind+"/"+c.Mode)
	vals := make([]interface{}, len(c.Docs))
	maxLen := 0
	for i, d := range c.Docs {
		if err := json.Unmarshal([]byte(d), &vals[i]); err != nil {
			return &vk.Fail{Kind: "decode", Msg: err.Error()}
		}
		switch t := vals[i].(type) {
		case map[string]interface{}:
			if c.Kind != "map" {
				return &vk.Fail{Kind: "decode", Msg: "object in a slice sequence"}
			}
		case []interface{}:
			if c.Kind == "map" {
				return &vk.Fail{Kind: "decode", Msg: "array in a map sequence"}
			}
			if len(t) > maxLen {
				maxLen = len(t)
			}
			if c.Kind == "strs" {
				for _, e := range t {
					if _, ok := e.(string); !ok {
						return &vk.Fail{Kind: "decode", Msg: "non-string in a strs sequence"}
					}
				}
			}
		default:
			return &vk.Fail{Kind: "decode", Msg: "not a container"}
		}
	}
	judge := func(i int, out string) *vk.Fail {
		if !json.Valid([]byte(out)) {
			return fail("call %d: output %q is not valid JSON", i, out)
		}
		if j := strings.IndexAny(out, "<>&"); j >= 0 {
			return fail("call %d: output %q contains raw %q", i, out, out[j])
		}
		var back interface{}
		if err := json.Unmarshal([]byte(out), &back); err != nil {
			return fail("call %d: output %q does not decode: %v", i, out, err)
		}
		if !reflect.DeepEqual(norm(back), norm(vals[i])) {
			return fail("call %d of %d on one %s object: it holds %s, toJSON gave %q", i, len(c.Docs), c.Kind, c.Docs[i], out)
		}
		return nil
	}
	m := map[string]interface{}{}
	anyBack := make([]interface{}, maxLen)
	strBack := make([]string, maxLen)
	// load makes the one object hold vals[i] and returns it
	load := func(i int) interface{} {
		switch c.Kind {
		case "map":
			for k := range m {
				delete(m, k)
			}
			for k, x := range vals[i].(map[string]interface{}) {
				m[k] = x
			}
			return m
		case "slice":
			src := vals[i].([]interface{})
			copy(anyBack, src)
			return anyBack[:len(src)]
		default:
			src := vals[i].([]interface{})
			for j, e := range src {
				strBack[j] = e.(string)
			}
			return strBack[:len(src)]
		}
	}
	switch c.Mode {
	case "direct", "tmpl":
		for i := range vals {
			v := load(i)
			var res vk.Res
			if c.Mode == "direct" {
				res = vk.Safe(func() (string, error) { h, err := encoders.ToJSON(v); return string(h), err })
			} else {
				res = vk.Safe(func() (string, error) {
					return plush.Render(`<%= toJSON(v) %>`, plush.NewContextWith(map[string]interface{}{"v": v}))
				})
			}
			if res.Panicked() || res.Err != nil {
				return fail("call %d: %s", i, res)
			}
			if f := judge(i, res.Out); f != nil {
				return f
			}
		}
		return nil
	case "assign":
		if c.Kind != "map" {
			return &vk.Fail{Kind: "decode", Msg: "assign mode is for maps"}
		}
		// one template: the first state comes in through the context, every later one is reached by index
		// assignments (so a later state must keep the earlier keys and may not hold nil: an assignment cannot
		// delete, and a nil context value is an unset name)
		load(0)
		data := map[string]interface{}{"m": m}
		var sb strings.Builder
		sb.WriteString("<%= toJSON(m) %>\n")
		for i := 1; i < len(vals); i++ {
			prev, cur := vals[i-1].(map[string]interface{}), vals[i].(map[string]interface{})
			for k := range prev {
				if _, ok := cur[k]; !ok {
					return &vk.Fail{Kind: "decode", Msg: "assign mode cannot delete a key"}
				}
			}
			keys := make([]string, 0, len(cur))
			for k := range cur {
				keys = append(keys, k)
			}
			sort.Strings(keys)
			for j, k := range keys {
				if reflect.DeepEqual(prev[k], cur[k]) {
					if _, had := prev[k]; had {
						continue
					}
				}
				if cur[k] == nil {
					return &vk.Fail{Kind: "decode", Msg: "assign mode cannot assign nil"}
				}
				data[fmt.Sprintf("k%d_%d", i, j)] = k
				data[fmt.Sprintf("x%d_%d", i, j)] = cur[k]
				fmt.Fprintf(&sb, "<%% m[k%d_%d] = x%d_%d %%>", i, j, i, j)
			}
			sb.WriteString("<%= toJSON(m) %>\n")
		}
		src := sb.String()
		res := vk.Safe(func() (string, error) { return plush.Render(src, plush.NewContextWith(data)) })
		if nt != "" {
			r.Sample(func() interface{} { return map[string]interface{}{"case": c, "template": src, "result": res.String()} })
		}
		if res.Panicked() || res.Err != nil {
			return fail("%s: %s", src, res)
		}
		// the output is a stream of JSON documents separated by white space (a document may itself be spread over
		// several lines)
		dec := json.NewDecoder(strings.NewReader(res.Out))
		for i := range vals {
			var doc json.RawMessage
			if err := dec.Decode(&doc); err != nil {
				return fail("%s rendered %q: document %d of %d does not decode: %v", src, res.Out, i, len(vals), err)
			}
			if f := judge(i, string(doc)); f != nil {
				return f
			}
		}
		if rest, _ := io.ReadAll(dec.Buffered()); strings.TrimSpace(string(rest)) != "" || dec.More() {
			return fail("%s rendered %q: more than %d documents", src, res.Out, len(vals))
		}
		return nil
	}
	return &vk.Fail{Kind: "decode", Msg: "unknown mode " + c.Mode}
}

func genJSONSeq(t *rapid.T) JSONSeqCase {
	c := JSONSeqCase{Kind: rapid.SampledFrom([]string{"map", "slice", "strs"}).Draw(t, "kind")}
	modes := []string{"direct", "direct", "tmpl"}
	if c.Kind == "map" {
		modes = append(modes, "assign")
	}
	c.Mode = rapid.SampledFrom(modes).Draw(t, "mode")
	nonNil := func(label string) interface{} {
		v := genJSON(t, 1)
		if v == nil {
			v = validPayload(t, label)
		}
		return v
	}
	calls := rapid.IntRange(2, 4).Draw(t, "calls")
	switch c.Kind {
	case "map":
		cur := map[string]interface{}{}
		keys := []string{"a", "b", "<k>", validPayload(t, "key")}
		for i := 0; i < calls; i++ {
			if c.Mode != "assign" && i > 0 && rapid.IntRange(0, 2).Draw(t, "fresh") == 0 {
				cur = map[string]interface{}{}
			}
			next := map[string]interface{}{}
			for k, x := range cur {
				next[k] = x
			}
			// same key count as before or not: overwrite some values, add some keys
			for j, n := 0, rapid.IntRange(0, 3).Draw(t, "writes"); j < n; j++ {
				next[rapid.SampledFrom(keys).Draw(t, "k")] = nonNil("v")
			}
			cur = next
			b, _ := json.Marshal(cur)
			c.Docs = append(c.Docs, string(b))
		}
	default:
		n := rapid.IntRange(0, 4).Draw(t, "len")
		for i := 0; i < calls; i++ {
			// usually the same length as before (the same object, one element changed), sometimes another
			if i > 0 && rapid.IntRange(0, 3).Draw(t, "relen") == 0 {
				n = rapid.IntRange(0, 4).Draw(t, "len2")
			}
			arr := make([]interface{}, n)
			for j := range arr {
				if c.Kind == "strs" {
					arr[j] = validPayload(t, "e")
				} else {
					arr[j] = genJSON(t, 1)
				}
			}
			b, _ := json.Marshal(arr)
			c.Docs = append(c.Docs, string(b))
		}
	}
	return c
}

// ---- results are values: several calls, results held --------------------------------

// HeldCase: 2-4 helper calls whose results are all still held when the later calls run (Go variables, let
// bindings, or the values a block collects before it writes). What a helper returned for one value does not
// change because the helper is called again.
type HeldCall struct {
	Helper string `json:"helper"`
	Doc    string `json:"doc"` // JSON spelling of the argument (a string for the string helpers)
	Size   int    `json:"size,omitempty"`
}

type HeldCase struct {
	Calls []HeldCall `json:"calls"`
	Mode  string     `json:"mode"` // direct | let | block | loop (one helper, one size, no nil: a for over the values)
}

func (h HeldCall) expr(i int) string { return h.exprOn(fmt.Sprintf("x%d", i)) }

func (h HeldCall) exprOn(name string) string {
	switch h.Helper {
	case "truncate":
		return fmt.Sprintf("truncate(%s, {size: %d})", name, h.Size)
	}
	if h.Doc == "null" {
		return h.Helper + "(nil)" // a nil context value is an unset name; spell it as the literal
	}
	return fmt.Sprintf("%s(%s)", h.Helper, name)
}

// emit: how a held result is written without being escaped again
func (h HeldCall) emit(e string) string {
	if h.Helper == "toJSON" || h.Helper == "raw" {
		return "<%= " + e + " %>"
	}
	return "<%= raw(" + e + ") %>"
}

// judge: the statement's sentence for this helper, applied to one result; "" when out is allowed
func (h HeldCall) judge(v interface{}, out string) string {
	str, _ := v.(string)
	switch h.Helper {
	case "toJSON":
		return jsonOracle(v, out)
	case "truncate":
		return truncOracle(str, h.Size, "...", out)
	}
	return strOracle(h.Helper, str, out)
}

func (h HeldCall) direct(v interface{}) (string, error) {
	str, _ := v.(string)
	switch h.Helper {
	case "toJSON":
		o, err := encoders.ToJSON(v)
		return string(o), err
	case "htmlEscape":
		return escapes.HTMLEscape(str, helptest.NewContext())
	case "jsEscape":
		return escapes.JSEscape(str), nil
	case "raw":
		return string(encoders.Raw(str)), nil
	case "truncate":
		return text.Truncate(str, hctx.Map{"size": h.Size}), nil
	}
	return "", fmt.Errorf("harness: unknown helper %s", h.Helper)
}

func checkHeld(r *vk.Run, c HeldCase) *vk.Fail {
	defer r.Watch("held", c)()
	fail := func(f string, a ...interface{}) *vk.Fail {
		return &vk.Fail{Kind: "held", Case: c, Msg: fmt.Sprintf(f, a...)}
	}
	vals := make([]interface{}, len(c.Calls))
	data := map[string]interface{}{}
	for i, h := range c.Calls {
		if err := json.Unmarshal([]byte(h.Doc), &vals[i]); err != nil {
			return &vk.Fail{Kind: "decode", Msg: err.Error()}
		}
		if _, ok := vals[i].(string); !ok && h.Helper != "toJSON" {
			return &vk.Fail{Kind: "decode", Msg: "string helper with a non-string argument"}
		}
		if vals[i] != nil {
			data[fmt.Sprintf("x%d", i)] = vals[i]
		}
	}
	key, _ := json.Marshal(c)
	nt := ""
	if len(c.Calls) >= 2 {
		nt = "H|" + string(key)
	}
	r.Count(nt, "held/"+c.Mode)
	if c.Mode == "direct" {
		held := make([]string, len(c.Calls))
		then := make([]string, len(c.Calls))
		for i, h := range c.Calls {
			i, h := i, h
			res := vk.Safe(func() (string, error) { return h.direct(vals[i]) })
			if res.Panicked() || res.Err != nil {
				return fail("%s(%s): %s", h.Helper, h.Doc, res)
			}
			held[i] = res.Out
			then[i] = strings.Clone(res.Out)
			if msg := h.judge(vals[i], res.Out); msg != "" {
				return fail("call %d of %d, %s(%s): %s", i, len(c.Calls), h.Helper, h.Doc, msg)
			}
		}
		for i := range held {
			if held[i] != then[i] {
				return fail("%s(%s) returned %q; after the later calls the SAME returned string reads %q", c.Calls[i].Helper, c.Calls[i].Doc, then[i], held[i])
			}
		}
		return nil
	}
	// expected: every call rendered alone
	var want []string
	for i, h := range c.Calls {
		src := h.emit(h.expr(i))
		res := vk.Safe(func() (string, error) { return plush.Render(src, plush.NewContextWith(data)) })
		if res.Panicked() || res.Err != nil {
			return fail("%s alone: %s", src, res)
		}
		if msg := h.judge(vals[i], res.Out); msg != "" {
			return fail("call %d of %d, %s with x%d = %s: %s", i, len(c.Calls), src, i, h.Doc, msg)
		}
		want = append(want, res.Out)
	}
	var sb strings.Builder
	switch c.Mode {
	case "let":
		for i, h := range c.Calls {
			fmt.Fprintf(&sb, "<%% let h%d = %s %%>", i, h.expr(i))
		}
		for i, h := range c.Calls {
			if i > 0 {
				sb.WriteString("|")
			}
			sb.WriteString(h.emit(fmt.Sprintf("h%d", i)))
		}
	case "block":
		sb.WriteString("<%= if (true) { %>")
		for i, h := range c.Calls {
			if i > 0 {
				sb.WriteString("|")
			}
			sb.WriteString(h.emit(h.expr(i)))
		}
		sb.WriteString("<% } %>")
	case "loop":
		for _, h := range c.Calls {
			if h.Helper != c.Calls[0].Helper || h.Size != c.Calls[0].Size || h.Doc == "null" {
				return &vk.Fail{Kind: "decode", Msg: "loop mode needs one helper, one size and no nil value"}
			}
		}
		data["xs"] = vals
		sb.WriteString("<%= for (x) in xs { %>" + c.Calls[0].emit(c.Calls[0].exprOn("x")) + "|<% } %>")
		want = append(want, "") // every round ends with the separator
	default:
		return &vk.Fail{Kind: "decode", Msg: "unknown mode " + c.Mode}
	}
	src := sb.String()
	res := vk.Safe(func() (string, error) { return plush.Render(src, plush.NewContextWith(data)) })
	if nt != "" {
		r.Sample(func() interface{} { return map[string]interface{}{"case": c, "template": src, "result": res.String()} })
	}
	if res.Panicked() || res.Err != nil {
		return fail("%s: %s", src, res)
	}
	if exp := strings.Join(want, "|"); res.Out != exp {
		return fail("%s rendered %q; the calls rendered one by one give %q", src, res.Out, exp)
	}
	return nil
}

func genHeld(t *rapid.T) HeldCase {
	c := HeldCase{Mode: rapid.SampledFrom([]string{"direct", "let", "block", "loop"}).Draw(t, "mode")}
	same := rapid.Bool().Draw(t, "sameHelper") || c.Mode == "loop"
	// near: every later argument is the first one with ONE character replaced in the middle (same length, same
	// head, same tail) - what a memo keyed by less than the whole argument cannot tell apart
	near := same && rapid.IntRange(0, 2).Draw(t, "near") == 0
	first, firstSize, base := "", 0, ""
	for i, n := 0, rapid.IntRange(2, 4).Draw(t, "calls"); i < n; i++ {
		h := HeldCall{Helper: rapid.SampledFrom([]string{"toJSON", "toJSON", "htmlEscape", "jsEscape", "raw", "truncate"}).Draw(t, "helper")}
		if same && first != "" {
			h.Helper = first
		}
		first = h.Helper
		var v interface{}
		switch {
		case near:
			if i == 0 {
				base = validPayload(t, "head") + "0123456789abcdef" + validPayload(t, "mid") + "0123456789abcdef" + validPayload(t, "tail")
				v = base
			} else {
				rs := []rune(base)
				k := rapid.IntRange(0, len(rs)-1).Draw(t, "at")
				if rapid.Bool().Draw(t, "midOnly") {
					k = len(rs) / 2
				}
				rs[k] = rapid.SampledFrom([]rune{'<', '>', '&', '\'', '"', '=', '\n', '\\', 'q', '\u2028', '漢'}).Draw(t, "with")
				v = string(rs)
			}
			h.Size = rapid.IntRange(0, 70).Draw(t, "size")
		case h.Helper == "toJSON":
			v = genJSON(t, 2)
			if c.Mode == "loop" && v == nil {
				v = false
			}
		default:
			v = validPayload(t, "s")
			h.Size = rapid.IntRange(0, 12).Draw(t, "size")
		}
		if h.Helper != "truncate" {
			h.Size = 0
		}
		if c.Mode == "loop" {
			if i == 0 {
				firstSize = h.Size
			}
			h.Size = firstSize
		}
		b, _ := json.Marshal(v)
		h.Doc = string(b)
		c.Calls = append(c.Calls, h)
	}
	return c
}

// ---- the test -----------------------------------------------------------------

const rule = "truncate: (E1) every string of length <=5 (quick: <=4) over {a, é, 漢, e+U+0301, 0xFF} x size in [-2,8] x trail in {absent, '', '.', '...', 'é漢'} directly, plus a template pass; (E2) the same over {a, 😀 (4 bytes), 0xE6 (lead byte without continuation), 0x80, 0xF0 0x9F (cut 4-byte sequence)}; (E3 boundary sweep) strings of n = 0..72 characters of one unit (a, é, 漢, 😀, 0xFF, or the cycle a é 漢 😀) x size (thorough: every size in [-2,72]; quick: -2..2, around the trail length, n-2..n+2, 49..51, 63..65, 70, 72) x trail in {absent, '', '.', 'é漢', 8 runes}; (E4 routes) no option given as nil map / left out / nil literal, options in a hash literal with exactly the given keys, options in a plain Go map; (R) payload strings up to ~40 runes x size in [-2,70] x trails up to 8 runes x all routes. TRUNCATE SEQUENCES: 2-5 calls sharing ONE options map whose owner sets or deletes size / trail between the calls (Go calls; one template with index assignments; a for loop). htmlEscape/jsEscape/raw: fixed hostile payloads + random payloads over the full byte alphabet, called directly and through plush.Render (htmlEscape also through its block form; the call also inside an if block, an if with return, a for body, a let, a user function, an array / hash literal that is indexed, contentFor + contentOf); every single byte; (E position sweep) one special (< > & ' \" = LF CR backslash U+2028 U+2029 NUL + backquote 0xFF 0xC3) at every position of a string of every length 1..24 (thorough 40) of filler a or é, nothing else special in the string; (E small alphabet) every string of length <=4 (thorough 5) over {backslash, ', \", LF, a, <, &, U+2028}. toJSON: recursive generator of JSON-representable values (nil, bool, finite float64, valid UTF-8 strings, slices, string-keyed maps, nesting <=4), passed in the context or (where spellable) written as a plush literal in the tag; TYPED Go values (all integer widths at their extremes incl. uint64 > MaxInt64, float32, json.Number beyond float64, named strings, []byte, typed slices / arrays / maps, int and TextMarshaler map keys, tagged and embedded structs, pointers incl. nil, own MarshalJSON emitting raw < > &, json.RawMessage with raw < > & and white space), judged by decoding the output back into the same Go type. CONTAINER SEQUENCES: one map / []interface{} / []string object encoded 2-4 times while its owner rewrites it in place between the calls (same header, same backing array, same or different length). HELD RESULTS: 2-4 calls (one helper or mixed) whose results are all still held while the later calls run - as Go values, as let bindings emitted afterwards, inside one block, or in a for loop over the arguments - must read exactly what each call gives alone; one third of the one-helper sequences use NEAR-DUPLICATE arguments (same length, head and tail, one character in the middle replaced) and fixed sequences use values whose printed forms coincide (1, \"1\", 1.0, true, \"true\", nil, \"null\", [], \"[]\", ...). Oracles: rune-space prefix+trail bound and no split rune; no raw < > & ' \" and decode-back for htmlEscape; no < > & =, no unescaped quote or line break for jsEscape, and (assumption, valid UTF-8 only) its output read as a JavaScript string body gives the input back; byte identity for raw; valid JSON, decode-back and no raw < > & for toJSON. Non-trivial = the string is longer than size (truncate), contains a special / non-ASCII / invalid byte (escapers), contains a special or a container (toJSON), every typed value, every sequence of >= 2 calls; distinct by (helper, arguments, route)."

func setup(t *testing.T) *vk.Run {
	r := vk.Start(t, "C20", rule,
		"character = Unicode code point (rune); for invalid UTF-8 the rune-space oracle treats each invalid byte as U+FFFD, as Go's []rune conversion does",
		"html.UnescapeString is trusted as the decoder; escaping keeps the text (decode-back) except NUL, which is none of the five characters and has no character reference: it may be kept, come back as U+FFFD (what html/template emits) or be dropped",
		"truncate is called with well-typed options (size int, trail string); wrong-typed options are C04's concern; 'no option given' may be spelled as an empty map, a nil map, a nil literal or a left-out argument",
		"encoding/json is the trusted reference coder: a typed value is JSON-representable when json.Marshal accepts it, and 'decodes back to v' means json.Unmarshal of the output into v's Go type gives a value DeepEqual to v or with the same reference spelling (an omitted empty field decodes to nil)",
		"jsEscape keeps the text (the assumption htmlEscape's decode-back rests on): its output, read as the body of a JavaScript string literal by a decoder that knows every escape form of the language, gives the input back; demanded for valid UTF-8 input only (const jsDecodeBack switches it off)")
	r.Replayer("truncate", func(raw json.RawMessage) *vk.Fail {
		var c TruncCase
		if f := vk.Decode(raw, &c); f != nil {
			return f
		}
		return checkTrunc(r, c)
	})
	r.Replayer("truncseq", func(raw json.RawMessage) *vk.Fail {
		var c TruncSeqCase
		if f := vk.Decode(raw, &c); f != nil {
			return f
		}
		return checkTruncSeq(r, c)
	})
	r.Replayer("str", func(raw json.RawMessage) *vk.Fail {
		var c StrCase
		if f := vk.Decode(raw, &c); f != nil {
			return f
		}
		return checkStr(r, c)
	})
	r.Replayer("json", func(raw json.RawMessage) *vk.Fail {
		var c JSONCase
		if f := vk.Decode(raw, &c); f != nil {
			return f
		}
		var v interface{}
		if err := json.Unmarshal([]byte(c.Doc), &v); err != nil {
			return &vk.Fail{Kind: "decode", Msg: err.Error()}
		}
		return checkJSONCase(r, v, c.ViaTmpl, c.Lit)
	})
	r.Replayer("typed", func(raw json.RawMessage) *vk.Fail {
		var c TypedCase
		if f := vk.Decode(raw, &c); f != nil {
			return f
		}
		return checkTyped(r, c)
	})
	r.Replayer("jsonseq", func(raw json.RawMessage) *vk.Fail {
		var c JSONSeqCase
		if f := vk.Decode(raw, &c); f != nil {
			return f
		}
		return checkJSONSeq(r, c)
	})
	r.Replayer("held", func(raw json.RawMessage) *vk.Fail {
		var c HeldCase
		if f := vk.Decode(raw, &c); f != nil {
			return f
		}
		return checkHeld(r, c)
	})
	return r
}

func TestReplay(t *testing.T) { setup(t).ReplayEnv() }

// truncRoutes: the routes a case with the given options can take ("" = the options map passed directly)
func truncRoutes(hasSize, hasTrail bool) []string {
	routes := []string{"", "tmpl-hash", "tmpl-gomap"}
	if !hasSize && !hasTrail {
		routes = append(routes, "nil", "tmpl-none", "tmpl-nil")
	}
	return routes
}

func TestProp(t *testing.T) {
	r := setup(t)
	defer r.Finish()
	r.ReplayCommitted()

	// E1, E2: truncate over two small alphabets
	trails := []struct {
		s   string
		has bool
	}{{"", false}, {"", true}, {".", true}, {"...", true}, {"é漢", true}}
	maxLen := r.Pick(4, 5)
	for ai, alpha := range [][]string{{"a", "é", "漢", "e\u0301", "\xff"}, {"a", "😀", "\xe6", "\x80", "\xf0\x9f"}} {
		var strs []string
		var build func(prefix string, n int)
		build = func(prefix string, n int) {
			strs = append(strs, prefix)
			if n == 0 {
				return
			}
			for _, a := range alpha {
				build(prefix+a, n-1)
			}
		}
		build("", maxLen)
		total := int64(len(strs)) * 11 * int64(len(trails))
		r.Subspace(fmt.Sprintf("truncate E%d: strings of <=%d symbols over %q x size -2..8 x 5 trails", ai+1, maxLen, alpha), total, true)
		r.Parallel(total, 0, func(i int64) {
			tr := trails[i%int64(len(trails))]
			j := i / int64(len(trails))
			size := int(j%11) - 2
			s := strs[j/11]
			r.Check(checkTrunc(r, TruncCase{S: vk.Text(s), Size: size, HasSize: true, Trail: vk.Text(tr.s), HasTrail: tr.has, ViaTmpl: i%97 == 0}))
		})
	}
	// defaults (size 50, trail "...") around the boundary, on every route that gives no option
	for n := 45; n <= 56; n++ {
		for _, unit := range []string{"a", "漢", "😀"} {
			r.Check(checkTrunc(r, TruncCase{S: vk.Text(strings.Repeat(unit, n))}))
			r.Check(checkTrunc(r, TruncCase{S: vk.Text(strings.Repeat(unit, n)), ViaTmpl: true}))
			for _, route := range []string{"tmpl-none", "tmpl-hash", "tmpl-gomap"} {
				r.Check(checkTrunc(r, TruncCase{S: vk.Text(strings.Repeat(unit, n)), Route: route}))
			}
		}
	}
	// E4: no option given, spelled as a nil map (class truncate-nil-options): a short, a boundary and a long string
	for _, n := range []int{0, 3, 50, 51, 60} {
		for _, route := range []string{"nil", "tmpl-nil"} {
			r.Check(checkTrunc(r, TruncCase{S: vk.Text(strings.Repeat("é", n)), Route: route}))
		}
	}
	// E3: boundary sweep - length x size x trail, one unit per string
	{
		units := [][]string{{"a"}, {"é"}, {"漢"}, {"😀"}, {"\xff"}, {"a", "é", "漢", "😀"}}
		btrails := []struct {
			s   string
			has bool
		}{{"", false}, {"", true}, {".", true}, {"é漢", true}, {"12345678", true}}
		const maxN, maxSize = 72, 72
		sizesFor := func(n, tl int) []int {
			if r.Thorough() {
				out := make([]int, 0, maxSize+3)
				for s := -2; s <= maxSize; s++ {
					out = append(out, s)
				}
				return out
			}
			seen := map[int]bool{}
			var out []int
			add := func(vs ...int) {
				for _, v := range vs {
					if v >= -2 && v <= maxSize && !seen[v] {
						seen[v] = true
						out = append(out, v)
					}
				}
			}
			add(-2, -1, 0, 1, 2, tl-1, tl, tl+1, tl+2, n-2, n-1, n, n+1, n+2, 49, 50, 51, 63, 64, 65, 70, 72)
			sort.Ints(out)
			return out
		}
		type cell struct {
			unit, n, size, trail int
		}
		var cells []cell
		for u := range units {
			for n := 0; n <= maxN; n++ {
				for ti, tr := range btrails {
					tl := runeLen(tr.s)
					if !tr.has {
						tl = 3
					}
					for _, size := range sizesFor(n, tl) {
						cells = append(cells, cell{u, n, size, ti})
					}
				}
			}
		}
		r.Subspace(fmt.Sprintf("truncate E3: 6 units x length 0..%d x %s x 5 trails", maxN, map[bool]string{true: "every size -2..72", false: "sizes around 0, the trail length, the string length, 50, 64, 70, 72"}[r.Thorough()]), int64(len(cells)), true)
		r.Parallel(int64(len(cells)), 0, func(i int64) {
			c := cells[i]
			var sb strings.Builder
			for k := 0; k < c.n; k++ {
				sb.WriteString(units[c.unit][k%len(units[c.unit])])
			}
			tr := btrails[c.trail]
			tc := TruncCase{S: vk.Text(sb.String()), Size: c.size, HasSize: true, Trail: vk.Text(tr.s), HasTrail: tr.has}
			if i%53 == 0 {
				tc.Route = "tmpl-hash"
			}
			r.Check(checkTrunc(r, tc))
		})
	}
	// E: escapers over the fixed payloads, every route
	for _, p := range gen.Fixed {
		for _, h := range []string{"htmlEscape", "jsEscape", "raw"} {
			for _, via := range []bool{false, true} {
				r.Check(checkStr(r, StrCase{Helper: h, S: vk.Text(p), ViaTmpl: via}))
				if h == "htmlEscape" {
					r.Check(checkStr(r, StrCase{Helper: h, S: vk.Text(p), ViaTmpl: via, Block: true}))
				}
			}
			for _, w := range strWrapNames {
				r.Check(checkStr(r, StrCase{Helper: h, S: vk.Text(p), ViaTmpl: true, Wrap: w}))
			}
		}
	}
	// every single byte and every byte pair with a special, directly
	for b := 0; b < 256; b++ {
		for _, h := range []string{"htmlEscape", "jsEscape", "raw"} {
			r.Check(checkStr(r, StrCase{Helper: h, S: vk.Text(string([]byte{byte(b)}))}))
			r.Check(checkStr(r, StrCase{Helper: h, S: vk.Text("<" + string([]byte{byte(b)}) + "\"")}))
		}
	}
	// E position sweep: ONE special at every position of a string of every length, nothing else special in it
	{
		specials := []string{"<", ">", "&", "'", "\"", "=", "\n", "\r", "\\", " ", " ", "\x00", "+", "`", "\xff", "\xc3"}
		fillers := []string{"a", "é"}
		helpers := []string{"htmlEscape", "jsEscape", "raw"}
		maxL := r.Pick(24, 40)
		type cell struct{ sp, fill, l, pos int }
		var cells []cell
		for sp := range specials {
			for f := range fillers {
				for l := 1; l <= maxL; l++ {
					for pos := 0; pos < l; pos++ {
						cells = append(cells, cell{sp, f, l, pos})
					}
				}
			}
		}
		total := int64(len(cells)) * int64(len(helpers))
		r.Subspace(fmt.Sprintf("escapers: one of %d specials at every position of every length 1..%d x filler {a, é} x 3 helpers", len(specials), maxL), total, true)
		r.Parallel(total, 0, func(i int64) {
			c := cells[i/int64(len(helpers))]
			h := helpers[i%int64(len(helpers))]
			s := strings.Repeat(fillers[c.fill], c.pos) + specials[c.sp] + strings.Repeat(fillers[c.fill], c.l-1-c.pos)
			r.Check(checkStr(r, StrCase{Helper: h, S: vk.Text(s), ViaTmpl: i%41 == 0, Block: h == "htmlEscape" && i%7 == 0}))
		})
	}
	// E small alphabet: backslash runs before quotes and line breaks, specials next to each other
	{
		alpha := []string{"\\", "'", "\"", "\n", "a", "<", "&", " "}
		var strs []string
		var build func(prefix string, n int)
		build = func(prefix string, n int) {
			strs = append(strs, prefix)
			if n == 0 {
				return
			}
			for _, a := range alpha {
				build(prefix+a, n-1)
			}
		}
		build("", r.Pick(4, 5))
		helpers := []string{"htmlEscape", "jsEscape", "raw"}
		total := int64(len(strs)) * int64(len(helpers))
		r.Subspace(fmt.Sprintf("escapers: strings of <=%d symbols over %q x 3 helpers", r.Pick(4, 5), alpha), total, true)
		r.Parallel(total, 0, func(i int64) {
			r.Check(checkStr(r, StrCase{Helper: helpers[i%int64(len(helpers))], S: vk.Text(strs[i/int64(len(helpers))]), ViaTmpl: i%29 == 0}))
		})
	}

	// R
	r.Rapid("truncate", r.Pick(6000, 80000), func(t *rapid.T) *vk.Fail {
		c := TruncCase{S: vk.Text(gen.Payload(t, "s") + gen.Payload(t, "s2")), HasSize: rapid.IntRange(0, 9).Draw(t, "hs") > 0,
			HasTrail: rapid.IntRange(0, 3).Draw(t, "ht") > 0, ViaTmpl: rapid.IntRange(0, 5).Draw(t, "via") == 0}
		if c.HasSize {
			c.Size = rapid.IntRange(-2, 70).Draw(t, "size")
		}
		if c.HasTrail {
			c.Trail = vk.Text(shortTrail(t, "trail"))
		}
		if rapid.IntRange(0, 3).Draw(t, "routed") == 0 {
			routes := truncRoutes(c.HasSize, c.HasTrail)
			if c.Route = rapid.SampledFrom(routes).Draw(t, "route"); c.Route == "nil" || c.Route == "tmpl-nil" {
				c.Route = "tmpl-none" // the nil-map spellings are enumerated above (class truncate-nil-options)
			}
		}
		return checkTrunc(r, c)
	})
	r.Rapid("truncseq", r.Pick(3000, 40000), func(t *rapid.T) *vk.Fail { return checkTruncSeq(r, genTruncSeq(t)) })
	r.Rapid("escapers", r.Pick(6000, 80000), func(t *rapid.T) *vk.Fail {
		c := StrCase{Helper: rapid.SampledFrom([]string{"htmlEscape", "jsEscape", "raw"}).Draw(t, "helper"),
			S: vk.Text(gen.Payload(t, "s")), ViaTmpl: rapid.IntRange(0, 3).Draw(t, "via") == 0}
		if c.Helper == "htmlEscape" {
			c.Block = rapid.IntRange(0, 3).Draw(t, "block") == 0
		}
		if c.ViaTmpl && !c.Block && rapid.Bool().Draw(t, "wrapped") {
			c.Wrap = rapid.SampledFrom(strWrapNames).Draw(t, "wrap")
		}
		return checkStr(r, c)
	})
	r.Rapid("toJSON", r.Pick(4000, 50000), func(t *rapid.T) *vk.Fail {
		return checkJSON(r, genJSON(t, 4), rapid.IntRange(0, 3).Draw(t, "via") == 0)
	})
	r.Rapid("toJSON-literal", r.Pick(2000, 30000), func(t *rapid.T) *vk.Fail {
		v := genLitJSON(t, 3)
		if _, ok := plushLit(v); !ok {
			panic("harness: genLitJSON built a value that plushLit cannot spell")
		}
		return checkJSONCase(r, v, true, true)
	})
	// typed values: every type at its fixed edge values, then random
	for _, tc := range fixedTyped() {
		for _, via := range []bool{false, true} {
			tc.ViaTmpl = via
			r.Check(checkTyped(r, tc))
		}
	}
	r.Rapid("toJSON-typed", r.Pick(4000, 50000), func(t *rapid.T) *vk.Fail { return checkTyped(r, genTyped(t)) })
	// one container rewritten in place between the calls
	for _, mode := range []string{"direct", "tmpl"} {
		r.Check(checkJSONSeq(r, JSONSeqCase{Kind: "map", Mode: mode, Docs: []string{`{"a":1,"b":"<x>"}`, `{"a":2,"b":"<x>"}`, `{"a":2,"c":[1]}`, `{}`, `{"a":1,"b":"<x>"}`}}))
		r.Check(checkJSONSeq(r, JSONSeqCase{Kind: "slice", Mode: mode, Docs: []string{`[1,2,3]`, `[1,"<",3]`, `[1,"<"]`, `[1,"<",4]`, `[]`, `[null]`}}))
		r.Check(checkJSONSeq(r, JSONSeqCase{Kind: "strs", Mode: mode, Docs: []string{`["a","b","c"]`, `["a","&","c"]`, `["a","&"]`, `["a","&","d"]`, `[]`}}))
	}
	r.Check(checkJSONSeq(r, JSONSeqCase{Kind: "map", Mode: "assign", Docs: []string{`{"a":1,"b":"<x>"}`, `{"a":2,"b":"<x>"}`, `{"a":2,"b":"<x>","c":[1]}`}}))
	r.Rapid("jsonseq", r.Pick(3000, 40000), func(t *rapid.T) *vk.Fail { return checkJSONSeq(r, genJSONSeq(t)) })
	// results held across later calls: fixed sequences (long value first, so that a later, shorter result fits
	// wherever the earlier one was built), then random ones
	for _, mode := range []string{"direct", "let", "block", "loop"} {
		for _, h := range []string{"toJSON", "htmlEscape", "jsEscape", "raw", "truncate"} {
			size2 := 2
			if mode == "loop" {
				size2 = 20
			}
			r.Check(checkHeld(r, HeldCase{Mode: mode, Calls: []HeldCall{{Helper: h, Doc: `"a long first value <&> with 'specials'"`, Size: 20}, {Helper: h, Doc: `"b"`, Size: 20}, {Helper: h, Doc: `"<c>"`, Size: size2}}}))
			// near-duplicates: same length, same first and last 16 bytes
			r.Check(checkHeld(r, HeldCase{Mode: mode, Calls: []HeldCall{{Helper: h, Doc: `"0123456789abcdef-x-0123456789abcdef"`, Size: 30}, {Helper: h, Doc: `"0123456789abcdef-<-0123456789abcdef"`, Size: 30}, {Helper: h, Doc: `"0123456789abcdef-'-0123456789abcdef"`, Size: 30}}}))
		}
		if mode != "loop" {
			r.Check(checkHeld(r, HeldCase{Mode: mode, Calls: []HeldCall{{Helper: "toJSON", Doc: `{"k":[1,2,3],"s":"<x>"}`}, {Helper: "toJSON", Doc: `[true,null]`}, {Helper: "toJSON", Doc: `null`}}}))
		}
		// values whose printed forms coincide, in both orders
		confusable := [][]string{{`1`, `"1"`, `1.5`, `"1.5"`}, {`true`, `"true"`, `false`, `"false"`}, {`"null"`, `"<nil>"`, `""`, `"nil"`},
			{`[]`, `"[]"`, `{}`, `"{}"`}, {`[1,2]`, `["1 2"]`, `["1","2"]`, `"[1 2]"`}, {`{"a":1}`, `{"a":"1"}`, `"map[a:1]"`, `[{"a":1}]`}, {`[[]]`, `[]`, `[{}]`, `[""]`}}
		for _, docs := range confusable {
			for _, rev := range []bool{false, true} {
				var calls []HeldCall
				for i := range docs {
					d := docs[i]
					if rev {
						d = docs[len(docs)-1-i]
					}
					calls = append(calls, HeldCall{Helper: "toJSON", Doc: d})
				}
				r.Check(checkHeld(r, HeldCase{Mode: mode, Calls: calls}))
			}
		}
	}
	r.Rapid("held", r.Pick(4000, 50000), func(t *rapid.T) *vk.Fail { return checkHeld(r, genHeld(t)) })
}

// genLitJSON draws a JSON value that plushLit can spell
func genLitJSON(t *rapid.T, depth int) interface{} {
	max := 5
	if depth <= 0 {
		max = 3
	}
	str := func(label string) string {
		frags := []string{"<", ">", "&", "'", "=", "&amp;", "</script>", "<!--", "a", "b", "x y", "é", "漢", "😀", "#", "{", "}", "[", "]", ",", ":", "`", "$", "0"}
		var sb strings.Builder
		for i, n := 0, rapid.IntRange(0, 6).Draw(t, label+"_n"); i < n; i++ {
			sb.WriteString(rapid.SampledFrom(frags).Draw(t, label))
		}
		return sb.String()
	}
	switch rapid.IntRange(0, max).Draw(t, "kind") {
	case 0:
		return nil
	case 1:
		return rapid.Bool().Draw(t, "b")
	case 2:
		if rapid.Bool().Draw(t, "int") {
			return float64(rapid.SampledFrom([]int{0, 1, 7, 42, 255, 65536, 1<<31 - 1}).Draw(t, "i"))
		}
		return float64(rapid.IntRange(0, 4000).Draw(t, "q")) / 8
	case 3:
		return str("s")
	case 4:
		n := rapid.IntRange(0, 4).Draw(t, "n")
		out := make([]interface{}, n)
		for i := range out {
			out[i] = genLitJSON(t, depth-1)
		}
		return out
	default:
		n := rapid.IntRange(0, 4).Draw(t, "n")
		out := map[string]interface{}{}
		for i := 0; i < n; i++ {
			out[str("k")] = genLitJSON(t, depth-1)
		}
		return out
	}
}

// fixedTyped: every registered type at its edges
func fixedTyped() []TypedCase {
	var out []TypedCase
	add := func(typ string, docs ...string) {
		for _, d := range docs {
			out = append(out, TypedCase{Type: typ, Doc: d})
		}
	}
	add("int", "0", "-1", "9223372036854775807", "-9223372036854775808")
	add("int8", "127", "-128")
	add("int32", "2147483647", "-2147483648")
	add("int64", "9223372036854775807", "-9223372036854775808", "9007199254740993")
	add("uint", "0", "18446744073709551615", "9223372036854775808")
	add("uint8", "0", "255")
	add("uint64", "0", "9223372036854775807", "9223372036854775808", "18446744073709551615", "9007199254740993")
	add("float32", "0.1", "3.4028235e+38", "1e-45", "16777217")
	add("float64", "0.1", "1.7976931348623157e+308", "5e-324", "-0", "1e21", "1e-7", "123456789012345680000")
	add("number", "0", "18446744073709551616", "123456789012345678901234567890", "1e400", "-1.5E-7")
	add("string", `""`, `"<>&'\""`, `"  "`, `"\u0000\u001f\u007f"`, `"😀é漢"`)
	add("html", `""`, `"<b>&amp;</b>"`)
	add("bytes", `null`, `""`, `"PD4m"`, `"/w=="`)
	add("strs", `null`, `[]`, `[""]`, `["<"]`, `["a","<b>","&","'\"", " "]`, `["\u0001\\"]`)
	add("strs2", `null`, `[[]]`, `[null,["<"],[]]`)
	add("htmls", `["<b>"]`)
	add("ints", `[]`, `[9223372036854775807,-9223372036854775808]`)
	add("uints", `[18446744073709551615,0]`)
	add("arr", `["","<","&"]`)
	add("mss", `null`, `{}`, `{"<k>":"&v"}`, `{"":"", "a":"<"}`)
	add("mis", `{}`, `{"-1":"<","9223372036854775807":"&"}`)
	add("msints", `{"<":[1,-1],"":null}`)
	add("rec", `{}`, `{"name":"<n>","tags":["&"],"n":-9223372036854775808,"u":18446744073709551615,"f":0.1,"h":"<b>","b":"PD4=","label":"'","attrs":{"<":">"},"Plain":"&","next":{"name":"inner","next":{"name":"<"}}}`, `{"tags":[]}`)
	add("prec", `null`, `{"name":"<"}`)
	add("recs", `null`, `[]`, `[{"name":"<"},{}]`)
	add("pstr", `null`, `"<"`)
	add("ppstr", `null`, `"&"`)
	add("marsh", `{"w":""}`, `{"w":"<>&"}`, `{"w":" "}`)
	add("marshs", `[{"w":"<"},{"w":"&"}]`)
	add("tkeys", `{}`, `{"k:<a>":"x","k:&":"<"}`)
	add("any", `null`, `[1,"<",{"&":null}]`)
	add("raw", `null`, `"<>&"`, `{"a" : "<b>&" ,	"c":[1, 2 , 12345678901234567890123],"d":1E2}`, ` [ "<" , "<" ] `)
	return out
}
