// C20 — text and encoding helpers: truncate bound, escaping completeness,
// JSON fidelity.
package c20

import (
	"bytes"
	"encoding/json"
	"fmt"
	"html"
	"math"
	"reflect"
	"regexp"
	"strings"
	"testing"
	"unicode/utf8"

	"verif/internal/gen"
	"verif/internal/vk"

	plush "github.com/gobuffalo/plush/v5"
	"github.com/gobuffalo/plush/v5/helpers/encoders"
	"github.com/gobuffalo/plush/v5/helpers/escapes"
	"github.com/gobuffalo/plush/v5/helpers/hctx"
	"github.com/gobuffalo/plush/v5/helpers/helptest"
	"github.com/gobuffalo/plush/v5/helpers/text"
	"pgregory.net/rapid"
)

func TestMain(m *testing.M) { vk.Main(m) }

// ---- truncate --------------------------------------------------------------

type TruncCase struct {
	S        vk.Text `json:"s"`
	Size     int     `json:"size"`
	HasSize  bool    `json:"has_size"`
	Trail    vk.Text `json:"trail"`
	HasTrail bool    `json:"has_trail"`
	ViaTmpl  bool    `json:"via_template"`
}

func runeLen(s string) int { return len([]rune(s)) }

func checkTrunc(r *vk.Run, c TruncCase) *vk.Fail {
	defer r.Watch("truncate", c)()
	s, trail := string(c.S), string(c.Trail)
	size := c.Size
	if !c.HasSize {
		size = 50
	}
	if !c.HasTrail {
		trail = "..."
	}
	opts := hctx.Map{}
	if c.HasSize {
		opts["size"] = c.Size
	}
	if c.HasTrail {
		opts["trail"] = string(c.Trail)
	}
	var res vk.Res
	if c.ViaTmpl {
		ctx := plush.NewContextWith(map[string]interface{}{"s": s, "opts": opts})
		res = vk.Safe(func() (string, error) { return plush.Render(`<%= raw(truncate(s, opts)) %>`, ctx) })
	} else {
		res = vk.Safe(func() (string, error) { return text.Truncate(s, opts), nil })
	}
	fail := func(f string, a ...interface{}) *vk.Fail {
		return &vk.Fail{Kind: "truncate", Case: c, Msg: fmt.Sprintf("truncate(%q, size=%d trail=%q): ", s, size, trail) + fmt.Sprintf(f, a...)}
	}
	if res.Panicked() || res.Err != nil {
		return fail("%s", res)
	}
	got := res.Out
	rs, rt, rg := []rune(s), []rune(trail), []rune(got)
	nt := ""
	if len(rs) > size {
		nt = fmt.Sprintf("T|%q|%d|%q|%v", s, size, trail, c.ViaTmpl)
	}
	r.Count(nt, "truncate")
	if nt != "" {
		r.Sample(func() interface{} {
			return map[string]interface{}{"helper": "truncate", "case": c, "result": vk.Text(got)}
		})
	}
	if len(rs) <= size {
		if got != s {
			return fail("string has %d <= size characters but came back changed: %q", len(rs), got)
		}
		return nil
	}
	bound := size
	if len(rt) > bound {
		bound = len(rt)
	}
	if len(rg) > bound {
		return fail("result %q has %d characters > max(size, len(trail)) = %d", got, len(rg), bound)
	}
	if len(rg) < len(rt) || string(rg[len(rg)-len(rt):]) != string(rt) {
		return fail("result %q does not end with the trail", got)
	}
	k := len(rg) - len(rt)
	if k > len(rs) || string(rg[:k]) != string(rs[:k]) {
		return fail("result %q is not (prefix of s)+trail in rune space", got)
	}
	if utf8.ValidString(s) && utf8.ValidString(trail) {
		if !utf8.ValidString(got) {
			return fail("valid UTF-8 in, invalid UTF-8 out: %q (a multi-byte character was split)", got)
		}
		head := got[:len(got)-len(trail)]
		if !strings.HasPrefix(s, head) {
			return fail("head %q of the result is not a byte prefix of s", head)
		}
	}
	return nil
}

// ---- escapers ---------------------------------------------------------------

type StrCase struct {
	Helper  string  `json:"helper"`
	S       vk.Text `json:"s"`
	ViaTmpl bool    `json:"via_template"`
	Block   bool    `json:"block,omitempty"`
}

var charRef = regexp.MustCompile(`^&(#[0-9]+|#[xX][0-9a-fA-F]+|[a-zA-Z][a-zA-Z0-9]*);`)

func checkStr(r *vk.Run, c StrCase) *vk.Fail {
	defer r.Watch("str", c)()
	s := string(c.S)
	fail := func(f string, a ...interface{}) *vk.Fail {
		return &vk.Fail{Kind: "str", Case: c, Msg: fmt.Sprintf("%s(%q): ", c.Helper, s) + fmt.Sprintf(f, a...)}
	}
	var res vk.Res
	ctx := func() *plush.Context { return plush.NewContextWith(map[string]interface{}{"s": s}) }
	switch c.Helper {
	case "htmlEscape":
		switch {
		case c.ViaTmpl && c.Block:
			res = vk.Safe(func() (string, error) { return plush.Render(`<%= raw(htmlEscape("") { %><%= raw(s) %><% }) %>`, ctx()) })
		case c.ViaTmpl:
			res = vk.Safe(func() (string, error) { return plush.Render(`<%= raw(htmlEscape(s)) %>`, ctx()) })
		case c.Block:
			hc := helptest.NewContext()
			hc.BlockFn = func() (string, error) { return s, nil }
			res = vk.Safe(func() (string, error) { return escapes.HTMLEscape("ignored", hc) })
		default:
			res = vk.Safe(func() (string, error) { return escapes.HTMLEscape(s, helptest.NewContext()) })
		}
	case "jsEscape":
		if c.ViaTmpl {
			res = vk.Safe(func() (string, error) { return plush.Render(`<%= raw(jsEscape(s)) %>`, ctx()) })
		} else {
			res = vk.Safe(func() (string, error) { return escapes.JSEscape(s), nil })
		}
	case "raw":
		if c.ViaTmpl {
			res = vk.Safe(func() (string, error) { return plush.Render(`<%= raw(s) %>`, ctx()) })
		} else {
			res = vk.Safe(func() (string, error) { return string(encoders.Raw(s)), nil })
		}
	default:
		return &vk.Fail{Kind: "decode", Msg: "unknown helper " + c.Helper}
	}
	if res.Panicked() || res.Err != nil {
		return fail("%s", res)
	}
	out := res.Out
	nt := ""
	if strings.ContainsAny(s, "<>&'\"=\n\r\\") || strings.Contains(s, "\u2028") || strings.Contains(s, "\u2029") || !utf8.ValidString(s) {
		nt = fmt.Sprintf("S|%s|%q|%v|%v", c.Helper, s, c.ViaTmpl, c.Block)
	}
	r.Count(nt, c.Helper)
	if nt != "" {
		r.Sample(func() interface{} { return map[string]interface{}{"case": c, "result": vk.Text(out)} })
	}
	switch c.Helper {
	case "htmlEscape":
		if i := strings.IndexAny(out, "<>'\""); i >= 0 {
			return fail("output %q contains raw %q", out, out[i])
		}
		for i := 0; i < len(out); i++ {
			if out[i] == '&' && !charRef.MatchString(out[i:]) {
				return fail("output %q has an & at %d that does not start a character reference", out, i)
			}
		}
		// NUL has no representation in HTML text (a NUL character reference is invalid): an escaper may replace it
		// (html/template writes U+FFFD) or drop it; every other character must come back
		dec := html.UnescapeString(out)
		if dec != strings.ReplaceAll(s, "\x00", "\ufffd") && dec != strings.ReplaceAll(s, "\x00", "") {
			return fail("output %q decodes to %q, not to the input", out, dec)
		}
	case "jsEscape":
		if i := strings.IndexAny(out, "<>&="); i >= 0 {
			return fail("output %q contains raw %q", out, out[i])
		}
		if strings.ContainsAny(out, "\n\r") || strings.Contains(out, "\u2028") || strings.Contains(out, "\u2029") {
			return fail("output %q contains a raw line break", out)
		}
		for i := 0; i < len(out); i++ {
			if out[i] == '\'' || out[i] == '"' {
				n := 0
				for j := i - 1; j >= 0 && out[j] == '\\'; j-- {
					n++
				}
				if n%2 == 0 {
					return fail("output %q has an unescaped quote at %d", out, i)
				}
			}
		}
	case "raw":
		if out != s {
			return fail("raw output %q is not byte-identical to the input", out)
		}
	}
	return nil
}

// ---- toJSON -----------------------------------------------------------------

type JSONCase struct {
	// Doc is the JSON spelling of the value (the generator builds the Go value,
	// this is its canonical encoding; replay decodes it back)
	Doc     string `json:"doc"`
	ViaTmpl bool   `json:"via_template"`
}

func checkJSON(r *vk.Run, v interface{}, viaTmpl bool) *vk.Fail {
	canon, _ := json.Marshal(v)
	c := JSONCase{Doc: string(canon), ViaTmpl: viaTmpl}
	defer r.Watch("json", c)()
	fail := func(f string, a ...interface{}) *vk.Fail {
		return &vk.Fail{Kind: "json", Case: c, Msg: fmt.Sprintf("toJSON(%s): ", canon) + fmt.Sprintf(f, a...)}
	}
	var res vk.Res
	if viaTmpl {
		ctx := plush.NewContextWith(map[string]interface{}{"v": v})
		src := `<%= toJSON(v) %>`
		if v == nil {
			src = `<%= toJSON(nil) %>` // a nil context value is an unset name; spell it as the literal
		}
		res = vk.Safe(func() (string, error) { return plush.Render(src, ctx) })
	} else {
		res = vk.Safe(func() (string, error) { h, err := encoders.ToJSON(v); return string(h), err })
	}
	if res.Panicked() || res.Err != nil {
		return fail("%s", res)
	}
	out := res.Out
	nt := ""
	if bytes.ContainsAny(canon, "<>&\\{[") || bytes.Contains(canon, []byte(`\u00`)) {
		nt = fmt.Sprintf("J|%s|%v", canon, viaTmpl)
	}
	r.Count(nt, "toJSON")
	if nt != "" {
		r.Sample(func() interface{} {
			return map[string]interface{}{"helper": "toJSON", "value": string(canon), "via_template": viaTmpl, "result": out}
		})
	}
	if !json.Valid([]byte(out)) {
		return fail("output %q is not valid JSON", out)
	}
	if i := strings.IndexAny(out, "<>&"); i >= 0 {
		return fail("output %q contains raw %q", out, out[i])
	}
	var back interface{}
	if err := json.Unmarshal([]byte(out), &back); err != nil {
		return fail("output %q does not decode: %v", out, err)
	}
	if !reflect.DeepEqual(norm(back), norm(v)) {
		return fail("output %q decodes to %#v, not to the input %#v", out, back, v)
	}
	return nil
}

// norm maps empty slices/maps and nil slices/maps to one representative so that
// DeepEqual compares JSON meaning.
func norm(v interface{}) interface{} {
	switch t := v.(type) {
	case []interface{}:
		out := make([]interface{}, len(t))
		for i := range t {
			out[i] = norm(t[i])
		}
		return out
	case map[string]interface{}:
		out := make(map[string]interface{}, len(t))
		for k, x := range t {
			out[k] = norm(x)
		}
		return out
	}
	return v
}

func genJSON(t *rapid.T, depth int) interface{} {
	max := 5
	if depth <= 0 {
		max = 3
	}
	switch rapid.IntRange(0, max).Draw(t, "kind") {
	case 0:
		return nil
	case 1:
		return rapid.Bool().Draw(t, "b")
	case 2:
		f := rapid.Float64().Draw(t, "f")
		if math.IsNaN(f) || math.IsInf(f, 0) {
			f = 0
		}
		return f
	case 3:
		return strings.ToValidUTF8(gen.Payload(t, "s"), "\ufffd")
	case 4:
		n := rapid.IntRange(0, 4).Draw(t, "n")
		out := make([]interface{}, n)
		for i := range out {
			out[i] = genJSON(t, depth-1)
		}
		return out
	default:
		n := rapid.IntRange(0, 4).Draw(t, "n")
		out := map[string]interface{}{}
		for i := 0; i < n; i++ {
			out[strings.ToValidUTF8(gen.Payload(t, "k"), "\ufffd")] = genJSON(t, depth-1)
		}
		return out
	}
}

// ---- results are values: several calls, results held --------------------------------

// HeldCase: 2-4 helper calls whose results are all still held when the later calls run (Go variables, let
// bindings, or the values a block collects before it writes). What a helper returned for one value does not
// change because the helper is called again.
type HeldCall struct {
	Helper string `json:"helper"`
	Doc    string `json:"doc"` // JSON spelling of the argument (a string for the string helpers)
	Size   int    `json:"size,omitempty"`
}

type HeldCase struct {
	Calls []HeldCall `json:"calls"`
	Mode  string     `json:"mode"` // direct | let | block
}

func (h HeldCall) expr(i int) string {
	switch h.Helper {
	case "truncate":
		return fmt.Sprintf("truncate(x%d, {size: %d})", i, h.Size)
	}
	if h.Doc == "null" {
		return h.Helper + "(nil)" // a nil context value is an unset name; spell it as the literal
	}
	return fmt.Sprintf("%s(x%d)", h.Helper, i)
}

// emit: how a held result is written without being escaped again
func (h HeldCall) emit(e string) string {
	if h.Helper == "toJSON" || h.Helper == "raw" {
		return "<%= " + e + " %>"
	}
	return "<%= raw(" + e + ") %>"
}

func (h HeldCall) direct(v interface{}) (string, error) {
	str, _ := v.(string)
	switch h.Helper {
	case "toJSON":
		o, err := encoders.ToJSON(v)
		return string(o), err
	case "htmlEscape":
		return escapes.HTMLEscape(str, helptest.NewContext())
	case "jsEscape":
		return escapes.JSEscape(str), nil
	case "raw":
		return string(encoders.Raw(str)), nil
	case "truncate":
		return text.Truncate(str, hctx.Map{"size": h.Size}), nil
	}
	return "", fmt.Errorf("harness: unknown helper %s", h.Helper)
}

func checkHeld(r *vk.Run, c HeldCase) *vk.Fail {
	defer r.Watch("held", c)()
	fail := func(f string, a ...interface{}) *vk.Fail {
		return &vk.Fail{Kind: "held", Case: c, Msg: fmt.Sprintf(f, a...)}
	}
	vals := make([]interface{}, len(c.Calls))
	data := map[string]interface{}{}
	for i, h := range c.Calls {
		if err := json.Unmarshal([]byte(h.Doc), &vals[i]); err != nil {
			return &vk.Fail{Kind: "decode", Msg: err.Error()}
		}
		if _, ok := vals[i].(string); !ok && h.Helper != "toJSON" {
			return &vk.Fail{Kind: "decode", Msg: "string helper with a non-string argument"}
		}
		if vals[i] != nil {
			data[fmt.Sprintf("x%d", i)] = vals[i]
		}
	}
	key, _ := json.Marshal(c)
	nt := ""
	if len(c.Calls) >= 2 {
		nt = "H|" + string(key)
	}
	r.Count(nt, "held/"+c.Mode)
	if c.Mode == "direct" {
		held := make([]string, len(c.Calls))
		then := make([]string, len(c.Calls))
		for i, h := range c.Calls {
			i, h := i, h
			res := vk.Safe(func() (string, error) { return h.direct(vals[i]) })
			if res.Panicked() || res.Err != nil {
				return fail("%s(%s): %s", h.Helper, h.Doc, res)
			}
			held[i] = res.Out
			then[i] = strings.Clone(res.Out)
		}
		for i := range held {
			if held[i] != then[i] {
				return fail("%s(%s) returned %q; after the later calls the SAME returned string reads %q", c.Calls[i].Helper, c.Calls[i].Doc, then[i], held[i])
			}
		}
		return nil
	}
	// expected: every call rendered alone
	var want []string
	for i, h := range c.Calls {
		src := h.emit(h.expr(i))
		res := vk.Safe(func() (string, error) { return plush.Render(src, plush.NewContextWith(data)) })
		if res.Panicked() || res.Err != nil {
			return fail("%s alone: %s", src, res)
		}
		want = append(want, res.Out)
	}
	var sb strings.Builder
	switch c.Mode {
	case "let":
		for i, h := range c.Calls {
			fmt.Fprintf(&sb, "<%% let h%d = %s %%>", i, h.expr(i))
		}
		for i, h := range c.Calls {
			if i > 0 {
				sb.WriteString("|")
			}
			sb.WriteString(h.emit(fmt.Sprintf("h%d", i)))
		}
	case "block":
		sb.WriteString("<%= if (true) { %>")
		for i, h := range c.Calls {
			if i > 0 {
				sb.WriteString("|")
			}
			sb.WriteString(h.emit(h.expr(i)))
		}
		sb.WriteString("<% } %>")
	default:
		return &vk.Fail{Kind: "decode", Msg: "unknown mode " + c.Mode}
	}
	src := sb.String()
	res := vk.Safe(func() (string, error) { return plush.Render(src, plush.NewContextWith(data)) })
	if nt != "" {
		r.Sample(func() interface{} { return map[string]interface{}{"case": c, "template": src, "result": res.String()} })
	}
	if res.Panicked() || res.Err != nil {
		return fail("%s: %s", src, res)
	}
	if exp := strings.Join(want, "|"); res.Out != exp {
		return fail("%s rendered %q; the calls rendered one by one give %q", src, res.Out, exp)
	}
	return nil
}

func genHeld(t *rapid.T) HeldCase {
	c := HeldCase{Mode: rapid.SampledFrom([]string{"direct", "let", "block"}).Draw(t, "mode")}
	same := rapid.Bool().Draw(t, "sameHelper")
	first := ""
	for i, n := 0, rapid.IntRange(2, 4).Draw(t, "calls"); i < n; i++ {
		h := HeldCall{Helper: rapid.SampledFrom([]string{"toJSON", "toJSON", "htmlEscape", "jsEscape", "raw", "truncate"}).Draw(t, "helper")}
		if same && first != "" {
			h.Helper = first
		}
		first = h.Helper
		var v interface{}
		if h.Helper == "toJSON" {
			v = genJSON(t, 2)
		} else {
			v = strings.ToValidUTF8(gen.Payload(t, "s"), "\ufffd")
			h.Size = rapid.IntRange(0, 12).Draw(t, "size")
		}
		if h.Helper != "truncate" {
			h.Size = 0
		}
		b, _ := json.Marshal(v)
		h.Doc = string(b)
		c.Calls = append(c.Calls, h)
	}
	return c
}

// ---- the test -----------------------------------------------------------------

const rule = "truncate: (E) every string of length <=5 (quick: <=4) over {a, é, 漢, e+U+0301, 0xFF} x size in [-2,8] x trail in {absent, '', '.', '...', 'é漢'} directly, plus a template pass; (R) payload strings up to ~40 runes x size in [-2,70] x trails up to 8 runes. htmlEscape/jsEscape/raw: fixed hostile payloads + random payloads over the full byte alphabet, called directly and through plush.Render (htmlEscape also through its block form). toJSON: recursive generator of JSON-representable values (nil, bool, finite float64, valid UTF-8 strings, slices, string-keyed maps, nesting <=4). HELD RESULTS: 2-4 calls (one helper or mixed) whose results are all still held while the later calls run - as Go values, as let bindings emitted afterwards, or inside one block - must read exactly what each call gives alone. Oracles: rune-space prefix+trail bound and no split rune; no raw < > & ' \" and decode-back for htmlEscape; no < > & =, no unescaped quote or line break for jsEscape; byte identity for raw; valid JSON, decode-back and no raw < > & for toJSON. Non-trivial = the string is longer than size (truncate), contains a special / non-ASCII / invalid byte (escapers), contains a special or a container (toJSON); distinct by (helper, arguments, route)."

func setup(t *testing.T) *vk.Run {
	r := vk.Start(t, "C20", rule,
		"character = Unicode code point (rune); for invalid UTF-8 the rune-space oracle treats each invalid byte as U+FFFD, as Go's []rune conversion does",
		"html.UnescapeString is trusted as the decoder; escaping keeps the text (decode-back) except NUL, which HTML cannot represent: it may come back as U+FFFD (what html/template emits) or be dropped",
		"truncate is called with well-typed options (size int, trail string); wrong-typed options are C04's concern")
	r.Replayer("truncate", func(raw json.RawMessage) *vk.Fail {
		var c TruncCase
		if f := vk.Decode(raw, &c); f != nil {
			return f
		}
		return checkTrunc(r, c)
	})
	r.Replayer("str", func(raw json.RawMessage) *vk.Fail {
		var c StrCase
		if f := vk.Decode(raw, &c); f != nil {
			return f
		}
		return checkStr(r, c)
	})
	r.Replayer("json", func(raw json.RawMessage) *vk.Fail {
		var c JSONCase
		if f := vk.Decode(raw, &c); f != nil {
			return f
		}
		var v interface{}
		if err := json.Unmarshal([]byte(c.Doc), &v); err != nil {
			return &vk.Fail{Kind: "decode", Msg: err.Error()}
		}
		return checkJSON(r, v, c.ViaTmpl)
	})
	r.Replayer("held", func(raw json.RawMessage) *vk.Fail {
		var c HeldCase
		if f := vk.Decode(raw, &c); f != nil {
			return f
		}
		return checkHeld(r, c)
	})
	return r
}

func TestReplay(t *testing.T) { setup(t).ReplayEnv() }

func TestProp(t *testing.T) {
	r := setup(t)
	defer r.Finish()
	r.ReplayCommitted()

	// E: truncate over a small alphabet
	alpha := []string{"a", "é", "漢", "e\u0301", "\xff"}
	trails := []struct {
		s   string
		has bool
	}{{"", false}, {"", true}, {".", true}, {"...", true}, {"é漢", true}}
	maxLen := r.Pick(4, 5)
	var strs []string
	var build func(prefix string, n int)
	build = func(prefix string, n int) {
		strs = append(strs, prefix)
		if n == 0 {
			return
		}
		for _, a := range alpha {
			build(prefix+a, n-1)
		}
	}
	build("", maxLen)
	total := int64(len(strs)) * 11 * int64(len(trails))
	r.Subspace(fmt.Sprintf("truncate: strings of <=%d symbols over {a,é,漢,e+U+0301,0xFF} x size -2..8 x 5 trails", maxLen), total, true)
	r.Parallel(total, 0, func(i int64) {
		tr := trails[i%int64(len(trails))]
		j := i / int64(len(trails))
		size := int(j%11) - 2
		s := strs[j/11]
		r.Check(checkTrunc(r, TruncCase{S: vk.Text(s), Size: size, HasSize: true, Trail: vk.Text(tr.s), HasTrail: tr.has, ViaTmpl: i%97 == 0}))
	})
	// defaults (size 50, trail "...") around the boundary
	for n := 45; n <= 56; n++ {
		for _, unit := range []string{"a", "漢"} {
			r.Check(checkTrunc(r, TruncCase{S: vk.Text(strings.Repeat(unit, n))}))
			r.Check(checkTrunc(r, TruncCase{S: vk.Text(strings.Repeat(unit, n)), ViaTmpl: true}))
		}
	}
	// E: escapers over the fixed payloads, every route
	for _, p := range gen.Fixed {
		for _, h := range []string{"htmlEscape", "jsEscape", "raw"} {
			for _, via := range []bool{false, true} {
				r.Check(checkStr(r, StrCase{Helper: h, S: vk.Text(p), ViaTmpl: via}))
				if h == "htmlEscape" {
					r.Check(checkStr(r, StrCase{Helper: h, S: vk.Text(p), ViaTmpl: via, Block: true}))
				}
			}
		}
	}
	// every single byte and every byte pair with a special, directly
	for b := 0; b < 256; b++ {
		for _, h := range []string{"htmlEscape", "jsEscape", "raw"} {
			r.Check(checkStr(r, StrCase{Helper: h, S: vk.Text(string([]byte{byte(b)}))}))
			r.Check(checkStr(r, StrCase{Helper: h, S: vk.Text("<" + string([]byte{byte(b)}) + "\"")}))
		}
	}

	// R
	r.Rapid("truncate", r.Pick(6000, 80000), func(t *rapid.T) *vk.Fail {
		c := TruncCase{S: vk.Text(gen.Payload(t, "s") + gen.Payload(t, "s2")), HasSize: rapid.IntRange(0, 9).Draw(t, "hs") > 0,
			HasTrail: rapid.IntRange(0, 3).Draw(t, "ht") > 0, ViaTmpl: rapid.IntRange(0, 5).Draw(t, "via") == 0}
		if c.HasSize {
			c.Size = rapid.IntRange(-2, 70).Draw(t, "size")
		}
		if c.HasTrail {
			tr := []rune(gen.Payload(t, "trail"))
			if len(tr) > 8 {
				tr = tr[:8]
			}
			c.Trail = vk.Text(string(tr))
		}
		return checkTrunc(r, c)
	})
	r.Rapid("escapers", r.Pick(6000, 80000), func(t *rapid.T) *vk.Fail {
		c := StrCase{Helper: rapid.SampledFrom([]string{"htmlEscape", "jsEscape", "raw"}).Draw(t, "helper"),
			S: vk.Text(gen.Payload(t, "s")), ViaTmpl: rapid.IntRange(0, 3).Draw(t, "via") == 0}
		if c.Helper == "htmlEscape" {
			c.Block = rapid.IntRange(0, 3).Draw(t, "block") == 0
		}
		return checkStr(r, c)
	})
	r.Rapid("toJSON", r.Pick(4000, 50000), func(t *rapid.T) *vk.Fail {
		return checkJSON(r, genJSON(t, 4), rapid.IntRange(0, 3).Draw(t, "via") == 0)
	})
	// results held across later calls: fixed sequences (long value first, so that a later, shorter result fits
	// wherever the earlier one was built), then random ones
	for _, mode := range []string{"direct", "let", "block"} {
		for _, h := range []string{"toJSON", "htmlEscape", "jsEscape", "raw", "truncate"} {
			r.Check(checkHeld(r, HeldCase{Mode: mode, Calls: []HeldCall{{Helper: h, Doc: `"a long first value <&> with 'specials'"`, Size: 20}, {Helper: h, Doc: `"b"`, Size: 20}, {Helper: h, Doc: `"<c>"`, Size: 2}}}))
		}
		r.Check(checkHeld(r, HeldCase{Mode: mode, Calls: []HeldCall{{Helper: "toJSON", Doc: `{"k":[1,2,3],"s":"<x>"}`}, {Helper: "toJSON", Doc: `[true,null]`}, {Helper: "toJSON", Doc: `null`}}}))
	}
	r.Rapid("held", r.Pick(3000, 40000), func(t *rapid.T) *vk.Fail { return checkHeld(r, genHeld(t)) })
}
