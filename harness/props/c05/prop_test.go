// C05 — no silent failure: a failing helper or operation fails Render, with empty output.
package c05

import (
	"encoding/json"
	"errors"
	"fmt"
	"html/template"
	"sort"
	"strings"
	"sync"
	"testing"

	"verif/internal/match"
	"verif/internal/model"
	"verif/internal/progs"
	"verif/internal/vk"

	plush "github.com/gobuffalo/plush/v5"
	"pgregory.net/rapid"
)

func TestMain(m *testing.M) { vk.Main(m) }

var sentinel = errors.New("boom: sentinel failure")

type Case struct {
	Src      string                     `json:"src"` // informational
	Prog     json.RawMessage            `json:"prog"`
	Partials map[string]json.RawMessage `json:"partials,omitempty"`
}

var (
	boom    = model.Call{Fn: "boom"}
	divZero = model.Bin{Op: "/", L: model.Lit{V: 1}, R: model.Lit{V: 0}}
	mixed   = model.Bin{Op: "+", L: model.Lit{V: 1}, R: model.Lit{V: "a"}}
	oob     = model.Idx{X: model.Var{Name: "arr"}, I: model.Lit{V: 99}}
	unknown = model.Var{Name: "nosuchname"}
	// a helper whose error WRAPS an unknown-identifier error (what a nested render that hits an unset name returns):
	// it is a failing helper, not "an unknown identifier used as a condition or operand", so it is never tolerated
	wrapunk = model.Call{Fn: "wrapunk"}
	// helpers with a HISTORY: flakyK() returns 1 until its K-th invocation of the render, which fails (and every later
	// one). Whether the render fails depends on how often the call site is evaluated, not on where it stands - what a
	// memo per call site, per name or per template would get wrong.
	flaky2 = model.Call{Fn: "flaky2"}
	flaky3 = model.Call{Fn: "flaky3"}
	faults = []model.Expr{boom, boom, boom, divZero, mixed, oob, unknown, wrapunk, wrapunk, flaky2, flaky2, flaky3}
)

func run(r *vk.Run, prog []model.Node, partials map[string][]model.Node, class string) *vk.Fail {
	pr := model.Printer{}
	src := pr.Nodes(prog)
	c := Case{Src: src, Prog: model.Encode(prog)}
	ptext := progs.PartialText(pr, partials)
	var pn []string
	for n, body := range partials {
		if c.Partials == nil {
			c.Partials = map[string]json.RawMessage{}
		}
		c.Partials[n] = model.Encode(body)
		pn = append(pn, n)
	}
	sort.Strings(pn)
	full := src
	for _, n := range pn {
		full += "\n  partial " + n + ": " + ptext[n]
	}
	defer r.Watch("fault", c)()
	mcount, pcount := 0, 0
	mk := func(cnt *int) map[string]model.Helper {
		flaky := func(k int) model.Helper {
			calls := 0
			return func(a []interface{}) (interface{}, error) {
				calls++
				if calls >= k {
					*cnt++
					return nil, sentinel
				}
				return 1, nil
			}
		}
		return progs.Helpers(map[string]model.Helper{
			"flaky2": flaky(2), "flaky3": flaky(3),
			"boom": func(a []interface{}) (interface{}, error) { *cnt++; return nil, sentinel },
			"wrapunk": func(a []interface{}) (interface{}, error) {
				*cnt++
				return nil, fmt.Errorf("nested render failed: %w: %w", sentinel, &plush.ErrUnknownIdentifier{ID: "inner"})
			},
		})
	}
	mh := mk(&mcount)
	mh["range"] = func(a []interface{}) (interface{}, error) { return &mrange{a[0].(int), a[1].(int)}, nil } // model only: plush has the built-in
	want := model.RunWith(prog, c05Data(), mh, partials)
	if want.Unspec != "" {
		r.Exclude("unspecified")
		return nil
	}
	ctx := progs.Context(c05Data(), mk(&pcount), ptext)
	var rerr error
	res := vk.Safe(func() (string, error) { s, err := plush.Render(src, ctx); rerr = err; return s, err })
	fail := func(f string, a ...interface{}) *vk.Fail {
		return &vk.Fail{Kind: "fault", Case: c, Msg: full + ": " + fmt.Sprintf(f, a...)}
	}
	nt := ""
	if want.Err != "" {
		nt = full
		class += "/fails"
	} else if strings.Contains(full, "boom()") || strings.Contains(full, "wrapunk()") || strings.Contains(full, "flaky") || strings.Contains(full, "nosuchname") || strings.Contains(full, "1 / 0") {
		nt = full
		class += "/fault-not-reached"
	}
	r.Count(nt, class)
	if nt != "" {
		r.Sample(func() interface{} {
			return map[string]interface{}{"template": src, "partials": ptext, "reference_error": want.Err, "reference_output": want.Out, "boom_invocations": mcount}
		})
	}
	if res.Panicked() {
		return fail("%s", res)
	}
	// the statement's own oracle: fires whenever the failing helper was actually invoked
	if pcount > 0 {
		if rerr == nil {
			return fail("the failing helper was invoked %d time(s) but Render succeeded with %q", pcount, res.Out)
		}
		if !errors.Is(rerr, sentinel) {
			return fail("the failing helper was invoked but errors.Is(err, original) is false: %v", rerr)
		}
	}
	if rerr != nil && res.Out != "" {
		return fail("error together with partial output %q (%v)", res.Out, rerr)
	}
	// both directions against the reference: a fault is tolerated exactly where the statement licenses it
	if want.Err != "" && rerr == nil && (strings.Contains(want.Err, "could not iterate over int") || strings.Contains(want.Err, "could not iterate over string")) {
		// an engine may define ranging over an integer or a string (C08 lists what is iterable, not what is not)
		r.Exclude("a string or an integer ranged over: not stated to be an error")
		return nil
	}
	if want.Err != "" && rerr == nil {
		return fail("reference says the render must fail (%s); it succeeded with %q", want.Err, res.Out)
	}
	if want.Err == "" {
		if rerr != nil {
			if want.Lenient != "" && strings.Contains(rerr.Error(), "unknown identifier") {
				// forgiving an unknown identifier raised INSIDE a tested expression is not demanded
				r.Exclude("nested unknown identifier not forgiven")
				return nil
			}
			return fail("reference says the faults are not reached / tolerated (output %q); render failed: %v", want.Out, rerr)
		}
		if !match.SameText(res.Out, want.Out) {
			return fail("output %q, reference says %q", res.Out, want.Out)
		}
	}
	return nil
}

type countIter struct{ i, n int }

func (c *countIter) Next() interface{} {
	if c.i >= c.n {
		return nil
	}
	c.i++
	return c.i
}

// model-side counterpart of the built-in range helper
type mrange struct{ cur, end int }

func (m *mrange) Next() interface{} {
	if m.cur > m.end {
		return nil
	}
	m.cur++
	return m.cur - 1
}

// c05Data: the shared data plus a three-entry map (visited in any order by plush; the
// positions that loop over it render nothing, so only error-ness is compared)
func c05Data() map[string]interface{} {
	d := progs.Data()
	d["it"] = &countIter{n: 3} // a custom Iterator (fresh per render)
	d["mp"] = &model.OrderedMap{Keys: []interface{}{"k1", "k2", "k3"}, Vals: map[interface{}]interface{}{"k1": 1, "k2": 2, "k3": 3}}
	return d
}

// ---- fixed positions: one fault planted at every syntactic position ---------------------------------

func positions(f model.Expr) map[string][]model.Node {
	T := func(s string) model.Node { return model.Text{S: s} }
	lit := func(v interface{}) model.Expr { return model.Lit{V: v} }
	emit := func(e model.Expr) model.Node { return model.Emit{X: e} }
	out := map[string][]model.Node{}
	for _, op := range []string{"+", "-", "*", "/", "<", "<=", ">", ">=", "==", "!=", "~=", "&&", "||"} {
		out["left of "+op] = []model.Node{T("a"), emit(model.Bin{Op: op, L: f, R: lit(1)}), T("b")}
		out["right of "+op] = []model.Node{T("a"), emit(model.Bin{Op: op, L: lit(1), R: f}), T("b")}
	}
	out["right of && after false"] = []model.Node{T("a"), emit(model.Bin{Op: "&&", L: lit(false), R: f}), T("b")}
	out["right of || after true"] = []model.Node{T("a"), emit(model.Bin{Op: "||", L: lit(true), R: f}), T("b")}
	out["operand of !"] = []model.Node{emit(model.Not{X: f})}
	out["emitted"] = []model.Node{T("a"), emit(f), T("b")}
	out["silent tag"] = []model.Node{T("a"), model.Code{S: model.ExprS{X: f}}, T("b")}
	out["let value"] = []model.Node{T("a"), model.Code{S: model.LetS{Name: "z", X: f}}, T("b")}
	out["assignment value"] = []model.Node{model.Code{S: model.LetS{Name: "z", X: lit(1)}}, T("a"), model.Code{S: model.AssignS{Name: "z", X: f}}, T("b")}
	out["if condition"] = []model.Node{T("a"), model.EmitIf{If: &model.If{Cond: f, Then: []model.Node{T("T")}, HasElse: true, Else: []model.Node{T("F")}}}, T("b")}
	out["else-if condition"] = []model.Node{T("a"), model.EmitIf{If: &model.If{Cond: lit(false), Then: []model.Node{T("T")}, ElseIfs: []model.ElseIf{{Cond: f, Then: []model.Node{T("E")}}}}}, T("b")}
	out["else-if condition not reached"] = []model.Node{T("a"), model.EmitIf{If: &model.If{Cond: lit(true), Then: []model.Node{T("T")}, ElseIfs: []model.ElseIf{{Cond: f, Then: []model.Node{T("E")}}}}}, T("b")}
	out["taken branch body"] = []model.Node{T("a"), model.EmitIf{If: &model.If{Cond: lit(true), Then: []model.Node{T("x"), emit(f), T("y")}}}, T("b")}
	out["untaken branch body"] = []model.Node{T("a"), model.EmitIf{If: &model.If{Cond: lit(false), Then: []model.Node{T("x"), emit(f), T("y")}}}, T("b")}
	out["else body"] = []model.Node{T("a"), model.EmitIf{If: &model.If{Cond: lit(false), Then: []model.Node{T("x")}, HasElse: true, Else: []model.Node{emit(f)}}}, T("b")}
	out["silent if body"] = []model.Node{T("a"), model.Code{S: model.IfS{If: &model.If{Cond: lit(true), Then: []model.Node{model.Code{S: model.LetS{Name: "z", X: f}}}}}}, T("b")}
	out["loop iterable"] = []model.Node{T("a"), model.EmitFor{For: &model.For{Val: "v", Iter: f, Body: []model.Node{T("x")}}}, T("b")}
	out["loop body"] = []model.Node{T("a"), model.EmitFor{For: &model.For{Val: "v", Iter: model.Var{Name: "two"}, Body: []model.Node{T("x"), emit(f)}}}, T("b")}
	out["loop body second iteration"] = []model.Node{T("a"), model.EmitFor{For: &model.For{Val: "v", Iter: model.Var{Name: "two"}, Body: []model.Node{T("x"),
		model.EmitIf{If: &model.If{Cond: model.Bin{Op: "==", L: model.Var{Name: "v"}, R: lit(2)}, Then: []model.Node{emit(f)}}}}}}, T("b")}
	out["empty loop body"] = []model.Node{T("a"), model.EmitFor{For: &model.For{Val: "v", Iter: model.Arr{}, Body: []model.Node{emit(f)}}}, T("b")}
	out["silent loop body"] = []model.Node{T("a"), model.Code{S: model.ForS{For: &model.For{Val: "v", Iter: model.Var{Name: "two"}, Body: []model.Node{model.Code{S: model.ExprS{X: f}}}}}}, T("b")}
	// a map loop in which exactly one entry reaches the fault (whatever the visiting order, the render must fail)
	out["map loop body, one entry"] = []model.Node{T("a"), model.Code{S: model.ForS{For: &model.For{Key: "k", Val: "v", Iter: model.Var{Name: "mp"}, Body: []model.Node{
		model.Code{S: model.IfS{If: &model.If{Cond: model.Bin{Op: "==", L: model.Var{Name: "v"}, R: lit(2)}, Then: []model.Node{model.Code{S: model.LetS{Name: "z", X: f}}}}}}}}}}, T("b")}
	out["map loop body, no entry"] = []model.Node{T("a"), model.Code{S: model.ForS{For: &model.For{Key: "k", Val: "v", Iter: model.Var{Name: "mp"}, Body: []model.Node{
		model.Code{S: model.IfS{If: &model.If{Cond: model.Bin{Op: "==", L: model.Var{Name: "v"}, R: lit(9)}, Then: []model.Node{model.Code{S: model.LetS{Name: "z", X: f}}}}}}}}}}, T("b")}
	out["map loop iterable value"] = []model.Node{T("a"), model.Code{S: model.ForS{For: &model.For{Val: "v", Iter: model.Idx{X: model.Hash{KVs: []model.KV{{K: "p", V: model.Arr{Els: []model.Expr{f}}}}}, I: lit("p")}, Body: nil}}}, T("b")}
	// loops over ITERATORS (built-in range, a custom Iterator): body, later iteration, silent body
	rng := model.Call{Fn: "range", Args: []model.Expr{lit(1), lit(3)}}
	out["range loop body"] = []model.Node{T("a"), model.EmitFor{For: &model.For{Val: "v", Iter: rng, Body: []model.Node{T("x"), emit(f)}}}, T("b")}
	out["range loop body, last iteration"] = []model.Node{T("a"), model.EmitFor{For: &model.For{Val: "v", Iter: rng, Body: []model.Node{T("x"),
		model.EmitIf{If: &model.If{Cond: model.Bin{Op: "==", L: model.Var{Name: "v"}, R: lit(3)}, Then: []model.Node{emit(f)}}}}}}, T("b")}
	out["custom iterator loop body"] = []model.Node{T("a"), model.EmitFor{For: &model.For{Key: "k", Val: "v", Iter: model.Var{Name: "it"}, Body: []model.Node{T("x"),
		model.EmitIf{If: &model.If{Cond: model.Bin{Op: "==", L: model.Var{Name: "k"}, R: lit(1)}, Then: []model.Node{emit(f)}}}}}}, T("b")}
	out["silent iterator loop body in a function"] = []model.Node{model.Code{S: model.LetS{Name: "uf", X: model.FnLit{Body: []model.Node{
		model.Code{S: model.ForS{For: &model.For{Val: "v", Iter: rng, Body: []model.Node{model.Code{S: model.LetS{Name: "z", X: f}}}}}}, model.Code{S: model.ReturnS{X: lit("done")}}}}}},
		T("a"), emit(model.Call{Fn: "uf"}), T("b")}
	out["array element"] = []model.Node{T("a"), emit(model.Arr{Els: []model.Expr{lit(1), f, lit(2)}}), T("b")}
	out["hash value"] = []model.Node{T("a"), emit(model.Idx{X: model.Hash{KVs: []model.KV{{K: "p", V: lit(1)}, {K: "q", V: f}}}, I: lit("p")}), T("b")}
	out["index"] = []model.Node{T("a"), emit(model.Idx{X: model.Var{Name: "arr"}, I: f}), T("b")}
	out["indexed operand"] = []model.Node{T("a"), emit(model.Idx{X: model.Arr{Els: []model.Expr{f}}, I: lit(0)}), T("b")}
	out["argument of Go helper"] = []model.Node{T("a"), emit(model.Call{Fn: "id", Args: []model.Expr{f}}), T("b")}
	out["argument of user function"] = []model.Node{model.Code{S: model.LetS{Name: "uf", X: model.FnLit{Params: []string{"x"}, Body: []model.Node{model.Code{S: model.ReturnS{X: lit("ret")}}}}}},
		T("a"), emit(model.Call{Fn: "uf", Args: []model.Expr{f}}), T("b")}
	out["user function body"] = []model.Node{model.Code{S: model.LetS{Name: "uf", X: model.FnLit{Body: []model.Node{model.Code{S: model.ReturnS{X: f}}}}}}, T("a"), emit(model.Call{Fn: "uf"}), T("b")}
	out["user function defined, not called"] = []model.Node{model.Code{S: model.LetS{Name: "uf", X: model.FnLit{Body: []model.Node{model.Code{S: model.ReturnS{X: f}}}}}}, T("a"), T("b")}
	out["block of a block helper"] = []model.Node{T("a"), model.EmitBlock{Helper: "blk", Body: []model.Node{T("x"), emit(f)}}, T("b")}
	out["contentFor block rendered by contentOf"] = []model.Node{T("a"), model.ContentFor{Name: "cf", Body: []model.Node{T("x"), emit(f)}}, T("m"), model.EmitContentOf{Name: "cf", Data: []model.KV{}}, T("b")}
	out["contentFor block never rendered"] = []model.Node{T("a"), model.ContentFor{Name: "cf", Body: []model.Node{T("x"), emit(f)}}, T("b")}
	out["contentOf data value"] = []model.Node{T("a"), model.ContentFor{Name: "cf", Body: []model.Node{T("x")}}, model.EmitContentOf{Name: "cf", Data: []model.KV{{K: "d", V: f}}}, T("b")}
	out["partial data value"] = []model.Node{T("a"), model.EmitPartial{Name: "okpart", Data: []model.KV{{K: "d", V: f}}}, T("b")}
	out["partial body"] = []model.Node{T("a"), model.EmitPartial{Name: "badpart", Data: []model.KV{}}, T("b")}
	out["partial body nested"] = []model.Node{T("a"), model.EmitPartial{Name: "outerpart", Data: []model.KV{}}, T("b")}
	out["after a lot of output"] = []model.Node{T(strings.Repeat("lots of output ", 50)), emit(lit("x")), emit(f)}
	// else-if chains in which the failing condition is followed by further clauses
	out["else-if condition followed by else"] = []model.Node{T("a"), model.EmitIf{If: &model.If{Cond: lit(false), Then: []model.Node{T("T")}, ElseIfs: []model.ElseIf{{Cond: f, Then: []model.Node{T("E")}}}, HasElse: true, Else: []model.Node{T("F")}}}, T("b")}
	out["else-if condition followed by else-if"] = []model.Node{T("a"), model.EmitIf{If: &model.If{Cond: lit(false), Then: []model.Node{T("T")}, ElseIfs: []model.ElseIf{{Cond: f, Then: []model.Node{T("E")}}, {Cond: lit(true), Then: []model.Node{T("G")}}}}}, T("b")}
	out["second else-if condition, then else"] = []model.Node{T("a"), model.EmitIf{If: &model.If{Cond: lit(false), Then: []model.Node{T("T")}, ElseIfs: []model.ElseIf{{Cond: model.Var{Name: "unset"}, Then: []model.Node{T("E")}}, {Cond: f, Then: []model.Node{T("G")}}}, HasElse: true, Else: []model.Node{T("F")}}}, T("b")}
	out["silent else-if condition followed by else"] = []model.Node{T("a"), model.Code{S: model.IfS{If: &model.If{Cond: lit(false), Then: []model.Node{T("T")}, ElseIfs: []model.ElseIf{{Cond: f, Then: []model.Node{T("E")}}}, HasElse: true, Else: []model.Node{T("F")}}}}, T("b")}
	// ONE call site evaluated SEVERAL times in one render (loops, calls, replays of stored blocks): a fault with a history
	// (flaky2, flaky3) fails on a later evaluation only
	call := func(args ...model.Expr) model.Expr { return model.Call{Fn: "uf", Args: args} }
	ufDef := func(params []string, body ...model.Node) model.Node {
		return model.Code{S: model.LetS{Name: "uf", X: model.FnLit{Params: params, Body: body}}}
	}
	loop3 := func(body ...model.Node) model.Node {
		return model.EmitFor{For: &model.For{Val: "v", Iter: model.Var{Name: "arr"}, Body: body}}
	}
	out["user function called three times"] = []model.Node{ufDef(nil, model.Code{S: model.ReturnS{X: f}}), T("a"), emit(call()), T("m"), emit(call()), emit(call()), T("b")}
	out["user function called three times as a condition"] = []model.Node{ufDef(nil, model.Code{S: model.ReturnS{X: f}}), T("a"), loop3(model.EmitIf{If: &model.If{Cond: call(), Then: []model.Node{T("T")}, HasElse: true, Else: []model.Node{T("F")}}}), T("b")}
	out["user function body rendering, called three times"] = []model.Node{ufDef(nil, T("x"), emit(f)), T("a"), emit(call()), emit(call()), emit(call()), T("b")}
	out["recursive user function, innermost call"] = []model.Node{ufDef([]string{"n"}, model.Code{S: model.IfS{If: &model.If{Cond: model.Bin{Op: "==", L: model.Var{Name: "n"}, R: lit(0)}, Then: []model.Node{model.Code{S: model.ReturnS{X: f}}}}}},
		model.Code{S: model.ReturnS{X: call(model.Bin{Op: "-", L: model.Var{Name: "n"}, R: lit(1)})}}), T("a"), emit(call(lit(3))), T("b")}
	out["recursive user function, every level"] = []model.Node{ufDef([]string{"n"}, model.Code{S: model.LetS{Name: "z", X: f}}, model.Code{S: model.IfS{If: &model.If{Cond: model.Bin{Op: "==", L: model.Var{Name: "n"}, R: lit(0)}, Then: []model.Node{model.Code{S: model.ReturnS{X: lit("end")}}}}}},
		model.Code{S: model.ReturnS{X: call(model.Bin{Op: "-", L: model.Var{Name: "n"}, R: lit(1)})}}), T("a"), emit(call(lit(3))), T("b")}
	out["partial rendered three times"] = []model.Node{T("a"), model.EmitPartial{Name: "badpart", Data: []model.KV{}}, T("m"), model.EmitPartial{Name: "badpart", Data: []model.KV{}}, model.EmitPartial{Name: "badpart", Data: []model.KV{}}, T("b")}
	out["partial rendered in a loop"] = []model.Node{T("a"), loop3(model.EmitPartial{Name: "badpart", Data: []model.KV{}}), T("b")}
	out["nested partial rendered in a loop"] = []model.Node{T("a"), loop3(model.EmitPartial{Name: "outerpart", Data: []model.KV{}}), T("b")}
	out["contentOf rendered three times"] = []model.Node{T("a"), model.ContentFor{Name: "cf", Body: []model.Node{T("x"), emit(f)}}, model.EmitContentOf{Name: "cf", Data: []model.KV{}}, T("m"), model.EmitContentOf{Name: "cf", Data: []model.KV{}}, model.EmitContentOf{Name: "cf", Data: []model.KV{}}, T("b")}
	out["block helper in a loop"] = []model.Node{T("a"), loop3(model.EmitBlock{Helper: "blk", Body: []model.Node{T("x"), emit(f)}}), T("b")}
	out["nested loops body"] = []model.Node{T("a"), model.EmitFor{For: &model.For{Val: "v", Iter: model.Var{Name: "two"}, Body: []model.Node{model.EmitFor{For: &model.For{Val: "w", Iter: model.Var{Name: "two"}, Body: []model.Node{T("x"), emit(f)}}}}}}, T("b")}
	out["loop in a function called twice"] = []model.Node{ufDef(nil, model.EmitFor{For: &model.For{Val: "v", Iter: model.Var{Name: "two"}, Body: []model.Node{T("x"), model.Code{S: model.LetS{Name: "z", X: f}}}}}), T("a"), emit(call()), emit(call()), T("b")}
	out["if condition in a loop"] = []model.Node{T("a"), loop3(model.EmitIf{If: &model.If{Cond: f, Then: []model.Node{T("T")}, HasElse: true, Else: []model.Node{T("F")}}}), T("b")}
	out["else-if condition in a loop, followed by else"] = []model.Node{T("a"), loop3(model.EmitIf{If: &model.If{Cond: lit(false), Then: []model.Node{T("T")}, ElseIfs: []model.ElseIf{{Cond: f, Then: []model.Node{T("E")}}}, HasElse: true, Else: []model.Node{T("F")}}}), T("b")}
	out["operand of ! in a loop"] = []model.Node{T("a"), loop3(emit(model.Not{X: f})), T("b")}
	for _, op := range []string{"==", "!=", "&&", "||"} {
		out["left of "+op+" in a loop"] = []model.Node{T("a"), loop3(emit(model.Bin{Op: op, L: f, R: model.Var{Name: "unset"}})), T("b")}
		out["right of "+op+" in a loop, left unknown"] = []model.Node{T("a"), loop3(emit(model.Bin{Op: op, L: model.Var{Name: "unset"}, R: f})), T("b")}
	}
	out["array element in a loop"] = []model.Node{T("a"), loop3(emit(model.Arr{Els: []model.Expr{lit(1), f}})), T("b")}
	out["hash value in a loop"] = []model.Node{T("a"), loop3(emit(model.Idx{X: model.Hash{KVs: []model.KV{{K: "p", V: f}}}, I: lit("p")})), T("b")}
	out["argument of Go helper in a loop"] = []model.Node{T("a"), loop3(emit(model.Call{Fn: "id", Args: []model.Expr{f}})), T("b")}
	out["let value in a silent loop"] = []model.Node{T("a"), model.Code{S: model.ForS{For: &model.For{Val: "v", Iter: model.Var{Name: "arr"}, Body: []model.Node{model.Code{S: model.LetS{Name: "z", X: f}}}}}}, T("b")}
	out["map loop body, every entry"] = []model.Node{T("a"), model.Code{S: model.ForS{For: &model.For{Key: "k", Val: "v", Iter: model.Var{Name: "mp"}, Body: []model.Node{model.Code{S: model.LetS{Name: "z", X: f}}}}}}, T("b")}
	out["custom iterator loop body, every element"] = []model.Node{T("a"), model.Code{S: model.ForS{For: &model.For{Val: "v", Iter: model.Var{Name: "it"}, Body: []model.Node{model.Code{S: model.LetS{Name: "z", X: f}}}}}}, T("b")}
	out["range loop body, every element"] = []model.Node{T("a"), model.EmitFor{For: &model.For{Val: "v", Iter: rng, Body: []model.Node{T("x"), emit(model.Bin{Op: "+", L: f, R: lit(1)})}}}, T("b")}
	return out
}

func partialsFor(f model.Expr) map[string][]model.Node {
	T := func(s string) model.Node { return model.Text{S: s} }
	return map[string][]model.Node{
		"okpart":    {T("[ok]")},
		"badpart":   {T("[bad "), model.Emit{X: f}, T("]")},
		"outerpart": {T("[outer "), model.EmitPartial{Name: "badpart", Data: []model.KV{}}, T("]")},
	}
}

const rule = "(E1, mini-AST + reference interpreter) each of 8 faults - a helper returning a sentinel error, 1/0, 1 + \"a\", arr[99], an unknown identifier, a helper whose error WRAPS an unknown-identifier error (as a nested render does), helpers with a HISTORY that return 1 until their 2nd / 3rd invocation of the render and fail from then on - planted at each of 102 syntactic positions: either operand of all 13 operators, short-circuited operands, !, emitted, silent tag, let / assignment value, if / else-if condition (reached, not reached, followed by else / by a further else-if, second else-if after an unknown one, silent), taken / untaken / else branch body, silent if body, loop iterable / body / second iteration / empty loop / silent loop, loops over the built-in range iterator and a custom Iterator (body, last iteration, every element, silent body inside a function), a map loop in which one / no / every entry reaches the fault (repeated, any visiting order), array element, hash value, index, argument of Go helper / user function, user function body (called / not called), block of a block helper, contentFor block rendered / never rendered by contentOf, contentOf / partial data value, partial body, nested partial body, after 750 bytes of output; and ONE call site evaluated SEVERAL times in one render: a user function called three times (emitted, as a condition, rendering), recursion (innermost level / every level), a partial / nested partial three times and in a loop, a stored block rendered three times, a helper block in a loop, nested loops, a loop in a function called twice, if / else-if conditions and operands of ! == != && || (either side, other side unknown) in a loop, array element / hash value / helper argument / let value in a loop. (R1) random well-formed programs over all constructs in which about one leaf in seven is one of these faults; (R2) the same wrapped so that the whole program is evaluated more than once in one render (body of a loop over a slice / range / a custom iterator / a map, of a function called twice, of a partial, a stored block or a helper block used twice). Oracle for E1 R1 R2: the statement's own (failing helper invoked => non-nil error, errors.Is(err, original), empty output) plus, in both directions, the reference interpreter: the render fails exactly when the reference says a fault is evaluated outside the tolerated positions (unknown identifier as condition or operand of ! == != && ||), and otherwise renders the reference output. (E2, raw templates for what the mini-AST cannot spell) 78 faults x 293 hand-written positions. Faults: instrumented failing helpers of every signature and error type (variadic, error-only result, three results, typed error, errors that are values - a field-less struct, int and string kinds holding 0 and \"\", a struct with zero fields: the zero value of a type is still an error -, a BARE *ErrUnknownIdentifier, one wrapping it, given a block, value / pointer / field / element / chained methods, member / index / call / method of a failing result, failing helper as a fixed parameter, in the fixed head and in the tail of a variadic helper, in an options map, as argument of a method, a partial whose feeder / body / layout fails or whose layout is missing, a nested Render through the helper context, a failing block of a block helper / of htmlEscape / default block of contentOf, a function literal called on the spot, a helper held in a variable), helpers that panic (with a string / with an error: failure and empty output asserted, not errors.Is), failing operations (division by a zero variable, float division by zero, mismatched operands, out-of-range / string / int-target indexing, call of a non-function, too many / wrongly typed arguments, missing field / method, member of a string, bad regular expression, missing contentOf block, len of an int, groupBy(0), pathFor(nil), toJSON of a function, loop over an int / a bool / a float; index assignment out of range / into an int / of the wrong element type / with a failing value or index, let with a failing value), and values that cannot be PRINTED (a slice containing itself, String / HTML methods that panic; only in positions seen to print a probe value). That an operation is a fault is not read off the implementation: its baseline (the fault alone in one tag) must fail, otherwise it is dropped and counted - except for ten operations that have no result under any reading (those the reference interpreter fails on, and assignment to an index that does not exist), whose baseline succeeding is itself a violation. Positions: parentheses; ! !! and ! over == / ||; either side of == != && || with the other side 1 / nil / unknown; || and && chains; nestings of the tolerant operators; both sides of the 9 other operators; if conditions (plain, negated, == nil, unknown || it, unknown == it, it && unknown, silent, in one tag), else-if conditions in 8 chain shapes, conditions inside taken branches; branch bodies and return in a branch; array / hash / nested literals; index / second index / index before a member / of a map; arguments of helpers with one, two, variadic, fixed-head-variadic parameters, of methods, in options maps before a helper context, of block helpers, of len raw range truncate capitalize debug toJSON groupBy, nested calls; name / data / layout of a partial, name / data of contentOf, name of contentFor; let, assignment, index assignment (value and index), top-level return; user functions (arguments, return, silent call, as condition / under == / under ! / in an else-if, rendering body, let and condition inside, called through another function, innermost recursion level, passed through a helper); loops over 15 kinds of iterable (slice, typed slice, string slice, Go array, pointer to a slice, array literal, maps with 1 / 3 / int keys, hash literal, range until between groupBy, a custom Iterator) x body / silent body / condition in the body, second iteration only, after continue, before break, inner loop body / iterable, loops inside functions; blocks of helpers (child / same context, silent, rendered twice, with argument, htmlEscape, default block of contentOf with / without data, block in block / loop / function, as a condition), contentFor blocks rendered by contentOf (with data, by a contentOf that has a default block of its own - a failing stored block is not 'nothing stored' -, second use only, inside a block, as a condition, under ==, inside a partial, redefined, defined in a partial and rendered by its layout); partials (body, silent tag, condition, as condition / under == / ! / else-if, silent call, nested 2 and 3 deep, layout before / after yield, body under a layout, layout of a layout, in a loop, second iteration only, in a block, in a function, block / loop / contentFor inside a partial, data used inside); nested Render (plain, as a condition, in a block in a partial); after / before 900 bytes of output, last of 41 tags, after a forgiven unknown identifier, after an identical call site in an untaken branch, on line 5; statement positions (silent tag, branches, loops, function, block, contentFor, partial); 10 OPEN positions where nothing says whether the placeholder is evaluated (arguments beyond a user function's parameters, arguments of calls refused for their arity or an earlier argument's type, of a non-function, of an unknown function: only the statement's own oracle applies there); and 23 positions in which the placeholder is NOT evaluated (short-circuit, untaken branches, later else-ifs, uncalled function, after return / break / continue, empty loops, never-rendered contentFor / partial / block, default block of contentOf when the contentFor exists, shadowed contentFor), where the render must succeed with the given text. Every position's claim is validated with a helper that simply succeeds (it must run / must not run), else the position is dropped and counted. (E3) 65 call sites evaluated N = 2..4 times in one render (loops over 13 kinds of iterable x body / condition / operand of ==, identical sites, operands, elements, arguments, functions, recursion, blocks rendered twice / in loops, stored blocks and partials used three times, layouts, nested Render) x the invocation K = 1..N+1 on which the helper fails (K <= N must fail, K = N+1 must render the given text) x 9 entry points. (E4) ONE call site whose CALLEE changes between evaluations: helpers that cannot fail, of four result types, and then one of 11 failing helpers, through a template function applied to helpers, a loop over helpers, a variable rebound in a loop, a hash of helpers and a condition, x 3 entry points. (R3) random (position, fault) through the other entry points: Template.Exec after a healthy Exec of the same Template (helpers succeed, divisor non-zero), Exec twice, Clone, Render with the template cache on after a healthy / a failing render, RenderR, BuffaloRenderer, data in the outer context. Oracle for E2 E3 R3: the statement's own, plus the construction of the position (placeholder evaluated => the render fails; not evaluated => it renders the given text). Non-trivial = the program contains a fault (reached or not); distinct by template + partial texts (E1 R1 R2) or by position + fault + entry point (E2 E3 R3)."

func setup(t *testing.T) *vk.Run {
	r := vk.Start(t, "C05", rule,
		"the reference interpreter decides which positions are evaluated (short-circuit, untaken branches, uncalled functions) and which faults are tolerated",
		"error identity is checked with errors.Is against one sentinel value returned by the instrumented helper")
	r.Replayer("fault", func(raw json.RawMessage) *vk.Fail {
		var c Case
		if f := vk.Decode(raw, &c); f != nil {
			return f
		}
		prog, err := model.Decode(c.Prog)
		if err != nil {
			return &vk.Fail{Kind: "decode", Msg: err.Error()}
		}
		parts := map[string][]model.Node{}
		for n, raw := range c.Partials {
			body, err := model.Decode(raw)
			if err != nil {
				return &vk.Fail{Kind: "decode", Msg: err.Error()}
			}
			parts[n] = body
		}
		return run(r, prog, parts, "replay")
	})
	r.Replayer("raw", func(raw json.RawMessage) *vk.Fail {
		var c RawCase
		if f := vk.Decode(raw, &c); f != nil {
			return f
		}
		return runRaw(r, c, "replay")
	})
	return r
}

func TestReplay(t *testing.T) { setup(t).ReplayEnv() }

var faultNames = []string{"boom()", "1/0", `1+"a"`, "arr[99]", "unknown identifier", "helper error wrapping an unknown-identifier error", "helper failing on its 2nd invocation", "helper failing on its 3rd invocation"}

func TestProp(t *testing.T) {
	r := setup(t)
	defer r.Finish()
	r.ReplayCommitted()

	var cells int64
	for fi, f := range []model.Expr{boom, divZero, mixed, oob, unknown, wrapunk, flaky2, flaky3} {
		pos := positions(f)
		var keys []string
		for k := range pos {
			keys = append(keys, k)
		}
		sort.Strings(keys)
		for _, k := range keys {
			reps := 1
			if strings.HasPrefix(k, "map loop") {
				reps = 8 // the visiting order of a Go map varies: give every order a chance
			}
			for rep := 0; rep < reps; rep++ {
				if r.Mine(cells) {
					r.Check(run(r, pos[k], partialsFor(f), "position/"+faultNames[fi]))
				}
				cells++
			}
		}
	}
	r.Subspace(fmt.Sprintf("%d fault kinds x %d syntactic positions (mini-AST; each map-loop position 8 times)", len(faultNames), len(positions(boom))), cells, true)

	r.Rapid("programs", r.Pick(5000, 50000), func(t *rapid.T) *vk.Fail {
		g := progs.New(t, progs.Options{MaxDepth: 3, FaultRate: rapid.SampledFrom([]int{4, 7, 15}).Draw(t, "rate"), Faults: faults})
		prog := g.Nodes(3, false)
		return run(r, prog, g.Partials, "random")
	})

	// the same random program evaluated SEVERAL times within one render: as the body of a loop (slice, range iterator,
	// custom iterator, map), of a function called twice, of a partial / stored block / helper block used twice
	r.Rapid("programs-repeated", r.Pick(3000, 25000), func(t *rapid.T) *vk.Fail {
		g := progs.New(t, progs.Options{MaxDepth: 2, FaultRate: rapid.SampledFrom([]int{5, 9, 20}).Draw(t, "rate"), Faults: faults})
		prog := g.Nodes(2, false)
		kind := rapid.SampledFrom(repeatKinds).Draw(t, "repeat")
		prog, parts := repeated(kind, prog, g.Partials)
		return run(r, prog, parts, "repeated/"+kind)
	})

	// RAW: hand-written positions x faults of every signature (E), then the same through the other entry points (R)
	pos := validPositions(r)
	cells = 0
	for _, p := range pos {
		for _, f := range rawFaults {
			c, ok := mkRaw(p, f)
			if !ok {
				continue
			}
			if r.Mine(cells) {
				r.Check(runRaw(r, c, "raw/"+kindOf(f)))
			}
			cells++
		}
	}
	r.Subspace(fmt.Sprintf("raw: %d positions x %d faults (statement faults in statement positions only)", len(pos), len(rawFaults)), cells, true)
	fps := flakyPositions()
	cells = 0
	for _, p := range fps {
		for k := 1; k <= p.N+1; k++ {
			for _, e := range rawEntries {
				c := mkFlaky(p, k)
				c.Entry = e
				if r.Mine(cells) {
					r.Check(runRaw(r, c, "raw/history"))
				}
				cells++
			}
		}
	}
	r.Subspace(fmt.Sprintf("raw: %d call sites evaluated N times x failing invocation 1..N+1 x %d entry points", len(fps), len(rawEntries)), cells, true)
	// ONE call site whose CALLEE changes between evaluations: first helpers that cannot fail (other result types), then a
	// failing one - through a template function applied to helpers, a loop over helpers, a variable rebound in a loop
	cells = 0
	for _, h := range []string{"boom", "boomv", "onlyerr", "three", "terr", "zerr0", "zerr1", "zerr4", "verr", "bareunk", "wrapunk"} {
		for _, okh := range []string{"okplain", "okint", "okvoid", "okany"} {
			for ti, tmpl := range []string{
				`<% let call = fn(h) { return h() } %>a<%= call(OK) %>|<%= call(OK) %>|<%= call(BAD) %>b`,
				`a<%= for (h) in [OK, OK, BAD, OK] { %><%= h() %>;<% } %>b`,
				`<% let h = OK %>a<%= for (i) in [1, 2, 3] { %><%= h() %>;<% h = BAD %><% } %>b`,
				`<% let call = fn(h) { %>[<%= h() %>]<% } %>a<%= call(OK) %><%= call(BAD) %>b`,
				`<% let hs = {a: OK, b: BAD} %>a<%= hs["a"]() %><%= hs["a"]() %><%= hs["b"]() %>b`,
				`a<%= for (h) in [OK, BAD] { %><%= if (h()) { %>T<% } else { %>F<% } %><% } %>b`,
			} {
				for _, e := range []string{"", "exec twice", "cached render twice"} {
					t := strings.ReplaceAll(strings.ReplaceAll(tmpl, "OK", okh), "BAD", h)
					c := RawCase{Pos: fmt.Sprintf("one call site, callee %s then %s, shape %d", okh, h, ti+1), Fault: h + "()", Tmpl: t, Baseline: "<%= " + h + "() %>", Helper: true, MustFail: true, Entry: e}
					if r.Mine(cells) {
						r.Check(runRaw(r, c, "raw/callee-changes"))
					}
					cells++
				}
			}
		}
	}
	r.Subspace("raw: one call site whose callee changes - 4 helpers that cannot fail (string, int, no result, interface{}) then one of 11 failing helpers x 6 shapes (template function applied to helpers, loop over helpers, variable rebound in a loop, hash of helpers, as a condition) x 3 entry points", cells, true)
	r.Rapid("raw-entries", r.Pick(2500, 25000), func(t *rapid.T) *vk.Fail {
		p := pos[rapid.IntRange(0, len(pos)-1).Draw(t, "pos")]
		f := rawFaults[rapid.IntRange(0, len(rawFaults)-1).Draw(t, "fault")]
		c, ok := mkRaw(p, f)
		if !ok {
			c, _ = mkRaw(p, rawFaults[0])
		}
		c.Entry = rawEntries[rapid.IntRange(1, len(rawEntries)-1).Draw(t, "entry")]
		return runRaw(r, c, "raw-entry/"+c.Entry)
	})
}

func kindOf(f rawFault) string {
	switch {
	case f.NoIs:
		return "panicking helper"
	case f.Helper:
		return "failing helper"
	case f.EmitOnly:
		return "unprintable value"
	}
	return "failing operation"
}

var repeatKinds = []string{"loop over a slice", "loop over range", "loop over a custom iterator", "loop over a map", "function called twice", "partial rendered twice", "stored block rendered twice", "helper block in a loop"}

// repeated wraps a program so that it is evaluated more than once in one render.
func repeated(kind string, prog []model.Node, partials map[string][]model.Node) ([]model.Node, map[string][]model.Node) {
	loop := func(iter model.Expr, key string) []model.Node {
		return []model.Node{model.Text{S: "<"}, model.EmitFor{For: &model.For{Key: key, Val: "rv", Iter: iter, Body: prog}}, model.Text{S: ">"}}
	}
	switch kind {
	case "loop over a slice":
		return loop(model.Var{Name: "two"}, ""), partials
	case "loop over range":
		return loop(model.Call{Fn: "range", Args: []model.Expr{model.Lit{V: 1}, model.Lit{V: 2}}}, ""), partials
	case "loop over a custom iterator":
		return loop(model.Var{Name: "it"}, "rk"), partials
	case "loop over a map":
		return loop(model.Var{Name: "mp"}, "rk"), partials
	case "function called twice":
		return []model.Node{model.Code{S: model.LetS{Name: "rf", X: model.FnLit{Body: prog}}}, model.Text{S: "<"}, model.Emit{X: model.Call{Fn: "rf"}}, model.Text{S: "|"}, model.Emit{X: model.Call{Fn: "rf"}}, model.Text{S: ">"}}, partials
	case "partial rendered twice":
		ps := map[string][]model.Node{"rpart": prog}
		for n, b := range partials {
			ps[n] = b
		}
		return []model.Node{model.Text{S: "<"}, model.EmitPartial{Name: "rpart", Data: []model.KV{}}, model.Text{S: "|"}, model.EmitPartial{Name: "rpart", Data: []model.KV{}}, model.Text{S: ">"}}, ps
	case "stored block rendered twice":
		return []model.Node{model.ContentFor{Name: "rcf", Body: prog}, model.Text{S: "<"}, model.EmitContentOf{Name: "rcf", Data: []model.KV{}}, model.Text{S: "|"}, model.EmitContentOf{Name: "rcf", Data: []model.KV{}}, model.Text{S: ">"}}, partials
	case "helper block in a loop":
		return []model.Node{model.Text{S: "<"}, model.EmitFor{For: &model.For{Val: "rv", Iter: model.Var{Name: "two"}, Body: []model.Node{model.EmitBlock{Helper: "blk", Body: prog}}}}, model.Text{S: ">"}}, partials
	}
	panic("c05: unknown repeat kind " + kind)
}

// =====================================================================================================
// RAW phase: shapes the mini-AST cannot spell (methods, member chains, typed and variadic signatures, index
// assignment, built-in block helpers, layouts, help.Render, entry points other than Render). The templates are
// written by hand with one placeholder; the oracle is the statement's own plus what the construction of the
// position says (the placeholder IS evaluated => the render fails; it is NOT evaluated => it renders the given text).
// =====================================================================================================

// typed error values a helper may return: the original must be found with errors.Is whatever its type
type codeErr struct{ code int }

func (e *codeErr) Error() string { return fmt.Sprintf("code %d", e.code) }

// errors that are VALUES, among them the zero value of their type: an error is one because the interface is not nil
type emptyErr struct{}

func (emptyErr) Error() string { return "empty struct error" }

type numErr int

func (e numErr) Error() string { return fmt.Sprintf("numErr %d", int(e)) }

type strErr string

func (e strErr) Error() string { return "strErr:" + string(e) }

type recErr struct {
	Code int
	Msg  string
}

func (e recErr) Error() string { return fmt.Sprintf("recErr %d %s", e.Code, e.Msg) }

// rawFix is the instrumented world of one render.
type rawFix struct {
	healthy bool  // the instrumented helpers succeed (used for the first of two evaluations of one template)
	inv     int   // failing helpers that were invoked and returned an error
	pan     int   // helpers that were invoked and panicked
	tick    int   // invocations of tick()
	calls   int   // invocations of flaky()
	printed int   // times the probe value tp was printed
	orig    error // the error the (first) failing helper returned
}

// values that cannot be printed: emitting them is the failing operation
type badStringer struct{}

func (badStringer) String() string { panic("String() of this value panics") }

type badHTMLer struct{}

func (badHTMLer) HTML() template.HTML { panic("HTML() of this value panics") }

// printProbe counts how often it is printed (to validate which positions print the value of their output tag)
type printProbe struct{ fx *rawFix }

func (p *printProbe) String() string { p.fx.printed++; return "P" }

func (fx *rawFix) failWith(e error) error {
	fx.inv++
	if fx.orig == nil {
		fx.orig = e
	}
	return e
}

type rawObj struct {
	fx    *rawFix
	Name  string
	Inner *rawObj
}

func (o rawObj) Fail() (string, error) {
	if o.fx.healthy {
		return "ok", nil
	}
	return "", o.fx.failWith(sentinel)
}
func (o *rawObj) PFail() (string, error)  { return rawObj.Fail(*o) }
func (o rawObj) Self() rawObj             { return o }
func (o rawObj) Get(i interface{}) string { return "g" }
func (o rawObj) FailObj() (*rawObj, error) {
	if o.fx.healthy {
		return &rawObj{fx: o.fx, Name: "n"}, nil
	}
	return nil, o.fx.failWith(sentinel)
}

// fixed partials of the raw world
var rawPartials = map[string]string{
	"ok":     "[ok]",
	"lay":    "{<%= yield %>}",
	"bad":    "[bad <%= boom() %>]",
	"badlay": "{<%= yield %><%= boom() %>}",
	"usecf":  "[<%= contentOf(\"cf\") %>]",
}

func (fx *rawFix) data(c *RawCase) map[string]interface{} {
	failing := func(e error) (interface{}, error) {
		if fx.healthy {
			return 1, nil
		}
		return nil, fx.failWith(e)
	}
	inner := &rawObj{fx: fx, Name: "in"}
	blockIn := func(child bool) func(help plush.HelperContext) (template.HTML, error) {
		return func(help plush.HelperContext) (template.HTML, error) {
			var s string
			var err error
			if child {
				s, err = help.BlockWith(help.New())
			} else {
				s, err = help.Block()
			}
			return template.HTML(s), err
		}
	}
	d := map[string]interface{}{
		// instrumented failing helpers, one per signature / error type
		"boom":    func() (interface{}, error) { return failing(sentinel) },
		"boomv":   func(a ...interface{}) (interface{}, error) { return failing(sentinel) },
		"onlyerr": func() error { _, err := failing(sentinel); return err },
		"three":   func() (int, string, error) { _, err := failing(sentinel); return 1, "x", err },
		"terr":    func() (string, error) { _, err := failing(&codeErr{7}); return "v", err },
		"zerr0":   func() (string, error) { _, err := failing(emptyErr{}); return "nobody", err },
		"zerr1":   func() (string, error) { _, err := failing(numErr(0)); return "nobody", err },
		"zerr2":   func() (string, error) { _, err := failing(strErr("")); return "nobody", err },
		"zerr3":   func() (interface{}, error) { return failing(recErr{}) },
		"zerr4":   func() error { _, err := failing(numErr(0)); return err },
		"verr":    func() (string, error) { _, err := failing(recErr{Code: 3}); return "nobody", err },
		"bareunk": func() (interface{}, error) { return failing(&plush.ErrUnknownIdentifier{ID: "inner"}) },
		"wrapunk": func() (interface{}, error) {
			return failing(fmt.Errorf("nested render failed: %w: %w", sentinel, &plush.ErrUnknownIdentifier{ID: "inner"}))
		},
		"boomblk": func(help plush.HelperContext) (template.HTML, error) { _, err := failing(sentinel); return "B", err },
		"pan": func() string {
			if fx.healthy {
				return "ok"
			}
			fx.pan++
			panic("kaboom")
		},
		"panerr": func() string {
			if fx.healthy {
				return "ok"
			}
			fx.pan++
			panic(sentinel)
		},
		// flaky(k): "." until the k-th invocation in this render, which fails (and every later one)
		"flaky": func(k int) (string, error) {
			fx.calls++
			if !fx.healthy && fx.calls >= k {
				return "", fx.failWith(sentinel)
			}
			return ".", nil
		},
		"tick": func() int { fx.tick++; return 1 },
		// helpers that cannot fail, of other types than the failing ones (for call sites whose callee changes)
		"btrue": true, "fl15": 1.5,
		"okplain": func() string { return "." },
		"okint":   func() int { return 1 },
		"okvoid":  func() {},
		"okany":   func() interface{} { return "." },
		// plain helpers of several signatures
		"id":       func(a interface{}) interface{} { return a },
		"idi":      func(a int, b interface{}) interface{} { return a },
		"id2":      func(a, b interface{}) interface{} { return a },
		"vid":      func(a ...interface{}) interface{} { return len(a) },
		"hv":       func(a interface{}, b ...interface{}) interface{} { return a },
		"withmap":  func(m map[string]interface{}) interface{} { return len(m) },
		"withhelp": func(a interface{}, m map[string]interface{}, help plush.HelperContext) interface{} { return a },
		"blkarg": func(a interface{}, help plush.HelperContext) (template.HTML, error) {
			s, err := help.Block()
			return template.HTML(s), err
		},
		"blk":  blockIn(true),
		"blk0": blockIn(false),
		"twice": func(help plush.HelperContext) (template.HTML, error) {
			a, err := help.Block()
			if err != nil {
				return "", err
			}
			b, err := help.BlockWith(help.New())
			return template.HTML(a + b), err
		},
		"neverblk": func(help plush.HelperContext) string { return "N" },
		"rend": func(s string, help plush.HelperContext) (template.HTML, error) {
			r, err := help.Render(s)
			return template.HTML(r), err
		},
		// data
		"obj": rawObj{fx: fx, Name: "o", Inner: inner}, "pobj": &rawObj{fx: fx, Name: "p", Inner: inner},
		"objs":   []rawObj{{fx: fx, Name: "a"}, {fx: fx, Name: "b"}},
		"getobj": func() rawObj { return rawObj{fx: fx, Name: "got"} },
		"arr":    []interface{}{10, 20, 30}, "two": []interface{}{1, 2}, "ints": []int{1, 2, 3}, "garr": [2]int{1, 2},
		"parr": &[]interface{}{1, 2}, "strs": []string{"p", "q"},
		"m": map[string]interface{}{"a": 1}, "m3": map[string]interface{}{"a": 1, "b": 2, "c": 3}, "im": map[int]string{1: "x", 2: "y"},
		"it":     &countIter{n: 3},
		"badstr": badStringer{}, "badhtml": badHTMLer{}, "tp": &printProbe{fx},
		"i0": 0, "i1": 1, "i7": 7, "s3": "plain", "t": true, "f": false, "fl": 1.5,
		"tsrc": c.Tsrc,
		"partialFeeder": func(name string) (string, error) {
			if s, ok := c.Partials[name]; ok {
				return s, nil
			}
			if s, ok := rawPartials[name]; ok {
				return s, nil
			}
			// the application's feeder fails: the partial helper returns this error
			return "", fx.failWith(fmt.Errorf("no partial %q: %w", name, sentinel))
		},
	}
	if c.CT != "" {
		d["contentType"] = c.CT
	}
	self := make([]interface{}, 2)
	self[0], self[1] = "in", self
	d["selfslice"] = self
	if fx.healthy {
		d["dz"] = 1
	} else {
		d["dz"] = 0
	}
	return d
}

type rawFault struct {
	Name   string
	Text   string
	Stmt   bool // stands as a statement only
	Helper bool // an instrumented helper fails: the statement's oracle applies directly
	NoIs   bool // the helper panics: no original error to be found
	// Sure: an operation that has no result whatever the implementation (the reference interpreter, written from the
	// statements, fails on its like: division by zero, index out of range, mismatched operands, a non-iterable, a
	// missing stored block, a bad pattern). Its baseline succeeding is itself a violation; for the others the baseline
	// only decides whether the fault is one.
	Sure bool
	// EmitOnly: a value that cannot be PRINTED; it fails only where an output tag prints it (positions whose
	// placeholders all stand as `<%= @ %>` and that were seen to print a probe value)
	EmitOnly bool
}

// rawFaults: instrumented helpers of every signature and error type, then other failing operations. That an
// operation fails is not taken from the implementation: its baseline `<%= F %>` / `<% F %>` must fail, otherwise the
// fault is dropped (counted as raw/not-a-fault).
var rawFaults = []rawFault{
	{Name: "helper() (interface{}, error)", Text: `boom()`, Helper: true},
	{Name: "variadic helper", Text: `boomv(1, "x")`, Helper: true},
	{Name: "helper() error", Text: `onlyerr()`, Helper: true},
	{Name: "helper() (int, string, error)", Text: `three()`, Helper: true},
	{Name: "helper returning a typed error", Text: `terr()`, Helper: true},
	{Name: "helper returning a field-less struct error", Text: `zerr0()`, Helper: true},
	{Name: "helper returning an int-kind error of value 0", Text: `zerr1()`, Helper: true},
	{Name: "helper returning a string-kind error of value \"\"", Text: `zerr2()`, Helper: true},
	{Name: "helper returning a struct error with zero fields", Text: `zerr3()`, Helper: true},
	{Name: "helper() error returning an int-kind error of value 0", Text: `zerr4()`, Helper: true},
	{Name: "helper returning a struct error by value", Text: `verr()`, Helper: true},
	{Name: "helper returning a bare *ErrUnknownIdentifier", Text: `bareunk()`, Helper: true},
	{Name: "helper error wrapping an unknown-identifier error", Text: `wrapunk()`, Helper: true},
	{Name: "failing helper given a block", Text: `boomblk() { %>x<% }`, Helper: true},
	{Name: "value method", Text: `obj.Fail()`, Helper: true},
	{Name: "pointer method", Text: `pobj.PFail()`, Helper: true},
	{Name: "pointer method on a value", Text: `obj.PFail()`, Helper: true},
	{Name: "method of a field", Text: `obj.Inner.Fail()`, Helper: true},
	{Name: "method of an element", Text: `objs[1].Fail()`, Helper: true},
	{Name: "method of a method result", Text: `obj.Self().Fail()`, Helper: true},
	{Name: "method of a helper result", Text: `getobj().Fail()`, Helper: true},
	{Name: "member of a failing helper's result", Text: `boom().Name`, Helper: true},
	{Name: "member of a failing method's result", Text: `obj.FailObj().Name`, Helper: true},
	{Name: "index of a failing helper's result", Text: `boom()[0]`, Helper: true},
	{Name: "call of a failing helper's result", Text: `boom()()`, Helper: true},
	{Name: "method of a failing method's result", Text: `obj.FailObj().Get(1)`, Helper: true},
	{Name: "failing helper as argument of a method", Text: `obj.Get(boom())`, Helper: true},
	{Name: "failing helper in a fixed parameter", Text: `id2(1, boom())`, Helper: true},
	{Name: "failing helper in the fixed head of a variadic helper", Text: `hv(boom(), 1)`, Helper: true},
	{Name: "failing helper in the variadic tail", Text: `hv(1, 2, boom())`, Helper: true},
	{Name: "failing helper in an options map", Text: `withhelp(1, {k: boom()})`, Helper: true},
	{Name: "partial whose feeder fails", Text: `partial("nofile")`, Helper: true},
	{Name: "partial whose body fails", Text: `partial("bad")`, Helper: true},
	{Name: "partial whose layout fails", Text: `partial("ok", {layout: "badlay"})`, Helper: true},
	{Name: "partial whose layout is missing", Text: `partial("ok", {layout: "nofile"})`, Helper: true},
	{Name: "nested Render through the helper context", Text: `rend("x<" + "%= boom() %" + ">y")`, Helper: true},
	{Name: "failing block of a block helper", Text: `blk() { %>x<%= boom() %><% }`, Helper: true},
	{Name: "failing block of htmlEscape", Text: `htmlEscape("s") { %>x<%= boom() %><% }`, Helper: true},
	{Name: "failing default block of contentOf", Text: `contentOf("nocf") { %>x<%= boom() %><% }`, Helper: true},
	{Name: "failing function literal called on the spot", Text: `fn() { return boom() }()`, Helper: true},
	{Name: "helper held in a variable", Text: `heldboom()`, Helper: true},
	{Name: "panicking helper", Text: `pan()`, Helper: true, NoIs: true},
	{Name: "helper panicking with an error", Text: `panerr()`, Helper: true, NoIs: true},
	// operations (baseline-verified)
	{Name: "division by a zero variable", Text: `i7 / dz`, Sure: true},
	{Name: "float division by zero", Text: `fl / 0.0`},
	{Name: "int + string", Text: `i1 + "a"`, Sure: true},
	{Name: "bool - int", Text: `t - 1`},
	{Name: "nil + int", Text: `nil + 1`},
	{Name: "index out of range", Text: `arr[99]`, Sure: true},
	{Name: "string index into a slice", Text: `arr["x"]`, Sure: true},
	{Name: "index into an int", Text: `i1[0]`},
	{Name: "call of a non-function", Text: `i1()`, Sure: true},
	{Name: "too many arguments", Text: `id(1, 2)`},
	{Name: "argument of the wrong type", Text: `range("a", 2)`},
	{Name: "missing field", Text: `obj.Nope`},
	{Name: "missing method", Text: `obj.Nope()`},
	{Name: "member of a string", Text: `s3.x`},
	{Name: "bad regular expression", Text: `"a" ~= "("`, Sure: true},
	{Name: "missing contentOf block", Text: `contentOf("nocf")`, Sure: true},
	{Name: "len of an int", Text: `len(i1)`},
	{Name: "groupBy of size 0", Text: `groupBy(0, arr)`},
	{Name: "pathFor(nil)", Text: `pathFor(nil)`},
	{Name: "toJSON of a function", Text: `toJSON(id)`},
	{Name: "loop over an int", Text: `for (v) in i1 { %>x<% }`}, // (not Sure: an engine may define ranging over an integer)
	{Name: "loop over a bool", Text: `for (v) in btrue { %>x<% }`, Sure: true},
	{Name: "loop over a float", Text: `for (v) in fl15 { %>x<% }`, Sure: true},
	// values that cannot be printed
	{Name: "printing a slice that contains itself", Text: `selfslice`, EmitOnly: true},
	{Name: "printing a value whose String panics", Text: `badstr`, EmitOnly: true},
	{Name: "printing a value whose HTML panics", Text: `badhtml`, EmitOnly: true},
	{Name: "printing an array holding a value whose String panics", Text: `[1, badstr]`, EmitOnly: true},
	// statements
	{Name: "index assignment out of range", Text: `arr[99] = 1`, Stmt: true, Sure: true},
	{Name: "index assignment into an int", Text: `i1[0] = 1`, Stmt: true},
	{Name: "index assignment of the wrong element type", Text: `ints[0] = "s"`, Stmt: true},
	{Name: "index assignment with a failing value", Text: `arr[0] = boom()`, Stmt: true, Helper: true},
	{Name: "index assignment with a failing index", Text: `arr[boom()] = 1`, Stmt: true, Helper: true},
	{Name: "map entry assignment with a failing value", Text: `m["k"] = boom()`, Stmt: true, Helper: true},
	{Name: "let with a failing value", Text: `let q = boom()`, Stmt: true, Helper: true},
	{Name: "silent loop over an int", Text: `for (v) in i1 { }`, Stmt: true},
}

type rawPos struct {
	Name     string
	Tmpl     string // @ = the fault
	Partials map[string]string
	Tsrc     string // template text handed to help.Render through the variable tsrc
	CT       string // the context's contentType, if any (partials are JavaScript-escaped under a JavaScript one)
	Stmt     bool   // the placeholder stands where a statement stands (any fault fits); otherwise expression faults only
	Ok       string // "" : the placeholder is evaluated, the render must fail; otherwise it is not, and this is the output
	IsOk     bool   // Ok is meaningful even if empty
	Prints   bool   // set by validPositions: every placeholder is the whole of an output tag and a probe value there was printed
	// Open: nothing says whether the placeholder is evaluated here (an argument beyond a function's parameters, an
	// argument of a call that is refused for its arity). Only the statement's own oracle applies: IF the failing
	// helper was invoked the render fails with its error and no output.
	Open bool
}

const heldPrefix = `<% let heldboom = boom %>`

func rawPositions() []rawPos {
	var ps []rawPos
	add := func(name, tmpl string) { ps = append(ps, rawPos{Name: name, Tmpl: tmpl}) }
	ok := func(name, tmpl, out string) { ps = append(ps, rawPos{Name: name, Tmpl: tmpl, Ok: out, IsOk: true}) }
	stmt := func(name, tmpl string) { ps = append(ps, rawPos{Name: name, Tmpl: tmpl, Stmt: true}) }
	part := func(name, tmpl string, partials map[string]string) {
		ps = append(ps, rawPos{Name: name, Tmpl: tmpl, Partials: partials})
	}
	add("emitted", `a<%= @ %>b`)
	add("emitted in parentheses", `a<%= ((@)) %>b`)
	// the tolerant operators: only a bare unknown identifier standing there itself counts as nil
	add("operand of !", `a<%= !(@) %>b`)
	add("operand of !!", `a<%= !!(@) %>b`)
	add("operand of ! over ==", `a<%= !((@) == nil) %>b`)
	add("operand of ! over ||, left unknown", `a<%= !(nosuch || (@)) %>b`)
	for _, op := range []string{"==", "!=", "&&", "||"} {
		add("left of "+op, `a<%= (@) `+op+` 1 %>b`)
		add("left of "+op+", right unknown", `a<%= (@) `+op+` nosuch %>b`)
		add("left of "+op+" nil", `a<%= (@) `+op+` nil %>b`)
	}
	add("right of ==", `a<%= 1 == (@) %>b`)
	add("right of !=", `a<%= 1 != (@) %>b`)
	add("right of == after an unknown", `a<%= nosuch == (@) %>b`)
	add("right of != after an unknown", `a<%= nosuch != (@) %>b`)
	add("right of || after an unknown", `a<%= nosuch || (@) %>b`)
	add("right of && after true", `a<%= t && (@) %>b`)
	add("right of || after false", `a<%= f || (@) %>b`)
	add("last of an || chain", `a<%= f || nosuch || (@) %>b`)
	add("last of an && chain", `a<%= t && i1 && (@) %>b`)
	add("inner || under &&", `a<%= (f || (@)) && t %>b`)
	add("inner && under ==", `a<%= (t && (@)) == nil %>b`)
	add("inner == under ==", `a<%= ((@) == nosuch) == nosuch %>b`)
	ok("right of && after false", `a<%= f && (@) %>b`, "afalseb")
	ok("right of || after true", `a<%= t || (@) %>b`, "atrueb")
	ok("right of && after an unknown", `a<%= nosuch && (@) %>b`, "afalseb")
	ok("after a deciding || chain", `a<%= f || t || (@) %>b`, "atrueb")
	for _, op := range []string{"+", "-", "*", "/", "<", "<=", ">", ">=", "~="} {
		add("left of "+op, `a<%= (@) `+op+` 1 %>b`)
		add("right of "+op, `a<%= 1 `+op+` (@) %>b`)
	}
	add("right of string +", `a<%= "s" + (@) %>b`)
	// conditions
	add("if condition", `a<%= if (@) { %>T<% } else { %>F<% } %>b`)
	add("if condition, negated", `a<%= if (!(@)) { %>T<% } else { %>F<% } %>b`)
	add("if condition == nil", `a<%= if ((@) == nil) { %>T<% } else { %>F<% } %>b`)
	add("if condition, unknown || it", `a<%= if (nosuch || (@)) { %>T<% } else { %>F<% } %>b`)
	add("if condition, unknown == it", `a<%= if (nosuch == (@)) { %>T<% } else { %>F<% } %>b`)
	add("if condition, it && unknown", `a<%= if ((@) && nosuch) { %>T<% } else { %>F<% } %>b`)
	add("silent if condition", `a<% if (@) { %>T<% } %>b`)
	add("silent if condition in one tag", `a<% if (@) { let z = 1 } %>b`)
	add("else-if condition, last clause", `a<%= if (f) { %>T<% } else if (@) { %>E<% } %>b`)
	add("else-if condition, then else", `a<%= if (f) { %>T<% } else if (@) { %>E<% } else { %>F<% } %>b`)
	add("else-if condition, then a true else-if", `a<%= if (f) { %>T<% } else if (@) { %>E<% } else if (t) { %>G<% } %>b`)
	add("else-if condition, then else-if and else", `a<%= if (f) { %>T<% } else if (@) { %>E<% } else if (f) { %>G<% } else { %>F<% } %>b`)
	add("second else-if condition after an unknown one", `a<%= if (nosuch) { %>T<% } else if (nosuch) { %>E<% } else if (@) { %>G<% } else { %>F<% } %>b`)
	add("else-if condition negated, then else", `a<%= if (f) { %>T<% } else if (!(@)) { %>E<% } else { %>F<% } %>b`)
	add("silent else-if condition, then else", `a<% if (f) { %>T<% } else if (@) { %>E<% } else { %>F<% } %>b`)
	add("silent else-if condition in one tag, then else", `a<% if (f) { let z = 1 } else if (@) { let z = 2 } else { let z = 3 } %>b`)
	add("if condition inside a taken branch", `a<%= if (t) { %>x<%= if (@) { %>T<% } %>y<% } %>b`)
	add("if condition inside an else branch", `a<%= if (f) { %>x<% } else { %><%= if (@) { %>T<% } else { %>F<% } %><% } %>b`)
	ok("else-if condition after a true if", `a<%= if (t) { %>T<% } else if (@) { %>E<% } else { %>F<% } %>b`, "aTb")
	ok("else-if condition after a true else-if", `a<%= if (f) { %>T<% } else if (t) { %>E<% } else if (@) { %>G<% } %>b`, "aEb")
	ok("untaken branch", `a<%= if (f) { %><%= @ %><% } %>b`, "ab")
	ok("untaken else", `a<%= if (t) { %>T<% } else { %><%= @ %><% } %>b`, "aTb")
	ok("untaken else-if branch", `a<%= if (f) { %>T<% } else if (f) { %><%= @ %><% } else { %>F<% } %>b`, "aFb")
	add("taken branch", `a<%= if (t) { %>x<%= @ %>y<% } %>b`)
	add("taken else", `a<%= if (f) { %>T<% } else { %>x<%= @ %>y<% } %>b`)
	add("taken else-if branch", `a<%= if (f) { %>T<% } else if (t) { %>x<%= @ %>y<% } else { %>F<% } %>b`)
	add("taken branch after an unknown condition's else", `a<%= if (nosuch) { %>T<% } else { %>x<%= @ %>y<% } %>b`)
	add("return in a taken branch", `a<%= if (t) { return @ } %>b`)
	// literals, indexes
	add("array element", `a<%= [1, @, 2] %>b`)
	add("nested array element", `a<%= [[@]] %>b`)
	add("hash value", `a<%= {a: 1, b: @}["a"] %>b`)
	add("nested hash value", `a<%= {a: {b: @}}["a"] %>b`)
	add("array element inside a hash", `a<%= {a: [@]}["a"] %>b`)
	add("index", `a<%= arr[@] %>b`)
	add("index inside arithmetic", `a<%= arr[0 + (@)] %>b`)
	add("indexed operand", `a<%= [@][0] %>b`)
	add("index of a map", `a<%= m[@] %>b`)
	add("index before a member", `a<%= objs[@].Name %>b`)
	add("second index", `a<%= [[1]][0][@] %>b`)
	// arguments
	add("argument of a one-parameter helper", `a<%= id(@) %>b`)
	add("first of two parameters", `a<%= id2(@, 1) %>b`)
	add("second of two parameters", `a<%= id2(1, @) %>b`)
	add("only argument of a variadic helper", `a<%= vid(@) %>b`)
	add("third argument of a variadic helper", `a<%= vid(1, 2, @) %>b`)
	add("fixed head of a variadic helper", `a<%= hv(@) %>b`)
	add("fixed head of a variadic helper, tail present", `a<%= hv(@, 1, 2) %>b`)
	add("variadic tail after the fixed head", `a<%= hv(1, @) %>b`)
	add("argument of a method", `a<%= obj.Get(@) %>b`)
	add("argument of a method of a field", `a<%= obj.Inner.Get(@) %>b`)
	add("value in an options map", `a<%= withmap({k: @}) %>b`)
	add("argument before options map and helper context", `a<%= withhelp(@, {k: 1}) %>b`)
	add("options map value before the helper context", `a<%= withhelp(1, {k: @}) %>b`)
	add("argument of a block helper", `a<%= blkarg(@) { %>x<% } %>b`)
	add("argument of len", `a<%= len(@) %>b`)
	add("argument of raw", `a<%= raw(@) %>b`)
	add("argument of range", `a<%= for (v) in range(1, @) { %>x<% } %>b`)
	add("argument of truncate", `a<%= truncate(@, {size: 3}) %>b`)
	add("option of truncate", `a<%= truncate("abcdef", {size: @}) %>b`)
	add("argument of a helper called in an argument", `a<%= id(id2(1, id(@))) %>b`)
	add("name of a partial", `a<%= partial(@) %>b`)
	add("name of a contentOf", `a<%= contentOf(@) %>b`)
	add("data of a partial", `a<%= partial("ok", {d: @}) %>b`)
	add("layout of a partial, as an expression", `a<%= partial("ok", {layout: @}) %>b`)
	add("name of a contentFor", `a<% contentFor(@) { %>x<% } %>b`)
	add("argument of an inflection helper", `a<%= capitalize(@) %>b`)
	add("argument of debug", `a<%= debug(@) %>b`)
	add("argument of toJSON", `a<%= toJSON(@) %>b`)
	add("argument of groupBy", `a<%= for (v) in groupBy(2, @) { %>x<% } %>b`)
	add("data of a contentOf", `<% contentFor("cf") { %>C<% } %>a<%= contentOf("cf", {d: @}) %>b`)
	// variables
	add("let value", `a<% let z = @ %>b`)
	add("assignment value", `<% let z = 1 %>a<% z = @ %>b`)
	add("let value inside a block", `a<% if (t) { let z = @ } %>b`)
	add("index assignment value", `a<% arr[0] = @ %>b`)
	add("index assignment index", `a<% arr[@] = 1 %>b`)
	add("map entry assignment value", `a<% m["k"] = @ %>b`)
	add("returned at the top", `a<% return @ %>b`)
	// user functions
	add("argument of a user function", `<% let uf = fn(x) { return "r" } %>a<%= uf(@) %>b`)
	add("second argument of a user function", `<% let uf = fn(x, y) { return x } %>a<%= uf(1, @) %>b`)
	add("returned by a user function", `<% let uf = fn() { return @ } %>a<%= uf() %>b`)
	add("returned by a user function, silent call", `<% let uf = fn() { return @ } %>a<% uf() %>b`)
	add("returned by a user function used as a condition", `<% let uf = fn() { return @ } %>a<%= if (uf()) { %>T<% } else { %>F<% } %>b`)
	add("returned by a user function under ==", `<% let uf = fn() { return @ } %>a<%= uf() == nil %>b`)
	add("returned by a user function under !", `<% let uf = fn() { return @ } %>a<%= !uf() %>b`)
	add("returned by a user function in an else-if, then else", `<% let uf = fn() { return @ } %>a<%= if (f) { %>T<% } else if (uf()) { %>E<% } else { %>F<% } %>b`)
	add("rendered by a user function", `<% let uf = fn() { %>x<%= @ %>y<% } %>a<%= uf() %>b`)
	add("let in a user function", `<% let uf = fn() { let z = @
return "r" } %>a<%= uf() %>b`)
	add("condition in a user function", `<% let uf = fn() { if (@) { return "T" }
return "F" } %>a<%= uf() %>b`)
	add("user function called by a user function", `<% let g = fn() { return @ } %><% let uf = fn() { return g() } %>a<%= uf() %>b`)
	add("innermost level of a recursion", `<% let uf = fn(n) { if (n == 0) { return @ }
return uf(n - 1) } %>a<%= uf(5) %>b`)
	add("user function passed to a helper and back", `<% let uf = fn() { return @ } %><% let g = id(uf) %>a<%= g() %>b`)
	ok("user function never called", `<% let uf = fn() { return @ } %>ab`, "ab")
	ok("after a return in a user function", "<% let uf = fn() { return \"r\"\n@ } %>a<%= uf() %>b", "arb")
	// loops
	add("loop iterable", `a<%= for (v) in @ { %>x<% } %>b`)
	add("element of a literal iterable", `a<%= for (v) in [1, @] { %>x<% } %>b`)
	add("value of a hash iterable", `a<% for (k, v) in {p: @} { %>x<% } %>b`)
	for _, it := range []struct{ name, expr string }{
		{"a slice", "two"}, {"a typed slice", "ints"}, {"a string slice", "strs"}, {"a Go array", "garr"}, {"a pointer to a slice", "parr"},
		{"an array literal", "[1, 2]"}, {"a one-entry map", "m"}, {"a three-entry map", "m3"}, {"an int-keyed map", "im"}, {"a hash literal", "{p: 1, q: 2}"},
		{"range", "range(1, 3)"}, {"until", "until(3)"}, {"between", "between(0, 4)"}, {"groupBy", "groupBy(2, arr)"}, {"a custom iterator", "it"},
	} {
		add("body of a loop over "+it.name, `a<%= for (k, v) in `+it.expr+` { %>x<%= @ %><% } %>b`)
		add("silent body of a loop over "+it.name, `a<% for (v) in `+it.expr+` { let z = @ } %>b`)
		add("condition in the body of a loop over "+it.name, `a<%= for (v) in `+it.expr+` { %><%= if (@) { %>T<% } else { %>F<% } %><% } %>b`)
	}
	add("loop body, second iteration only", `a<%= for (v) in two { %>x<%= if (v == 2) { %><%= @ %><% } %><% } %>b`)
	add("loop body, after a continue in the first iteration", `a<%= for (v) in two { %>x<% if (v == 1) { continue } %><%= @ %><% } %>b`)
	add("loop body, before a break", `a<%= for (v) in two { %>x<%= @ %><% break %><% } %>b`)
	add("inner loop body", `a<%= for (v) in two { %><%= for (w) in two { %>x<%= @ %><% } %><% } %>b`)
	add("inner loop iterable", `a<%= for (v) in two { %><%= for (w) in @ { %>x<% } %><% } %>b`)
	add("loop body inside a user function", `<% let uf = fn() { %><%= for (v) in two { %>x<%= @ %><% } %><% } %>a<%= uf() %>b`)
	add("iterator loop body inside a user function, silent", `<% let uf = fn() { for (v) in range(1, 2) { let z = @ }
return "done" } %>a<%= uf() %>b`)
	ok("body of a loop over nothing", `a<%= for (v) in [] { %>x<%= @ %><% } %>b`, "ab")
	ok("body of a loop over until(0)", `a<%= for (v) in until(0) { %>x<%= @ %><% } %>b`, "ab")
	ok("loop body after break", `a<%= for (v) in two { %>x<% break %><%= @ %><% } %>b`, "axb")
	ok("loop body after continue", `a<%= for (v) in two { %>x<% continue %><%= @ %><% } %>b`, "axxb")
	// blocks of helpers
	add("block of a helper (child context)", `a<%= blk() { %>x<%= @ %>y<% } %>b`)
	add("block of a helper (same context)", `a<%= blk0() { %>x<%= @ %>y<% } %>b`)
	add("block of a helper, silent", `a<% blk() { %>x<%= @ %>y<% } %>b`)
	add("block rendered twice", `a<%= twice() { %>x<%= @ %>y<% } %>b`)
	add("block of a helper with an argument", `a<%= blkarg(1) { %>x<%= @ %>y<% } %>b`)
	add("block of htmlEscape", `a<%= htmlEscape("s") { %>x<%= @ %>y<% } %>b`)
	add("default block of contentOf", `a<%= contentOf("nocf") { %>x<%= @ %>y<% } %>b`)
	add("default block of contentOf with data", `a<%= contentOf("nocf", {d: 1}) { %>x<%= @ %>y<% } %>b`)
	add("block in a block", `a<%= blk() { %>x<%= blk0() { %><%= @ %><% } %>y<% } %>b`)
	add("let in a block", `a<%= blk() { %>x<% let z = @ %>y<% } %>b`)
	add("condition in a block", `a<%= blk() { %><%= if (@) { %>T<% } else { %>F<% } %><% } %>b`)
	add("block in a loop", `a<%= for (v) in two { %><%= blk() { %>x<%= @ %><% } %><% } %>b`)
	add("loop in a block", `a<%= blk() { %><%= for (v) in two { %>x<%= @ %><% } %><% } %>b`)
	add("block in a user function", `<% let uf = fn() { %><%= blk() { %>x<%= @ %><% } %><% } %>a<%= uf() %>b`)
	add("block as a condition", `a<%= if (blk() { %><%= @ %><% }) { %>T<% } else { %>F<% } %>b`)
	add("contentFor block rendered by contentOf", `a<% contentFor("cf") { %>x<%= @ %><% } %>m<%= contentOf("cf") %>b`)
	add("contentFor block rendered by contentOf with data", `a<% contentFor("cf") { %>x<%= @ %><% } %>m<%= contentOf("cf", {d: 1}) %>b`)
	add("contentFor block rendered by the second contentOf only", `a<% contentFor("cf") { %>x<%= if (d == 2) { %><%= @ %><% } %><% } %>m<%= contentOf("cf", {d: 1}) %><%= contentOf("cf", {d: 2}) %>b`)
	add("contentFor block rendered inside a block", `a<% contentFor("cf") { %>x<%= @ %><% } %><%= blk() { %><%= contentOf("cf") %><% } %>b`)
	add("contentFor block rendered as a condition", `a<% contentFor("cf") { %>x<%= @ %><% } %><%= if (contentOf("cf")) { %>T<% } else { %>F<% } %>b`)
	add("contentFor block rendered under ==", `a<% contentFor("cf") { %>x<%= @ %><% } %><%= contentOf("cf") == nosuch %>b`)
	add("contentFor block rendered inside a partial", `a<% contentFor("cf") { %>x<%= @ %><% } %><%= partial("usecf") %>b`)
	add("contentFor redefined, rendered", `a<% contentFor("cf") { %>first<% } %><% contentFor("cf") { %>x<%= @ %><% } %><%= contentOf("cf") %>b`)
	// the stored block fails and the contentOf that renders it has a default block of its own: the failure is a failure
	add("contentFor block rendered by a contentOf that has a default block", `a<% contentFor("cf") { %>x<%= @ %><% } %>m<%= contentOf("cf") { %>default<% } %>b`)
	add("contentFor block rendered by a contentOf with data and a default block", `a<% contentFor("cf") { %>x<%= @ %><% } %>m<%= contentOf("cf", {d: 1}) { %>default<%= d %><% } %>b`)
	add("contentFor block rendered by a contentOf with a default block, as a condition", `a<% contentFor("cf") { %>x<%= @ %><% } %><%= if (contentOf("cf") { %>default<% }) { %>T<% } else { %>F<% } %>b`)
	add("contentFor block rendered by a contentOf with a default block, in a loop", `a<% contentFor("cf") { %>x<%= @ %><% } %><%= for (v) in two { %><%= contentOf("cf") { %>default<% } %><% } %>b`)
	add("partial whose body fails, inside the default block of a contentOf", `a<%= contentOf("nocf") { %><%= partial("bad") %><% } %>b`)
	ok("contentFor block never rendered", `a<% contentFor("cf") { %>x<%= @ %><% } %>b`, "ab")
	ok("default block of contentOf when the contentFor exists", `<% contentFor("cf") { %>C<% } %>a<%= contentOf("cf") { %>x<%= @ %><% } %>b`, "aCb")
	ok("block of a helper that never renders it", `a<%= neverblk() { %>x<%= @ %><% } %>b`, "aNb")
	ok("contentFor redefined, the first never rendered", `a<% contentFor("cf") { %>x<%= @ %><% } %><% contentFor("cf") { %>second<% } %><%= contentOf("cf") %>b`, "asecondb")
	// partials, layouts, nested renders
	part("partial body", `a<%= partial("p") %>b`, map[string]string{"p": `[p <%= @ %>]`})
	part("partial body, silent tag", `a<%= partial("p") %>b`, map[string]string{"p": `[p <% let z = @ %>]`})
	part("partial body, condition", `a<%= partial("p") %>b`, map[string]string{"p": `[p <%= if (@) { %>T<% } else { %>F<% } %>]`})
	part("partial as a condition", `a<%= if (partial("p")) { %>T<% } else { %>F<% } %>b`, map[string]string{"p": `[p <%= @ %>]`})
	part("partial under ==", `a<%= partial("p") == nosuch %>b`, map[string]string{"p": `[p <%= @ %>]`})
	part("partial under !", `a<%= !partial("p") %>b`, map[string]string{"p": `[p <%= @ %>]`})
	part("partial in an else-if, then else", `a<%= if (f) { %>T<% } else if (partial("p")) { %>E<% } else { %>F<% } %>b`, map[string]string{"p": `[p <%= @ %>]`})
	part("partial, silent call", `a<% partial("p") %>b`, map[string]string{"p": `[p <%= @ %>]`})
	part("partial in a partial", `a<%= partial("q") %>b`, map[string]string{"p": `[p <%= @ %>]`, "q": `[q <%= partial("p") %>]`})
	part("partial in a partial in a partial", `a<%= partial("r") %>b`, map[string]string{"p": `[p <%= @ %>]`, "q": `[q <%= partial("p") %>]`, "r": `[r <%= partial("q") %>]`})
	part("layout of a partial", `a<%= partial("ok", {layout: "pl"}) %>b`, map[string]string{"pl": `{<%= yield %><%= @ %>}`})
	part("layout of a partial, before yield", `a<%= partial("ok", {layout: "pl"}) %>b`, map[string]string{"pl": `{<%= @ %><%= yield %>}`})
	part("partial body under a layout", `a<%= partial("p", {layout: "lay"}) %>b`, map[string]string{"p": `[p <%= @ %>]`})
	part("layout of a layout", `a<%= partial("ok", {layout: "pl"}) %>b`, map[string]string{"pl": `<%= partial("lay2", {layout: "pl2"}) %>`, "lay2": "L", "pl2": `{<%= yield %><%= @ %>}`})
	part("partial in a loop", `a<%= for (v) in two { %><%= partial("p") %><% } %>b`, map[string]string{"p": `[p <%= @ %>]`})
	part("partial in a loop, second iteration only", `a<%= for (v) in two { %><%= partial("p", {n: v}) %><% } %>b`, map[string]string{"p": `[p <%= if (n == 2) { %><%= @ %><% } %>]`})
	part("partial in a block", `a<%= blk() { %><%= partial("p") %><% } %>b`, map[string]string{"p": `[p <%= @ %>]`})
	part("partial in a user function", `<% let uf = fn() { return partial("p") } %>a<%= uf() %>b`, map[string]string{"p": `[p <%= @ %>]`})
	part("block in a partial", `a<%= partial("p") %>b`, map[string]string{"p": `[p <%= blk() { %><%= @ %><% } %>]`})
	part("loop in a partial", `a<%= partial("p") %>b`, map[string]string{"p": `[p <%= for (v) in two { %><%= @ %><% } %>]`})
	part("contentFor and contentOf in a partial", `a<%= partial("p") %>b`, map[string]string{"p": `[p <% contentFor("in") { %><%= @ %><% } %><%= contentOf("in") %>]`})
	part("contentFor defined in a partial, rendered by its layout", `a<%= partial("p", {layout: "pl"}) %>b`, map[string]string{"p": `<% contentFor("side") { %>s<%= @ %><% } %>P`, "pl": `{<%= yield %>|<%= contentOf("side") %>}`})
	ps = append(ps, rawPos{Name: "contentFor defined in a partial, never rendered", Tmpl: `a<%= partial("p") %>b`, Partials: map[string]string{"p": `<% contentFor("side") { %>s<%= @ %><% } %>P`}, Ok: "aPb", IsOk: true})
	part("partial data used in a partial", `a<%= partial("p", {d: 1}) %>b`, map[string]string{"p": `[p <%= d + (@) %>]`})
	js := "application/javascript"
	ps = append(ps, rawPos{Name: "HTML partial body under a JavaScript content type", Tmpl: `a<%= partial("p.html") %>b`, CT: js, Partials: map[string]string{"p.html": `[p <%= @ %>]`}})
	ps = append(ps, rawPos{Name: "JavaScript partial body under a JavaScript content type", Tmpl: `a<%= partial("p.js") %>b`, CT: js, Partials: map[string]string{"p.js": `[p <%= @ %>]`}})
	ps = append(ps, rawPos{Name: "HTML partial under a JavaScript content type, layout fails", Tmpl: `a<%= partial("p.html", {layout: "l.html"}) %>b`, CT: js, Partials: map[string]string{"p.html": `[p]`, "l.html": `{<%= yield %><%= @ %>}`}})
	ps = append(ps, rawPos{Name: "HTML partial as a condition under a JavaScript content type", Tmpl: `a<%= if (partial("p.html")) { %>T<% } else { %>F<% } %>b`, CT: js, Partials: map[string]string{"p.html": `[p <%= @ %>]`}})
	ps = append(ps, rawPos{Name: "partial body under an HTML content type", Tmpl: `a<%= partial("p.html") %>b`, CT: "text/html", Partials: map[string]string{"p.html": `[p <%= @ %>]`}})
	ps = append(ps, rawPos{Name: "nested Render through the helper context", Tmpl: `a<%= rend(tsrc) %>b`, Tsrc: `x<%= @ %>y`})
	ps = append(ps, rawPos{Name: "nested Render through the helper context, as a condition", Tmpl: `a<%= if (rend(tsrc)) { %>T<% } else { %>F<% } %>b`, Tsrc: `x<%= @ %>y`})
	ps = append(ps, rawPos{Name: "nested Render in a block in a partial", Tmpl: `a<%= partial("p") %>b`, Tsrc: `x<%= @ %>y`, Partials: map[string]string{"p": `[p <%= blk() { %><%= rend(tsrc) %><% } %>]`}})
	ps = append(ps, rawPos{Name: "partial never rendered", Tmpl: `a<%= if (f) { %><%= partial("p") %><% } %>b`, Partials: map[string]string{"p": `[p <%= @ %>]`}, Ok: "ab", IsOk: true})
	// surroundings
	add("after a lot of output", strings.Repeat("lots of output ", 60)+`<%= "x" %><%= @ %>`)
	add("before a lot of output", `<%= @ %>`+strings.Repeat("lots of output ", 60))
	add("last of many tags", strings.Repeat(`<%= i1 %> `, 40)+`<%= @ %>`)
	add("after a forgiven unknown identifier", `a<%= if (nosuch) { %>T<% } %><%= nosuch == nil %><%= @ %>b`)
	add("after an identical call site that did not fail", `a<%= if (f) { %><%= @ %><% } %>m<%= @ %>b`)
	add("on the fifth line", "a\n\n<% let z = 1 %>\n\n<%= @ %>\nb")
	// statement positions
	stmt("silent tag", `a<% @ %>b`)
	stmt("statement in a taken branch", `a<% if (t) { %>x<% @ %>y<% } %>b`)
	stmt("statement in a taken branch, one tag", "a<% if (t) { let z = 1\n@ } %>b")
	stmt("statement in an else branch", `a<% if (nosuch) { %>x<% } else { %><% @ %><% } %>b`)
	stmt("statement in a loop body", `a<%= for (v) in two { %>x<% @ %><% } %>b`)
	stmt("statement in an iterator loop body", `a<%= for (v) in range(1, 2) { %>x<% @ %><% } %>b`)
	stmt("statement in a map loop body", `a<% for (k, v) in m3 { %>x<% @ %><% } %>b`)
	stmt("statement in a user function", "<% let uf = fn() { @\nreturn \"r\" } %>a<%= uf() %>b")
	stmt("statement in a block", `a<%= blk() { %>x<% @ %>y<% } %>b`)
	stmt("statement in a contentFor block", `a<% contentFor("cf") { %>x<% @ %><% } %><%= contentOf("cf") %>b`)
	ps = append(ps, rawPos{Name: "statement in a partial", Tmpl: `a<%= partial("p") %>b`, Partials: map[string]string{"p": `[p <% @ %>]`}, Stmt: true})
	for _, o := range [][2]string{
		{"argument beyond the parameters of a user function", `<% let uf1 = fn(x) { return x } %>a<%= uf1("r", @) %>b`},
		{"second argument beyond the parameters of a user function", `<% let uf1 = fn(x) { return x } %>a<%= uf1("r", 1, @) %>b`},
		{"argument of a user function without parameters", `<% let uf0 = fn() { return "r" } %>a<%= uf0(@) %>b`},
		{"surplus argument of a user function called as a condition", `<% let uf1 = fn(x) { return x } %>a<%= if (uf1(true, @)) { %>T<% } %>b`},
		{"surplus argument of a user function in a loop", `<% let uf1 = fn(x) { return x } %>a<%= for (v) in two { %><%= uf1(v, @) %><% } %>b`},
		{"surplus argument of a user function called silently", `<% let uf1 = fn(x) { return x } %>a<% uf1(1, @) %>b`},
		{"argument of a Go helper given too many arguments", `a<%= id(1, @) %>b`},
		{"argument of a Go helper given a wrongly typed argument before it", `a<%= idi("s", @) %>b`},
		{"argument of a call of a non-function", `a<%= i1(@) %>b`},
		{"argument of a call of an unknown function", `a<%= nosuchfn(@) %>b`},
	} {
		ps = append(ps, rawPos{Name: o[0], Tmpl: o[1], Open: true})
	}
	ps = append(ps, rawPos{Name: "statement in an untaken branch", Tmpl: `a<% if (f) { %>x<% @ %>y<% } %>b`, Stmt: true, Ok: "ab", IsOk: true})
	ps = append(ps, rawPos{Name: "statement in a function never called", Tmpl: "<% let uf = fn() { @\nreturn 1 } %>ab", Stmt: true, Ok: "ab", IsOk: true})
	return ps
}

// RawCase is one raw render: self-contained (the fixture is code).
type RawCase struct {
	Pos      string            `json:"pos"`
	Fault    string            `json:"fault"`
	Tmpl     string            `json:"tmpl"`
	Partials map[string]string `json:"partials,omitempty"`
	Tsrc     string            `json:"tsrc,omitempty"`
	CT       string            `json:"content_type,omitempty"`
	Baseline string            `json:"baseline,omitempty"` // the fault alone; must fail for the fault to count as one
	Helper   bool              `json:"helper,omitempty"`
	NoIs     bool              `json:"nois,omitempty"`
	Sure     bool              `json:"sure,omitempty"` // the baseline must fail whatever the implementation
	MustFail bool              `json:"must_fail"`
	Open     bool              `json:"open,omitempty"`  // whether the fault is evaluated is not stated: the statement's own oracle only
	Out      string            `json:"out,omitempty"`   // expected output when !MustFail
	Entry    string            `json:"entry,omitempty"` // how the template is rendered ("" = plush.Render)
}

func mkRaw(p rawPos, f rawFault) (RawCase, bool) {
	if f.Stmt && !p.Stmt || f.EmitOnly && !p.Prints && !p.IsOk {
		return RawCase{}, false
	}
	sub := func(s string) string { return strings.ReplaceAll(s, "@", f.Text) }
	c := RawCase{Pos: p.Name, Fault: f.Name, Tmpl: sub(p.Tmpl), Tsrc: sub(p.Tsrc), CT: p.CT, Helper: f.Helper, NoIs: f.NoIs, Sure: f.Sure, MustFail: !p.IsOk && !p.Open, Open: p.Open, Out: p.Ok}
	for n, t := range p.Partials {
		if c.Partials == nil {
			c.Partials = map[string]string{}
		}
		c.Partials[n] = sub(t)
	}
	if f.Stmt || strings.HasPrefix(f.Text, "for ") && strings.HasSuffix(f.Text, "{ }") {
		c.Baseline = "<% " + f.Text + " %>"
	} else {
		c.Baseline = "<%= " + f.Text + " %>"
	}
	if strings.Contains(f.Text, "heldboom") {
		c.Tmpl = heldPrefix + c.Tmpl
		c.Baseline = heldPrefix + c.Baseline
	}
	return c, true
}

var rawEntries = []string{"", "exec after a healthy exec", "exec twice", "clone after a healthy exec", "cached render after a healthy render", "cached render twice", "RenderR", "BuffaloRenderer", "data in the outer context"}

// render evaluates the case through the entry point it names and returns the judged evaluation with its fixture.
func (c *RawCase) render(tmpl string) (vk.Res, error, *rawFix) {
	fx := &rawFix{}
	var rerr error
	ctxOf := func(x *rawFix) *plush.Context { return plush.NewContextWith(x.data(c)) }
	res := vk.Safe(func() (string, error) {
		var s string
		var err error
		switch c.Entry {
		case "":
			s, err = plush.Render(tmpl, ctxOf(fx))
		case "exec after a healthy exec", "exec twice", "clone after a healthy exec":
			t, perr := plush.NewTemplate(tmpl)
			if perr != nil {
				return "", perr
			}
			first := &rawFix{healthy: c.Entry != "exec twice"}
			t.Exec(ctxOf(first))
			if c.Entry == "clone after a healthy exec" {
				t = t.Clone()
			}
			s, err = t.Exec(ctxOf(fx))
		case "cached render after a healthy render", "cached render twice":
			old := plush.CacheEnabled
			plush.CacheEnabled = true
			defer func() { plush.CacheEnabled = old }()
			first := &rawFix{healthy: c.Entry != "cached render twice"}
			plush.Render(tmpl, ctxOf(first))
			s, err = plush.Render(tmpl, ctxOf(fx))
		case "RenderR":
			s, err = plush.RenderR(strings.NewReader(tmpl), ctxOf(fx))
		case "BuffaloRenderer":
			s, err = plush.BuffaloRenderer(tmpl, fx.data(c), map[string]interface{}{})
		case "data in the outer context":
			s, err = plush.Render(tmpl, ctxOf(fx).New())
		default:
			panic("c05: unknown entry " + c.Entry)
		}
		rerr = err
		return s, err
	})
	return res, rerr, fx
}

// parses reports whether every text of the case is a well-formed program (the property quantifies over those only).
func (c *RawCase) parses() bool {
	texts := []string{c.Tmpl, c.Baseline}
	if c.Tsrc != "" {
		texts = append(texts, c.Tsrc)
	}
	for _, t := range c.Partials {
		texts = append(texts, t)
	}
	for _, t := range texts {
		ok := false
		vk.Safe(func() (string, error) {
			_, err := plush.NewTemplate(t)
			ok = err == nil
			return "", nil
		})
		if !ok {
			return false
		}
	}
	return true
}

var (
	sureMu   sync.Mutex
	sureSeen = map[string]bool{} // Sure faults whose baseline was already reported (once per process is enough)
)

func runRaw(r *vk.Run, c RawCase, class string) *vk.Fail {
	defer r.Watch("raw", c)()
	fail := func(f string, a ...interface{}) *vk.Fail {
		return &vk.Fail{Kind: "raw", Case: c, Msg: fmt.Sprintf("[%s / %s / %s] %s: ", c.Pos, c.Fault, c.Entry, c.Tmpl) + fmt.Sprintf(f, a...)}
	}
	if !c.parses() {
		r.Exclude("raw/does-not-parse")
		return nil
	}
	// is the fault a fault? its baseline must fail (helpers: the statement says so; operations: observed at the top level)
	bc := c
	bc.Entry = ""
	bres, berr, bfx := bc.render(c.Baseline)
	if c.Helper {
		if bfx.inv+bfx.pan == 0 {
			r.Exclude("raw/baseline-does-not-invoke")
			return nil
		}
	} else if berr == nil && !bres.Panicked() {
		if c.Sure {
			sureMu.Lock()
			seen := sureSeen[c.Fault]
			sureSeen[c.Fault] = true
			sureMu.Unlock()
			if seen && strings.HasPrefix(class, "raw/") { // in the exhaustive loop only: a generated or replayed case always reports
				r.Exclude("raw/baseline-violation-already-reported")
				return nil
			}
			r.Count(c.Fault, class+"/baseline")
			return fail("the operation %s has no result, but on its own it rendered %q without an error", c.Baseline, bres.Out)
		}
		r.Exclude("raw/not-a-fault")
		return nil
	}
	res, rerr, fx := c.render(c.Tmpl)
	key := c.Pos + "\x00" + c.Fault + "\x00" + c.Entry
	if c.Open {
		class += "/open"
	} else if c.MustFail {
		class += "/fails"
	} else {
		class += "/fault-not-reached"
	}
	r.Count(key, class)
	r.Sample(func() interface{} {
		return map[string]interface{}{"position": c.Pos, "fault": c.Fault, "entry": c.Entry, "template": c.Tmpl, "partials": c.Partials, "must_fail": c.MustFail, "failing_helper_invocations": fx.inv + fx.pan}
	})
	if res.Panicked() {
		return fail("%s", res)
	}
	// the statement's own oracle
	if fx.inv+fx.pan > 0 && rerr == nil {
		return fail("a failing helper was invoked (%d returned an error, %d panicked) but the render succeeded with %q", fx.inv, fx.pan, res.Out)
	}
	if fx.inv > 0 && fx.pan == 0 && !errors.Is(rerr, fx.orig) {
		return fail("the failing helper was invoked but errors.Is(err, original %T) is false: %v", fx.orig, rerr)
	}
	if rerr != nil && res.Out != "" {
		return fail("error together with partial output %q (%v)", res.Out, rerr)
	}
	// what the construction of the position says
	if c.MustFail && rerr == nil {
		return fail("the fault is evaluated at this position (alone it fails with: %v) but the render succeeded with %q", berr, res.Out)
	}
	if !c.MustFail && !c.Open {
		if rerr != nil {
			return fail("the fault is not evaluated at this position (expected output %q) but the render failed: %v", c.Out, rerr)
		}
		if !match.SameText(res.Out, c.Out) {
			return fail("output %q, expected %q", res.Out, c.Out)
		}
	}
	return nil
}

// validPositions drops (and counts) positions whose claim about evaluation does not hold for a helper that simply
// succeeds: tick() must run where the fault is said to be evaluated and must not run where it is said not to be.
func validPositions(r *vk.Run) []rawPos {
	var out []rawPos
	for _, p := range rawPositions() {
		c, _ := mkRaw(p, rawFault{Text: "tick()"})
		if !c.parses() {
			r.Exclude("raw/position-does-not-parse: " + p.Name)
			continue
		}
		_, _, fx := c.render(c.Tmpl)
		if p.Open {
			out = append(out, p)
			continue
		}
		if (fx.tick > 0) == p.IsOk {
			r.Exclude("raw/position-claim-does-not-hold: " + p.Name)
			continue
		}
		if !p.IsOk && !p.Stmt && strings.Count(p.Tmpl+p.Tsrc+strings.Join(partialTexts(p.Partials), ""), "@") == strings.Count(p.Tmpl+p.Tsrc+strings.Join(partialTexts(p.Partials), ""), "<%= @ %>") {
			c, _ := mkRaw(p, rawFault{Text: "tp"})
			_, _, fx := c.render(c.Tmpl)
			p.Prints = fx.printed > 0
		}
		out = append(out, p)
	}
	return out
}

func partialTexts(m map[string]string) []string {
	var out []string
	for _, n := range sortedKeys(m) {
		out = append(out, m[n])
	}
	return out
}

func sortedKeys(m map[string]string) []string {
	var ks []string
	for k := range m {
		ks = append(ks, k)
	}
	sort.Strings(ks)
	return ks
}

// ---- flaky call sites: one site evaluated N times, the helper fails on its K-th invocation ----------------

type flakyPos struct {
	Name     string
	Tmpl     string // K = the invocation that fails
	Partials map[string]string
	Tsrc     string
	N        int    // evaluations of the site in one render
	Ok       string // output when K = N+1 (never fails)
}

func flakyPositions() []flakyPos {
	var ps []flakyPos
	add := func(name, tmpl string, n int, ok string) {
		ps = append(ps, flakyPos{Name: name, Tmpl: tmpl, N: n, Ok: ok})
	}
	for _, it := range []struct {
		name, expr string
		n          int
	}{
		{"a slice", "arr", 3}, {"a typed slice", "ints", 3}, {"a string slice", "strs", 2}, {"a Go array", "garr", 2}, {"a pointer to a slice", "parr", 2},
		{"a three-entry map", "m3", 3}, {"an int-keyed map", "im", 2}, {"a hash literal", "{p: 1, q: 2}", 2},
		{"range", "range(1, 3)", 3}, {"until", "until(3)", 3}, {"between", "between(0, 4)", 3}, {"groupBy", "groupBy(2, arr)", 2}, {"a custom iterator", "it", 3},
	} {
		add("body of a loop over "+it.name, `a<%= for (k, v) in `+it.expr+` { %><%= flaky(K) %><% } %>b`, it.n, "a"+strings.Repeat(".", it.n)+"b")
		add("condition in a loop over "+it.name, `a<%= for (v) in `+it.expr+` { %><%= if (flaky(K)) { %>T<% } %><% } %>b`, it.n, "a"+strings.Repeat("T", it.n)+"b")
		add("operand of == in a silent loop over "+it.name, `a<% for (v) in `+it.expr+` { let z = flaky(K) == nosuch } %>b`, it.n, "ab")
	}
	add("two identical call sites", `a<%= flaky(K) %>m<%= flaky(K) %>b`, 2, "a.m.b")
	add("three identical conditions", `a<%= if (flaky(K)) { %>T<% } %><%= if (flaky(K)) { %>T<% } %><%= if (flaky(K)) { %>T<% } %>b`, 3, "aTTTb")
	add("if and else-if with the same condition", `a<%= if (!flaky(K)) { %>T<% } else if (!flaky(K)) { %>E<% } else { %>F<% } %>b`, 2, "aFb")
	add("both operands of ==", `a<%= flaky(K) == flaky(K) %>b`, 2, "atrueb")
	add("both operands of &&", `a<%= flaky(K) && flaky(K) %>b`, 2, "atrueb")
	add("elements of an array", `a<%= [flaky(K), flaky(K), flaky(K)] %>b`, 3, "a...b")
	add("arguments of one call", `a<%= id2(flaky(K), flaky(K)) %>b`, 2, "a.b")
	add("user function called three times", `<% let uf = fn() { return flaky(K) } %>a<%= uf() %><%= uf() %><%= uf() %>b`, 3, "a...b")
	add("user function as a condition in a loop", `<% let uf = fn() { return flaky(K) } %>a<%= for (v) in arr { %><%= if (uf()) { %>T<% } else { %>F<% } %><% } %>b`, 3, "aTTTb")
	add("recursion, every level", "<% let uf = fn(n) { let z = flaky(K)\nif (n == 0) { return \"e\" }\nreturn uf(n - 1) } %>a<%= uf(3) %>b", 4, "aeb")
	add("block rendered twice", `a<%= twice() { %><%= flaky(K) %><% } %>b`, 2, "a..b")
	add("block in a loop", `a<%= for (v) in arr { %><%= blk() { %><%= flaky(K) %><% } %><% } %>b`, 3, "a...b")
	add("block of htmlEscape in a loop", `a<%= for (v) in two { %><%= htmlEscape("s") { %><%= flaky(K) %><% } %><% } %>b`, 2, "a..b")
	add("default block of contentOf in a loop", `a<%= for (v) in two { %><%= contentOf("nocf") { %><%= flaky(K) %><% } %><% } %>b`, 2, "a..b")
	add("contentFor block rendered three times", `<% contentFor("cf") { %><%= flaky(K) %><% } %>a<%= contentOf("cf") %><%= contentOf("cf", {d: 1}) %><%= contentOf("cf") %>b`, 3, "a...b")
	add("contentFor block rendered as a condition in a loop", `<% contentFor("cf") { %><%= flaky(K) %><% } %>a<%= for (v) in two { %><%= if (contentOf("cf")) { %>T<% } %><% } %>b`, 2, "aTTb")
	add("method site in a loop", `a<%= for (v) in two { %><%= obj.Get(flaky(K)) %><% } %>b`, 2, "aggb")
	add("nested loops", `a<%= for (v) in two { %><%= for (w) in two { %><%= flaky(K) %><% } %><% } %>b`, 4, "a....b")
	add("index expression in a loop", `a<%= for (v) in two { %><%= [flaky(K)][0] %><% } %>b`, 2, "a..b")
	add("hash value in a loop", `a<%= for (v) in two { %><%= {p: flaky(K)}["p"] %><% } %>b`, 2, "a..b")
	add("let value in a loop", `a<% for (v) in arr { let z = flaky(K) } %>b`, 3, "ab")
	ps = append(ps, flakyPos{Name: "partial rendered three times", Tmpl: `a<%= partial("p") %><%= partial("p") %><%= partial("p", {d: 1}) %>b`, Partials: map[string]string{"p": `<%= flaky(K) %>`}, N: 3, Ok: "a...b"})
	ps = append(ps, flakyPos{Name: "partial as a condition in a loop", Tmpl: `a<%= for (v) in arr { %><%= if (partial("p")) { %>T<% } else { %>F<% } %><% } %>b`, Partials: map[string]string{"p": `<%= flaky(K) %>`}, N: 3, Ok: "aTTTb"})
	ps = append(ps, flakyPos{Name: "partial under a layout, both call the helper", Tmpl: `a<%= partial("p", {layout: "l"}) %>b`, Partials: map[string]string{"p": `<%= flaky(K) %>`, "l": `{<%= yield %><%= flaky(K) %>}`}, N: 2, Ok: "a{..}b"})
	ps = append(ps, flakyPos{Name: "nested partial in a loop", Tmpl: `a<%= for (v) in two { %><%= partial("q") %><% } %>b`, Partials: map[string]string{"p": `<%= flaky(K) %>`, "q": `<%= partial("p") %>`}, N: 2, Ok: "a..b"})
	ps = append(ps, flakyPos{Name: "nested Render twice", Tmpl: `a<%= rend(tsrc) %><%= rend(tsrc) %>b`, Tsrc: `<%= flaky(K) %>`, N: 2, Ok: "a..b"})
	return ps
}

func mkFlaky(p flakyPos, k int) RawCase {
	sub := func(s string) string { return strings.ReplaceAll(s, "flaky(K)", fmt.Sprintf("flaky(%d)", k)) }
	c := RawCase{Pos: p.Name, Fault: fmt.Sprintf("helper failing on invocation %d of %d", k, p.N), Tmpl: sub(p.Tmpl), Tsrc: sub(p.Tsrc), Helper: true,
		Baseline: "<%= flaky(1) %>", MustFail: k <= p.N, Out: p.Ok}
	for n, t := range p.Partials {
		if c.Partials == nil {
			c.Partials = map[string]string{}
		}
		c.Partials[n] = sub(t)
	}
	return c
}
