// C05 — no silent failure: a failing helper or operation fails Render, with empty output.
package c05

import (
	"encoding/json"
	"errors"
	"fmt"
	"sort"
	"strings"
	"testing"

	"verif/internal/match"
	"verif/internal/model"
	"verif/internal/progs"
	"verif/internal/vk"

	plush "github.com/gobuffalo/plush/v5"
	"pgregory.net/rapid"
)

func TestMain(m *testing.M) { vk.Main(m) }

var sentinel = errors.New("boom: sentinel failure")

type Case struct {
	Src      string                     `json:"src"` // informational
	Prog     json.RawMessage            `json:"prog"`
	Partials map[string]json.RawMessage `json:"partials,omitempty"`
}

var (
	boom    = model.Call{Fn: "boom"}
	divZero = model.Bin{Op: "/", L: model.Lit{V: 1}, R: model.Lit{V: 0}}
	mixed   = model.Bin{Op: "+", L: model.Lit{V: 1}, R: model.Lit{V: "a"}}
	oob     = model.Idx{X: model.Var{Name: "arr"}, I: model.Lit{V: 99}}
	unknown = model.Var{Name: "nosuchname"}
	// a helper whose error WRAPS an unknown-identifier error (what a nested render that hits an unset name returns):
	// it is a failing helper, not "an unknown identifier used as a condition or operand", so it is never tolerated
	wrapunk = model.Call{Fn: "wrapunk"}
	faults  = []model.Expr{boom, boom, boom, divZero, mixed, oob, unknown, wrapunk, wrapunk}
)

func run(r *vk.Run, prog []model.Node, partials map[string][]model.Node, class string) *vk.Fail {
	pr := model.Printer{}
	src := pr.Nodes(prog)
	c := Case{Src: src, Prog: model.Encode(prog)}
	ptext := progs.PartialText(pr, partials)
	var pn []string
	for n, body := range partials {
		if c.Partials == nil {
			c.Partials = map[string]json.RawMessage{}
		}
		c.Partials[n] = model.Encode(body)
		pn = append(pn, n)
	}
	sort.Strings(pn)
	full := src
	for _, n := range pn {
		full += "\n  partial " + n + ": " + ptext[n]
	}
	defer r.Watch("fault", c)()
	mcount, pcount := 0, 0
	mk := func(cnt *int) map[string]model.Helper {
		return progs.Helpers(map[string]model.Helper{
			"boom": func(a []interface{}) (interface{}, error) { *cnt++; return nil, sentinel },
			"wrapunk": func(a []interface{}) (interface{}, error) {
				*cnt++
				return nil, fmt.Errorf("nested render failed: %w: %w", sentinel, &plush.ErrUnknownIdentifier{ID: "inner"})
			},
		})
	}
	mh := mk(&mcount)
	mh["range"] = func(a []interface{}) (interface{}, error) { return &mrange{a[0].(int), a[1].(int)}, nil } // model only: plush has the built-in
	want := model.RunWith(prog, c05Data(), mh, partials)
	if want.Unspec != "" {
		r.Exclude("unspecified")
		return nil
	}
	ctx := progs.Context(c05Data(), mk(&pcount), ptext)
	var rerr error
	res := vk.Safe(func() (string, error) { s, err := plush.Render(src, ctx); rerr = err; return s, err })
	fail := func(f string, a ...interface{}) *vk.Fail {
		return &vk.Fail{Kind: "fault", Case: c, Msg: full + ": " + fmt.Sprintf(f, a...)}
	}
	nt := ""
	if want.Err != "" {
		nt = full
		class += "/fails"
	} else if strings.Contains(full, "boom()") || strings.Contains(full, "wrapunk()") || strings.Contains(full, "nosuchname") || strings.Contains(full, "1 / 0") {
		nt = full
		class += "/fault-not-reached"
	}
	r.Count(nt, class)
	if nt != "" {
		r.Sample(func() interface{} {
			return map[string]interface{}{"template": src, "partials": ptext, "reference_error": want.Err, "reference_output": want.Out, "boom_invocations": mcount}
		})
	}
	if res.Panicked() {
		return fail("%s", res)
	}
	// the statement's own oracle: fires whenever the failing helper was actually invoked
	if pcount > 0 {
		if rerr == nil {
			return fail("the failing helper was invoked %d time(s) but Render succeeded with %q", pcount, res.Out)
		}
		if !errors.Is(rerr, sentinel) {
			return fail("the failing helper was invoked but errors.Is(err, original) is false: %v", rerr)
		}
	}
	if rerr != nil && res.Out != "" {
		return fail("error together with partial output %q (%v)", res.Out, rerr)
	}
	// both directions against the reference: a fault is tolerated exactly where the statement licenses it
	if want.Err != "" && rerr == nil {
		return fail("reference says the render must fail (%s); it succeeded with %q", want.Err, res.Out)
	}
	if want.Err == "" {
		if rerr != nil {
			return fail("reference says the faults are not reached / tolerated (output %q); render failed: %v", want.Out, rerr)
		}
		if !match.SameText(res.Out, want.Out) {
			return fail("output %q, reference says %q", res.Out, want.Out)
		}
	}
	return nil
}

type countIter struct{ i, n int }

func (c *countIter) Next() interface{} {
	if c.i >= c.n {
		return nil
	}
	c.i++
	return c.i
}

// model-side counterpart of the built-in range helper
type mrange struct{ cur, end int }

func (m *mrange) Next() interface{} {
	if m.cur > m.end {
		return nil
	}
	m.cur++
	return m.cur - 1
}

// c05Data: the shared data plus a three-entry map (visited in any order by plush; the
// positions that loop over it render nothing, so only error-ness is compared)
func c05Data() map[string]interface{} {
	d := progs.Data()
	d["it"] = &countIter{n: 3} // a custom Iterator (fresh per render)
	d["mp"] = &model.OrderedMap{Keys: []interface{}{"k1", "k2", "k3"}, Vals: map[interface{}]interface{}{"k1": 1, "k2": 2, "k3": 3}}
	return d
}

// ---- fixed positions: one fault planted at every syntactic position ---------------------------------

func positions(f model.Expr) map[string][]model.Node {
	T := func(s string) model.Node { return model.Text{S: s} }
	lit := func(v interface{}) model.Expr { return model.Lit{V: v} }
	emit := func(e model.Expr) model.Node { return model.Emit{X: e} }
	out := map[string][]model.Node{}
	for _, op := range []string{"+", "-", "*", "/", "<", "<=", ">", ">=", "==", "!=", "~=", "&&", "||"} {
		out["left of "+op] = []model.Node{T("a"), emit(model.Bin{Op: op, L: f, R: lit(1)}), T("b")}
		out["right of "+op] = []model.Node{T("a"), emit(model.Bin{Op: op, L: lit(1), R: f}), T("b")}
	}
	out["right of && after false"] = []model.Node{T("a"), emit(model.Bin{Op: "&&", L: lit(false), R: f}), T("b")}
	out["right of || after true"] = []model.Node{T("a"), emit(model.Bin{Op: "||", L: lit(true), R: f}), T("b")}
	out["operand of !"] = []model.Node{emit(model.Not{X: f})}
	out["emitted"] = []model.Node{T("a"), emit(f), T("b")}
	out["silent tag"] = []model.Node{T("a"), model.Code{S: model.ExprS{X: f}}, T("b")}
	out["let value"] = []model.Node{T("a"), model.Code{S: model.LetS{Name: "z", X: f}}, T("b")}
	out["assignment value"] = []model.Node{model.Code{S: model.LetS{Name: "z", X: lit(1)}}, T("a"), model.Code{S: model.AssignS{Name: "z", X: f}}, T("b")}
	out["if condition"] = []model.Node{T("a"), model.EmitIf{If: &model.If{Cond: f, Then: []model.Node{T("T")}, HasElse: true, Else: []model.Node{T("F")}}}, T("b")}
	out["else-if condition"] = []model.Node{T("a"), model.EmitIf{If: &model.If{Cond: lit(false), Then: []model.Node{T("T")}, ElseIfs: []model.ElseIf{{Cond: f, Then: []model.Node{T("E")}}}}}, T("b")}
	out["else-if condition not reached"] = []model.Node{T("a"), model.EmitIf{If: &model.If{Cond: lit(true), Then: []model.Node{T("T")}, ElseIfs: []model.ElseIf{{Cond: f, Then: []model.Node{T("E")}}}}}, T("b")}
	out["taken branch body"] = []model.Node{T("a"), model.EmitIf{If: &model.If{Cond: lit(true), Then: []model.Node{T("x"), emit(f), T("y")}}}, T("b")}
	out["untaken branch body"] = []model.Node{T("a"), model.EmitIf{If: &model.If{Cond: lit(false), Then: []model.Node{T("x"), emit(f), T("y")}}}, T("b")}
	out["else body"] = []model.Node{T("a"), model.EmitIf{If: &model.If{Cond: lit(false), Then: []model.Node{T("x")}, HasElse: true, Else: []model.Node{emit(f)}}}, T("b")}
	out["silent if body"] = []model.Node{T("a"), model.Code{S: model.IfS{If: &model.If{Cond: lit(true), Then: []model.Node{model.Code{S: model.LetS{Name: "z", X: f}}}}}}, T("b")}
	out["loop iterable"] = []model.Node{T("a"), model.EmitFor{For: &model.For{Val: "v", Iter: f, Body: []model.Node{T("x")}}}, T("b")}
	out["loop body"] = []model.Node{T("a"), model.EmitFor{For: &model.For{Val: "v", Iter: model.Var{Name: "two"}, Body: []model.Node{T("x"), emit(f)}}}, T("b")}
	out["loop body second iteration"] = []model.Node{T("a"), model.EmitFor{For: &model.For{Val: "v", Iter: model.Var{Name: "two"}, Body: []model.Node{T("x"),
		model.EmitIf{If: &model.If{Cond: model.Bin{Op: "==", L: model.Var{Name: "v"}, R: lit(2)}, Then: []model.Node{emit(f)}}}}}}, T("b")}
	out["empty loop body"] = []model.Node{T("a"), model.EmitFor{For: &model.For{Val: "v", Iter: model.Arr{}, Body: []model.Node{emit(f)}}}, T("b")}
	out["silent loop body"] = []model.Node{T("a"), model.Code{S: model.ForS{For: &model.For{Val: "v", Iter: model.Var{Name: "two"}, Body: []model.Node{model.Code{S: model.ExprS{X: f}}}}}}, T("b")}
	// a map loop in which exactly one entry reaches the fault (whatever the visiting order, the render must fail)
	out["map loop body, one entry"] = []model.Node{T("a"), model.Code{S: model.ForS{For: &model.For{Key: "k", Val: "v", Iter: model.Var{Name: "mp"}, Body: []model.Node{
		model.Code{S: model.IfS{If: &model.If{Cond: model.Bin{Op: "==", L: model.Var{Name: "v"}, R: lit(2)}, Then: []model.Node{model.Code{S: model.LetS{Name: "z", X: f}}}}}}}}}}, T("b")}
	out["map loop body, no entry"] = []model.Node{T("a"), model.Code{S: model.ForS{For: &model.For{Key: "k", Val: "v", Iter: model.Var{Name: "mp"}, Body: []model.Node{
		model.Code{S: model.IfS{If: &model.If{Cond: model.Bin{Op: "==", L: model.Var{Name: "v"}, R: lit(9)}, Then: []model.Node{model.Code{S: model.LetS{Name: "z", X: f}}}}}}}}}}, T("b")}
	out["map loop iterable value"] = []model.Node{T("a"), model.Code{S: model.ForS{For: &model.For{Val: "v", Iter: model.Idx{X: model.Hash{KVs: []model.KV{{K: "p", V: model.Arr{Els: []model.Expr{f}}}}}, I: lit("p")}, Body: nil}}}, T("b")}
	// loops over ITERATORS (built-in range, a custom Iterator): body, later iteration, silent body
	rng := model.Call{Fn: "range", Args: []model.Expr{lit(1), lit(3)}}
	out["range loop body"] = []model.Node{T("a"), model.EmitFor{For: &model.For{Val: "v", Iter: rng, Body: []model.Node{T("x"), emit(f)}}}, T("b")}
	out["range loop body, last iteration"] = []model.Node{T("a"), model.EmitFor{For: &model.For{Val: "v", Iter: rng, Body: []model.Node{T("x"),
		model.EmitIf{If: &model.If{Cond: model.Bin{Op: "==", L: model.Var{Name: "v"}, R: lit(3)}, Then: []model.Node{emit(f)}}}}}}, T("b")}
	out["custom iterator loop body"] = []model.Node{T("a"), model.EmitFor{For: &model.For{Key: "k", Val: "v", Iter: model.Var{Name: "it"}, Body: []model.Node{T("x"),
		model.EmitIf{If: &model.If{Cond: model.Bin{Op: "==", L: model.Var{Name: "k"}, R: lit(1)}, Then: []model.Node{emit(f)}}}}}}, T("b")}
	out["silent iterator loop body in a function"] = []model.Node{model.Code{S: model.LetS{Name: "uf", X: model.FnLit{Body: []model.Node{
		model.Code{S: model.ForS{For: &model.For{Val: "v", Iter: rng, Body: []model.Node{model.Code{S: model.LetS{Name: "z", X: f}}}}}}, model.Code{S: model.ReturnS{X: lit("done")}}}}}},
		T("a"), emit(model.Call{Fn: "uf"}), T("b")}
	out["array element"] = []model.Node{T("a"), emit(model.Arr{Els: []model.Expr{lit(1), f, lit(2)}}), T("b")}
	out["hash value"] = []model.Node{T("a"), emit(model.Idx{X: model.Hash{KVs: []model.KV{{K: "p", V: lit(1)}, {K: "q", V: f}}}, I: lit("p")}), T("b")}
	out["index"] = []model.Node{T("a"), emit(model.Idx{X: model.Var{Name: "arr"}, I: f}), T("b")}
	out["indexed operand"] = []model.Node{T("a"), emit(model.Idx{X: model.Arr{Els: []model.Expr{f}}, I: lit(0)}), T("b")}
	out["argument of Go helper"] = []model.Node{T("a"), emit(model.Call{Fn: "id", Args: []model.Expr{f}}), T("b")}
	out["argument of user function"] = []model.Node{model.Code{S: model.LetS{Name: "uf", X: model.FnLit{Params: []string{"x"}, Body: []model.Node{model.Code{S: model.ReturnS{X: lit("ret")}}}}}},
		T("a"), emit(model.Call{Fn: "uf", Args: []model.Expr{f}}), T("b")}
	out["user function body"] = []model.Node{model.Code{S: model.LetS{Name: "uf", X: model.FnLit{Body: []model.Node{model.Code{S: model.ReturnS{X: f}}}}}}, T("a"), emit(model.Call{Fn: "uf"}), T("b")}
	out["user function defined, not called"] = []model.Node{model.Code{S: model.LetS{Name: "uf", X: model.FnLit{Body: []model.Node{model.Code{S: model.ReturnS{X: f}}}}}}, T("a"), T("b")}
	out["block of a block helper"] = []model.Node{T("a"), model.EmitBlock{Helper: "blk", Body: []model.Node{T("x"), emit(f)}}, T("b")}
	out["contentFor block rendered by contentOf"] = []model.Node{T("a"), model.ContentFor{Name: "cf", Body: []model.Node{T("x"), emit(f)}}, T("m"), model.EmitContentOf{Name: "cf", Data: []model.KV{}}, T("b")}
	out["contentFor block never rendered"] = []model.Node{T("a"), model.ContentFor{Name: "cf", Body: []model.Node{T("x"), emit(f)}}, T("b")}
	out["contentOf data value"] = []model.Node{T("a"), model.ContentFor{Name: "cf", Body: []model.Node{T("x")}}, model.EmitContentOf{Name: "cf", Data: []model.KV{{K: "d", V: f}}}, T("b")}
	out["partial data value"] = []model.Node{T("a"), model.EmitPartial{Name: "okpart", Data: []model.KV{{K: "d", V: f}}}, T("b")}
	out["partial body"] = []model.Node{T("a"), model.EmitPartial{Name: "badpart", Data: []model.KV{}}, T("b")}
	out["partial body nested"] = []model.Node{T("a"), model.EmitPartial{Name: "outerpart", Data: []model.KV{}}, T("b")}
	out["after a lot of output"] = []model.Node{T(strings.Repeat("lots of output ", 50)), emit(lit("x")), emit(f)}
	return out
}

func partialsFor(f model.Expr) map[string][]model.Node {
	T := func(s string) model.Node { return model.Text{S: s} }
	return map[string][]model.Node{
		"okpart":    {T("[ok]")},
		"badpart":   {T("[bad "), model.Emit{X: f}, T("]")},
		"outerpart": {T("[outer "), model.EmitPartial{Name: "badpart", Data: []model.KV{}}, T("]")},
	}
}

const rule = "(E) each of 6 faults - a helper returning a sentinel error, 1/0, 1 + \"a\", arr[99], an unknown identifier, a helper whose error WRAPS an unknown-identifier error (as a nested render does) - planted at each of 68 syntactic positions (either operand of all 13 operators, short-circuited operands, !, emitted, silent tag, let / assignment value, if / else-if condition (reached and not reached), taken / untaken / else branch body, silent if body, loop iterable / body / second iteration / empty loop / silent loop, loops over the built-in range iterator and a custom Iterator (body, last iteration, silent body inside a function), a map loop in which one / no entry reaches the fault (repeated, any visiting order), array element, hash value, index, argument of Go helper / user function, user function body (called / not called), block of a block helper, contentFor block rendered / never rendered by contentOf, contentOf / partial data value, partial body, nested partial body, after 750 bytes of output). (R) random well-formed programs over all constructs in which about one leaf in seven is a fault. Oracle: the statement's own (failing helper invoked => non-nil error, errors.Is(err, original), empty output) plus, in both directions, the reference interpreter: the render fails exactly when the reference says a fault is evaluated outside the tolerated positions (unknown identifier as condition or operand of ! == != && ||), and otherwise renders the reference output. Non-trivial = the program contains a fault (reached or not); distinct by template + partial texts."

func setup(t *testing.T) *vk.Run {
	r := vk.Start(t, "C05", rule,
		"the reference interpreter decides which positions are evaluated (short-circuit, untaken branches, uncalled functions) and which faults are tolerated",
		"error identity is checked with errors.Is against one sentinel value returned by the instrumented helper")
	r.Replayer("fault", func(raw json.RawMessage) *vk.Fail {
		var c Case
		if f := vk.Decode(raw, &c); f != nil {
			return f
		}
		prog, err := model.Decode(c.Prog)
		if err != nil {
			return &vk.Fail{Kind: "decode", Msg: err.Error()}
		}
		parts := map[string][]model.Node{}
		for n, raw := range c.Partials {
			body, err := model.Decode(raw)
			if err != nil {
				return &vk.Fail{Kind: "decode", Msg: err.Error()}
			}
			parts[n] = body
		}
		return run(r, prog, parts, "replay")
	})
	return r
}

func TestReplay(t *testing.T) { setup(t).ReplayEnv() }

var faultNames = []string{"boom()", "1/0", `1+"a"`, "arr[99]", "unknown identifier", "helper error wrapping an unknown-identifier error"}

func TestProp(t *testing.T) {
	r := setup(t)
	defer r.Finish()
	r.ReplayCommitted()

	var cells int64
	for fi, f := range []model.Expr{boom, divZero, mixed, oob, unknown, wrapunk} {
		pos := positions(f)
		var keys []string
		for k := range pos {
			keys = append(keys, k)
		}
		sort.Strings(keys)
		for _, k := range keys {
			reps := 1
			if strings.HasPrefix(k, "map loop") {
				reps = 8 // the visiting order of a Go map varies: give every order a chance
			}
			for rep := 0; rep < reps; rep++ {
				if r.Mine(cells) {
					r.Check(run(r, pos[k], partialsFor(f), "position/"+faultNames[fi]))
				}
				cells++
			}
		}
	}
	r.Subspace("6 fault kinds x 68 syntactic positions", cells, true)

	r.Rapid("programs", r.Pick(6000, 80000), func(t *rapid.T) *vk.Fail {
		g := progs.New(t, progs.Options{MaxDepth: 3, FaultRate: rapid.SampledFrom([]int{4, 7, 15}).Draw(t, "rate"), Faults: faults})
		prog := g.Nodes(3, false)
		return run(r, prog, g.Partials, "random")
	})
}
