// C11 — path access returns exactly what Go navigation would, or fails; never another.
//
// Data graphs are built from the Root/Mid/Leaf family below; every leaf string
// spells its own Go path (r.Mids[1].Leaf.M[a]); paths are produced by walking
// the TYPE graph with reflection and are rendered through plush; a reflection
// walk of the same steps over the same data is the reference.
//
// Three families: Root/Mid/Leaf ("r": the exhaustive walks), the recursive
// Node ("n": every ORDER of steps, long paths, names that repeat at every
// level) and Ext ("x": embedding, consecutive indexes, interface-typed
// elements, named collection types). Beyond one render of one path: the same
// expression evaluated repeatedly in one scope (sweeps), very many times in one
// render (bulk), one parsed Template executed against several data sets
// (re-execution), and variables that have the name of a member of the path.
package c11

import (
	"encoding/json"
	"fmt"
	"os"
	"reflect"
	"regexp"
	"sort"
	"strconv"
	"strings"
	"sync"
	"testing"
	"time"

	"verif/internal/vk"

	plush "github.com/gobuffalo/plush/v5"
	"pgregory.net/rapid"
)

func TestMain(m *testing.M) { vk.Main(m) }

// ---- the type family ------------------------------------------------------------
//
// Field names repeat at every depth (Name, Arr, M, IM, Any, hidden); p is the
// spelled path of the struct itself, used by the methods to spell their result.

type Inner struct {
	Name string
	p    string
}

func (n Inner) Hello() string { return n.p + ".Hello()" }

type Leaf struct {
	Name   string
	In     Inner
	PName  *string
	Tags   []string
	Arr    [2]string
	M      map[string]string
	IM     map[int]string
	Any    interface{}
	hidden string
	p      string
}

func (l Leaf) Hello() string { return l.p + ".Hello()" }
func (l *Leaf) PHello() string {
	if l == nil {
		return "nil.PHello()"
	}
	return l.p + ".PHello()"
}
func (l Leaf) Greet(s string) string { return l.p + ".Greet(" + s + ")" }
func (l Leaf) secret() string        { return l.p + ".secret()" }

type Mid struct {
	Name    string
	Leaf    Leaf
	PLeaf   *Leaf
	NilLeaf *Leaf
	Leaves  []Leaf
	PLeaves []*Leaf
	Arr     [2]Leaf
	M       map[string]Leaf
	IM      map[int]*Leaf
	Any     interface{}
	hidden  string
	p       string
	v       int
}

func (m Mid) Hello() string { return m.p + ".Hello()" }
func (m *Mid) PHello() string {
	if m == nil {
		return "nil.PHello()"
	}
	return m.p + ".PHello()"
}
func (m Mid) Greet(s string) string       { return m.p + ".Greet(" + s + ")" }
func (m Mid) Join(s string, i int) string { return m.p + ".Join(" + s + "," + strconv.Itoa(i) + ")" }
func (m Mid) Pick(i int) Leaf             { return mkLeaf(m.p+".Pick("+strconv.Itoa(i)+")", m.v) }
func (m Mid) GetLeaf() Leaf               { return mkLeaf(m.p+".GetLeaf()", m.v) }
func (m *Mid) GetPLeaf() *Leaf {
	if m == nil {
		return nil
	}
	l := mkLeaf(m.p+".GetPLeaf()", m.v)
	return &l
}
func (m Mid) GetNil() *Leaf         { return nil }
func (m Mid) GetLeaves() []Leaf     { return mkLeaves(m.p+".GetLeaves()", 2, m.v) }
func (m Mid) GetM() map[string]Leaf { return mkLeafMap(m.p+".GetM()", m.v, "a", "b") }
func (m Mid) secret() string        { return m.p + ".secret()" }

type Root struct {
	Name   string
	Mid    Mid
	PMid   *Mid
	NilMid *Mid
	Mids   []Mid
	PMids  []*Mid
	Arr    [2]Mid
	M      map[string]Mid
	IM     map[int]*Mid
	Any    interface{}
	hidden string
	p      string
	v      int
}

func (r Root) Hello() string         { return r.p + ".Hello()" }
func (r *Root) PHello() string       { return r.p + ".PHello()" }
func (r Root) Greet(s string) string { return r.p + ".Greet(" + s + ")" }
func (r Root) GetMid() Mid           { return mkMid(r.p+".GetMid()", r.v) }
func (r *Root) GetPMid() *Mid        { m := mkMid(r.p+".GetPMid()", r.v); return &m }
func (r Root) GetMids() []Mid {
	return []Mid{mkMid(r.p+".GetMids()[0]", r.v), mkMid(r.p+".GetMids()[1]", r.v)}
}
func (r Root) secret() string { return r.p + ".secret()" }

// ---- second family: a recursive Node ("n") -------------------------------------------------
//
// Every member leads back to a Node, so every ORDER of steps exists: a method
// that returns a struct after a field after an index (n.Kids[0].Next.Kid(1).Name),
// the same member or method name at every level, chains of any length. A node
// built by a method spells the call (n.Kid(1).Kids[0].Name).

type Node struct {
	Name string
	Kids []Node
	Next *Node
	M    map[string]*Node
	Any  interface{}
	p    string
	v, d int // data recipe, depth left for what the methods build
}

func (n Node) Hello() string         { return n.p + ".Hello()" }
func (n Node) Greet(s string) string { return n.p + ".Greet(" + s + ")" }

// Echo takes any value: an argument that arrives as something else than what the template wrote is seen in the leaf.
func (n Node) Echo(x interface{}) string { return n.p + ".Echo(" + fmt.Sprint(x) + ")" }
func (n Node) Kid(i int) Node {
	return mkNode(n.p+".Kid("+strconv.Itoa(i)+")", min(n.d-1, 2), n.d-1, n.v)
}
func (n *Node) PKid(i int) *Node {
	if n == nil {
		return nil
	}
	k := mkNode(n.p+".PKid("+strconv.Itoa(i)+")", min(n.d-1, 2), n.d-1, n.v)
	return &k
}
func (n Node) GetKids() []Node {
	return []Node{mkNode(n.p+".GetKids()[0]", min(n.d-1, 1), n.d-1, n.v), mkNode(n.p+".GetKids()[1]", min(n.d-1, 1), n.d-1, n.v)}
}

// mkNode: eager = levels of members built now, d = levels the methods may still build.
//
//	recipe 0: 2 kids, Next set, M has a and b, Any holds a Node
//	recipe 1: 3 kids / 1 kid alternating by level, Next nil on every third level, M has b and a nil a, Any holds a *Node
//
// Kids[0], Next and M[b] carry the full remaining depth as long as the path
// from the root uses that one member only (the spines n.Kids[0].Kids[0]...,
// n.Next.Next..., n.M[b].M[b]...); every other member is built 3 levels deep.
func mkNode(p string, eager, d, v int) Node { return mkNodeVia(p, eager, d, v, 0) }

func mkNodeVia(p string, eager, d, v int, via byte) Node {
	n := Node{p: p, v: v, d: max(d, 0), Name: p + ".Name"}
	if eager <= 0 {
		return n
	}
	depth := func(kind byte) int {
		if via == 0 || via == kind {
			return eager - 1
		}
		return min(eager-1, 3)
	}
	side := min(eager-1, 3)
	sub := func(q string, e int, kind byte) *Node { k := mkNodeVia(q, e, d-1, v, kind); return &k }
	nk := 2
	if v == 1 {
		nk = []int{3, 1}[eager%2]
	}
	for i := 0; i < nk; i++ {
		if i == 0 {
			n.Kids = append(n.Kids, mkNodeVia(p+".Kids[0]", depth('K'), d-1, v, 'K'))
		} else {
			n.Kids = append(n.Kids, mkNodeVia(p+".Kids["+strconv.Itoa(i)+"]", side, d-1, v, 'x'))
		}
	}
	if v == 0 || eager%3 != 0 || via == 'N' || via == 0 {
		n.Next = sub(p+".Next", depth('N'), 'N')
	}
	if v == 0 {
		n.M = map[string]*Node{"a": sub(p+".M[a]", side, 'x'), "b": sub(p+".M[b]", depth('M'), 'M')}
		n.Any = *sub(p+".Any", side, 'x')
	} else {
		n.M = map[string]*Node{"a": nil, "b": sub(p+".M[b]", depth('M'), 'M')}
		n.Any = sub(p+".Any", side, 'x')
	}
	return n
}

const nodeDepth = 10

// ---- third family: Ext ("x") ------------------------------------------------------------------
//
// Shapes the Root family does not have: embedded structs (by value, by pointer
// - nil in recipe 1 -, of an unexported type) with promoted and shadowed
// fields and promoted methods; consecutive indexes (slice of slices, map of
// maps, map of slices, slice of maps); interface-typed ELEMENTS (JSON-like
// map[string]interface{} / []interface{} nests, a slice of structs of different
// types with the same member names in a different order); a map keyed by
// interface{}; named slice and map types with methods; a pointer to an array.
// A promoted member is reachable by two spellings (x.BName, x.Base.BName): the
// leaf spells the short one.

type Base struct {
	BName string
	Name  string // shadowed by Ext.Name
	Tags  []string
	p     string
}

func (b Base) BHello() string   { return b.p + ".BHello()" }
func (b *Base) BPHello() string { return b.p + ".BPHello()" }

type ubase struct {
	UName string
	up    string
}

func (u ubase) UHello() string { return u.up + ".UHello()" }

type PBase struct {
	PBName string
	PIn    Inner
	pp     string
}

func (b PBase) PBHello() string { return b.pp + ".PBHello()" }

type P struct {
	A, B, C string
	p       string
}
type Q struct {
	p       string
	C, B, A string
}

func (p P) Alpha() string { return p.p + ".Alpha()" }
func (p P) Beta() string  { return p.p + ".Beta()" }
func (q Q) Beta() string  { return q.p + ".Beta()" }
func (q Q) Gamma() string { return q.p + ".Gamma()" }

type Names []string

func (n Names) First() string { return strings.TrimSuffix(n[0], "[0]") + ".First()" } // never empty in the recipes

type Dict map[string]string

func (d Dict) Get(k string) string { return strings.TrimSuffix(d["b"], "[b]") + ".Get(" + k + ")" } // b is in every recipe

// One name at several depths of the embedding: Go selects the shallowest one, whatever the order of declaration, and
// a name that occurs twice at the shallowest depth selects nothing. x.ID is Tag.ID (depth 1; Deep.Audit.ID lies at
// depth 2 and is declared earlier), x.Rev is Deep.Audit.Rev (alone, two levels down), x.Dup is ambiguous (Deep.Dup and
// Tag.Dup, both at depth 1) and so is no member at all; x.Deep.Dup, x.Tag.Dup, x.Deep.ID, x.Audit.ID spell the others.
type Audit struct {
	ID  string
	Rev string
}
type Deep struct {
	Audit
	Dup string
}
type Tag struct {
	ID  string
	Dup string
}

type Ext struct {
	Base
	ubase
	*PBase
	Deep
	Tag
	Name string
	Grid [][]string
	MM   map[string]map[string]string
	MS   map[string][]Leaf
	SM   []map[string]*Leaf
	AM   map[interface{}]string
	Het  []interface{}
	JS   map[string]interface{}
	JA   []interface{}
	NS   Names
	D    Dict
	PA   *[2]string
	PM   *map[string]string   // pointers to maps: indexed like the map, wherever the pointer comes from
	PMs  []*map[string]string // (a field, an element, a map value, a method result)
	MPM  map[string]*map[string]string
	PSl  []*[]string
	AA   [2][2]string
	IA   interface{} // holds a [2][2]string: an array that cannot be addressed
	Xs   []Ext
	p    string
	v, d int
}

func (x Ext) GetX() Ext { return mkExt(x.p+".GetX()", x.v, x.d-1) }
func (x Ext) GetPM() *map[string]string {
	return &map[string]string{"a": x.p + ".GetPM()[a]", "b": x.p + ".GetPM()[b]"}
}

func mkP(p string) P { return P{p: p, A: p + ".A", B: p + ".B", C: p + ".C"} }
func mkQ(p string) Q { return Q{p: p, A: p + ".A", B: p + ".B", C: p + ".C"} }

func mkExt(p string, v, d int) Ext {
	x := Ext{p: p, v: v, d: max(d, 0), Name: p + ".Name"}
	x.Base = Base{p: p, BName: p + ".BName", Name: p + ".Base.Name", Tags: []string{p + ".Tags[0]", p + ".Tags[1]"}}
	x.ubase = ubase{up: p, UName: p + ".UName"}
	x.Deep = Deep{Audit: Audit{ID: p + ".Deep.ID", Rev: p + ".Rev"}, Dup: p + ".Deep.Dup"}
	x.Tag = Tag{ID: p + ".ID", Dup: p + ".Tag.Dup"}
	if v == 0 {
		x.PBase = &PBase{pp: p, PBName: p + ".PBName", PIn: Inner{Name: p + ".PIn.Name", p: p + ".PIn"}}
	}
	x.Grid = [][]string{{p + ".Grid[0][0]", p + ".Grid[0][1]"}, {p + ".Grid[1][0]", p + ".Grid[1][1]"}}
	x.MM = map[string]map[string]string{"a": {"a": p + ".MM[a][a]", "b": p + ".MM[a][b]"}, "b": {"a": p + ".MM[b][a]", "b": p + ".MM[b][b]"}}
	x.MS = map[string][]Leaf{"a": mkLeaves(p+".MS[a]", 2, v), "b": mkLeaves(p+".MS[b]", 2, v)}
	x.SM = []map[string]*Leaf{{"a": pLeaf(p+".SM[0][a]", v), "b": pLeaf(p+".SM[0][b]", v)}, {"a": pLeaf(p+".SM[1][a]", v), "b": pLeaf(p+".SM[1][b]", v)}}
	x.AM = map[interface{}]string{1: p + ".AM[1]", "a": p + ".AM[a]", 3: p + ".AM[3]", "b": p + ".AM[b]"}
	x.Het = []interface{}{mkP(p + ".Het[0]"), mkQ(p + ".Het[1]")}
	hp, hq := mkP(p+".Het[2]"), mkQ(p+".Het[3]")
	x.Het = append(x.Het, &hp, &hq)
	x.JS = map[string]interface{}{
		"a": map[string]interface{}{"a": []interface{}{mkLeaf(p+".JS[a][a][0]", v), pLeaf(p+".JS[a][a][1]", v)}, "b": p + ".JS[a][b]"},
		"b": mkLeaf(p+".JS[b]", v),
	}
	x.JA = []interface{}{mkLeaf(p+".JA[0]", v), map[string]interface{}{"a": p + ".JA[1][a]", "b": pLeaf(p+".JA[1][b]", v)}, []interface{}{p + ".JA[2][0]", mkLeaf(p+".JA[2][1]", v)}}
	x.NS = Names{p + ".NS[0]", p + ".NS[1]"}
	x.D = Dict{"a": p + ".D[a]", "b": p + ".D[b]"}
	x.PA = &[2]string{p + ".PA[0]", p + ".PA[1]"}
	pm := func(q string) *map[string]string { return &map[string]string{"a": q + "[a]", "b": q + "[b]"} }
	x.PM = pm(p + ".PM")
	x.PMs = []*map[string]string{pm(p + ".PMs[0]"), pm(p + ".PMs[1]")}
	x.MPM = map[string]*map[string]string{"a": pm(p + ".MPM[a]"), "b": pm(p + ".MPM[b]")}
	x.PSl = []*[]string{{p + ".PSl[0][0]", p + ".PSl[0][1]"}, {p + ".PSl[1][0]"}}
	x.AA = [2][2]string{{p + ".AA[0][0]", p + ".AA[0][1]"}, {p + ".AA[1][0]", p + ".AA[1][1]"}}
	x.IA = [2][2]string{{p + ".IA[0][0]", p + ".IA[0][1]"}, {p + ".IA[1][0]", p + ".IA[1][1]"}}
	if v == 1 {
		// irregular: short, empty and nil inner collections, nil elements
		x.Grid = [][]string{{p + ".Grid[0][0]"}, {}, nil}
		x.MM = map[string]map[string]string{"a": nil, "b": {"b": p + ".MM[b][b]"}}
		x.MS = map[string][]Leaf{"a": {}, "b": mkLeaves(p+".MS[b]", 1, v)}
		x.SM = []map[string]*Leaf{nil, {"a": nil, "b": pLeaf(p+".SM[1][b]", v)}}
		x.JS["a"] = map[string]interface{}{"a": []interface{}{nil, pLeaf(p+".JS[a][a][1]", v)}, "b": nil}
		x.JA[0] = (*Leaf)(nil) // a typed nil in an interface
		x.IA = &[2][2]string{{p + ".IA[0][0]", p + ".IA[0][1]"}, {p + ".IA[1][0]", p + ".IA[1][1]"}}
		x.NS = Names{p + ".NS[0]"}
		x.D = Dict{"b": p + ".D[b]"}
		x.PA = nil
		x.PM = nil
		x.PMs = []*map[string]string{nil, pm(p + ".PMs[1]")}
		x.MPM = map[string]*map[string]string{"a": nil, "b": pm(p + ".MPM[b]")}
		x.PSl = []*[]string{nil, {p + ".PSl[1][0]"}}
	}
	if d > 0 {
		x.Xs = []Ext{mkExt(p+".Xs[0]", v, d-1), mkExt(p+".Xs[1]", v, d-1)}
	}
	return x
}

// canonLeaf: the spelling a leaf uses for itself: without the names of the
// embedded structs a promoted member was reached through (x.Base.BName and
// x.BName are the same leaf; Base.Name, shadowed, keeps its long spelling).
func canonLeaf(path string) string {
	// the members of Deep, Audit and Tag: Audit.ID is x.Deep.ID, Audit.Rev is x.Rev, Tag.ID is x.ID
	path = strings.ReplaceAll(path, ".Deep.Audit.", ".Deep.")
	path = strings.ReplaceAll(path, ".Audit.", ".Deep.")
	path = strings.ReplaceAll(path, ".Deep.Rev", ".Rev")
	path = strings.ReplaceAll(path, ".Tag.ID", ".ID")
	for _, e := range []string{".Base", ".ubase", ".PBase"} {
		from := 0
		for {
			i := strings.Index(path[from:], e+".")
			if i < 0 {
				break
			}
			i += from
			if e == ".Base" && path[i:] == ".Base.Name" {
				break
			}
			path = path[:i] + path[i+len(e):]
			from = i
		}
	}
	return path
}

// ---- data recipes: variant 0 ("regular") and 1 ("irregular") -----------------------
//
//	variant 0: every slice has 2 elements, string maps have keys a,b, int maps 1,3,
//	           Any holds *Mid / Leaf / string
//	variant 1: slices of 3 or 1 elements, nil elements in pointer slices, nil and
//	           one-key maps, Any holds Mid / *Leaf / []string, PLeaf is nil

func mkLeaf(p string, v int) Leaf {
	l := Leaf{p: p, Name: p + ".Name", hidden: p + ".hidden", In: Inner{Name: p + ".In.Name", p: p + ".In"}}
	pn := p + ".PName"
	l.PName = &pn
	l.Arr = [2]string{p + ".Arr[0]", p + ".Arr[1]"}
	if v == 0 {
		l.Tags = []string{p + ".Tags[0]", p + ".Tags[1]"}
		l.M = map[string]string{"a": p + ".M[a]", "b": p + ".M[b]"}
		l.IM = map[int]string{1: p + ".IM[1]", 3: p + ".IM[3]"}
		l.Any = p + ".Any"
	} else {
		l.Tags = []string{p + ".Tags[0]", p + ".Tags[1]", p + ".Tags[2]"}
		l.M = map[string]string{"a": p + ".M[a]"}
		l.IM = nil
		l.Any = []string{p + ".Any[0]", p + ".Any[1]"}
	}
	return l
}

func mkLeaves(p string, n, v int) []Leaf {
	out := make([]Leaf, n)
	for i := range out {
		out[i] = mkLeaf(p+"["+strconv.Itoa(i)+"]", v)
	}
	return out
}

func mkLeafMap(p string, v int, keys ...string) map[string]Leaf {
	out := map[string]Leaf{}
	for _, k := range keys {
		out[k] = mkLeaf(p+"["+k+"]", v)
	}
	return out
}

func pLeaf(p string, v int) *Leaf { l := mkLeaf(p, v); return &l }

func mkMid(p string, v int) Mid {
	m := Mid{p: p, v: v, Name: p + ".Name", hidden: p + ".hidden"}
	m.Leaf = mkLeaf(p+".Leaf", v)
	m.Arr = [2]Leaf{mkLeaf(p+".Arr[0]", v), mkLeaf(p+".Arr[1]", v)}
	if v == 0 {
		m.PLeaf = pLeaf(p+".PLeaf", v)
		m.Leaves = mkLeaves(p+".Leaves", 2, v)
		m.PLeaves = []*Leaf{pLeaf(p+".PLeaves[0]", v), pLeaf(p+".PLeaves[1]", v)}
		m.M = mkLeafMap(p+".M", v, "a", "b")
		m.IM = map[int]*Leaf{1: pLeaf(p+".IM[1]", v), 3: pLeaf(p+".IM[3]", v)}
		m.Any = mkLeaf(p+".Any", v)
	} else {
		m.PLeaf = nil
		m.Leaves = mkLeaves(p+".Leaves", 1, v)
		m.PLeaves = []*Leaf{pLeaf(p+".PLeaves[0]", v), nil, pLeaf(p+".PLeaves[2]", v)}
		m.M = mkLeafMap(p+".M", v, "b")
		m.IM = map[int]*Leaf{3: pLeaf(p+".IM[3]", v), 1: nil}
		m.Any = pLeaf(p+".Any", v)
	}
	return m
}

func pMid(p string, v int) *Mid { m := mkMid(p, v); return &m }

func mkRoot(v int) *Root { return mkRootP("r", v) }

func mkRootP(p string, v int) *Root {
	r := &Root{p: p, v: v, Name: p + ".Name", hidden: p + ".hidden"}
	r.Mid = mkMid(p+".Mid", v)
	r.PMid = pMid(p+".PMid", v)
	r.Arr = [2]Mid{mkMid(p+".Arr[0]", v), mkMid(p+".Arr[1]", v)}
	if v == 0 {
		r.Mids = []Mid{mkMid(p+".Mids[0]", v), mkMid(p+".Mids[1]", v)}
		r.PMids = []*Mid{pMid(p+".PMids[0]", v), pMid(p+".PMids[1]", v)}
		r.M = map[string]Mid{"a": mkMid(p+".M[a]", v), "b": mkMid(p+".M[b]", v)}
		r.IM = map[int]*Mid{1: pMid(p+".IM[1]", v), 3: pMid(p+".IM[3]", v)}
		r.Any = pMid(p+".Any", v)
	} else {
		r.Mids = []Mid{mkMid(p+".Mids[0]", v), mkMid(p+".Mids[1]", v), mkMid(p+".Mids[2]", v)}
		r.PMids = []*Mid{nil, pMid(p+".PMids[1]", v)}
		r.M = nil
		r.IM = map[int]*Mid{1: pMid(p+".IM[1]", v)}
		r.Any = mkMid(p+".Any", v)
	}
	return r
}

// ---- paths -----------------------------------------------------------------------

// Arg is an index, a map key or a method argument: an int or a string, written
// as a literal or through a context variable (i1, im1, ka, ...).
type Arg struct {
	S   string `json:"s,omitempty"`
	I   int    `json:"i,omitempty"`
	Int bool   `json:"int,omitempty"`
	Var bool   `json:"var,omitempty"`
	Sw  bool   `json:"sw,omitempty"` // the value is the sweep variable q of Case.Sweep (I / S are ignored)
	N   string `json:"n,omitempty"`  // with Var: the name of the context variable (default i1, im1, ka, ...); used to give an index variable the name of a member of the path
}

func (a Arg) spell() string {
	if a.Int {
		return strconv.Itoa(a.I)
	}
	return a.S
}

func (a Arg) varName() string {
	if a.N != "" {
		return a.N
	}
	if a.Int {
		if a.I < 0 {
			return "im" + strconv.Itoa(-a.I)
		}
		return "i" + strconv.Itoa(a.I)
	}
	return "k" + a.S
}

func (a Arg) src() string {
	if a.Sw {
		return "q"
	}
	if a.Var {
		return a.varName()
	}
	if a.Int {
		return strconv.Itoa(a.I)
	}
	return `"` + a.S + `"`
}

// Step: field selection (F), method call (M + A) or index/key access (X, A[0]).
type Step struct {
	F string `json:"f,omitempty"`
	M string `json:"m,omitempty"`
	X bool   `json:"x,omitempty"`
	A []Arg  `json:"a,omitempty"`
}

// spell: the way leaves spell this step (no quotes: M[a], Greet(x)).
func (s Step) spell() string {
	switch {
	case s.X:
		return "[" + s.A[0].spell() + "]"
	case s.M != "":
		var as []string
		for _, a := range s.A {
			as = append(as, a.spell())
		}
		return "." + s.M + "(" + strings.Join(as, ",") + ")"
	}
	return "." + s.F
}

// src: plush source text of this step.
func (s Step) src() string {
	switch {
	case s.X:
		return "[" + s.A[0].src() + "]"
	case s.M != "":
		var as []string
		for _, a := range s.A {
			as = append(as, a.src())
		}
		return "." + s.M + "(" + strings.Join(as, ", ") + ")"
	}
	return "." + s.F
}

func (s Step) valid() bool {
	if s.X {
		return len(s.A) == 1 && s.F == "" && s.M == ""
	}
	if s.M != "" {
		return s.F == "" && ident(s.M)
	}
	return ident(s.F) && len(s.A) == 0
}

func ident(s string) bool {
	if s == "" {
		return false
	}
	for i, c := range s {
		if !(c == '_' || c >= 'a' && c <= 'z' || c >= 'A' && c <= 'Z' || i > 0 && c >= '0' && c <= '9') {
			return false
		}
	}
	return true
}

// Cut: the path is interrupted before step At. Let: `let V = <prefix>` and the
// rest continues from V. For: `for (kk, V) in <prefix>`; step At (an index
// step) is replaced by the iteration and the rest continues from V.
type Cut struct {
	At  int    `json:"at"`
	For bool   `json:"for,omitempty"`
	V   string `json:"v"`
}

type Case struct {
	Variant int    `json:"variant"`       // data recipe: mkRoot(Variant)
	Ptr     bool   `json:"ptr,omitempty"` // root passed as *Root (else Root)
	Root    string `json:"root"`          // name of the context variable that holds the root
	Steps   []Step `json:"steps"`
	Cuts    []Cut  `json:"cuts,omitempty"`
	Twice   bool   `json:"twice,omitempty"` // the final expression is emitted twice: <%= e %>+<%= e %>
	Sweep   *Sweep `json:"sweep,omitempty"` // the whole body is evaluated once per value of the variable q
	Fam     string `json:"fam,omitempty"`   // type family of the root: "" Root, "node" Node, "ext" Ext
	// Reexec: the template is parsed ONCE and the one Template is executed once per entry, in this
	// order, each time against fresh data of that recipe / root form (Variant and Ptr are ignored)
	Reexec []Exec `json:"reexec,omitempty"`
	// Bulk: the emit is wrapped in `for (bi, bv) in bulk { }` over a slice of this many elements, so that
	// ONE render evaluates the path expression that many times (every evaluation must give the same leaf)
	Bulk int `json:"bulk,omitempty"`
	// Together (with Reexec): after the judged executions, the same parsed template is executed by one goroutine
	// per entry at once, several rounds; every result must be the one that entry gave alone
	Together bool `json:"together,omitempty"`

	// Spell: how the leaves of this data set spell the root (default r / n / x): two data sets of one
	// Reexec case that spell it differently have no leaf text in common
	Spell string `json:"spell,omitempty"`

	pre *parsed // set while a Reexec case is judged
}

type Exec struct {
	Variant int    `json:"variant"`
	Ptr     bool   `json:"ptr,omitempty"`
	Spell   string `json:"spell,omitempty"` // see Case.Spell
}

type parsed struct {
	t   *plush.Template
	err error
}

// rootSpell: how the leaves of a family spell the root.
func (c Case) rootSpell() string {
	if c.Spell != "" {
		return c.Spell
	}
	switch c.Fam {
	case "node":
		return "n"
	case "ext":
		return "x"
	}
	return "r"
}

// Sweep: the template body (lets + emit) sits in ONE loop body and is evaluated
// once per value; the arguments marked Sw in the steps are the variable q:
//
//	key form:   for (q, qv) in sw {  ... q ...  }     q = 0..n-1
//	value form: for (qk, q) in sw {  ... q ...  }     q = the values, in order
//	let form:   for (qk, qv) in sw { let q = qv ... } q re-assigned in the same scope
//
// so the SAME expression node is evaluated several times in the same scope
// while an inner index / key / argument changes.
type Sweep struct {
	Ints []int    `json:"ints,omitempty"`
	Strs []string `json:"strs,omitempty"`
	Key  bool     `json:"key,omitempty"`
	Let  bool     `json:"let,omitempty"`
}

func (w *Sweep) n() int { return len(w.Ints) + len(w.Strs) }

// stepsFor returns the steps with q replaced by its i-th value.
func (c Case) stepsFor(i int) []Step {
	out := make([]Step, len(c.Steps))
	for k, s := range c.Steps {
		out[k] = s
		if len(s.A) > 0 {
			out[k].A = append([]Arg(nil), s.A...)
			for j := range out[k].A {
				if a := &out[k].A[j]; a.Sw {
					if a.Int {
						a.I = c.Sweep.Ints[i]
					} else {
						a.S = c.Sweep.Strs[i]
					}
				}
			}
		}
	}
	return out
}

var ctxInts = []int{-1, 0, 1, 2, 3}
var ctxStrs = []string{"a", "b", "z", "x"}

func (c Case) wellFormed() string {
	if c.Variant < 0 || c.Variant > 1 {
		return "bad variant"
	}
	if c.Fam != "" && c.Fam != "node" && c.Fam != "ext" {
		return "bad family"
	}
	for _, e := range c.Reexec {
		if e.Variant < 0 || e.Variant > 1 {
			return "bad variant"
		}
		if e.Spell != "" && (!ident(e.Spell) || len(e.Spell) > 3) {
			return "bad spelling of the root"
		}
	}
	if c.Spell != "" && (!ident(c.Spell) || len(c.Spell) > 3) {
		return "bad spelling of the root"
	}
	if c.Bulk < 0 || c.Bulk > 5000 || c.Bulk > 0 && (c.Sweep != nil || c.Twice || len(c.Cuts) > 0) {
		return "bad bulk"
	}
	names := map[string]bool{c.Root: true, "kk": true, "bulk": true, "bi": true, "bv": true}
	for _, k := range c.Cuts {
		names[k.V] = true
	}
	if c.Sweep != nil {
		for _, n := range []string{"q", "qk", "qv", "sw"} {
			names[n] = true
		}
	}
	custom := map[string]Arg{}
	for _, s := range c.Steps {
		for _, a := range s.A {
			if a.N == "" {
				continue
			}
			if !a.Var || a.Sw || !ident(a.N) || names[a.N] {
				return "bad variable name"
			}
			if o, ok := custom[a.N]; ok && (o.Int != a.Int || o.I != a.I || o.S != a.S) {
				return "one variable name with two values"
			}
			custom[a.N] = a
		}
	}
	for _, i := range ctxInts {
		if _, ok := custom[Arg{Int: true, I: i}.varName()]; ok {
			return "bad variable name"
		}
	}
	for _, x := range ctxStrs {
		if _, ok := custom[Arg{S: x}.varName()]; ok {
			return "bad variable name"
		}
	}
	if !ident(c.Root) || strings.HasPrefix(c.Root, "kk") {
		return "bad root name"
	}
	for _, s := range c.Steps {
		if !s.valid() {
			return "bad step"
		}
		for _, a := range s.A {
			if a.Int {
				if a.I < -1 || a.I > 3 {
					return "int out of the context range"
				}
			} else if !ident(a.S) {
				return "bad string"
			}
		}
	}
	last, fors := -1, 0
	for _, k := range c.Cuts {
		if k.At <= last || k.At < 0 || k.At >= len(c.Steps) || !ident(k.V) || k.V == "kk" {
			return "bad cut"
		}
		if k.For {
			fors++
			if !c.Steps[k.At].X {
				return "for-cut must replace an index step"
			}
		}
		last = k.At
	}
	if fors > 1 {
		return "more than one for"
	}
	nsw := 0
	for _, s := range c.Steps {
		for _, a := range s.A {
			if a.Sw {
				nsw++
				if c.Sweep == nil || a.Int != (len(c.Sweep.Ints) > 0) {
					return "sweep argument without a sweep of its type"
				}
			}
		}
	}
	if w := c.Sweep; w != nil {
		if nsw == 0 || fors > 0 || c.Twice || w.n() == 0 || w.n() > 6 || len(w.Ints) > 0 && len(w.Strs) > 0 || w.Key && w.Let {
			return "bad sweep"
		}
		for i, v := range w.Ints {
			if v < -1 || v > 3 || w.Key && v != i {
				return "bad sweep value"
			}
		}
		for _, v := range w.Strs {
			if !ident(v) || w.Key {
				return "bad sweep value"
			}
		}
		reserved := map[string]bool{"q": true, "qk": true, "qv": true, "sw": true}
		if reserved[c.Root] {
			return "root name reserved for the sweep"
		}
		for _, k := range c.Cuts {
			if reserved[k.V] {
				return "variable name reserved for the sweep"
			}
			if k.V == c.Root {
				return "a let inside the sweep loop would overwrite the root for the next evaluation"
			}
		}
	}
	return ""
}

// template builds the plush source. In for-mode the output is a list of
// `key=value;` segments.
func (c Case) template() string {
	var sb strings.Builder
	expr := c.Root
	closing := ""
	ci := 0
	if w := c.Sweep; w != nil {
		switch {
		case w.Key:
			sb.WriteString("<%= for (q, qv) in sw { %>")
		case w.Let:
			sb.WriteString("<%= for (qk, qv) in sw { %><% let q = qv %>")
		default:
			sb.WriteString("<%= for (qk, q) in sw { %>")
		}
		closing = ";<% } %>"
	}
	if c.Bulk > 0 {
		sb.WriteString("<%= for (bi, bv) in bulk { %>")
		closing = ";<% } %>"
	}
	for i, s := range c.Steps {
		if ci < len(c.Cuts) && c.Cuts[ci].At == i {
			k := c.Cuts[ci]
			ci++
			if k.For {
				sb.WriteString("<%= for (kk, " + k.V + ") in " + expr + " { %><%= kk %>=")
				closing = ";<% } %>"
				expr = k.V
				continue // the loop replaces the index step
			}
			sb.WriteString("<% let " + k.V + " = " + expr + " %>")
			expr = k.V
		}
		expr += s.src()
	}
	sb.WriteString("<%= " + expr + " %>")
	if c.Twice {
		sb.WriteString("+<%= " + expr + " %>")
	}
	sb.WriteString(closing)
	return sb.String()
}

func (c Case) forCut() int {
	for _, k := range c.Cuts {
		if k.For {
			return k.At
		}
	}
	return -1
}

func spellPath(root string, steps []Step) string {
	var sb strings.Builder
	sb.WriteString(root)
	for _, s := range steps {
		sb.WriteString(s.spell())
	}
	return sb.String()
}

// context data, fresh for every render
func (c Case) data() map[string]interface{} {
	d := map[string]interface{}{}
	for _, i := range ctxInts {
		d[Arg{Int: true, I: i}.varName()] = i
	}
	for _, s := range ctxStrs {
		d[Arg{S: s}.varName()] = s
	}
	if w := c.Sweep; w != nil {
		if len(w.Strs) > 0 {
			d["sw"] = append([]string(nil), w.Strs...)
		} else {
			d["sw"] = append([]int(nil), w.Ints...)
		}
	}
	for _, s := range c.Steps {
		for _, a := range s.A {
			if a.N != "" {
				if a.Int {
					d[a.N] = a.I
				} else {
					d[a.N] = a.S
				}
			}
		}
	}
	if c.Bulk > 0 {
		d["bulk"] = make([]int, c.Bulk)
	}
	switch c.Fam {
	case "node":
		// the Node graph is large and never written (C11's templates have no assignment): the renders
		// share one graph per recipe, the reference walks another; both are compared with a fresh one at the end
		n := sharedNodes[c.Variant]
		if c.Spell != "" {
			n = mkSpelledNode(c.Spell, c.Variant)
		}
		if c.Ptr {
			d[c.Root] = n
		} else {
			d[c.Root] = *n
		}
	case "ext":
		x := mkExt(c.rootSpell(), c.Variant, 1)
		if c.Ptr {
			d[c.Root] = &x
		} else {
			d[c.Root] = x
		}
	default:
		root := mkRootP(c.rootSpell(), c.Variant)
		if c.Ptr {
			d[c.Root] = root
		} else {
			d[c.Root] = *root
		}
	}
	return d
}

func mkRootNode(v int) *Node { n := mkNode("n", nodeDepth, nodeDepth, v); return &n }

// mkSpelledNode: a (smaller, fresh) Node graph whose leaves spell the root differently.
func mkSpelledNode(spell string, v int) *Node { n := mkNode(spell, 4, nodeDepth, v); return &n }
func mkRootExt(v int) *Ext                    { x := mkExt("x", v, 1); return &x }

var sharedNodes = [2]*Node{mkRootNode(0), mkRootNode(1)}
var refNodes = [2]*Node{mkRootNode(0), mkRootNode(1)}
var refExts = [2]*Ext{mkRootExt(0), mkRootExt(1)}

// refStart: the value the reference walk starts from.
func (c Case) refStart() cur {
	var p reflect.Value
	switch {
	case c.Fam == "node" && c.Spell != "":
		p = reflect.ValueOf(mkSpelledNode(c.Spell, c.Variant))
	case c.Fam == "node":
		p = reflect.ValueOf(refNodes[c.Variant])
	case c.Fam == "ext" && c.Spell != "":
		x := mkExt(c.Spell, c.Variant, 1)
		p = reflect.ValueOf(&x)
	case c.Fam == "ext":
		p = reflect.ValueOf(refExts[c.Variant])
	case c.Spell != "":
		p = reflect.ValueOf(mkRootP(c.Spell, c.Variant))
	default:
		p = reflect.ValueOf(refRoots[c.Variant])
	}
	if c.Ptr {
		return cur{p, true}
	}
	return cur{p.Elem(), true}
}

// ---- the reference: a reflection walk -----------------------------------------------

type cur struct {
	v    reflect.Value
	addr bool // addressable in the Go sense (variables, fields of them, slice elements, pointer targets)
}

type walkRes struct {
	ok        bool
	val       string // the leaf, when ok
	why       string // failure class, when !ok
	unspec    string // non-empty: the statement does not fix this navigation
	addrUnspe bool
}

func unwrap(c cur) (cur, string) {
	for c.v.IsValid() && c.v.Kind() == reflect.Interface {
		if c.v.IsNil() {
			return c, "nil-interface"
		}
		c = cur{c.v.Elem(), false}
	}
	if !c.v.IsValid() {
		return c, "nil-interface"
	}
	return c, ""
}

func deref(c cur) (cur, string) {
	for c.v.Kind() == reflect.Ptr {
		if c.v.IsNil() {
			return c, "nil-pointer"
		}
		c = cur{c.v.Elem(), true}
		var why string
		if c, why = unwrap(c); why != "" {
			return c, why
		}
	}
	return c, ""
}

// apply performs one step; why != "" means navigation cannot be completed;
// ptrOnTemp reports a pointer-receiver method called on a value that Go would
// refuse to take the address of (map element, call result, interface content).
func apply(c cur, s Step) (out cur, why string, ptrOnTemp bool) {
	if c, why = unwrap(c); why != "" {
		return c, why, false
	}
	switch {
	case s.X:
		if c, why = deref(c); why != "" {
			return c, why, false
		}
		a := s.A[0]
		switch c.v.Kind() {
		case reflect.Slice, reflect.Array:
			if !a.Int {
				return c, "wrong-key-type", false
			}
			if a.I < 0 {
				return c, "negative-index", false
			}
			if a.I >= c.v.Len() {
				return c, "index-out-of-range", false
			}
			return cur{c.v.Index(a.I), c.addr || c.v.Kind() == reflect.Slice}, "", false
		case reflect.Map:
			kk := c.v.Type().Key().Kind()
			if kk != reflect.Interface && (a.Int != (kk == reflect.Int) || !a.Int && kk != reflect.String) {
				return c, "wrong-key-type", false
			}
			var e reflect.Value
			if a.Int {
				e = c.v.MapIndex(reflect.ValueOf(a.I))
			} else {
				e = c.v.MapIndex(reflect.ValueOf(a.S))
			}
			if !e.IsValid() {
				return c, "missing-key", false
			}
			return cur{e, false}, "", false
		}
		if c.v.Kind() == reflect.String && a.Int {
			return c, "unspec:index-into-string", false // Go yields a byte here; the statement does not say what plush should print
		}
		return c, "not-indexable", false
	case s.M != "":
		if c.v.Kind() == reflect.Ptr && c.v.IsNil() {
			if _, onValue := c.v.Type().Elem().MethodByName(s.M); !onValue {
				if _, onPtr := c.v.Type().MethodByName(s.M); onPtr {
					// Go calls a pointer-receiver method with a nil receiver; what happens next is the method's business
					return c, "unspec:ptr-method-on-nil", false
				}
			}
			return c, "nil-pointer", false
		}
		if viaNilEmbedded(c.v, s.M) {
			// Go panics here (value receiver) or calls the method with a nil receiver (pointer receiver)
			return c, "unspec:method-through-nil-embedded-pointer", false
		}
		m := c.v.MethodByName(s.M)
		if !m.IsValid() && c.v.Kind() != reflect.Ptr {
			if _, ok := reflect.PtrTo(c.v.Type()).MethodByName(s.M); ok {
				ptrOnTemp = !c.addr
				pv := reflect.New(c.v.Type())
				pv.Elem().Set(c.v)
				m = pv.MethodByName(s.M)
			}
		}
		if !m.IsValid() {
			if c.v.Kind() == reflect.Ptr {
				return c, "unknown-method-on-pointer", false
			}
			return c, "unknown-member", false
		}
		mt := m.Type()
		if mt.NumIn() != len(s.A) || mt.NumOut() == 0 {
			return c, "bad-arguments", false
		}
		in := make([]reflect.Value, len(s.A))
		for i, a := range s.A {
			if pk := mt.In(i).Kind(); pk != reflect.Interface && (a.Int != (pk == reflect.Int) || !a.Int && pk != reflect.String) {
				return c, "bad-arguments", false
			}
			if a.Int {
				in[i] = reflect.ValueOf(a.I)
			} else {
				in[i] = reflect.ValueOf(a.S)
			}
		}
		return cur{m.Call(in)[0], false}, "", ptrOnTemp
	}
	if c, why = deref(c); why != "" {
		return c, why, false
	}
	if c.v.Kind() != reflect.Struct {
		return c, "unknown-member", false
	}
	sf, ok := c.v.Type().FieldByName(s.F)
	if !ok {
		return c, "unknown-member", false
	}
	if sf.PkgPath != "" {
		return c, "unexported-member", false
	}
	// a promoted field: through the embedded structs, by value or by pointer
	v := c.v
	for i, ix := range sf.Index {
		if i > 0 && v.Kind() == reflect.Ptr {
			if v.IsNil() {
				return c, "nil-pointer", false
			}
			v = v.Elem()
		}
		v = v.Field(ix)
	}
	return cur{v, c.addr}, "", false
}

// viaNilEmbedded: the method name belongs to a struct embedded by pointer, and that pointer is nil.
func viaNilEmbedded(v reflect.Value, name string) bool {
	for v.Kind() == reflect.Ptr && !v.IsNil() {
		v = v.Elem()
	}
	if v.Kind() != reflect.Struct {
		return false
	}
	for i := 0; i < v.NumField(); i++ {
		if f := v.Type().Field(i); f.Anonymous && f.Type.Kind() == reflect.Ptr && v.Field(i).IsNil() {
			if _, ok := f.Type.MethodByName(name); ok {
				return true
			}
		}
	}
	return false
}

// walk applies steps and reads the leaf.
func walk(c cur, steps []Step) (res walkRes) {
	for _, s := range steps {
		var why string
		var pt bool
		if c, why, pt = apply(c, s); why != "" {
			if strings.HasPrefix(why, "unspec:") {
				return walkRes{unspec: why[7:]}
			}
			return walkRes{why: why, addrUnspe: res.addrUnspe}
		}
		if pt {
			res.addrUnspe = true
		}
	}
	c, why := unwrap(c)
	if why != "" {
		res.unspec = "ends-at-nil"
		return
	}
	if c.v.Kind() == reflect.Ptr && c.v.Type().Elem().Kind() == reflect.String {
		if c.v.IsNil() {
			res.unspec = "ends-at-nil"
			return
		}
		c.v = c.v.Elem()
	}
	if c.v.Kind() != reflect.String {
		res.unspec = "ends-at-non-leaf"
		return
	}
	res.ok, res.val = true, c.v.String()
	return
}

// ---- shapes ------------------------------------------------------------------------

// segments: the steps of each separately evaluated expression (cuts split the path).
func (c Case) segments() [][]Step {
	var segs [][]Step
	start := 0
	for _, k := range c.Cuts {
		segs = append(segs, c.Steps[start:k.At])
		start = k.At
		if k.For {
			start++
		}
	}
	return append(segs, c.Steps[start:])
}

// sig: F field, I/V literal/variable index, M method; | let-cut, * for-cut.
func (c Case) sig() string {
	var sb strings.Builder
	ci := 0
	for i, s := range c.Steps {
		if ci < len(c.Cuts) && c.Cuts[ci].At == i {
			if c.Cuts[ci].For {
				sb.WriteByte('*')
				ci++
				continue
			}
			sb.WriteByte('|')
			ci++
		}
		switch {
		case s.X && s.A[0].Var:
			sb.WriteByte('V')
		case s.X:
			sb.WriteByte('I')
		case s.M != "":
			sb.WriteByte('M')
		default:
			sb.WriteByte('F')
		}
	}
	return sb.String()
}

// knownOpen: path-shape classes on which plush is currently known to violate
// C11 (see the report / known findings). The generators still produce them:
//
//	wrong-value/...    the case is skipped before rendering (plush answers with ANOTHER element's value)
//	clean-failure/...  a clean failure (error or empty output) of a COMPLETABLE path is tolerated;
//	                   a wrong value or a panic inside the class is still a violation
//	panic/...          a panic is tolerated
//
// every tolerated / skipped case is counted with r.Exclude(class). Empty the
// table when the defects are fixed; open entries of known_findings.json
// (r.OpenClass) add to it.
var knownOpen = map[string]bool{
	// (the six classes found when this check was first run were fixed in /repo)
	//
	// (the five classes found when the Node and Ext families were added - AF-41, AF-42, AF-43 - were fixed as well)
}

// strictMode: no class is tolerated (used only while the witnesses below are
// replayed, sequentially, before any parallel phase).
var strictMode bool

// C11_NO_OPEN=1 (debug aid): run as if knownOpen were empty, e.g. against a tree with the repair applied.
var noOpen = os.Getenv("C11_NO_OPEN") != ""

func isOpen(r *vk.Run, class string) bool {
	return !strictMode && !noOpen && (knownOpen[class] || r.OpenClass(class))
}

func st(f string) Step                 { return Step{F: f} }
func call(m string, a ...Arg) Step     { return Step{M: m, A: a} }
func at(a Arg) Step                    { return Step{X: true, A: []Arg{a}} }
func lit(i int) Arg                    { return Arg{Int: true, I: i} }
func key(s string) Arg                 { return Arg{S: s} }
func vr(a Arg) Arg                     { a.Var = true; return a }
func path(root string, s ...Step) Case { return Case{Root: root, Steps: s} }

// witnesses: one minimal case per class; replayed at the start of every run,
// reported as KNOWN-FINDING while it still fails.
var witnesses = []struct {
	class, what string
	c           Case
}{
	{"wrong-value/fields-dropped-before-call", "x.A().F.B() is evaluated as x.A().B(): fields between a call (or an indexed variable) and a later call are dropped (parser assignCallee overwrites the call's callee)",
		path("r", call("GetMid"), st("Leaf"), call("Hello"))},
	{"wrong-value/unknown-method-on-pointer", "calling an unknown method on a pointer returns the pointer itself instead of failing",
		Case{Root: "r", Ptr: true, Steps: []Step{call("Nope"), st("Mid"), st("Name")}, Cuts: []Cut{{At: 1, V: "x"}}}},
	{"clean-failure/index-then-method", "a[i].M() / a[i].F.M() with a dotted a fails with 'unknown identifier' (AF-22)",
		path("r", st("Mids"), at(lit(1)), call("Hello"))},
	{"clean-failure/three-indexed-levels-similar-names", "r.M[k].M[k].M[k] fails with 'unknown identifier' or renders nothing (AF-22)",
		path("r", st("M"), at(key("a")), st("M"), at(key("a")), st("M"), at(key("a")))},
	{"clean-failure/call-call-index", "x.A().B()[i] is rejected: 'invalid nested index access'",
		path("r", call("GetMid"), call("GetM"), at(key("a")), st("Name"))},
	{"clean-failure/for-over-chained-calls", "for (k, v) in x.A().B() { does not parse: the chained call swallows the block",
		Case{Root: "r", Steps: []Step{call("GetMid"), call("GetM"), at(key("a")), st("Name")}, Cuts: []Cut{{At: 2, For: true, V: "e"}}}},
	{"panic/negative-index", "a negative index held in a variable panics in reflect (AF-19)",
		path("r", st("Mids"), at(vr(lit(-1))), st("Name"))},
	{"panic/method-on-nil-pointer", "a method call on a nil pointer / nil callee panics in reflect (AF-19)",
		path("r", st("NilMid"), call("Hello"))},
	{"clean-failure/call-after-fields-then-member", "x[i].F.M().G and x.A().F.M().G fail with 'unknown identifier': the result of a call that has receiver fields of its own and sits below an index or a call is bound under the printed form of the function at run time, but looked up under the printed form it had when it was parsed",
		Case{Fam: "node", Root: "n", Steps: []Step{st("Kids"), at(lit(0)), st("Next"), call("Kid", lit(1)), st("Name")}}},
	{"wrong-value/call-after-fields-root-named-like-a-field", "the same, when the root variable is called like the field: the lookup finds the result of the OUTER call: Next.Kid(0).Next.Kid(1).Name gives Next.Kid(0).Name",
		Case{Fam: "node", Root: "Next", Steps: []Step{call("Kid", lit(0)), st("Next"), call("Kid", lit(1)), st("Name")}}},
	{"clean-failure/variable-named-like-member", "n.Kids[0].Kids[1].M[Kids] with a template variable Kids: below the second level the indexed element is bound under the bare member name in the scope the rest of the path is evaluated in, and hides the variable",
		Case{Fam: "node", Root: "n", Steps: []Step{st("Kids"), at(lit(0)), st("Kids"), at(lit(1)), st("M"), at(Arg{S: "b", Var: true, N: "Kids"}), st("Name")}}},
	{"wrong-value/variable-named-like-member-as-any-argument", "the same with the variable as an argument of type interface{}: the method receives the indexed element instead of the variable",
		Case{Fam: "node", Root: "n", Steps: []Step{st("Kids"), at(lit(0)), st("Kids"), at(lit(1)), call("Echo", Arg{Int: true, I: 1, Var: true, N: "Kids"})}}},
	{"clean-failure/index-through-pointer-to-array", "p[i] with p a POINTER to an array that is not a struct field of pointer type (held in an interface, a map or slice element, a call result, a context variable) fails with 'could not index *[2]...': field selection and for loops dereference pointers, indexing does not",
		Case{Fam: "ext", Variant: 1, Root: "x", Steps: []Step{st("IA"), at(lit(0)), at(lit(1))}}},
}

func replayWitnesses(r *vk.Run) {
	strictMode = true
	defer func() { strictMode = false }()
	for _, w := range witnesses {
		f := checkCase(r, w.c) // strict: a witness of a class that is no longer open is an ordinary regression case
		switch {
		case f != nil && (knownOpen[w.class] || r.OpenClass(w.class)):
			fmt.Printf("KNOWN-FINDING: property=C11 class=%s %s; witness %s\n", w.class, w.what, w.c.template())
		case f != nil:
			r.Violation(f)
		case knownOpen[w.class]:
			fmt.Printf("NOTE: class %s is listed in knownOpen but its witness %s now passes\n", w.class, w.c.template())
		}
	}
}

func segSig(seg []Step) string {
	b := make([]byte, len(seg))
	for i, s := range seg {
		switch {
		case s.X:
			b[i] = 'X'
		case s.M != "":
			b[i] = 'M'
		default:
			b[i] = 'F'
		}
	}
	return string(b)
}

func reRule(re string) func([]Step, string) bool {
	rx := regexp.MustCompile(re)
	return func(seg []Step, _ string) bool { return rx.MatchString(segSig(seg)) }
}

// similarIndexedNames: the expression has three or more member levels separated
// by indexes (a[i].b[j].c or a[i].b[j].c[k]) and two of those members have
// names of which one contains the other (r.M[k].M[k].M[k], r.M[k].IM[i].IM,
// and M[i].M[k].M[k] for a variable called M).
func similarIndexedNames(seg []Step, base string) bool {
	var names []string
	for i, s := range seg {
		if !s.X {
			continue
		}
		switch {
		case i == 0:
			names = append(names, base)
		case seg[i-1].F != "":
			names = append(names, seg[i-1].F)
		case seg[i-1].M != "":
			names = append(names, seg[i-1].M)
		default:
			names = append(names, "")
		}
	}
	// the member selected right after the last index counts as the third level
	for i := len(seg) - 1; i > 0; i-- {
		if seg[i-1].X {
			if !seg[i].X {
				names = append(names, seg[i].F+seg[i].M)
			}
			break
		}
	}
	if len(names) < 3 {
		return false
	}
	for i := range names {
		for j := i + 1; j < len(names); j++ {
			if names[i] != "" && names[j] != "" && (strings.Contains(names[i], names[j]) || strings.Contains(names[j], names[i])) {
				return true
			}
		}
	}
	return false
}

// callAfterFields: a call with receiver fields of its own below an index or a
// call, and something selected from its result: x[i].F.M().G, x.A().F.G.M()[i].
var reCallAfterFields = regexp.MustCompile(`[XM]F+M.`)

func callAfterFields(seg []Step, _ string) bool { return reCallAfterFields.MatchString(segSig(seg)) }

func callAfterFieldsRootIsField(seg []Step, base string) bool {
	if !callAfterFields(seg, base) {
		return false
	}
	for _, s := range seg {
		if s.F == base {
			return true
		}
	}
	return false
}

// shadowedVars lists the variable arguments of the expression that have the
// name under which plush binds an indexed element or a call result while it
// evaluates the rest of the path: the bare member name X of `].X[i].` and the
// bare method name M of `].M().` / `).M().` - at the second level and below;
// the first level is bound under a dotted name no variable can have.
func shadowedVars(seg []Step) (out []struct{ step, arg int }) {
	bound := map[string]bool{}
	prevBinding := -1 // step of the previous binding point
	for i, s := range seg {
		for ai, a := range s.A {
			if a.Var && bound[a.varName()] {
				out = append(out, struct{ step, arg int }{i, ai})
			}
		}
		last := i == len(seg)-1
		switch {
		case s.X && !last && !seg[i+1].X:
			if prevBinding >= 0 && i == prevBinding+2 && seg[i-1].F != "" {
				bound[seg[i-1].F] = true
			}
			prevBinding = i
		case s.X: // a[i][j]: no member is selected from a[i]
		case s.M != "" && !last && !seg[i+1].X: // (f()[i].x binds the element under a name that has parentheses in it)
			if prevBinding >= 0 && i == prevBinding+1 {
				bound[s.M] = true
			}
			prevBinding = i
		}
	}
	return out
}

func variableNamedLikeMember(seg []Step, _ string) bool { return len(shadowedVars(seg)) > 0 }

func variableNamedLikeMemberAsAny(seg []Step, _ string) bool {
	for _, p := range shadowedVars(seg) {
		if seg[p.step].M == "Echo" {
			return true
		}
	}
	return false
}

var shapeRules = []struct {
	class    string
	match    func(seg []Step, base string) bool
	iterable bool // the rule applies to the expression used as a for iterable only
}{
	{"wrong-value/call-after-fields-root-named-like-a-field", callAfterFieldsRootIsField, false},
	{"clean-failure/call-after-fields-then-member", callAfterFields, false},
	{"wrong-value/variable-named-like-member-as-any-argument", variableNamedLikeMemberAsAny, false},
	{"clean-failure/variable-named-like-member", variableNamedLikeMember, false},
	// x.A().F.B() is evaluated as x.A().B(): the fields between two calls are dropped
	// (also x[i].F.B() when x is a plain variable, and x.A().C[i].F.B(): evaluated as x[i].B() / x.A().C[i].B())
	{"wrong-value/fields-dropped-before-call", reRule(`MF+M|(^|[XM]F)XF+M`), false},
	// a[i].M(), a[i].F.M(), a[i].M().F: "unknown identifier" (AF-22)
	{"clean-failure/index-then-method", reRule(`X.*M`), false},
	// r.M[k].M[k].M[k]: "unknown identifier" or empty output (AF-22)
	{"clean-failure/three-indexed-levels-similar-names", similarIndexedNames, false},
	// x.A().B()[i]: "invalid nested index access"
	{"clean-failure/call-call-index", reRule(`MMX`), false},
	// for (k, v) in x.A().B() { : the block is swallowed by the chained call
	{"clean-failure/for-over-chained-calls", reRule(`M.*M$`), true},
}

// shapeClasses lists the known-shape classes this case belongs to (by syntax
// alone, whatever the data).
func (c Case) shapeClasses() []string {
	var out []string
	segs := c.segments()
	iter := -1
	for i, k := range c.Cuts {
		if k.For {
			iter = i
		}
	}
	for _, rule := range shapeRules {
		for i, seg := range segs {
			if rule.iterable && i != iter {
				continue
			}
			base := c.Root
			if i > 0 {
				base = c.Cuts[i-1].V
			}
			if rule.match(seg, base) {
				out = append(out, rule.class)
				break
			}
		}
	}
	return out
}

// classOf: the first listed class of the given kind the case belongs to ("" if none).
func (c Case) classOf(kind string) string {
	for _, k := range c.shapeClasses() {
		if strings.HasPrefix(k, kind+"/") {
			return k
		}
	}
	return ""
}

// tolerated: the first open class of the given kind the case belongs to.
func (c Case) tolerated(r *vk.Run, kind string) (string, bool) {
	for _, k := range c.shapeClasses() {
		if strings.HasPrefix(k, kind+"/") && isOpen(r, k) {
			return k, true
		}
	}
	return "", false
}

// ---- the oracle ----------------------------------------------------------------------

var debug = os.Getenv("C11_DEBUG") != ""

type badRec struct {
	n   int
	tpl string
	msg string
}

var badMu sync.Mutex
var bads = map[string]*badRec{}

var reQuoted = regexp.MustCompile(`"[^"]*"`)

// noteBad groups failures by a normalised message (debug aid only).
func noteBad(c Case, f *vk.Fail) {
	msg := f.Msg
	if i := strings.Index(msg, "]: "); i >= 0 {
		msg = msg[i+3:]
	}
	cat := reQuoted.ReplaceAllString(msg, `"…"`)
	if f.Class != "" {
		cat = f.Class
	}
	if os.Getenv("C11_NAMES") != "" {
		cat = ""
		for _, st := range c.Steps {
			cat += st.F + st.M + "."
		}
		cat += " " + c.sig()
	}
	tpl := c.template()
	badMu.Lock()
	b := bads[cat]
	if b == nil {
		b = &badRec{tpl: tpl, msg: msg}
		bads[cat] = b
	}
	b.n++
	if len(tpl) < len(b.tpl) {
		b.tpl, b.msg = tpl, msg
	}
	badMu.Unlock()
}

type stats struct {
	mu sync.Mutex
	m  map[string]*[5]int64 // sig -> exact, clean-on-completable, failed-as-expected, wrong value, panic
}

var shapeStats = stats{m: map[string]*[5]int64{}}

func (s *stats) add(sig string, k int) {
	if strictMode {
		return // witness replays are not part of the exploration
	}
	s.mu.Lock()
	e := s.m[sig]
	if e == nil {
		e = &[5]int64{}
		s.m[sig] = e
	}
	e[k]++
	s.mu.Unlock()
}

var refRoots = [2]*Root{mkRoot(0), mkRoot(1)}

func render(c Case) (string, vk.Res) {
	src := c.template()
	d := c.data()
	if c.pre != nil {
		return src, vk.Safe(func() (string, error) {
			if c.pre.err != nil {
				return "", c.pre.err
			}
			return c.pre.t.Exec(plush.NewContextWith(d))
		})
	}
	return src, vk.Safe(func() (string, error) { return plush.Render(src, plush.NewContextWith(d)) })
}

// checkCase judges one case; a Reexec case is one parse followed by one
// judged execution per entry.
func checkCase(r *vk.Run, c Case) *vk.Fail {
	if len(c.Reexec) == 0 {
		return checkOne(r, c)
	}
	defer r.Watch("path", c)()
	var pre parsed
	if p := vk.Safe(func() (string, error) { pre.t, pre.err = plush.Parse(c.template()); return "", nil }); p.Panicked() {
		return &vk.Fail{Kind: "path", Case: c, Msg: fmt.Sprintf("%s: parsing: %s", c.template(), p)}
	}
	for i, e := range c.Reexec {
		k := c
		k.Reexec, k.Variant, k.Ptr, k.Spell, k.pre = nil, e.Variant, e.Ptr, e.Spell, &pre
		if f := checkOne(r, k); f != nil {
			f.Case = c
			f.Msg = fmt.Sprintf("execution %d of %d of ONE parsed template (recipes / root forms %v): %s", i+1, len(c.Reexec), c.Reexec, f.Msg)
			return f
		}
	}
	if c.Together && pre.err == nil {
		type outcome struct{ out, err string }
		exec := func(e Exec) outcome {
			k := c
			k.Reexec, k.Variant, k.Ptr, k.Spell = nil, e.Variant, e.Ptr, e.Spell
			res := vk.Safe(func() (string, error) { return pre.t.Exec(plush.NewContextWith(k.data())) })
			if res.Panicked() {
				return outcome{err: "PANIC " + fmt.Sprint(res.Panic)}
			}
			if res.Err != nil {
				return outcome{err: res.Err.Error()}
			}
			return outcome{out: res.Out}
		}
		alone := make([]outcome, len(c.Reexec))
		for i, e := range c.Reexec {
			alone[i] = exec(e)
		}
		for round := 0; round < 6; round++ {
			got := make([]outcome, len(c.Reexec))
			var wg sync.WaitGroup
			for i, e := range c.Reexec {
				wg.Add(1)
				go func(i int, e Exec) {
					defer wg.Done()
					got[i] = exec(e)
				}(i, e)
			}
			wg.Wait()
			for i := range got {
				if got[i] != alone[i] {
					g, a := got[i], alone[i]
					if len(g.out) > 300 {
						g.out = g.out[:300] + "..."
					}
					if len(a.out) > 300 {
						a.out = a.out[:300] + "..."
					}
					return &vk.Fail{Kind: "path", Case: c, Msg: fmt.Sprintf("%s: ONE parsed template executed by %d goroutines at once (recipes / root forms %v): execution %d gave %+v, alone it gave %+v", c.template(), len(c.Reexec), c.Reexec, i+1, g, a)}
				}
			}
		}
	}
	return nil
}

func checkOne(r *vk.Run, c Case) (out *vk.Fail) {
	if c.pre == nil {
		defer r.Watch("path", c)()
	}
	// class: a full class name, or the bare kind "clean-failure" / "wrong-value",
	// resolved to the listed shape class of that kind the case belongs to, if any
	fail := func(class, f string, a ...interface{}) *vk.Fail {
		if class == "clean-failure" || class == "wrong-value" {
			class = c.classOf(class)
		}
		return &vk.Fail{Kind: "path", Class: class, Case: c, Msg: fmt.Sprintf(f, a...)}
	}
	defer func() {
		if out != nil && debug {
			noteBad(c, out)
		}
	}()
	if cls, ok := c.tolerated(r, "wrong-value"); ok {
		r.Exclude(cls)
		return nil
	}
	// the reference walks its own copy of the data (never handed to plush, never written)
	start := c.refStart()
	src, res := render(c)
	sig := c.sig()
	path := canonLeaf(spellPath(c.rootSpell(), c.Steps))
	tn := map[string]string{"": "Root", "node": "Node", "ext": "Ext"}[c.Fam]
	where := fmt.Sprintf("%s  [data variant %d, %s = %s]", src, c.Variant, c.Root, map[bool]string{true: "*" + tn, false: tn}[c.Ptr])

	if res.Panicked() {
		shapeStats.add(sig, 4)
		msg := fmt.Sprint(res.Panic)
		cls := ""
		switch {
		case c.hasNegativeIndex() && strings.Contains(msg, "index out of range"):
			cls = "panic/negative-index"
		case refNilAtMethod(start, c) && (strings.Contains(msg, "on zero Value") || strings.Contains(msg, "using nil")):
			cls = "panic/method-on-nil-pointer"
		}
		if cls != "" && isOpen(r, cls) {
			r.Exclude(cls)
			return nil
		}
		return fail(cls, "%s: %s", where, res)
	}

	if res.Err != nil && strings.Contains(res.Err.Error(), "could not index *[") {
		// a clean failure, and the message says what was indexed: a pointer to an array
		if k := "clean-failure/index-through-pointer-to-array"; isOpen(r, k) {
			r.Exclude(k)
			return nil
		}
	}
	if c.Sweep != nil {
		return judgeSweep(r, c, start, res, where, fail)
	}
	if c.Bulk > 0 && res.Err == nil {
		// one segment per evaluation; all must be the same, and that one is judged
		segs := strings.Split(res.Out, ";")
		if len(segs) != c.Bulk+1 || segs[c.Bulk] != "" {
			return fail("", "%s: %d evaluations in one render, but the output has %d segments", where, c.Bulk, len(segs)-1)
		}
		for i, sg := range segs[:c.Bulk] {
			if sg != segs[0] {
				return fail("", "%s: evaluation %d of %d in one render gave %q, the first gave %q", where, i+1, c.Bulk, sg, segs[0])
			}
		}
		res.Out = segs[0]
	}
	fc := c.forCut()
	if fc < 0 {
		w := walk(start, c.Steps)
		return judge(r, c, w, res, path, where, fail)
	}
	return judgeFor(r, c, fc, start, res, where, fail)
}

// judgeSweep: the body was evaluated once per value of q; the output is one
// `value;` segment per value, each judged against the reference walk of the
// path with q replaced by that value.
func judgeSweep(r *vk.Run, c Case, start cur, res vk.Res, where string, fail failFn) *vk.Fail {
	sig := c.sig()
	n := c.Sweep.n()
	want := make([]string, n) // "" = must be empty
	whys := make([]string, n)
	allOK := true
	for i := 0; i < n; i++ {
		steps := c.stepsFor(i)
		w := walk(start, steps)
		switch {
		case w.unspec != "" || w.addrUnspe:
			r.Exclude("unspecified/sweep-body")
			return nil
		case w.ok:
			if sp := canonLeaf(spellPath(c.rootSpell(), steps)); w.val != sp {
				panic(fmt.Sprintf("harness: leaf reached by %s spells %q", sp, w.val))
			}
			want[i] = w.val
		default:
			allOK = false
			whys[i] = w.why
		}
	}
	cls := "sweep/every-value-completable"
	if !allOK {
		cls = "sweep/some-values-broken"
	}
	r.Count(c.key(), cls)
	sample(r, c, c.template(), strings.Join(want, ";")+";", res)
	if res.Err != nil {
		if allOK {
			shapeStats.add(sig, 1)
			if k, ok := c.tolerated(r, "clean-failure"); ok {
				r.Exclude(k)
				return nil
			}
			return fail("clean-failure", "%s: the path is completable for every value of q (%v) but plush gave %s", where, want, res)
		}
		shapeStats.add(sig, 2)
		return nil
	}
	segs := strings.Split(res.Out, ";")
	if len(segs) != n+1 || segs[n] != "" {
		shapeStats.add(sig, 3)
		return fail("wrong-value", "%s: output %q is not %d segments terminated by ; (want %v)", where, res.Out, n, want)
	}
	clean := false
	for i := 0; i < n; i++ {
		switch v := segs[i]; {
		case v == want[i]:
		case v == "":
			clean = true
		case want[i] == "":
			shapeStats.add(sig, 3)
			return fail(wrongClass(whys[i]), "%s: evaluation %d (q = %s) cannot be completed (%s) but plush rendered %q for it (whole output %q)", where, i+1, c.sweepVal(i), whys[i], v, res.Out)
		default:
			shapeStats.add(sig, 3)
			return fail("wrong-value", "%s: WRONG VALUE at evaluation %d (q = %s): Go navigation gives %q, plush gave %q (whole output %q, want %v)", where, i+1, c.sweepVal(i), want[i], v, res.Out, want)
		}
	}
	if clean {
		shapeStats.add(sig, 1)
		if k, ok := c.tolerated(r, "clean-failure"); ok {
			r.Exclude(k)
			return nil
		}
		return fail("clean-failure", "%s: completable evaluations rendered empty: want %v, got %q", where, want, res.Out)
	}
	shapeStats.add(sig, 0)
	return nil
}

func (c Case) sweepVal(i int) string {
	if len(c.Sweep.Strs) > 0 {
		return c.Sweep.Strs[i]
	}
	return strconv.Itoa(c.Sweep.Ints[i])
}

// unswept lists the case once per value of q, with q replaced (no sweep).
func (c Case) unswept() []Case {
	if c.Sweep == nil {
		return []Case{c}
	}
	var out []Case
	for i := 0; i < c.Sweep.n(); i++ {
		k := c
		k.Steps, k.Sweep = c.stepsFor(i), nil
		out = append(out, k)
	}
	return out
}

func (c Case) hasNegativeIndex() bool {
	if c.Sweep != nil {
		for _, k := range c.unswept() {
			if k.hasNegativeIndex() {
				return true
			}
		}
		return false
	}
	for _, s := range c.Steps {
		if s.X && s.A[0].Int && s.A[0].I < 0 {
			return true
		}
	}
	return false
}

// refNilAtMethod: in the reference walk a nil pointer is met and a method call
// is still to come (for a loop: for some element).
func refNilAtMethod(start cur, c Case) bool {
	if c.Sweep != nil {
		for _, k := range c.unswept() {
			if refNilAtMethod(start, k) {
				return true
			}
		}
		return false
	}
	at := func(from cur, steps []Step) (cur, bool, bool) { // value, completed, nil-at-method
		for i, s := range steps {
			var why string
			if from, why, _ = apply(from, s); why != "" {
				if why != "nil-pointer" && why != "unspec:ptr-method-on-nil" {
					return from, false, false
				}
				// plush carries the nil on through field selections; the next call meets it
				for _, later := range steps[i:] {
					if later.M != "" {
						return from, false, true
					}
				}
				return from, false, false
			}
		}
		return from, true, false
	}
	fc := c.forCut()
	if fc < 0 {
		_, _, n := at(start, c.Steps)
		return n
	}
	coll, ok, n := at(start, c.Steps[:fc])
	if !ok {
		return n
	}
	var why string
	if coll, why = unwrap(coll); why == "" {
		coll, why = deref(coll)
	}
	if why != "" {
		return false
	}
	var els []reflect.Value
	switch coll.v.Kind() {
	case reflect.Slice, reflect.Array:
		for i := 0; i < coll.v.Len(); i++ {
			els = append(els, coll.v.Index(i))
		}
	case reflect.Map:
		for _, k := range coll.v.MapKeys() {
			els = append(els, coll.v.MapIndex(k))
		}
	}
	for _, e := range els {
		if _, _, n := at(cur{e, true}, c.Steps[fc+1:]); n {
			return true
		}
	}
	return false
}

type failFn func(class, f string, a ...interface{}) *vk.Fail

// wrongClass: the class of "something was rendered for a path that cannot be completed".
func wrongClass(why string) string {
	if why == "unknown-method-on-pointer" {
		return "wrong-value/unknown-method-on-pointer"
	}
	return "wrong-value"
}

// untwice splits the output of a Twice case into its two renderings and
// returns the one to be judged: the one that is not exact, if any.
func untwice(out, exact string) (string, string) {
	parts := strings.Split(out, "+")
	if len(parts) != 2 {
		return "", fmt.Sprintf("output %q is not two renderings separated by +", out)
	}
	if parts[0] == exact {
		return parts[1], ""
	}
	return parts[0], ""
}

func (c Case) key() string { b, _ := json.Marshal(c); return string(b) }

func nonTrivial(c Case, completable bool) bool {
	if !completable {
		return true
	}
	if len(c.Steps) < 3 {
		return false
	}
	for _, s := range c.Steps {
		if s.X || s.M != "" {
			return true
		}
	}
	return len(c.Cuts) > 0
}

func sample(r *vk.Run, c Case, src, expect string, res vk.Res) {
	r.Sample(func() interface{} {
		return map[string]interface{}{"template": src, "data": fmt.Sprintf("mkRoot(variant=%d), ptr=%v, as %q", c.Variant, c.Ptr, c.Root), "expected": expect, "got": res.String()}
	})
}

func judge(r *vk.Run, c Case, w walkRes, res vk.Res, path, where string, fail failFn) *vk.Fail {
	sig := c.sig()
	src := c.template()
	if c.Twice && res.Err == nil {
		var bad string
		if res.Out, bad = untwice(res.Out, path); bad != "" {
			shapeStats.add(sig, 3)
			return fail("", "%s: %s", where, bad)
		}
	}
	cleanFail := res.Err != nil || res.Out == ""
	switch {
	case w.unspec != "":
		// the path ends at something that is not a leaf string: what printing it
		// gives is not C11's business
		r.Exclude("unspecified/" + w.unspec)
		return nil
	case w.ok:
		if w.val != path {
			panic(fmt.Sprintf("harness: leaf reached by %s spells %q", path, w.val))
		}
		nt := ""
		if nonTrivial(c, true) {
			nt = c.key()
		}
		cls := "completable"
		if w.addrUnspe {
			cls = "completable/ptr-method-on-temporary"
		}
		r.Count(nt, cls)
		sample(r, c, src, path, res)
		if !cleanFail && res.Out == path {
			shapeStats.add(sig, 0)
			return nil
		}
		if cleanFail {
			if w.addrUnspe {
				// Go itself refuses &temporary; failing here is navigation Go would not do either
				shapeStats.add(sig, 2)
				r.Exclude("unspecified/ptr-method-on-temporary")
				return nil
			}
			shapeStats.add(sig, 1)
			if cls, ok := c.tolerated(r, "clean-failure"); ok {
				r.Exclude(cls)
				return nil
			}
			return fail("clean-failure", "%s: the path is completable (Go navigation gives %q) but plush gave %s", where, path, res)
		}
		shapeStats.add(sig, 3)
		return fail("wrong-value", "%s: WRONG VALUE: Go navigation gives %q, plush gave %s", where, path, res)
	default:
		r.Count(c.key(), "broken/"+w.why)
		sample(r, c, src, "error or empty output ("+w.why+")", res)
		if cleanFail {
			shapeStats.add(sig, 2)
			return nil
		}
		shapeStats.add(sig, 3)
		if k := "wrong-value/" + w.why; w.why == "unknown-method-on-pointer" && isOpen(r, k) {
			r.Exclude(k)
			return nil
		}
		return fail(wrongClass(w.why), "%s: navigation cannot be completed (%s) but plush rendered %s instead of failing or rendering nothing", where, w.why, res)
	}
}

// judgeFor: the output is `key=value;` per element of the collection reached by
// the prefix.
func judgeFor(r *vk.Run, c Case, fc int, start cur, res vk.Res, where string, fail failFn) *vk.Fail {
	sig := c.sig()
	src := c.template()
	prefix, rest := c.Steps[:fc], c.Steps[fc+1:]
	coll := start
	for _, s := range prefix {
		var why string
		if coll, why, _ = apply(coll, s); why != "" {
			if strings.HasPrefix(why, "unspec:") {
				r.Exclude("unspecified/" + why[7:])
				return nil
			}
			r.Count(c.key(), "for/broken-prefix/"+why)
			if res.Err != nil || res.Out == "" {
				shapeStats.add(sig, 2)
				return nil
			}
			shapeStats.add(sig, 3)
			if k := "wrong-value/" + why; why == "unknown-method-on-pointer" && isOpen(r, k) {
				r.Exclude(k)
				return nil
			}
			return fail(wrongClass(why), "%s: the iterable cannot be reached (%s) but plush rendered %s", where, why, res)
		}
	}
	var why string
	if coll, why = unwrap(coll); why == "" {
		coll, why = deref(coll)
	}
	if why != "" {
		r.Count(c.key(), "for/broken-prefix/"+why)
		if res.Err != nil || res.Out == "" {
			shapeStats.add(sig, 2)
			return nil
		}
		shapeStats.add(sig, 3)
		return fail("", "%s: the iterable is nil (%s) but plush rendered %s", where, why, res)
	}
	type el struct {
		key string
		c   cur
	}
	var els []el
	ordered := true
	switch coll.v.Kind() {
	case reflect.Slice, reflect.Array:
		for i := 0; i < coll.v.Len(); i++ {
			els = append(els, el{strconv.Itoa(i), cur{coll.v.Index(i), true}})
		}
	case reflect.Map:
		ordered = false
		for _, k := range coll.v.MapKeys() {
			els = append(els, el{fmt.Sprint(k.Interface()), cur{coll.v.MapIndex(k), true}})
		}
		sort.Slice(els, func(i, j int) bool { return els[i].key < els[j].key })
	default:
		r.Exclude("unspecified/for-over-non-collection")
		return nil
	}
	pre := spellPath(c.rootSpell(), prefix)
	want := map[string]string{} // key -> expected value ("" = must be empty)
	whys := map[string]string{} // key -> why the element's path cannot be completed
	allOK, anyUnspec := true, false
	for _, e := range els {
		w := walk(e.c, rest)
		full := pre + "[" + e.key + "]"
		for _, s := range rest {
			full += s.spell()
		}
		full = canonLeaf(full)
		switch {
		case w.unspec != "" || w.addrUnspe:
			anyUnspec = true
		case w.ok:
			if w.val != full {
				panic(fmt.Sprintf("harness: leaf reached by %s spells %q", full, w.val))
			}
			want[e.key] = full
		default:
			allOK = false
			want[e.key] = ""
			whys[e.key] = w.why
			if k := "wrong-value/" + w.why; w.why == "unknown-method-on-pointer" && isOpen(r, k) {
				r.Exclude(k)
				return nil
			}
		}
	}
	if anyUnspec {
		r.Exclude("unspecified/for-body")
		return nil
	}
	nt := c.key()
	cls := "for/completable"
	if !allOK {
		cls = "for/some-elements-broken"
	}
	if len(els) == 0 {
		cls = "for/empty-collection"
	}
	r.Count(nt, cls)
	sample(r, c, src, fmt.Sprintf("%v", want), res)
	if res.Err != nil {
		if allOK && len(els) > 0 {
			shapeStats.add(sig, 1)
			if k, ok := c.tolerated(r, "clean-failure"); ok {
				r.Exclude(k)
				return nil
			}
			return fail("clean-failure", "%s: every element's path is completable (%v) but plush gave %s", where, want, res)
		}
		shapeStats.add(sig, 2)
		return nil
	}
	// parse the segments
	segs := strings.Split(res.Out, ";")
	if segs[len(segs)-1] != "" {
		shapeStats.add(sig, 3)
		return fail("", "%s: output %q is not a list of key=value; segments", where, res.Out)
	}
	segs = segs[:len(segs)-1]
	seen := map[string]bool{}
	clean := false
	for i, sg := range segs {
		eq := strings.IndexByte(sg, '=')
		if eq < 0 {
			shapeStats.add(sig, 3)
			return fail("", "%s: output %q: segment %q has no key", where, res.Out, sg)
		}
		k, v := sg[:eq], sg[eq+1:]
		exp, known := want[k]
		if c.Twice && known {
			var bad string
			if v, bad = untwice(v, exp); bad != "" {
				shapeStats.add(sig, 3)
				return fail("", "%s: element %s: %s (whole output %q)", where, k, bad, res.Out)
			}
		}
		if !known || seen[k] {
			shapeStats.add(sig, 3)
			return fail("", "%s: output %q: key %q is not a key of the collection, or came twice (keys %v)", where, res.Out, k, keysOf(want))
		}
		if ordered && k != strconv.Itoa(i) {
			shapeStats.add(sig, 3)
			return fail("", "%s: output %q: elements out of order", where, res.Out)
		}
		seen[k] = true
		switch {
		case v == exp:
		case v == "":
			clean = true
		default:
			shapeStats.add(sig, 3)
			if exp == "" {
				return fail(wrongClass(whys[k]), "%s: element %s cannot be navigated further but plush rendered %q for it (whole output %q)", where, k, v, res.Out)
			}
			return fail("wrong-value", "%s: WRONG VALUE for element %s: Go navigation gives %q, plush gave %q (whole output %q)", where, k, exp, v, res.Out)
		}
	}
	if len(seen) != len(want) {
		shapeStats.add(sig, 3)
		return fail("", "%s: the loop visited keys %v of %v (output %q)", where, keysOf2(seen), keysOf(want), res.Out)
	}
	if clean {
		shapeStats.add(sig, 1)
		if k, ok := c.tolerated(r, "clean-failure"); ok {
			r.Exclude(k)
			return nil
		}
		return fail("clean-failure", "%s: completable element paths rendered empty: want %v, got %q", where, want, res.Out)
	}
	shapeStats.add(sig, 0)
	return nil
}

func keysOf(m map[string]string) []string {
	var ks []string
	for k := range m {
		ks = append(ks, k)
	}
	sort.Strings(ks)
	return ks
}

func keysOf2(m map[string]bool) []string {
	var ks []string
	for k := range m {
		ks = append(ks, k)
	}
	sort.Strings(ks)
	return ks
}

// ---- generation: walking the type graph ------------------------------------------------

type cand struct {
	st     Step
	next   reflect.Type // static type after the step (nil: nothing can follow)
	broken string       // non-empty: deliberately broken step of this class
}

var (
	tString = reflect.TypeOf("")
	tRoot   = reflect.TypeOf(Root{})
	tMid    = reflect.TypeOf(Mid{})
	tLeaf   = reflect.TypeOf(Leaf{})
	tNode   = reflect.TypeOf(Node{})
	tExt    = reflect.TypeOf(Ext{})
	// dynamic types an interface-typed field or element holds in the recipes, per family
	anyAlts = map[string][]reflect.Type{
		"":     {tMid, tLeaf, tString, reflect.TypeOf([]string{})},
		"node": {tNode},
		"ext":  {tLeaf, tString, reflect.TypeOf(P{}), reflect.TypeOf(Q{}), reflect.TypeOf(map[string]interface{}{}), reflect.TypeOf([]interface{}{}), reflect.TypeOf([2][2]string{})},
	}
)

func famRoot(fam string) reflect.Type {
	switch fam {
	case "node":
		return tNode
	case "ext":
		return tExt
	}
	return tRoot
}

type candKey struct {
	t   reflect.Type
	fam string
}

func ia(i int, v bool) []Arg    { return []Arg{{Int: true, I: i, Var: v}} }
func sa(s string, v bool) []Arg { return []Arg{{S: s, Var: v}} }

var candCache sync.Map

// cands lists every step that can follow a value of static type t: all the
// good ones (by reflection over t) and the deliberately broken ones.
func cands(t reflect.Type, fam string) []cand {
	if v, ok := candCache.Load(candKey{t, fam}); ok {
		return v.([]cand)
	}
	out := cands0(t, fam)
	candCache.Store(candKey{t, fam}, out)
	return out
}

func cands0(t reflect.Type, fam string) []cand {
	for t.Kind() == reflect.Ptr {
		t = t.Elem()
	}
	var out []cand
	lv := []bool{false, true}
	switch t.Kind() {
	case reflect.Interface:
		seen := map[string]bool{}
		for _, alt := range anyAlts[fam] {
			for _, c := range cands(alt, fam) {
				k := c.st.src()
				if !seen[k] {
					seen[k] = true
					out = append(out, c)
				}
			}
		}
	case reflect.Struct:
		for _, f := range reflect.VisibleFields(t) { // the struct's own fields and the promoted ones
			if f.PkgPath != "" {
				if f.Name == "hidden" || fam == "ext" { // Ext: every unexported member, own, promoted and embedded
					out = append(out, cand{Step{F: f.Name}, nil, "unexported-member"})
				}
				continue
			}
			out = append(out, cand{Step{F: f.Name}, f.Type, ""})
		}
		pt := reflect.PtrTo(t)
		for i := 0; i < pt.NumMethod(); i++ {
			m := pt.Method(i)
			nin := m.Type.NumIn() - 1
			for _, v := range lv {
				var as []Arg
				for j := 0; j < nin; j++ {
					if m.Type.In(j+1).Kind() == reflect.Int {
						as = append(as, Arg{Int: true, I: 1, Var: v})
					} else {
						as = append(as, Arg{S: "x", Var: v != (j == 1)})
					}
				}
				out = append(out, cand{Step{M: m.Name, A: as}, m.Type.Out(0), ""})
				if nin == 0 {
					break
				}
			}
		}
		out = append(out,
			cand{Step{F: "Nope"}, nil, "unknown-member"},
			cand{Step{M: "Nope"}, nil, "unknown-member"},
			cand{Step{M: "Name"}, nil, "unknown-member"}, // a field called like a method
			cand{Step{M: "secret"}, nil, "unexported-member"},
			cand{Step{X: true, A: ia(0, false)}, nil, "not-indexable"},
		)
	case reflect.Slice, reflect.Array:
		for _, i := range []int{0, 1, 2, 3, -1} {
			for _, v := range lv {
				b := ""
				if i < 0 {
					b = "negative-index"
				}
				out = append(out, cand{Step{X: true, A: ia(i, v)}, t.Elem(), b})
			}
		}
		for _, v := range lv {
			out = append(out, cand{Step{X: true, A: sa("a", v)}, t.Elem(), "wrong-key-type"})
		}
		out = append(out, cand{Step{F: "Name"}, nil, "unknown-member"})
	case reflect.Map:
		if t.Key().Kind() == reflect.Interface {
			// keys of both types are good
			for _, v := range lv {
				out = append(out,
					cand{Step{X: true, A: sa("a", v)}, t.Elem(), ""}, cand{Step{X: true, A: ia(1, v)}, t.Elem(), ""},
					cand{Step{X: true, A: sa("b", v)}, t.Elem(), ""}, cand{Step{X: true, A: ia(3, v)}, t.Elem(), ""},
					cand{Step{X: true, A: sa("z", v)}, t.Elem(), "missing-key"}, cand{Step{X: true, A: ia(0, v)}, t.Elem(), "missing-key"})
			}
		} else if t.Key().Kind() == reflect.String {
			for _, k := range []string{"a", "b", "z"} {
				for _, v := range lv {
					b := ""
					if k == "z" {
						b = "missing-key"
					}
					out = append(out, cand{Step{X: true, A: sa(k, v)}, t.Elem(), b})
				}
			}
			for _, v := range lv {
				out = append(out, cand{Step{X: true, A: ia(1, v)}, t.Elem(), "wrong-key-type"})
			}
		} else {
			for _, k := range []int{1, 3, 0} {
				for _, v := range lv {
					b := ""
					if k == 0 {
						b = "missing-key"
					}
					out = append(out, cand{Step{X: true, A: ia(k, v)}, t.Elem(), b})
				}
			}
			for _, v := range lv {
				out = append(out, cand{Step{X: true, A: sa("a", v)}, t.Elem(), "wrong-key-type"})
			}
		}
		out = append(out, cand{Step{F: "Name"}, nil, "unknown-member"})
	case reflect.String:
		out = append(out, cand{Step{F: "Name"}, nil, "unknown-member"})
	}
	return out
}

func leafType(t reflect.Type) bool {
	if t == nil {
		return false
	}
	if t.Kind() == reflect.Ptr {
		t = t.Elem()
	}
	return t.Kind() == reflect.String
}

// enumerate calls emit for every path of at most maxLen steps that ends at a
// leaf type or at/after a broken step (at most one broken step per path).
// litOnly / mixed control literal vs variable indexes: mode 0 = every
// combination, 1 = all literal, 2 = all variable.
func enumerate(fam string, maxLen, mode int, emit func(steps []Step, broken string)) {
	var rec func(t reflect.Type, steps []Step, broken string)
	rec = func(t reflect.Type, steps []Step, broken string) {
		for _, c := range cands(t, fam) {
			if c.broken != "" && broken != "" {
				continue
			}
			if len(c.st.A) > 0 && mode != 0 {
				skip := false
				for _, a := range c.st.A {
					if a.Var != (mode == 2) {
						skip = true
					}
				}
				if skip {
					continue
				}
			}
			b := broken
			if c.broken != "" {
				b = c.broken
			}
			p := append(append([]Step(nil), steps...), c.st)
			if b != "" || leafType(c.next) {
				emit(p, b)
			}
			if c.next != nil && len(p) < maxLen && c.next.Kind() != reflect.String {
				rec(c.next, p, b)
			} else if c.next != nil && c.next.Kind() == reflect.String && len(p) < maxLen && b == "" {
				// a member of a string: only as the broken tail
				emit(append(append([]Step(nil), p...), Step{F: "Name"}), "unknown-member")
			}
		}
	}
	rec(famRoot(fam), nil, "")
}

// collSteps lists the steps from struct type t that lead to a collection:
// collection-typed fields and argument-less methods returning one.
func collSteps(t reflect.Type) []cand {
	var out []cand
	for _, c := range cands(t, "") {
		if c.broken != "" || c.next == nil || len(c.st.A) > 0 {
			continue
		}
		switch c.next.Kind() {
		case reflect.Slice, reflect.Array, reflect.Map:
			out = append(out, c)
		}
	}
	return out
}

// deepPaths: two or three INDEXED levels below the root (beyond the length
// bound of enumerate): r.C1[i].C2[j].C3[k] and r.C1[i].C2[j].<tail>, for every
// combination of collection members, two index choices and four
// literal/variable patterns.
func deepPaths(emit func(steps []Step)) {
	idx := func(t reflect.Type, alt int, v bool) Step {
		switch {
		case t.Kind() == reflect.Map && t.Key().Kind() == reflect.String:
			return Step{X: true, A: sa([]string{"a", "b"}[alt], v)}
		case t.Kind() == reflect.Map:
			return Step{X: true, A: ia([]int{1, 3}[alt], v)}
		}
		return Step{X: true, A: ia(alt, v)}
	}
	elem := func(t reflect.Type) reflect.Type {
		e := t.Elem()
		for e.Kind() == reflect.Ptr {
			e = e.Elem()
		}
		return e
	}
	tails := [][]Step{{{F: "Name"}}, {{M: "Hello"}}, {{F: "In"}, {F: "Name"}}, {{F: "PName"}}}
	pats := [][3]bool{{false, false, false}, {true, true, true}, {false, true, false}, {true, false, true}}
	for _, c1 := range collSteps(tRoot) {
		for _, c2 := range collSteps(elem(c1.next)) {
			for alt := 0; alt < 2; alt++ {
				for _, pat := range pats {
					base := []Step{c1.st, idx(c1.next, alt, pat[0]), c2.st, idx(c2.next, alt, pat[1])}
					for _, tl := range tails {
						emit(append(append([]Step(nil), base...), tl...))
					}
					for _, c3 := range collSteps(elem(c2.next)) {
						emit(append(append([]Step(nil), base...), c3.st, idx(c3.next, alt, pat[2])))
					}
				}
			}
		}
	}
}

// sweepsOf lists the sweep cases of a path (Variant / Ptr / Root left to the caller).
func sweepsOf(steps []Step, letName string, innerOnly bool) []Case {
	type pos struct{ s, a int }
	var ints, strs []pos
	for si, st := range steps {
		for ai, a := range st.A {
			if a.Var && a.Int {
				ints = append(ints, pos{si, ai})
			} else if a.Var {
				strs = append(strs, pos{si, ai})
			}
		}
	}
	mark := func(ps []pos) []Step {
		out := make([]Step, len(steps))
		copy(out, steps)
		for _, p := range ps {
			out[p.s].A = append([]Arg(nil), out[p.s].A...)
			out[p.s].A[p.a].Sw = true
		}
		return out
	}
	// inner: the argument comes after an earlier index or call step, or is a method argument
	inner := func(p pos) bool {
		if steps[p.s].M != "" {
			return true
		}
		for _, st := range steps[:p.s] {
			if st.X || st.M != "" {
				return true
			}
		}
		return false
	}
	var out []Case
	add := func(ps []pos, w Sweep, cutAt int) {
		if innerOnly && len(ps) == 1 && !inner(ps[0]) {
			return
		}
		c := Case{Steps: mark(ps), Sweep: &w}
		if cutAt > 0 {
			c.Cuts = []Cut{{At: cutAt, V: letName}}
		}
		out = append(out, c)
	}
	for _, p := range ints {
		add([]pos{p}, Sweep{Ints: []int{0, 1, 2}, Key: true}, 0)
		add([]pos{p}, Sweep{Ints: []int{1, 0, 3, 1}}, 0)
		add([]pos{p}, Sweep{Ints: []int{0, 1, 0}, Let: true}, 0)
		add([]pos{p}, Sweep{Ints: []int{1, 0, 3, 1}}, p.s)
	}
	if len(ints) > 1 {
		add(ints, Sweep{Ints: []int{0, 1, 2}, Key: true}, 0)
		add(ints, Sweep{Ints: []int{1, 0, 1}, Let: true}, 0)
	}
	for _, p := range strs {
		add([]pos{p}, Sweep{Strs: []string{"a", "b", "z", "a"}}, 0)
		add([]pos{p}, Sweep{Strs: []string{"b", "a", "b"}, Let: true}, 0)
		add([]pos{p}, Sweep{Strs: []string{"a", "b", "z", "a"}}, p.s)
	}
	if len(strs) > 1 {
		add(strs, Sweep{Strs: []string{"a", "b", "a"}}, 0)
	}
	return out
}

// usage: how a path is placed in a template.
type usage struct {
	cuts  []Cut
	twice bool
}

// usages lists the placements tried for a path in the exhaustive phase: plain
// emit (once and twice), one let at every position (twice when the variable
// is indexed directly), one for at every index step, and let-then-for /
// for-then-let pairs around each index step.
func usages(steps []Step, letName string) []usage {
	out := []usage{{nil, false}, {nil, true}}
	for at := 0; at < len(steps); at++ {
		out = append(out, usage{[]Cut{{At: at, V: letName}}, false})
		if steps[at].X {
			out = append(out, usage{[]Cut{{At: at, V: letName}}, true})
			out = append(out, usage{[]Cut{{At: at, For: true, V: "e"}}, false})
			if at+1 < len(steps) {
				out = append(out, usage{[]Cut{{At: at, For: true, V: "e"}, {At: at + 1, V: letName}}, at+2 < len(steps) && steps[at+1].X})
			}
			if at > 0 {
				out = append(out, usage{[]Cut{{At: at - 1, V: letName}, {At: at, For: true, V: "e"}}, false})
			}
		}
	}
	return out
}

// ---- the Node family: paths as sequences of hops --------------------------------------------------

// hop: one way from a Node to a Node.
type hop struct {
	code  byte
	steps func(alt int, v bool) []Step
}

var hops = []hop{
	{'K', func(alt int, v bool) []Step { return []Step{{F: "Kids"}, {X: true, A: ia(alt, v)}} }},
	{'N', func(alt int, v bool) []Step { return []Step{{F: "Next"}} }},
	{'M', func(alt int, v bool) []Step { return []Step{{F: "M"}, {X: true, A: sa([]string{"b", "a"}[alt], v)}} }},
	{'C', func(alt int, v bool) []Step { return []Step{{M: "Kid", A: ia(alt, v)}} }},
	{'P', func(alt int, v bool) []Step { return []Step{{M: "PKid", A: ia(alt, v)}} }},
	{'G', func(alt int, v bool) []Step { return []Step{{M: "GetKids"}, {X: true, A: ia(alt, v)}} }},
	{'A', func(alt int, v bool) []Step { return []Step{{F: "Any"}} }},
}

var nodeTails = []func(v bool) []Step{
	func(v bool) []Step { return []Step{{F: "Name"}} },
	func(v bool) []Step { return []Step{{M: "Hello"}} },
	func(v bool) []Step { return []Step{{M: "Greet", A: sa("x", v)}} },
	func(v bool) []Step { return []Step{{M: "Echo", A: ia(1, v)}} },
}

// hopPaths calls emit for every sequence of n hops followed by every tail. The
// index / key / argument of hop k is alt = (pat>>k)&1 and is a variable when
// bit k of vars is set; pat and vars are derived from the path's number so that
// neighbouring paths differ.
func hopPaths(n int, emit func(steps []Step, codes string)) {
	idx := make([]int, n)
	num := 0
	for {
		for ti, tail := range nodeTails {
			num++
			pat, vars := num*7, num*13+ti
			var steps []Step
			codes := make([]byte, n)
			for k, h := range idx {
				steps = append(steps, hops[h].steps((pat>>k)&1, (vars>>k)&1 == 1)...)
				codes[k] = hops[h].code
			}
			steps = append(steps, tail((vars>>n)&1 == 1)...)
			emit(steps, string(codes))
		}
		k := n - 1
		for ; k >= 0; k-- {
			idx[k]++
			if idx[k] < len(hops) {
				break
			}
			idx[k] = 0
		}
		if k < 0 {
			return
		}
	}
}

// renamings lists the cases in which ONE variable argument of the path is
// given the name of a member or method that occurs EARLIER in the path (a
// template variable called Kids used as an index below .Kids[0]): in Go a
// local variable and a member of the same name do not see each other.
func renamings(steps []Step) [][]Step {
	var out [][]Step
	for j, st := range steps {
		for ai, a := range st.A {
			if !a.Var {
				continue
			}
			seen := map[string]bool{}
			for _, e := range steps[:j] {
				n := e.F + e.M
				if n == "" || seen[n] {
					continue
				}
				seen[n] = true
				cp := append([]Step(nil), steps...)
				cp[j].A = append([]Arg(nil), st.A...)
				cp[j].A[ai].N = n
				out = append(out, cp)
			}
		}
	}
	return out
}

// slimUsages: the placements tried for the paths of the Node and Ext families:
// plain emit, emit twice, one let (at a position that rotates with the path's
// number, and directly before every index), one for at every index step.
func slimUsages(steps []Step, num int, letName string) []usage {
	out := []usage{{nil, false}, {nil, true}}
	if len(steps) > 1 {
		at := 1 + num%(len(steps)-1)
		out = append(out, usage{[]Cut{{At: at, V: letName}}, false})
	}
	for at := 1; at < len(steps); at++ {
		if steps[at].X {
			out = append(out, usage{[]Cut{{At: at, For: true, V: "e"}}, false})
			if num%2 == 0 {
				out = append(out, usage{[]Cut{{At: at, V: letName}}, true})
			}
		}
	}
	return out
}

// spine: depth hops of one kind (or alternating kinds) and a tail: the long paths.
func spines(emit func(steps []Step)) {
	kinds := []string{"K", "N", "M", "C", "P", "KN", "KC", "CK", "MC", "KM", "GK", "KNC", "CNK"}
	for _, depth := range []int{6, 9} {
		for ki, kind := range kinds {
			for vars := 0; vars < 2; vars++ {
				var steps []Step
				for k := 0; k < depth; k++ {
					code := kind[k%len(kind)]
					for _, h := range hops {
						if h.code == code {
							alt := 0
							if code != 'K' && code != 'M' { // Kids[0] and M[b] are the deep children
								alt = k % 2
							}
							steps = append(steps, h.steps(alt, vars == 1)...)
						}
					}
				}
				steps = append(steps, nodeTails[(ki+depth)%len(nodeTails)](vars == 1)...)
				emit(steps)
			}
		}
	}
}

// ---- (REC) functions of the template that call themselves from INSIDE a path -------------------
//
// A function defined in the template navigates a generated path P, and the
// recursive call (to itself, to a second function that calls it back, or
// through a function literal nested in its body) stands INSIDE the path: as
// an index, a map key or a method argument - P[... walk(dk - 1) ...]. The
// same expression node is then under evaluation several times at once, one
// evaluation nested in the other, each at a different element. The reference
// does the same recursion in Go with the reflection walk.
//
//	leaf form (hole = a string / any argument of a method):
//	    let walk = fn(dk) { if (dk <= 0) { return B } return P[walk(dk - 1)] }          emit walk(K)
//	cmp form (hole = an index, a key, any argument; B, V1, V2 are values of the hole's type):
//	    let walk = fn(dk) { if (dk <= 0) { return B } if (P[walk(dk - 1)] == "LIT") { return V1 } return V2 }
//	                                                                                      emit walk(K)|P[walk(K)]
//	mutual:  walk -> hop -> walk (leaf form: hop navigates a second path Q);  nested: walk -> fn literal in walk's body -> walk
//	Let:     the path's value goes through `let pv = ...` inside the function
//	Wrap:    the prefix up to an index / call step becomes a function of the template: pick(i).rest  (f(x).b)
//	Loop:    the emit stands in a loop body and is evaluated at several depths: for (qk, q) in ks { walk(q) }
type RecCase struct {
	P     Case   `json:"p"`    // family, recipe, root form, root name; Steps = the path P
	Hole  [2]int `json:"hole"` // P.Steps[Hole[0]].A[Hole[1]] is where the recursive call stands
	Q     []Step `json:"q,omitempty"`
	HoleQ [2]int `json:"holeq,omitempty"`
	Shape string `json:"shape"` // direct | mutual | nested
	Cmp   bool   `json:"cmp,omitempty"`
	Let   bool   `json:"let,omitempty"`
	Wrap  int    `json:"wrap,omitempty"` // > 0: P.Steps[:Wrap] is reached through the template function pick
	K     int    `json:"k"`
	Loop  []int  `json:"loop,omitempty"`
	B     Arg    `json:"b"`
	V1    Arg    `json:"v1"`
	V2    Arg    `json:"v2"`
	Lit   Arg    `json:"lit"` // cmp form: LIT is the leaf Go reaches with this value in the hole
}

func (c RecCase) key() string { b, _ := json.Marshal(c); return string(b) }

func holeOK(steps []Step, h [2]int) bool {
	return h[0] >= 0 && h[0] < len(steps) && h[1] >= 0 && h[1] < len(steps[h[0]].A)
}

func (c RecCase) wellFormed() string {
	p := c.P
	p.Cuts, p.Sweep, p.Reexec, p.Bulk, p.Together, p.Twice = nil, nil, nil, 0, false, false
	if !reflect.DeepEqual(p, c.P) {
		return "rec: cuts, sweeps, re-execution and bulk do not apply"
	}
	if why := p.wellFormed(); why != "" {
		return why
	}
	switch p.Root {
	case "walk", "hop", "pick", "inner", "dk", "dj", "pi", "pv", "q", "qk", "ks":
		return "rec: reserved root name"
	}
	for _, s := range append(append([]Step(nil), p.Steps...), c.Q...) {
		if !s.valid() {
			return "rec: bad step"
		}
		for _, a := range s.A {
			if a.Sw {
				return "rec: sweep argument"
			}
			switch a.N {
			case "walk", "hop", "pick", "inner", "dk", "dj", "pi", "pv", "q", "qk", "ks":
				return "rec: reserved variable name"
			}
		}
	}
	if !holeOK(p.Steps, c.Hole) {
		return "rec: bad hole"
	}
	if c.Shape != "direct" && c.Shape != "mutual" && c.Shape != "nested" {
		return "rec: bad shape"
	}
	if c.K < 1 || c.K > 6 || len(c.Loop) > 6 {
		return "rec: bad depth"
	}
	for _, k := range c.Loop {
		if k < 0 || k > 6 {
			return "rec: bad depth"
		}
	}
	if len(c.Q) > 0 && (c.Cmp || c.Shape != "mutual" || !holeOK(c.Q, c.HoleQ) || c.Q[c.HoleQ[0]].M == "") {
		return "rec: bad second path"
	}
	if !c.Cmp && p.Steps[c.Hole[0]].M == "" {
		return "rec: the leaf form needs a method argument"
	}
	if c.Wrap != 0 {
		if c.Wrap < 1 || c.Wrap > len(p.Steps) || c.Hole[0] < c.Wrap-1 {
			return "rec: bad wrap"
		}
		if s := p.Steps[c.Wrap-1]; s.F != "" || len(s.A) > 1 {
			return "rec: bad wrap"
		}
	}
	for _, a := range []Arg{c.B, c.V1, c.V2, c.Lit} {
		if a.Var || a.Sw || a.N != "" || strings.ContainsAny(a.S, "\"\\<>%&'\n") {
			return "rec: bad value"
		}
	}
	return ""
}

// stepSrcWith: the source of step s with argument ai replaced by the source text h.
func stepSrcWith(s Step, ai int, h string) string {
	as := make([]string, len(s.A))
	for i, a := range s.A {
		as[i] = a.src()
	}
	as[ai] = h
	if s.X {
		return "[" + as[0] + "]"
	}
	return "." + s.M + "(" + strings.Join(as, ", ") + ")"
}

// pathSrc: the source of the path with h in the hole; with wrap > 0 the prefix is pick(...).
func (c RecCase) pathSrc(steps []Step, hole [2]int, h string, wrap int) string {
	var sb strings.Builder
	start := 0
	if wrap > 0 {
		s := steps[wrap-1]
		switch {
		case len(s.A) == 0:
			sb.WriteString("pick()")
		case hole[0] == wrap-1:
			sb.WriteString("pick(" + h + ")")
		default:
			sb.WriteString("pick(" + s.A[0].src() + ")")
		}
		start = wrap
	} else {
		sb.WriteString(c.P.Root)
	}
	for i := start; i < len(steps); i++ {
		if i == hole[0] {
			sb.WriteString(stepSrcWith(steps[i], hole[1], h))
		} else {
			sb.WriteString(steps[i].src())
		}
	}
	return sb.String()
}

func litSrc(a Arg) string { a.Var, a.Sw = false, false; return a.src() }

func (c RecCase) template() string {
	var sb strings.Builder
	P := func(h string) string { return c.pathSrc(c.P.Steps, c.Hole, h, c.Wrap) }
	sb.WriteString("<% ")
	if c.Wrap > 0 {
		s := c.P.Steps[c.Wrap-1]
		pre := c.P.Root
		for _, e := range c.P.Steps[:c.Wrap-1] {
			pre += e.src()
		}
		if len(s.A) == 0 {
			sb.WriteString("let pick = fn() { return " + pre + s.src() + " }\n")
		} else {
			sb.WriteString("let pick = fn(pi) { return " + pre + stepSrcWith(s, 0, "pi") + " }\n")
		}
	}
	// use: what the function does with the value of the path expression e
	use := func(e, lit string) string {
		pre := ""
		if c.Let {
			pre, e = "let pv = "+e+"\n  ", "pv"
		}
		if c.Cmp {
			return pre + "if (" + e + " == \"" + lit + "\") { return " + litSrc(c.V1) + " }\n  return " + litSrc(c.V2)
		}
		return pre + "return " + e
	}
	lit := c.litLeaf()
	base := "if (dk <= 0) { return " + litSrc(c.B) + " }\n  "
	switch {
	case c.Shape == "direct":
		sb.WriteString("let walk = fn(dk) {\n  " + base + use(P("walk(dk - 1)"), lit) + "\n}")
	case c.Shape == "nested":
		sb.WriteString("let walk = fn(dk) {\n  " + base + "let inner = fn(dj) { return " + P("walk(dj)") + " }\n  " + use("inner(dk - 1)", lit) + "\n}")
	case c.Cmp: // mutual: walk compares what hop navigates; hop calls walk back inside the path
		sb.WriteString("let walk = fn(dk) {\n  " + base + use("hop(dk)", lit) + "\n}\n")
		sb.WriteString("let hop = fn(dk) { return " + P("walk(dk - 1)") + " }")
	default: // mutual, leaf form: two functions, two paths
		q, hq := c.P.Steps, c.Hole
		wrap := c.Wrap
		if len(c.Q) > 0 {
			q, hq, wrap = c.Q, c.HoleQ, 0
		}
		sb.WriteString("let walk = fn(dk) {\n  " + base + use(P("hop(dk - 1)"), lit) + "\n}\n")
		sb.WriteString("let hop = fn(dk) {\n  if (dk <= 0) { return " + litSrc(c.V1) + " }\n  return " + c.pathSrc(q, hq, "walk(dk - 1)", wrap) + "\n}")
	}
	sb.WriteString(" %>")
	emit := func(k string) string {
		if c.Cmp {
			return "<%= walk(" + k + ") %>|<%= " + P("walk("+k+")") + " %>"
		}
		return "<%= walk(" + k + ") %>"
	}
	if len(c.Loop) > 0 {
		sb.WriteString("<%= for (qk, q) in ks { %>" + emit("q") + ";<% } %>")
	} else {
		sb.WriteString(emit(strconv.Itoa(c.K)))
	}
	return sb.String()
}

func fillHole(steps []Step, hole [2]int, a Arg) []Step {
	out := append([]Step(nil), steps...)
	out[hole[0]].A = append([]Arg(nil), out[hole[0]].A...)
	a.Var, a.Sw, a.N = false, false, ""
	out[hole[0]].A[hole[1]] = a
	return out
}

// nav: Go navigation of the path with value h in the hole; why != "" when Go does not reach a leaf string.
func (c RecCase) nav(steps []Step, hole [2]int, h Arg) (leaf, why string) {
	w := walk(c.P.refStart(), fillHole(steps, hole, h))
	switch {
	case w.unspec != "":
		return "", "unspecified/" + w.unspec
	case !w.ok:
		return "", "broken/" + w.why
	case w.addrUnspe:
		return "", "unspecified/ptr-method-on-temporary"
	}
	return w.val, ""
}

// litLeaf: the literal the cmp form compares with.
func (c RecCase) litLeaf() string {
	if !c.Cmp {
		return ""
	}
	if l, why := c.nav(c.P.Steps, c.Hole, c.Lit); why == "" {
		return l
	}
	return "none"
}

// expected does in Go what the template's functions do; why != "" when some
// navigation on the way cannot be completed in Go (the statement then fixes
// only "error or empty" for that one navigation, not what the functions make of it).
func (c RecCase) expected() (want, why string) {
	lit := c.litLeaf()
	P := func(h Arg) string {
		l, w := c.nav(c.P.Steps, c.Hole, h)
		if w != "" && why == "" {
			why = w
		}
		return l
	}
	var walkF, hopF func(k int) Arg
	switch {
	case c.Cmp:
		walkF = func(k int) Arg {
			if k <= 0 {
				return c.B
			}
			if P(walkF(k-1)) == lit {
				return c.V1
			}
			return c.V2
		}
	case c.Shape == "mutual":
		q, hq := c.P.Steps, c.Hole
		if len(c.Q) > 0 {
			q, hq = c.Q, c.HoleQ
		}
		walkF = func(k int) Arg {
			if k <= 0 {
				return c.B
			}
			return Arg{S: P(hopF(k - 1))}
		}
		hopF = func(k int) Arg {
			if k <= 0 {
				return c.V1
			}
			l, w := c.nav(q, hq, walkF(k-1))
			if w != "" && why == "" {
				why = w
			}
			return Arg{S: l}
		}
	default:
		walkF = func(k int) Arg {
			if k <= 0 {
				return c.B
			}
			return Arg{S: P(walkF(k - 1))}
		}
	}
	emit := func(k int) string {
		v := walkF(k)
		if c.Cmp {
			return v.spell() + "|" + P(v)
		}
		return v.spell()
	}
	if len(c.Loop) == 0 {
		return emit(c.K), why
	}
	var sb strings.Builder
	for _, k := range c.Loop {
		sb.WriteString(emit(k) + ";")
	}
	return sb.String(), why
}

// ptrMethodBehindPick: pick(i) hands out a COPY of what Go addresses in place; a pointer-receiver method on it is not
// the navigation Go does.
func (c RecCase) ptrMethodBehindPick() bool {
	if c.Wrap == 0 {
		return false
	}
	for _, s := range c.P.Steps[c.Wrap:] {
		switch s.M {
		case "PHello", "PKid", "GetPMid", "GetPLeaf", "BPHello":
			return true
		}
	}
	return false
}

func (c RecCase) maxDepth() int {
	k := c.K
	if len(c.Loop) > 0 {
		k = 0
		for _, d := range c.Loop {
			k = max(k, d)
		}
	}
	return k
}

func checkRec(r *vk.Run, c RecCase) *vk.Fail {
	defer r.Watch("rec", c)()
	if c.ptrMethodBehindPick() {
		r.Exclude("unspecified/ptr-method-on-temporary")
		return nil
	}
	want, why := c.expected()
	if why != "" {
		// some navigation inside the recursion is not completable in Go: what the functions make of an
		// empty value is not C11's business (broken paths are judged by the other phases)
		r.Exclude("rec: " + why)
		return nil
	}
	src := c.template()
	d := c.P.data()
	if len(c.Loop) > 0 {
		d["ks"] = append([]int(nil), c.Loop...)
	}
	res := vk.Safe(func() (string, error) { return plush.Render(src, plush.NewContextWith(d)) })
	nt := ""
	if c.maxDepth() >= 2 && c.Hole[0] >= 1 {
		nt = c.key() // the path is entered again while it is under evaluation, below its first step
	}
	form := "leaf"
	if c.Cmp {
		form = "cmp"
	}
	r.Count(nt, "recursive/"+c.Shape+"/"+form)
	r.Sample(func() interface{} {
		return map[string]interface{}{"template": src, "data": fmt.Sprintf("family %q, recipe %d, ptr=%v, as %q", c.P.Fam, c.P.Variant, c.P.Ptr, c.P.Root), "expected": want, "got": res.String()}
	})
	tn := map[string]string{"": "Root", "node": "Node", "ext": "Ext"}[c.P.Fam]
	where := fmt.Sprintf("%s  [data variant %d, %s = %s]", src, c.P.Variant, c.P.Root, map[bool]string{true: "*" + tn, false: tn}[c.P.Ptr])
	switch {
	case res.Panicked():
		return &vk.Fail{Kind: "rec", Case: c, Msg: fmt.Sprintf("%s: %s", where, res)}
	case res.Err != nil:
		return &vk.Fail{Kind: "rec", Class: "clean-failure/recursive", Case: c, Msg: fmt.Sprintf("%s: every navigation of the recursion is completable in Go (which gives %q) but plush gave %s", where, want, res)}
	case res.Out != want:
		return &vk.Fail{Kind: "rec", Class: "wrong-value/recursive", Case: c, Msg: fmt.Sprintf("%s: WRONG VALUE: the same recursion over Go navigation gives %q, plush gave %s", where, want, res)}
	}
	return nil
}

// recValues: candidate values of the hole's type.
func recValues(hole Arg, s Step) []Arg {
	switch {
	case hole.Int:
		return []Arg{{Int: true, I: 0}, {Int: true, I: 1}, {Int: true, I: 2}}
	case s.X:
		return []Arg{{S: "b"}, {S: "a"}}
	}
	return []Arg{{S: "x"}, {S: "b"}, {S: "a"}}
}

// recCasesOf: for every argument of the path, the recursion forms that fit it; num varies the details.
// Values are tried in a fixed order until Go completes every navigation (else the first combination stays and is
// counted as excluded).
func recCasesOf(p Case, num int, full bool) []RecCase { return recCasesOf1(p, num, full, -1) }

// recCasesOf1: only >= 0: just the case with that number (modulo the number of cases) is built.
func recCasesOf1(p Case, num int, full bool, only int) []RecCase {
	var out []RecCase
	count := 0
	if only >= 0 {
		if count = len(recCasesOf1(p, num, full, -2)); count == 0 {
			return nil
		}
	}
	seq := -1
	shapes := []string{"direct", "mutual", "nested"}
	p.Steps = append([]Step(nil), p.Steps...)
	for si := range p.Steps { // (sweep marks and renamed variables of the source path stay out)
		if len(p.Steps[si].A) > 0 {
			p.Steps[si].A = append([]Arg(nil), p.Steps[si].A...)
			for ai := range p.Steps[si].A {
				p.Steps[si].A[ai].Sw = false
			}
		}
	}
	for si, s := range p.Steps {
		for ai, a := range s.A {
			num++
			vals := recValues(a, s)
			forms := []bool{true}
			if s.M != "" && !a.Int {
				forms = []bool{false, true}
			} else if s.M != "" && s.M == "Echo" {
				forms = []bool{true, false}
			}
			for fi, cmp := range forms {
				if !full && fi > 0 && num%2 == 0 {
					continue
				}
				for shi, shape := range shapes {
					if !full && (num+fi)%3 != shi {
						continue
					}
					n := num + 5*shi + 11*fi
					c := RecCase{P: p, Hole: [2]int{si, ai}, Shape: shape, Cmp: cmp, Let: n%3 == 1, K: 2 + n%2}
					seq++
					if only == -2 { // counting
						out = append(out, c)
						continue
					}
					if only >= 0 && seq != only%count {
						continue
					}
					if n%4 == 3 {
						c.Loop = []int{c.K, 0, 1, c.K}
					}
					// pick(...): at the step of the hole or at an earlier index / call step
					if n%5 >= 3 {
						for w := si + 1; w >= 1; w-- {
							if st := p.Steps[w-1]; st.F == "" && len(st.A) <= 1 && (w-1 != si || ai == 0) {
								c.Wrap = w
								if n%5 == 3 {
									break
								}
							}
						}
					}
					if !cmp && shape == "mutual" && n%2 == 0 {
						// a second path for hop: the root's own Greet / Echo, or the first path again
						if p.Fam == "node" {
							c.Q, c.HoleQ = []Step{{F: "Kids"}, {X: true, A: ia(0, false)}, {M: "Greet", A: sa("x", false)}}, [2]int{2, 0}
						} else if p.Fam == "" {
							c.Q, c.HoleQ = []Step{{F: "Mids"}, {X: true, A: ia(1, n%4 == 0)}, {M: "Greet", A: sa("x", false)}}, [2]int{2, 0}
						}
					}
					found := false
				search:
					for i := range vals {
						for j := range vals {
							c.B, c.V1, c.V2, c.Lit = vals[i], vals[(i+j+1)%len(vals)], vals[(i+j)%len(vals)], vals[i]
							if !cmp {
								c.B, c.V1 = Arg{S: "z"}, Arg{S: "y"}
							}
							if _, why := c.expected(); why == "" {
								found = true
								break search
							}
							if !cmp {
								break search
							}
						}
					}
					if !found {
						c.B, c.V1, c.V2, c.Lit = vals[0], vals[1%len(vals)], vals[0], vals[0]
						if !cmp {
							c.B, c.V1 = Arg{S: "z"}, Arg{S: "y"}
						}
					}
					if why := c.wellFormed(); why != "" {
						panic("harness: generated case is not well-formed: " + why + ": " + c.key())
					}
					out = append(out, c)
				}
			}
		}
	}
	return out
}

func genRec(t *rapid.T) RecCase {
	// (mostly) recursions every navigation of which Go completes: the others are not judged
	for try := 0; ; try++ {
		c := genRec1(t)
		if _, why := c.expected(); why == "" || try >= 3 {
			return c
		}
	}
}

func genRec1(t *rapid.T) RecCase {
	fam := rapid.SampledFrom([]string{"node", "node", "", "", "ext"}).Draw(t, "fam")
	var p Case
	for try := 0; ; try++ {
		p = genCase(t, fam)
		n := 0
		for _, s := range p.Steps {
			n += len(s.A)
		}
		if n > 0 || try > 20 {
			break
		}
	}
	p.Cuts, p.Sweep, p.Twice = nil, nil, false
	switch p.Root {
	case "q", "qk", "ks":
		p.Root = "r"
	}
	num, which := rapid.IntRange(0, 59).Draw(t, "num"), rapid.IntRange(0, 999).Draw(t, "which")
	all := recCasesOf1(p, num, true, which)
	if len(all) == 0 {
		// no argument anywhere: a fixed path of the Node family instead
		p = Case{Fam: "node", Root: "n", Variant: p.Variant, Ptr: p.Ptr, Steps: []Step{{F: "Kids"}, {X: true, A: ia(1, false)}, {M: "Greet", A: sa("x", false)}}}
		all = recCasesOf1(p, num, true, which)
	}
	c := all[0]
	c.K = rapid.IntRange(1, 4).Draw(t, "depth")
	if len(c.Loop) > 0 {
		c.Loop = rapid.SliceOfN(rapid.IntRange(0, 4), 2, 4).Draw(t, "depths")
	}
	c.Let = rapid.Bool().Draw(t, "let")
	if c.Cmp && rapid.Bool().Draw(t, "values") {
		vals := recValues(c.P.Steps[c.Hole[0]].A[c.Hole[1]], c.P.Steps[c.Hole[0]])
		pick := func(l string) Arg { return vals[rapid.IntRange(0, len(vals)-1).Draw(t, l)] }
		c.B, c.V1, c.V2, c.Lit = pick("b"), pick("v1"), pick("v2"), pick("lit")
	}
	if why := c.wellFormed(); why != "" {
		panic("harness: generated case is not well-formed: " + why + ": " + c.key())
	}
	return c
}

const rule = "data: Root/Mid/Leaf/Inner graphs (value and pointer fields, nil pointers, slices, arrays, map[string], map[int], slices/maps of pointers with nil elements, interface-typed fields, value- and pointer-receiver methods with 0-2 arguments returning strings, structs, pointers, nil, slices and maps; the member names Name, Arr, M, IM, Any, Hello repeat at every depth) in 2 recipes x root passed as Root or *Root; every leaf string spells its own Go path with [A-Za-z0-9_.,()\\[\\]] only (keys and arguments unquoted). Paths: walks over the TYPE graph by reflection (field, index/key, method-call steps; literal and context-variable indexes, keys and arguments): (E1) every walk of <= L steps (quick: 3, plus every 5th walk of 4 steps; thorough: 4) that ends at a string or at a deliberately broken step (missing key, index = len and beyond, negative index, wrong key type, unknown / unexported member, field called as method, indexing a struct; nil pointers and short slices come from the data); (E2) two and three INDEXED levels r.C1[i].C2[j].C3[k] over every combination of collection-valued members; (R) random walks of up to 7+ steps with random root and variable names (names that collide with member names included). Each path is placed in <%= %> (once, and twice in a row), behind `let v = prefix` at every position, and as a `for (kk, v) in prefix` iterable at every index step (the rest continues from the loop variable; every element is checked), also let+for combined; (E3/R) SWEEPS: the whole body is put in one loop body and evaluated once per value of a variable q (loop key, loop value, or `let q = value` re-assigned in the loop scope) that stands for one or several inner indexes / keys / method arguments of the path, so the same expression node is evaluated 2-4 times in one scope with different inner indexes; every evaluation is compared with the reference walk for its value. (N) NODE family: a recursive Node whose every member leads to a Node (fields Kids []Node, Next *Node, M map[string]*Node, Any interface{}; methods Kid(i) Node, PKid(i) *Node on the pointer, GetKids() []Node, Hello, Greet(s), Echo(any)); a node built by a method spells the call; 2 recipes (recipe 1: 3/1 kids, nil Next on every third level, nil map entries): every sequence of 1-3 hops x 4 tails (4 hops: sampled in the quick tier), literal/variable pattern, root and let names that are member names; long paths of 6 and 9 hops; every variable argument RENAMED to every member / method name that occurs earlier in the path (a template variable called Kids used below .Kids[0]); sweeps; BULK: one render that evaluates a path 1100 times. (X) EXT family: embedded structs (by value, by pointer - nil in recipe 1 -, of an unexported type) with promoted and shadowed fields and promoted methods, consecutive indexes (slice of slices, array of arrays, map of maps, map of slices, slice of maps; two and three in a row; at the top, below an index, below a call), interface-typed ELEMENTS (JSON-like nests, a slice of structs of two types that have the same member names in a different order, typed and untyped nil elements, a pointer to an array in an interface), a map keyed by interface{}, named slice / map types with methods, pointer to array: every walk of <= 3 steps incl. broken ones and every unexported member. (RE) RE-EXECUTION: one Template parsed once and executed 3-4 times against data of the other recipe / root form whose leaves spell the root differently; every execution is judged. Random walks for the Node and Ext families as for Root, with renamed variables. (REC) RECURSIVE TEMPLATE FUNCTIONS: a function defined in the template navigates a generated path P of the three families and the recursive call stands INSIDE the path - as an index, a map key or a method argument (r.Mids[i0].Leaves[walk(dk - 1)].Name, n.Kids[1].Greet(walk(dk - 1)), pick(walk(dk - 1)).Name) - so that the same expression node is under evaluation several times at once, each time at another element: leaf form `let walk = fn(dk) { if (dk <= 0) { return B } return P[walk(dk - 1)] }` (string / any arguments of methods; the output nests the spelled paths) and cmp form `... if (P[walk(dk - 1)] == LIT) { return V1 } return V2` (every argument position; B, V1, V2 of the hole's type, LIT = a leaf of P; emitted as walk(K)|P[walk(K)]); direct recursion, mutual recursion through a second function (leaf form: also over a second path), recursion through a function literal nested in the body; the value used directly or behind a let inside the function; emitted once or in a loop body over depths 0..K; the prefix up to an index / call step optionally behind a template function pick(i) (f(x).b); depth 1-4; exhaustively over every argument position of the short paths (E) and over random walks (R). Reference: the same recursion in Go over the reflection walk; judged only when Go completes every navigation of the recursion (else counted as excluded: broken paths are judged by the other phases), then output == the Go result, anything else (error, other text, panic) => violation; non-trivial = depth >= 2 with the hole below the first step. Reference: a reflection walk of the same steps over a separate copy of the same data (promoted members: the leaf spells the short path). Verdict per path: completable => output == the leaf's spelled path; not completable => error or empty output; a panic or any other text => violation; a clean failure of a completable path is a violation unless its shape is a listed open class. Non-trivial = broken path, or completable path of >= 3 steps containing an index, a method call or a cut; distinct by (family, recipe, root form, names, steps, cuts, twice, sweep, re-execution list, bulk)."

func setup(t *testing.T) *vk.Run {
	r := vk.Start(t, "C11", rule,
		"reflect's own field/index/method navigation is the trusted reference",
		"a pointer-receiver method called on a value Go cannot take the address of (map element, call result, interface content) may work or fail cleanly",
		"paths that end at something other than a string (struct, nil) are generated only as broken paths and otherwise not judged",
		"a method promoted through an embedded pointer that is nil (Go panics or hands the method a nil receiver) is not judged",
		"the Node graph handed to plush is shared by the renders (C11's templates cannot write to it); it is compared with a fresh one at the end of the run")
	r.Replayer("path", func(raw json.RawMessage) *vk.Fail {
		var c Case
		if f := vk.Decode(raw, &c); f != nil {
			return f
		}
		if why := c.wellFormed(); why != "" {
			return &vk.Fail{Kind: "decode", Msg: why}
		}
		// a replayed case is judged against the property itself: no class is
		// tolerated; the failure carries its class so that the kit can match it
		// against the open findings
		strictMode = true
		defer func() { strictMode = false }()
		return checkCase(r, c)
	})
	r.Replayer("rec", func(raw json.RawMessage) *vk.Fail {
		var c RecCase
		if f := vk.Decode(raw, &c); f != nil {
			return f
		}
		if why := c.wellFormed(); why != "" {
			return &vk.Fail{Kind: "decode", Msg: why}
		}
		return checkRec(r, c)
	})
	return r
}

func TestReplay(t *testing.T) { setup(t).ReplayEnv() }

type pathRec struct {
	steps  []Step
	broken string
}

func TestProp(t *testing.T) {
	r := setup(t)
	defer r.Finish()
	r.ReplayCommitted()
	replayWitnesses(r)

	// (E) exhaustive walks
	t0 := time.Now()
	if n, _ := strconv.Atoi(os.Getenv("C11_RAPID_ONLY")); n > 0 { // debug aid
		r.Rapid("walks", n, func(t *rapid.T) *vk.Fail { return checkCase(r, genCase(t, "")) })
		dumpShapes(r)
		return
	}
	L := r.Pick(3, 4)
	var paths []pathRec
	enumerate("", L, 0, func(s []Step, b string) { paths = append(paths, pathRec{s, b}) })
	full := int64(len(paths))
	if r.Quick() {
		n := 0
		enumerate("", 4, 0, func(s []Step, b string) {
			if len(s) == 4 {
				if n%5 == int(r.Seed%5) {
					paths = append(paths, pathRec{s, b})
				}
				n++
			}
		})
	}
	nwalk := len(paths)
	var ndeep int64
	deepPaths(func(s []Step) {
		if r.Thorough() || ndeep%3 == int64(r.Seed%3) {
			paths = append(paths, pathRec{s, ""})
		}
		ndeep++
	})
	type cell struct {
		path int32
		u    usage
		v    int8
	}
	var cells []cell
	for i, p := range paths {
		for _, u := range usages(p.steps, []string{"x", "M"}[i%2]) {
			for variant := 0; variant < 2; variant++ {
				cells = append(cells, cell{int32(i), u, int8(variant)})
			}
		}
	}
	ncases := int64(len(cells))
	var nwalkCases int64
	for _, k := range cells {
		if int(k.path) < nwalk {
			nwalkCases++
		}
	}
	r.Parallel(ncases, 0, func(i int64) {
		k := cells[i]
		c := Case{Variant: int(k.v), Ptr: (int(k.path)+int(k.v))%2 == 1, Root: "r", Steps: paths[k.path].steps, Cuts: k.u.cuts, Twice: k.u.twice}
		r.Check(checkCase(r, c))
	})
	r.Subspace(fmt.Sprintf("all type-graph walks of <= %d steps (%d paths; the quick tier adds every 5th walk of 4 steps) ending at a leaf or a broken step, literal x variable indexes, x usages (emit once/twice, let at each position, for at each index step, let+for) x 2 data recipes", L, full), nwalkCases, true)
	r.Subspace(fmt.Sprintf("paths with 2 or 3 indexed levels r.C1[i].C2[j].C3[k] and r.C1[i].C2[j].tail over every combination of collection-valued members x 2 index choices x 4 literal/variable patterns (%d paths; the quick tier takes every 3rd) x usages x 2 data recipes", ndeep), ncases-nwalkCases, r.Thorough())

	// (E3) sweeps: the same path expression evaluated several times in one loop
	// body while one (or every) variable index / key / argument changes
	var sweeps []Case
	for i, p := range paths {
		for _, sc := range sweepsOf(p.steps, []string{"x", "M"}[i%2], r.Quick()) {
			for variant := 0; variant < 2; variant++ {
				sc.Variant, sc.Ptr, sc.Root = variant, (i+variant)%2 == 1, "r"
				sweeps = append(sweeps, sc)
			}
		}
	}
	r.Parallel(int64(len(sweeps)), 0, func(i int64) { r.Check(checkCase(r, sweeps[i])) })
	r.Subspace("sweeps: for every path above and every variable index / key / method argument in it (one at a time - in the quick tier only those that follow an earlier index or call step, or are method arguments - and all of one type together): the whole body inside ONE loop that gives the variable 3-4 different values (loop key 0,1,2; loop value 1,0,3,1 / a,b,z,a; let q = value re-assigned in the loop scope 0,1,0 / b,a,b), also behind a let of the prefix, x 2 data recipes; every evaluation is compared with the reference walk for that value", int64(len(sweeps)), true)

	// (E4) the Node and Ext families
	var fcases []Case
	nodeRoots := []string{"n", "x", "Next", "Kids", "Kid", "M"}
	letNames := []string{"y", "Kids", "Next", "M", "Kid"}
	place := func(fam string, steps []Step, num int, us []usage) {
		root := "x"
		if fam == "node" {
			root = nodeRoots[num%len(nodeRoots)]
		}
		for variant := 0; variant < 2; variant++ {
			for _, u := range us {
				fcases = append(fcases, Case{Fam: fam, Variant: variant, Ptr: (num+variant)%2 == 1, Root: root, Steps: steps, Cuts: u.cuts, Twice: u.twice})
			}
		}
	}
	brokenUsages := func(steps []Step) []usage {
		out := []usage{{nil, false}}
		for at := 1; at < len(steps); at++ {
			if steps[at].X {
				out = append(out, usage{[]Cut{{At: at, For: true, V: "e"}}, false})
			}
		}
		return out
	}
	var hopShort [][]Step // the hop paths of <= 3 hops, for the renaming, sweep, re-execution and bulk phases
	num := 0
	var nhop [5]int64
	for n := 1; n <= 4; n++ {
		hopPaths(n, func(steps []Step, codes string) {
			nhop[n]++
			num++
			if n == 4 && r.Quick() && num%12 != int(r.Seed%12) {
				return
			}
			if n <= 3 {
				hopShort = append(hopShort, steps)
			}
			place("node", steps, num, slimUsages(steps, num, letNames[num%len(letNames)]))
		})
	}
	nHopCases := int64(len(fcases))
	spines(func(steps []Step) {
		num++
		place("node", steps, num, slimUsages(steps, num, "y"))
	})
	nSpineCases := int64(len(fcases)) - nHopCases
	for _, fam := range []string{"node", "ext"} {
		enumerate(fam, 3, 0, func(steps []Step, b string) {
			num++
			switch {
			case b != "":
				place(fam, steps, num, brokenUsages(steps))
			case fam == "ext":
				place(fam, steps, num, slimUsages(steps, num, []string{"y", "Grid", "MM", "JS"}[num%4]))
				// the same path below an index and below a call
				if num%2 == 0 {
					place(fam, append([]Step{{F: "Xs"}, {X: true, A: ia(num/2%2, num%4 == 0)}}, steps...), num, []usage{{nil, false}})
				} else {
					place(fam, append([]Step{{M: "GetX"}}, steps...), num, []usage{{nil, false}})
				}
			}
		})
	}
	// consecutive indexes (two and three in a row) at the top, below an index and below a call
	for i, tail := range [][]Step{
		{st("Grid"), at(lit(1)), at(lit(0))},
		{st("MM"), at(key("b")), at(key("b"))},
		{st("MS"), at(key("b")), at(lit(0)), st("Name")},
		{st("MS"), at(key("a")), at(lit(1)), st("Tags"), at(lit(0))},
		{st("SM"), at(lit(1)), at(key("b")), st("Name")},
		{st("SM"), at(lit(0)), at(key("a")), call("Hello")},
		{st("SM"), at(lit(1)), at(key("b")), st("In"), call("Hello")},
		{st("JS"), at(key("a")), at(key("b"))},
		{st("JS"), at(key("a")), at(key("a")), at(lit(1)), st("Name")},
		{st("JS"), at(key("a")), at(key("a")), at(lit(0)), st("Tags"), at(lit(1))},
		{st("JS"), at(key("a")), at(key("a")), at(lit(1)), call("Greet", key("x"))},
		{st("JA"), at(lit(1)), at(key("a"))},
		{st("JA"), at(lit(1)), at(key("b")), st("Name")},
		{st("JA"), at(lit(2)), at(lit(1)), st("In"), st("Name")},
		{st("JA"), at(lit(2)), at(lit(0))},
		{st("JA"), at(lit(2)), at(lit(2))},
		{st("AA"), at(lit(1)), at(lit(0))},
		{st("IA"), at(lit(0)), at(lit(1))},
		{st("AA"), at(lit(1)), at(lit(2))},
		{st("Grid"), at(lit(1)), at(lit(2))},
		{st("MM"), at(key("z")), at(key("a"))},
	} {
		for mode := 0; mode < 2; mode++ { // all literal, all variable
			steps := append([]Step(nil), tail...)
			for k := range steps {
				if len(steps[k].A) > 0 {
					steps[k].A = append([]Arg(nil), steps[k].A...)
					for j := range steps[k].A {
						steps[k].A[j].Var = mode == 1
					}
				}
			}
			num++
			place("ext", steps, num, slimUsages(steps, num, "y"))
			below := append([]Step{st("Xs"), at(Arg{Int: true, I: i % 2, Var: mode == 0})}, steps...)
			place("ext", below, num, slimUsages(below, num, "y"))
			below = append([]Step{call("GetX")}, steps...)
			place("ext", below, num, slimUsages(below, num, "y"))
		}
	}
	nEnumCases := int64(len(fcases)) - nHopCases - nSpineCases
	// a variable argument named like an earlier member of the path
	for i, steps := range hopShort {
		for _, rs := range renamings(steps) {
			fcases = append(fcases, Case{Fam: "node", Variant: i % 2, Ptr: i%4 < 2, Root: "n", Steps: rs})
		}
	}
	nRenCases := int64(len(fcases)) - nHopCases - nSpineCases - nEnumCases
	// sweeps over the short hop paths and the Ext walks
	var extGood [][]Step
	enumerate("ext", 3, 2, func(steps []Step, b string) {
		if b == "" {
			extGood = append(extGood, steps)
		}
	})
	nsw0 := int64(len(fcases))
	for i, steps := range hopShort {
		if len(steps) > 5 && r.Quick() {
			continue // quick: the paths of one and two hops
		}
		for _, sc := range sweepsOf(steps, "y", true) {
			sc.Fam, sc.Variant, sc.Ptr, sc.Root = "node", i%2, i%4 < 2, "n"
			fcases = append(fcases, sc)
		}
	}
	for i, steps := range extGood {
		for _, sc := range sweepsOf(steps, "y", false) {
			sc.Fam, sc.Variant, sc.Ptr, sc.Root = "ext", i%2, i%4 < 2, "x"
			fcases = append(fcases, sc)
		}
	}
	nSweepCases := int64(len(fcases)) - nsw0
	// ONE parsed template executed against three data sets (other recipe, other root form, the first again)
	nre0 := int64(len(fcases))
	for i, steps := range hopShort {
		if r.Thorough() || i%2 == int(r.Seed%2) {
			fcases = append(fcases, Case{Fam: "node", Root: "n", Steps: steps, Reexec: []Exec{{0, false, ""}, {1, true, "o"}, {0, true, "p"}, {0, false, ""}}})
		}
	}
	for _, steps := range extGood {
		fcases = append(fcases, Case{Fam: "ext", Root: "x", Steps: steps, Reexec: []Exec{{1, true, ""}, {0, false, "y"}, {1, false, "z"}, {1, true, ""}}})
	}
	for i, p := range paths[:nwalk] {
		if p.broken == "" && len(p.steps) <= 3 && (r.Thorough() || i%3 == int(r.Seed%3)) {
			fcases = append(fcases, Case{Root: "r", Steps: p.steps, Reexec: []Exec{{0, true, ""}, {1, false, "s"}, {0, false, "t"}}})
		}
	}
	nReCases := int64(len(fcases)) - nre0
	// one render that evaluates the path very many times
	nbulk0 := int64(len(fcases))
	for i, steps := range [][]Step{
		{{F: "Kids"}, at(lit(0)), {F: "Kids"}, at(vr(lit(1))), {F: "Name"}},
		{call("Kid", lit(0)), call("Kid", vr(lit(1))), {F: "Name"}},
		{{F: "M"}, at(key("b")), {F: "Kids"}, at(vr(lit(0))), call("Hello")},
		{{F: "Kids"}, at(lit(0)), {F: "Next"}, {F: "Name"}},
		{call("GetKids"), at(lit(1)), call("Greet", vr(key("x")))},
	} {
		fcases = append(fcases, Case{Fam: "node", Variant: i % 2, Ptr: i%2 == 1, Root: "n", Steps: steps, Bulk: 1100})
		// and the same path, 300 evaluations per render, by eight goroutines at once on ONE parsed template, each with
		// its own data (other recipe, other root form, leaves that spell the root differently)
		fcases = append(fcases, Case{Fam: "node", Root: "n", Steps: steps, Bulk: 300, Together: true,
			Reexec: []Exec{{0, false, ""}, {1, true, "o"}, {0, true, "p"}, {1, false, "q"}, {0, false, "s"}, {1, true, "t"}, {0, true, "u"}, {1, false, "w"}}})
	}
	r.Parallel(int64(len(fcases)), 0, func(i int64) { r.Check(checkCase(r, fcases[i])) })
	r.Subspace(fmt.Sprintf("Node family: every sequence of 1-3 hops (.Kids[i] .Next .M[k] .Kid(i) .PKid(i) .GetKids()[i] .Any; %d+%d+%d sequences x 4 tails .Name .Hello() .Greet(s) .Echo(any)) and of 4 hops (%d; the quick tier takes every 12th), literal/variable pattern varying with the path, root and let names that are member names; x usages (emit once/twice, a let, a for at every index step) x 2 recipes", nhop[1]/4, nhop[2]/4, nhop[3]/4, nhop[4]), nHopCases, r.Thorough())
	r.Subspace("Node family: long paths: 6 and 9 hops of one kind or of alternating kinds (13 kinds) x literal/variable x usages x 2 recipes", nSpineCases, true)
	r.Subspace("Node and Ext families: every walk of <= 3 steps over the type graph: broken walks as emit and as for iterable; completable Ext walks (embedded and promoted members, consecutive indexes, interface-typed elements, named collection types, pointer to array) x usages, and once more below x.Xs[i] / x.GetX(); 21 paths with two and three consecutive indexes (slice of slices, map of maps / slices, slice of maps, JSON-like nests) at the top, below x.Xs[i] and below x.GetX(), literal and variable, x usages; x 2 recipes", nEnumCases, true)
	r.Subspace("Node family: for every path of <= 3 hops, every variable argument and every member or method name that occurs earlier in the path: the variable is given that name", nRenCases, true)
	r.Subspace("Node and Ext families: sweeps (as above) over the hop paths (quick: <= 2 hops) and the all-variable Ext walks of <= 3 steps", nSweepCases, r.Thorough())
	r.Subspace("ONE parsed template executed 3-4 times against different data (recipe 0/1, root by value / by pointer, leaves that spell the root differently, the first again): hop paths of <= 3 hops (quick: every 2nd), Ext walks of <= 3 steps, completable Root walks of <= 3 steps (quick: every 3rd)", nReCases, r.Thorough())
	r.Subspace("one render that evaluates an indexed / chained path 1100 times (state leaking from one evaluation to the next within a render); the same paths 300 times per render by eight goroutines at once on one parsed template with different data (state leaking from one execution to another)", int64(len(fcases))-nbulk0, true)

	// (REC) functions of the template that call themselves (directly, through a second function, through a nested
	// function literal) from inside the path: every argument position of the short paths of the three families
	type recSrc struct {
		p   Case
		num int
	}
	var recs []recSrc
	tRec := time.Now()
	for i, steps := range hopShort {
		if r.Thorough() || i%2 == int(r.Seed%2) {
			recs = append(recs, recSrc{Case{Fam: "node", Variant: i % 2, Ptr: i%4 < 2, Root: nodeRoots[i%len(nodeRoots)], Steps: steps}, i})
		}
	}
	nRecNodePaths := len(recs)
	for i, p := range paths {
		if p.broken == "" && (r.Thorough() || i%2 == int(r.Seed%2)) {
			recs = append(recs, recSrc{Case{Variant: i % 2, Ptr: i%4 >= 2, Root: []string{"r", "Mids", "x"}[i%3], Steps: p.steps}, i})
		}
	}
	for i, steps := range extGood {
		recs = append(recs, recSrc{Case{Fam: "ext", Variant: i % 2, Ptr: i%4 < 2, Root: "x", Steps: steps}, i})
	}
	var nRec, nRecNode int64
	for i, s := range recs {
		n := int64(len(recCasesOf1(s.p, s.num, r.Thorough(), -2))) // (counted only: the cases are built by the shard that runs them)
		nRec += n
		if i < nRecNodePaths {
			nRecNode += n
		}
	}
	r.Parallel(int64(len(recs)), 0, func(i int64) {
		for _, c := range recCasesOf(recs[i].p, recs[i].num, r.Thorough()) {
			r.Check(checkRec(r, c))
		}
	})
	r.Subspace("recursive template functions: for every hop path of <= 3 hops (Node), every completable walk and indexed-level path above (Root) and every all-variable Ext walk (quick: every 2nd Node / Root path), and every index / key / method argument in it: the recursive call stands in that position (cmp form for every position, leaf form for string / any arguments of methods); direct, mutual (second function; leaf form also with a second path) and nested-function-literal recursion (quick: one of the three per position), depth 2-3, the value used directly or behind a let, emitted once or in a loop over depths 0..K, the prefix up to an index / call step optionally behind a template function pick(i); "+strconv.FormatInt(nRecNode, 10)+" Node cases", nRec, r.Thorough())
	if debug {
		fmt.Printf("REC phase: %d cases, %v\n", nRec, time.Since(tRec))
	}

	if debug {
		fmt.Printf("E phase done after %v\n", time.Since(t0))
	}
	// (R) random walks up to 7 steps
	r.Rapid("walks", r.Pick(6000, 60000), func(t *rapid.T) *vk.Fail {
		return checkCase(r, genCase(t, ""))
	})
	r.Rapid("node-walks", r.Pick(2500, 40000), func(t *rapid.T) *vk.Fail {
		return checkCase(r, genCase(t, "node"))
	})
	r.Rapid("ext-walks", r.Pick(1500, 25000), func(t *rapid.T) *vk.Fail {
		return checkCase(r, genCase(t, "ext"))
	})
	tRec = time.Now()
	r.Rapid("recursive-functions", r.Pick(3000, 12000), func(t *rapid.T) *vk.Fail {
		return checkRec(r, genRec(t))
	})
	if debug {
		fmt.Printf("REC random phase: %v\n", time.Since(tRec))
	}

	dumpShapes(r)

	// harness sanity: the reference copies of the data were never written
	for v := range refRoots {
		// (the Node graph handed to plush is shared by the renders: it must be as it was, too)
		if !reflect.DeepEqual(refRoots[v], mkRoot(v)) || !reflect.DeepEqual(refNodes[v], mkRootNode(v)) || !reflect.DeepEqual(sharedNodes[v], mkRootNode(v)) || !reflect.DeepEqual(refExts[v], mkRootExt(v)) {
			fmt.Printf("HARNESS-ERROR property=C11: the reference data of recipe %d (or the shared Node graph) changed during the run\n", v)
			r.Finish()
			os.Exit(2)
		}
	}
}

var rootNames = []string{"r", "x", "M", "Mid", "Leaves", "Name"}
var varNames = []string{"x", "y", "M", "Mid", "Leaf", "Name", "r", "e"}

func genCase(t *rapid.T, fam string) Case {
	c := Case{
		Fam:     fam,
		Variant: rapid.IntRange(0, 1).Draw(t, "variant"),
		Ptr:     rapid.Bool().Draw(t, "ptr"),
		Root:    rapid.SampledFrom(rootNames).Draw(t, "root"),
	}
	varNames := varNames
	if fam == "node" {
		c.Root = rapid.SampledFrom([]string{"n", "x", "Next", "Kids", "Kid", "M", "Any"}).Draw(t, "nodeRoot")
		varNames = []string{"x", "y", "Kids", "Next", "M", "Kid", "n", "e"}
	}
	n := rapid.SampledFrom([]int{2, 3, 4, 4, 5, 5, 6, 6, 7, 7}).Draw(t, "len")
	ty := famRoot(fam)
	broken := false
	for len(c.Steps) < 9 {
		cs := cands(ty, fam)
		var good, bad []cand
		for _, k := range cs {
			if k.broken == "" {
				good = append(good, k)
			} else {
				bad = append(bad, k)
			}
		}
		var k cand
		wantEnd := len(c.Steps) >= n-1
		if !broken && len(bad) > 0 && rapid.IntRange(0, 9).Draw(t, "break") == 0 {
			k = bad[rapid.IntRange(0, len(bad)-1).Draw(t, "bad")]
			broken = true
		} else {
			pool := good
			if wantEnd {
				// prefer steps that lead to a leaf
				var ends []cand
				for _, g := range good {
					if leafType(g.next) {
						ends = append(ends, g)
					}
				}
				if len(ends) > 0 {
					pool = ends
				}
			}
			if len(pool) == 0 {
				break
			}
			k = pool[rapid.IntRange(0, len(pool)-1).Draw(t, "step")]
		}
		c.Steps = append(c.Steps, k.st)
		if k.next == nil {
			break
		}
		ty = k.next
		for ty.Kind() == reflect.Ptr {
			ty = ty.Elem()
		}
		if ty.Kind() == reflect.String {
			break
		}
		if broken && wantEnd {
			break
		}
	}
	c.Twice = rapid.IntRange(0, 3).Draw(t, "twice") == 0
	// cuts
	nc := rapid.IntRange(0, 3).Draw(t, "cuts")
	last := -1
	usedFor := false
	for i := 0; i < nc && last+1 < len(c.Steps); i++ {
		at := rapid.IntRange(last+1, len(c.Steps)-1).Draw(t, "at")
		k := Cut{At: at, V: rapid.SampledFrom(varNames).Draw(t, "v")}
		if c.Steps[at].X && !usedFor && rapid.Bool().Draw(t, "for") {
			k.For = true
			usedFor = true
		}
		c.Cuts = append(c.Cuts, k)
		last = at
	}
	// sweep: a quarter of the cases without a for-cut evaluate the body in a loop
	// over values of one or several of the variable arguments
	type pos struct{ s, a int }
	var ints, strs []pos
	for si, st := range c.Steps {
		for ai, a := range st.A {
			if a.Var && a.Int {
				ints = append(ints, pos{si, ai})
			} else if a.Var {
				strs = append(strs, pos{si, ai})
			}
		}
	}
	if !usedFor && len(ints)+len(strs) > 0 && rapid.IntRange(0, 3).Draw(t, "sweep") == 0 {
		ps := ints
		if len(ints) == 0 || len(strs) > 0 && rapid.Bool().Draw(t, "sweepStrings") {
			ps = strs
		}
		w := &Sweep{}
		n := rapid.IntRange(2, 4).Draw(t, "sweepLen")
		form := rapid.IntRange(0, 2).Draw(t, "sweepForm")
		for i := 0; i < n; i++ {
			switch {
			case len(ps) > 0 && !c.Steps[ps[0].s].A[ps[0].a].Int:
				w.Strs = append(w.Strs, rapid.SampledFrom([]string{"a", "b", "z"}).Draw(t, "sv"))
			case form == 0:
				w.Ints = append(w.Ints, i)
			default:
				w.Ints = append(w.Ints, rapid.IntRange(-1, 3).Draw(t, "iv"))
			}
		}
		w.Key = form == 0 && len(w.Ints) > 0
		w.Let = form == 2
		marked := 0
		for _, p := range ps {
			if marked == 0 || rapid.Bool().Draw(t, "sweepThisToo") {
				c.Steps[p.s].A = append([]Arg(nil), c.Steps[p.s].A...)
				c.Steps[p.s].A[p.a].Sw = true
				marked++
			}
		}
		c.Sweep, c.Twice = w, false
		reserved := map[string]bool{"q": true, "qk": true, "qv": true, "sw": true}
		if reserved[c.Root] {
			c.Root = "r"
		}
		for i := range c.Cuts {
			if reserved[c.Cuts[i].V] {
				c.Cuts[i].V = "x"
			}
			if c.Cuts[i].V == c.Root { // the let would overwrite the root for the next evaluation
				c.Cuts[i].V += "2"
			}
		}
	} else if rapid.IntRange(0, 3).Draw(t, "rename") == 0 {
		// one variable argument gets the name of a member or method that occurs earlier in the path
		taken := map[string]bool{c.Root: true, "kk": true, "bulk": true, "bi": true, "bv": true}
		for _, k := range c.Cuts {
			taken[k.V] = true
		}
		type pn struct {
			s, a int
			n    string
		}
		var opts []pn
		for si, st := range c.Steps {
			for ai, a := range st.A {
				if !a.Var {
					continue
				}
				for _, e := range c.Steps[:si] {
					if n := e.F + e.M; n != "" && !taken[n] {
						opts = append(opts, pn{si, ai, n})
					}
				}
			}
		}
		if len(opts) > 0 {
			o := opts[rapid.IntRange(0, len(opts)-1).Draw(t, "renameWhich")]
			c.Steps[o.s].A = append([]Arg(nil), c.Steps[o.s].A...)
			c.Steps[o.s].A[o.a].N = o.n
		}
	}
	if why := c.wellFormed(); why != "" {
		panic("harness: generated case is not well-formed: " + why + ": " + c.key())
	}
	return c
}

// dumpShapes records, per path signature, how the verdicts fell.
func dumpShapes(r *vk.Run) {
	shapeStats.mu.Lock()
	defer shapeStats.mu.Unlock()
	var exact, clean, failedOK, bad int64
	cleanSigs := map[string]int64{}
	for sig, e := range shapeStats.m {
		exact += e[0]
		clean += e[1]
		failedOK += e[2]
		bad += e[3] + e[4]
		if e[1] > 0 {
			cleanSigs[sig] = e[1]
		}
	}
	r.Extra("verdict_exact", exact)
	r.Extra("verdict_clean_failure_of_completable_path", clean)
	r.Extra("verdict_failed_cleanly_as_required_or_allowed", failedOK)
	r.Extra("verdict_wrong_value_or_panic", bad)
	if debug {
		var cats []string
		for k := range bads {
			cats = append(cats, k)
		}
		sort.Strings(cats)
		for _, k := range cats {
			fmt.Printf("BAD n=%-6d %s\n      e.g. %s => %s\n", bads[k].n, k, bads[k].tpl, bads[k].msg)
		}
	}
	if os.Getenv("C11_SHAPES") != "" {
		var sigs []string
		for s := range shapeStats.m {
			sigs = append(sigs, s)
		}
		sort.Strings(sigs)
		for _, s := range sigs {
			e := shapeStats.m[s]
			fmt.Printf("SHAPE %-14s exact=%d clean=%d failok=%d wrong=%d panic=%d\n", s, e[0], e[1], e[2], e[3], e[4])
		}
	}
}

// TestProbe renders one template given in C11_TPL against recipe C11_VARIANT (debug aid).
func TestProbe(t *testing.T) {
	src := os.Getenv("C11_TPL")
	if src == "" {
		t.Skip()
	}
	v, _ := strconv.Atoi(os.Getenv("C11_VARIANT"))
	for _, line := range strings.Split(src, "\n") {
		c := Case{Variant: v, Ptr: os.Getenv("C11_PTR") != "", Root: "r"}
		d := c.data()
		res := vk.Safe(func() (string, error) { return plush.Render(line, plush.NewContextWith(d)) })
		fmt.Printf("%-60s => %s\n", line, res)
	}
}
