// C07 — if/else-if/else renders exactly the first truthy branch; truthiness is uniform.
package c07

import (
	"encoding/json"
	"fmt"
	"html/template"
	"reflect"
	"strings"
	"testing"
	"time"

	"verif/internal/match"
	"verif/internal/model"
	"verif/internal/vk"

	plush "github.com/gobuffalo/plush/v5"
	"pgregory.net/rapid"
)

func TestMain(m *testing.M) { vk.Main(m) }

// ---- part A: the truth table ----------------------------------------------------

type pt struct{ X int }
type iter struct{ n int }

func (i *iter) Next() interface{} { return nil }

type kind struct {
	name   string
	truthy bool
	lit    string             // literal spelling ("" = only through the variable v)
	mk     func() interface{} // value bound to v (nil func = v stays unset)
	helper func() interface{} // optional: value returned by helper hv()
}

var kinds = []kind{
	{name: "nil literal", truthy: false, lit: "nil"},
	{name: "false", truthy: false, lit: "false", mk: func() interface{} { return false }},
	{name: "true", truthy: true, lit: "true", mk: func() interface{} { return true }},
	{name: "empty string", truthy: false, lit: `""`, mk: func() interface{} { return "" }},
	{name: "string", truthy: true, lit: `"x"`, mk: func() interface{} { return "x" }},
	{name: "string false", truthy: true, lit: `"false"`, mk: func() interface{} { return "false" }},
	{name: "string 0", truthy: true, lit: `"0"`, mk: func() interface{} { return "0" }},
	{name: "space string", truthy: true, lit: `" "`, mk: func() interface{} { return " " }},
	{name: "empty HTML", truthy: false, mk: func() interface{} { return template.HTML("") }},
	{name: "HTML", truthy: true, mk: func() interface{} { return template.HTML("<b>") }},
	{name: "nil *struct", truthy: false, mk: func() interface{} { return (*pt)(nil) }},
	{name: "nil *int", truthy: false, mk: func() interface{} { return (*int)(nil) }},
	{name: "nil *[]int", truthy: false, mk: func() interface{} { return (*[]int)(nil) }},
	{name: "nil *time.Time", truthy: false, mk: func() interface{} { return (*time.Time)(nil) }},
	{name: "nil *map", truthy: false, mk: func() interface{} { return (*map[string]int)(nil) }},
	{name: "*struct", truthy: true, mk: func() interface{} { return &pt{} }},
	{name: "*int to 0", truthy: true, mk: func() interface{} { z := 0; return &z }},
	{name: "*bool to false", truthy: true, mk: func() interface{} { b := false; return &b }},
	{name: "*string to empty", truthy: true, mk: func() interface{} { s := ""; return &s }},
	{name: "unknown identifier", truthy: false},
	{name: "context value nil", truthy: false, mk: func() interface{} { return nil }},
	{name: "int 0", truthy: true, lit: "0", mk: func() interface{} { return 0 }},
	{name: "int 1", truthy: true, lit: "1", mk: func() interface{} { return 1 }},
	{name: "int -1", truthy: true, mk: func() interface{} { return -1 }},
	{name: "float 0.0", truthy: true, lit: "0.0", mk: func() interface{} { return 0.0 }},
	{name: "float 1.5", truthy: true, lit: "1.5", mk: func() interface{} { return 1.5 }},
	{name: "int8 0", truthy: true, mk: func() interface{} { return int8(0) }},
	{name: "int64 0", truthy: true, mk: func() interface{} { return int64(0) }},
	{name: "uint 0", truthy: true, mk: func() interface{} { return uint(0) }},
	{name: "uint8 0", truthy: true, mk: func() interface{} { return uint8(0) }},
	{name: "float32 0", truthy: true, mk: func() interface{} { return float32(0) }},
	{name: "empty []int", truthy: true, mk: func() interface{} { return []int{} }},
	{name: "[]int", truthy: true, mk: func() interface{} { return []int{0} }},
	{name: "empty []interface{}", truthy: true, mk: func() interface{} { return []interface{}{} }},
	{name: "empty []string", truthy: true, mk: func() interface{} { return []string{} }},
	{name: "[0]int", truthy: true, mk: func() interface{} { return [0]int{} }},
	{name: "[2]int", truthy: true, mk: func() interface{} { return [2]int{} }},
	{name: "empty map", truthy: true, mk: func() interface{} { return map[string]interface{}{} }},
	// the zero values of collection and function types: not nil pointers, not "nil" - empty collections / other values
	{name: "nil []string", truthy: true, mk: func() interface{} { return []string(nil) }},
	{name: "nil []interface{}", truthy: true, mk: func() interface{} { return []interface{}(nil) }},
	{name: "nil map", truthy: true, mk: func() interface{} { return map[string]interface{}(nil) }},
	{name: "nil func", truthy: true, mk: func() interface{} { return (func() string)(nil) }},
	{name: "struct field holding a nil slice", truthy: true, helper: func() interface{} { return struct{ Tags []string }{}.Tags }},
	{name: "map", truthy: true, mk: func() interface{} { return map[string]int{"a": 0} }},
	{name: "empty struct", truthy: true, mk: func() interface{} { return struct{}{} }},
	{name: "zero struct", truthy: true, mk: func() interface{} { return pt{} }},
	{name: "func", truthy: true, mk: func() interface{} { return func() string { return "" } }},
	{name: "iterator", truthy: true, mk: func() interface{} { return &iter{} }},
	{name: "zero time", truthy: true, mk: func() interface{} { return time.Time{} }},
	{name: "rune 0", truthy: true, mk: func() interface{} { return rune(0) }},
	{name: "byte slice empty", truthy: true, mk: func() interface{} { return []byte{} }},
	{name: "helper returning nil", truthy: false, helper: func() interface{} { return nil }},
	{name: "helper returning empty string", truthy: false, helper: func() interface{} { return "" }},
	{name: "helper returning false", truthy: false, helper: func() interface{} { return false }},
	{name: "helper returning 0", truthy: true, helper: func() interface{} { return 0 }},
	{name: "helper returning nil *struct", truthy: false, helper: func() interface{} { return (*pt)(nil) }},
	{name: "helper returning empty slice", truthy: true, helper: func() interface{} { return []int{} }},
	{name: "helper returning empty HTML", truthy: false, helper: func() interface{} { return template.HTML("") }},
}

// the test positions; %s is the value spelling. Each renders T for truthy, F for falsy.
var positions = []struct{ name, tmpl string }{
	{"if", `<%%= if (%s) { %%>T<%% } else { %%>F<%% } %%>`},
	{"else-if", `<%%= if (false) { %%>X<%% } else if (%s) { %%>T<%% } else { %%>F<%% } %%>`},
	{"second else-if", `<%%= if (false) { %%>X<%% } else if (nil) { %%>Y<%% } else if (%s) { %%>T<%% } else { %%>F<%% } %%>`},
	{"if !", `<%%= if (!%s) { %%>F<%% } else { %%>T<%% } %%>`},
	{"if !!", `<%%= if (!!%s) { %%>T<%% } else { %%>F<%% } %%>`},
	{"v && true", `<%%= if (%s && true) { %%>T<%% } else { %%>F<%% } %%>`},
	{"true && v", `<%%= if (true && %s) { %%>T<%% } else { %%>F<%% } %%>`},
	{"v || false", `<%%= if (%s || false) { %%>T<%% } else { %%>F<%% } %%>`},
	{"false || v", `<%%= if (false || %s) { %%>T<%% } else { %%>F<%% } %%>`},
	{"emit !", `<%%= if (true) { %%><%%= !%s %%><%% } %%>`}, // prints false for truthy
	{"emit &&", `<%%= %s && true %%>`},                      // prints true / false
	{"emit ||", `<%%= %s || false %%>`},
	{"emit ! top", `<%%= !%s %%>`},
	{"if in for", `<%%= for (i) in one { %%><%%= if (%s) { %%>T<%% } else { %%>F<%% } %%><%% } %%>`},
	{"if in fn", `<%% let f = fn() { %%><%%= if (%s) { %%>T<%% } else { %%>F<%% } %%><%% } %%><%%= f() %%>`},
	{"if in block helper", `<%%= blk() { %%><%%= if (%s) { %%>T<%% } else { %%>F<%% } %%><%% } %%>`},
	{"silent if + let", `<%% let r = "F" %%><%% if (%s) { let r = "T" } %%><%%= r %%>`},
	{"&& in silent tag", `<%% let r = %s && true %%><%%= if (r) { %%>T<%% } else { %%>F<%% } %%>`},
	// the name w is first tested while it is still unknown, THEN bound by a loop / parameter / helper context, then tested again
	{"unknown, then loop variable", `<%%= if (w) { %%>X<%% } %%><%%= for (w) in [%s] { %%><%%= if (w) { %%>T<%% } else { %%>F<%% } %%><%% } %%>`},
	{"unknown, then loop variable, !", `<%%= if (!w) { %%><%% } %%><%%= for (w) in [%s] { %%><%%= if (!w) { %%>F<%% } else { %%>T<%% } %%><%% } %%>`},
	{"unknown, then parameter", `<%%= if (w || w == nil) { %%><%% } %%><%% let f = fn(w) { %%><%%= if (w) { %%>T<%% } else { %%>F<%% } %%><%% } %%><%%= f(%s) %%>`},
	{"unknown, then parameter, &&", `<%%= if (w && true) { %%>X<%% } %%><%% let f = fn(w) { %%><%%= if (true && w) { %%>T<%% } else { %%>F<%% } %%><%% } %%><%%= f(%s) %%>`},
	{"unknown, then helper-context data", `<%%= if (w) { %%>X<%% } %%><%%= blkd({w: %s}) { %%><%%= if (w) { %%>T<%% } else { %%>F<%% } %%><%% } %%>`},
}

type TruthCase struct {
	Kind     int  `json:"kind"`
	Position int  `json:"position"`
	Literal  bool `json:"literal"`
}

func expectFor(pos string, truthy bool) string {
	switch pos {
	case "emit !", "emit ! top":
		return fmt.Sprint(!truthy)
	case "emit &&", "emit ||":
		return fmt.Sprint(truthy)
	}
	if truthy {
		return "T"
	}
	return "F"
}

func checkTruth(r *vk.Run, c TruthCase) *vk.Fail {
	defer r.Watch("truth", c)()
	k, p := kinds[c.Kind], positions[c.Position]
	spelling := "v"
	if c.Literal {
		spelling = k.lit
	}
	if k.helper != nil {
		spelling = "hv()"
	}
	src := fmt.Sprintf(p.tmpl, spelling)
	if strings.HasPrefix(p.name, "unknown, then") && spelling == "v" && (k.mk == nil || k.mk() == nil) {
		// these positions pass the value on: an unset name cannot be passed (that is an error by C05, not a truth value)
		r.Exclude("value-needed")
		return nil
	}
	data := map[string]interface{}{
		"one": []int{1},
		"blk": func(h plush.HelperContext) (template.HTML, error) { s, err := h.Block(); return template.HTML(s), err },
		"blkd": func(d map[string]interface{}, h plush.HelperContext) (template.HTML, error) {
			hc := h.New()
			for k, v := range d {
				hc.Set(k, v)
			}
			s, err := h.BlockWith(hc)
			return template.HTML(s), err
		},
	}
	if k.mk != nil && !c.Literal {
		data["v"] = k.mk()
	}
	if k.helper != nil {
		data["hv"] = func() interface{} { return k.helper() }
	}
	res := vk.Safe(func() (string, error) { return plush.Render(src, plush.NewContextWith(data)) })
	want := expectFor(p.name, k.truthy)
	nt := fmt.Sprintf("%s|%s|%v", k.name, p.name, c.Literal)
	r.Count(nt, "truth/"+p.name)
	r.Sample(func() interface{} {
		return map[string]interface{}{"value": k.name, "position": p.name, "template": src, "expected": want}
	})
	if res.Panicked() || res.Err != nil || res.Out != want {
		return &vk.Fail{Kind: "truth", Case: c, Msg: fmt.Sprintf("value %q tested as %q: %s gave %s, want %q (the value is %s everywhere)", k.name, p.name, src, res, want, map[bool]string{true: "truthy", false: "falsy"}[k.truthy])}
	}
	return nil
}

// ---- part A2: one test site, values of changing kind -------------------------------------------

// SweepCase: ONE set of test sites (if, else-if, !, &&, ||, emitted !) is evaluated for several values in turn
// within one render - as a loop body over a slice of the values, or as the body of a template function called once
// per value. The truth value of what is tested now may not depend on what the same site tested before.
type SweepCase struct {
	Kinds []int  `json:"kinds"`
	Mode  string `json:"mode"` // loop | fn
}

const sweepBody = `<%= if (v) { %>T<% } else { %>F<% } %><%= if (false) { %>X<% } else if (v) { %>T<% } else { %>F<% } %>` +
	`<%= if (!v) { %>F<% } else { %>T<% } %><%= if (v && true) { %>T<% } else { %>F<% } %><%= if (false || v) { %>T<% } else { %>F<% } %><%= !v %>,`

func sweepable(k kind) bool {
	if k.mk == nil {
		return false // helper results, the unknown identifier and the nil literal are not values that can be passed on
	}
	return k.mk() != nil
}

func checkSweep(r *vk.Run, c SweepCase) *vk.Fail {
	defer r.Watch("sweep", c)()
	var vals []interface{}
	want := ""
	names := []string{}
	data := map[string]interface{}{}
	for i, ki := range c.Kinds {
		k := kinds[ki]
		v := k.mk()
		vals = append(vals, v)
		data[fmt.Sprintf("a%d", i)] = v
		names = append(names, k.name)
		if k.truthy {
			want += "TTTTTfalse,"
		} else {
			want += "FFFFFtrue,"
		}
	}
	data["vals"] = vals
	src := ""
	switch c.Mode {
	case "loop":
		src = `<%= for (v) in vals { %>` + sweepBody + `<% } %>`
	case "fn":
		src = `<% let f = fn(v) { %>` + sweepBody + `<% } %>`
		for i := range c.Kinds {
			src += fmt.Sprintf(`<%%= f(a%d) %%>`, i)
		}
	default:
		return &vk.Fail{Kind: "decode", Msg: "unknown mode"}
	}
	res := vk.Safe(func() (string, error) { return plush.Render(src, plush.NewContextWith(data)) })
	nt := fmt.Sprintf("sweep|%v|%s", c.Kinds, c.Mode)
	r.Count(nt, "sweep/"+c.Mode)
	r.Sample(func() interface{} {
		return map[string]interface{}{"values": names, "template": src, "expected": want}
	})
	if res.Panicked() || res.Err != nil || res.Out != want {
		return &vk.Fail{Kind: "sweep", Case: c, Msg: fmt.Sprintf("values %q tested one after the other by one set of sites: %s gave %s, want %q", names, src, res, want)}
	}
	return nil
}

// ---- part B: chains ---------------------------------------------------------------

// ChainCase: conditions are c(i, value) where value is one of the spellings below.
type ChainCase struct {
	Conds   []int `json:"conds"` // index into condVals
	HasElse bool  `json:"else"`
	Place   int   `json:"place"` // index into places
}

var condVals = []struct {
	spell  string
	truthy bool
}{
	{"true", true}, {"false", false}, {`""`, false}, {"0", true}, {"nil", false}, {`"x"`, true}, {"hn()", false}, {"es", true}, {"np", false},
}

var places = []struct {
	name, pre, post string
	reps            int
}{
	{"top", "", "", 1},
	{"in for x3", `<%= for (i) in three { %>`, `<% } %>`, 3},
	{"in fn", `<% let f = fn() { %>`, `<% } %><%= f() %>|<%= f() %>`, 2},
	{"in block helper", `<%= blk() { %>`, `<% } %>`, 1},
	{"in if in for", `<%= for (i) in three { %><%= if (i) { %>`, `<% } %><% } %>`, 3},
}

func checkChain(r *vk.Run, c ChainCase) *vk.Fail {
	defer r.Watch("chain", c)()
	var sb strings.Builder
	first := -1
	for i, ci := range c.Conds {
		cv := condVals[ci]
		if i == 0 {
			fmt.Fprintf(&sb, `<%%= if (c(%d, %s)) { %%>B%d`, i+1, cv.spell, i+1)
		} else {
			fmt.Fprintf(&sb, `<%% } else if (c(%d, %s)) { %%>B%d`, i+1, cv.spell, i+1)
		}
		if cv.truthy && first < 0 {
			first = i
		}
	}
	if c.HasElse {
		sb.WriteString(`<% } else { %>E`)
	}
	sb.WriteString(`<% } %>`)
	pl := places[c.Place]
	src := pl.pre + sb.String() + pl.post
	one := ""
	var oneTrace []int
	switch {
	case first >= 0:
		one = fmt.Sprintf("B%d", first+1)
		for i := 0; i <= first; i++ {
			oneTrace = append(oneTrace, i+1)
		}
	default:
		if c.HasElse {
			one = "E"
		}
		for i := range c.Conds {
			oneTrace = append(oneTrace, i+1)
		}
	}
	want := strings.Repeat(one, pl.reps)
	if pl.name == "in fn" {
		want = one + "|" + one
	}
	var wantTrace []int
	for i := 0; i < pl.reps; i++ {
		wantTrace = append(wantTrace, oneTrace...)
	}
	var trace []int
	data := map[string]interface{}{
		"three": []int{1, 2, 3}, "es": []int{}, "np": (*pt)(nil),
		"blk": func(h plush.HelperContext) (template.HTML, error) { s, err := h.Block(); return template.HTML(s), err },
		"c":   func(i int, v interface{}) interface{} { trace = append(trace, i); return v },
		"hn":  func() interface{} { return nil },
	}
	res := vk.Safe(func() (string, error) { return plush.Render(src, plush.NewContextWith(data)) })
	b, _ := json.Marshal(c)
	r.Count(string(b), "chain/"+pl.name)
	r.Sample(func() interface{} {
		return map[string]interface{}{"template": src, "expected": want, "conditions evaluated": wantTrace}
	})
	if res.Panicked() || res.Err != nil || res.Out != want {
		return &vk.Fail{Kind: "chain", Case: c, Msg: fmt.Sprintf("%s gave %s, want %q", src, res, want)}
	}
	if !reflect.DeepEqual(trace, wantTrace) {
		return &vk.Fail{Kind: "chain", Case: c, Msg: fmt.Sprintf("%s evaluated conditions %v, want %v (in order, none after the first truthy one)", src, trace, wantTrace)}
	}
	return nil
}

// ---- part C: random nested chains against the reference interpreter ---------------

type NestCase struct {
	Src  string          `json:"src"` // informational: the canonical printing of Prog
	Prog json.RawMessage `json:"prog"`
}

var leafSpells = []model.Expr{
	model.Lit{V: true}, model.Lit{V: false}, model.Lit{V: ""}, model.Lit{V: "x"}, model.Lit{V: 0}, model.Lit{V: 1}, model.Lit{V: nil},
	model.Var{Name: "unk"}, model.Var{Name: "es"}, model.Var{Name: "t"}, model.Var{Name: "f"},
}

type nestGen struct {
	t   *rapid.T
	ctr int
}

func (g *nestGen) cond() model.Expr {
	g.ctr++
	l := rapid.SampledFrom(leafSpells).Draw(g.t, "leaf")
	var e model.Expr = model.Call{Fn: "c", Args: []model.Expr{model.Lit{V: g.ctr}, l}}
	if v, ok := l.(model.Var); ok && v.Name == "unk" {
		e = l // an unknown identifier is tolerated as the condition itself, not as a helper argument
	}
	switch rapid.IntRange(0, 9).Draw(g.t, "wrap") {
	case 8: // a condition that is an ARITHMETIC expression: its int value (also 0) is truthy
		g.ctr++
		e = model.Bin{Op: rapid.SampledFrom([]string{"+", "-", "*"}).Draw(g.t, "aop"),
			L: model.Call{Fn: "c", Args: []model.Expr{model.Lit{V: g.ctr - 1}, model.Lit{V: rapid.IntRange(0, 2).Draw(g.t, "ai")}}},
			R: model.Call{Fn: "c", Args: []model.Expr{model.Lit{V: g.ctr}, model.Lit{V: rapid.IntRange(0, 2).Draw(g.t, "aj")}}}}
	case 9: // a condition that is a CONCATENATION: truthy iff the result is non-empty
		g.ctr++
		e = model.Bin{Op: "+",
			L: model.Call{Fn: "c", Args: []model.Expr{model.Lit{V: g.ctr - 1}, model.Lit{V: rapid.SampledFrom([]string{"", "x"}).Draw(g.t, "si")}}},
			R: model.Call{Fn: "c", Args: []model.Expr{model.Lit{V: g.ctr}, model.Lit{V: rapid.SampledFrom([]string{"", "y"}).Draw(g.t, "sj")}}}}
	case 0:
		e = model.Not{X: e}
	case 1:
		g.ctr++
		e = model.Bin{Op: "&&", L: e, R: model.Call{Fn: "c", Args: []model.Expr{model.Lit{V: g.ctr}, rapid.SampledFrom(leafSpells[:7]).Draw(g.t, "leaf2")}}}
	case 2:
		g.ctr++
		e = model.Bin{Op: "||", L: e, R: model.Call{Fn: "c", Args: []model.Expr{model.Lit{V: g.ctr}, rapid.SampledFrom(leafSpells[:7]).Draw(g.t, "leaf2")}}}
	}
	return e
}

func (g *nestGen) nodes(depth int) []model.Node {
	n := rapid.IntRange(0, 3).Draw(g.t, "n")
	var out []model.Node
	for i := 0; i < n; i++ {
		g.ctr++
		switch k := rapid.IntRange(0, 5).Draw(g.t, "node"); {
		case k <= 1 || depth <= 0:
			out = append(out, model.Text{S: fmt.Sprintf("[t%d]", g.ctr)})
		case k == 2:
			out = append(out, model.EmitFor{For: &model.For{Val: "i", Iter: model.Var{Name: "two"}, Body: g.nodes(depth - 1)}})
		default:
			f := &model.If{Cond: g.cond(), Then: g.nodes(depth - 1)}
			for j := rapid.IntRange(0, 3).Draw(g.t, "elseifs"); j > 0; j-- {
				f.ElseIfs = append(f.ElseIfs, model.ElseIf{Cond: g.cond(), Then: g.nodes(depth - 1)})
			}
			if rapid.Bool().Draw(g.t, "else") {
				f.HasElse = true
				f.Else = g.nodes(depth - 1)
			}
			out = append(out, model.EmitIf{If: f})
		}
	}
	return out
}

func checkNest(r *vk.Run, prog []model.Node) *vk.Fail {
	src := model.Printer{}.Nodes(prog)
	c := NestCase{Src: src, Prog: model.Encode(prog)}
	return checkNestSrc(r, prog, src, c)
}

func checkNestSrc(r *vk.Run, prog []model.Node, src string, c NestCase) *vk.Fail {
	defer r.Watch("nest", c)()
	data := map[string]interface{}{"two": []interface{}{1, 2}, "es": []interface{}{}, "t": true, "f": false}
	var mtrace, ptrace []int
	mk := func(tr *[]int) map[string]model.Helper {
		return map[string]model.Helper{"c": func(a []interface{}) (interface{}, error) { *tr = append(*tr, a[0].(int)); return a[1], nil }}
	}
	want := model.Run(prog, data, mk(&mtrace))
	if want.Unspec != "" {
		r.Exclude("unspecified")
		return nil
	}
	res := vk.Safe(func() (string, error) { return plush.Render(src, model.Context(data, mk(&ptrace))) })
	nt := ""
	if strings.Count(src, "if (") >= 2 {
		nt = src
	}
	r.Count(nt, "nested")
	if nt != "" {
		r.Sample(func() interface{} {
			return map[string]interface{}{"template": src, "expected": want.Out, "conditions evaluated": mtrace}
		})
	}
	if res.Panicked() || (res.Err != nil) != (want.Err != "") || !match.SameText(res.Out, want.Out) {
		return &vk.Fail{Kind: "nest", Case: c, Msg: fmt.Sprintf("%s gave %s, reference says out=%q err=%q", src, res, want.Out, want.Err)}
	}
	if want.Err == "" && !reflect.DeepEqual(mtrace, ptrace) {
		return &vk.Fail{Kind: "nest", Case: c, Msg: fmt.Sprintf("%s evaluated conditions %v, reference says %v", src, ptrace, mtrace)}
	}
	return nil
}

const rule = "(A, exhaustive) 58 value kinds (nil, bools, nil slices / maps / funcs (truthy: not nil pointers), strings incl. \"false\"/\"0\", trusted HTML, typed nil pointers, non-nil pointers to zero values, unknown identifier, nil context value, every numeric width at 0, empty and non-empty slices/arrays/maps/structs, func, iterator, time, helper results) x 23 test positions (if, else-if, second else-if, !, !!, &&/|| on either side, emitted ! && ||, inside for / function / block helper, silent if, && in a silent tag, and five sequences in which a name is first tested while unknown, then bound by a loop variable / parameter / helper-context data and tested again), via a variable and via the literal spelling where one exists: the truth value must be the same everywhere and equal the table in the property. plus 13 conditions that are arithmetic / concatenation expressions (value tested, e.g. 0 + 0 is truthy, \"\" + \"\" falsy) x 6 positions. (A2, exhaustive + random) one set of six test sites (if, else-if, !, && , ||, emitted !) evaluated for several values in turn within one render - loop body over a slice of the values, or a template function called once per value: every ordered pair (A, B) of the 44 passable value kinds tested A, B, A, and random sequences of 2-8 kinds. (B, exhaustive) every chain of 1..4 branches x every assignment of 9 condition values x with/without else x 5 placements, each condition wrapped in a recording helper: output = block of the first truthy branch, conditions evaluated = exactly the prefix up to it. (C, random) nested if/else-if/else chains with !, && and || conditions inside loops, compared with the reference interpreter incl. the evaluation trace. Non-trivial: every matrix cell and chain is (distinct by cell / chain / template)."

func setup(t *testing.T) *vk.Run {
	r := vk.Start(t, "C07", rule,
		"the zero values of slice, map and func types are in the table as truthy: the statement lists what is falsy (nil, false, the empty string, empty HTML, nil pointers, unknown identifiers) and calls every other value, empty collections included, truthy",
		"conditions must be spelled as identifiers, literals, calls, index, prefix or infix expressions: other forms are rejected by the parser before evaluation")
	r.Replayer("truth", func(raw json.RawMessage) *vk.Fail {
		var c TruthCase
		if f := vk.Decode(raw, &c); f != nil {
			return f
		}
		if c.Kind < 0 || c.Kind >= len(kinds) || c.Position < 0 || c.Position >= len(positions) {
			return &vk.Fail{Kind: "decode", Msg: "index out of range"}
		}
		return checkTruth(r, c)
	})
	r.Replayer("chain", func(raw json.RawMessage) *vk.Fail {
		var c ChainCase
		if f := vk.Decode(raw, &c); f != nil {
			return f
		}
		for _, x := range c.Conds {
			if x < 0 || x >= len(condVals) {
				return &vk.Fail{Kind: "decode", Msg: "index out of range"}
			}
		}
		if c.Place < 0 || c.Place >= len(places) || len(c.Conds) == 0 {
			return &vk.Fail{Kind: "decode", Msg: "index out of range"}
		}
		return checkChain(r, c)
	})
	r.Replayer("sweep", func(raw json.RawMessage) *vk.Fail {
		var c SweepCase
		if f := vk.Decode(raw, &c); f != nil {
			return f
		}
		for _, k := range c.Kinds {
			if k < 0 || k >= len(kinds) || !sweepable(kinds[k]) {
				return &vk.Fail{Kind: "decode", Msg: "kind cannot be swept"}
			}
		}
		return checkSweep(r, c)
	})
	r.Replayer("arith", func(raw json.RawMessage) *vk.Fail {
		var c map[string]string
		if f := vk.Decode(raw, &c); f != nil {
			return f
		}
		res := vk.Safe(func() (string, error) {
			return plush.Render(c["src"], plush.NewContextWith(map[string]interface{}{"n0": 0, "n1": 1, "f0": 0.0, "e": "", "one": []int{1}}))
		})
		if res.Panicked() || res.Err != nil || res.Out != c["want"] {
			return &vk.Fail{Kind: "arith", Case: c, Msg: fmt.Sprintf("%s gave %s, want %q", c["src"], res, c["want"])}
		}
		return nil
	})
	r.Replayer("nest", func(raw json.RawMessage) *vk.Fail {
		var c NestCase
		if f := vk.Decode(raw, &c); f != nil {
			return f
		}
		prog, err := model.Decode(c.Prog)
		if err != nil {
			return &vk.Fail{Kind: "decode", Msg: err.Error()}
		}
		return checkNest(r, prog)
	})
	return r
}

func TestReplay(t *testing.T) { setup(t).ReplayEnv() }

func TestProp(t *testing.T) {
	r := setup(t)
	defer r.Finish()
	r.ReplayCommitted()

	var n int64
	for ki, k := range kinds {
		for pi := range positions {
			r.Check(checkTruth(r, TruthCase{Kind: ki, Position: pi}))
			n++
			if k.lit != "" && k.helper == nil {
				r.Check(checkTruth(r, TruthCase{Kind: ki, Position: pi, Literal: true}))
				n++
			}
		}
	}
	// conditions that are arithmetic / concatenation expressions (their value is tested, not a bool)
	arith := []struct {
		cond   string
		truthy bool
	}{
		{"n0 + n0", true}, {"n1 - n1", true}, {"n0 * n1", true}, {"n1 + n1", true}, {"n1 / n1", true}, {"f0 + f0", true}, {"f0 * f0", true},
		{`e + e`, false}, {`e + "x"`, true}, {`"x" + e`, true}, {`e + n0`, true}, {"(n0 + n0)", true}, {"n0 + n0 * n0", true},
	}
	for _, a := range arith {
		for _, tm := range []string{
			`<%%= if (%s) { %%>T<%% } else { %%>F<%% } %%>`,
			`<%%= if (false) { %%>X<%% } else if (%s) { %%>T<%% } else { %%>F<%% } %%>`,
			`<%%= if (nil) { %%>X<%% } else if (false) { %%>Y<%% } else if (%s) { %%>T<%% } else { %%>F<%% } %%>`,
			`<%%= for (i) in one { %%><%%= if (%s) { %%>T<%% } else { %%>F<%% } %%><%% } %%>`,
			`<%%= if (!(%s)) { %%>F<%% } else { %%>T<%% } %%>`,
			`<%%= if ((%s) && true) { %%>T<%% } else { %%>F<%% } %%>`,
		} {
			src := fmt.Sprintf(tm, a.cond)
			want := "F"
			if a.truthy {
				want = "T"
			}
			res := vk.Safe(func() (string, error) {
				return plush.Render(src, plush.NewContextWith(map[string]interface{}{"n0": 0, "n1": 1, "f0": 0.0, "e": "", "one": []int{1}}))
			})
			r.Count("arith|"+src, "truth/arithmetic condition")
			n++
			if res.Panicked() || res.Err != nil || res.Out != want {
				r.Violation(&vk.Fail{Kind: "arith", Case: map[string]string{"src": src, "want": want}, Msg: fmt.Sprintf("%s gave %s, want %q (the value of an arithmetic/concatenation condition is %v wherever it is tested)", src, res, want, a.truthy)})
			}
		}
	}
	r.Subspace("truth table: value kinds x test positions (variable and literal spellings) + 13 arithmetic/concatenation conditions x 6 positions", n, true)

	// A2: every ordered pair of passable value kinds, tested A, B, A by one set of sites
	var sw []int
	for ki, k := range kinds {
		if sweepable(k) {
			sw = append(sw, ki)
		}
	}
	var ns int64
	for _, a := range sw {
		for _, b := range sw {
			if a == b {
				continue
			}
			for _, mode := range []string{"loop", "fn"} {
				if r.Mine(ns) {
					r.Check(checkSweep(r, SweepCase{Kinds: []int{a, b, a}, Mode: mode}))
				}
				ns++
			}
		}
	}
	r.Subspace("sweeps: every ordered pair (A, B) of passable value kinds tested A, B, A by one set of six test sites x {loop body, function body}", ns, true)
	r.Rapid("sweeps", r.Pick(300, 5000), func(t *rapid.T) *vk.Fail {
		return checkSweep(r, SweepCase{Kinds: rapid.SliceOfN(rapid.SampledFrom(sw), 2, 8).Draw(t, "kinds"), Mode: rapid.SampledFrom([]string{"loop", "fn"}).Draw(t, "mode")})
	})

	maxB := 4
	nv := int64(len(condVals))
	for b := 1; b <= maxB; b++ {
		total := int64(1)
		for i := 0; i < b; i++ {
			total *= nv
		}
		cells := total * 2 * int64(len(places))
		if r.Quick() && b == 4 {
			// quick: every truth assignment at 4 branches, but only values {true,false,"",0,nil}
			continue
		}
		r.Subspace(fmt.Sprintf("chains of %d branches x 9 condition values x else/no else x 5 placements", b), cells, true)
		r.Parallel(cells, 0, func(i int64) {
			c := ChainCase{Place: int(i % int64(len(places))), HasElse: (i/int64(len(places)))%2 == 1}
			j := i / int64(len(places)) / 2
			for k := 0; k < b; k++ {
				c.Conds = append(c.Conds, int(j%nv))
				j /= nv
			}
			r.Check(checkChain(r, c))
		})
	}
	if r.Quick() {
		vals := []int{0, 1, 2, 3, 4}
		var cnt int64
		for a := range vals {
			for b := range vals {
				for c := range vals {
					for d := range vals {
						for pl := range places {
							for _, e := range []bool{false, true} {
								r.Check(checkChain(r, ChainCase{Conds: []int{vals[a], vals[b], vals[c], vals[d]}, HasElse: e, Place: pl}))
								cnt++
							}
						}
					}
				}
			}
		}
		r.Subspace("chains of 4 branches x 5 condition values x else/no else x 5 placements", cnt, true)
	}

	r.Rapid("nested", r.Pick(4000, 60000), func(t *rapid.T) *vk.Fail {
		g := &nestGen{t: t}
		return checkNest(r, g.nodes(3))
	})
}
