// C07 — if/else-if/else renders exactly the first truthy branch; truthiness is uniform.
package c07

import (
	"encoding/json"
	"errors"
	"fmt"
	"html/template"
	"math"
	"reflect"
	"strings"
	"testing"
	"time"
	"unsafe"

	"verif/internal/match"
	"verif/internal/model"
	"verif/internal/vk"

	plush "github.com/gobuffalo/plush/v5"
	"pgregory.net/rapid"
)

func TestMain(m *testing.M) { vk.Main(m) }

// ---- part A: the truth table ----------------------------------------------------

type pt struct{ X int }
type iter struct{ n int }

func (i *iter) Next() interface{} { return nil }

// values that print as nothing: they are structs / pointers / errors, not the empty string and not empty HTML
type quiet struct{}

func (quiet) String() string { return "" }

type quietHTML struct{}

func (quietHTML) HTML() template.HTML { return "" }

type quietErr struct{}

func (quietErr) Error() string { return "" }

type onlyEmpty struct{ S string }
type named string // a string type of the program: the statement names "the empty string" and "empty HTML" only

// holder carries a value in a field of interface type (spelling s.V)
type holder struct{ V interface{} }

func (h holder) Get() interface{} { return h.V }

type kind struct {
	name   string
	truthy bool
	lit    string             // literal spelling ("" = only through the variable v)
	mk     func() interface{} // value bound to v (nil func = v stays unset)
	helper func() interface{} // optional: value returned by helper hv()
	// uniform: the statement does not say whether the value is truthy (it is neither in the list of falsy values
	// beyond doubt nor clearly "another value"); only "the same truth value wherever it is tested" is asserted,
	// against the plain if
	uniform bool
	// hfn: the helper hv itself (a Go function with its own result types) instead of a func() interface{}
	hfn func(calls *int) interface{}
	// nilResult: hfn yields the nil interface (which cannot be passed on through a template function: nil unsets a name)
	nilResult bool
}

var kinds = []kind{
	{name: "nil literal", truthy: false, lit: "nil"},
	{name: "false", truthy: false, lit: "false", mk: func() interface{} { return false }},
	{name: "true", truthy: true, lit: "true", mk: func() interface{} { return true }},
	{name: "empty string", truthy: false, lit: `""`, mk: func() interface{} { return "" }},
	{name: "string", truthy: true, lit: `"x"`, mk: func() interface{} { return "x" }},
	{name: "string false", truthy: true, lit: `"false"`, mk: func() interface{} { return "false" }},
	{name: "string 0", truthy: true, lit: `"0"`, mk: func() interface{} { return "0" }},
	{name: "space string", truthy: true, lit: `" "`, mk: func() interface{} { return " " }},
	{name: "empty HTML", truthy: false, mk: func() interface{} { return template.HTML("") }},
	{name: "HTML", truthy: true, mk: func() interface{} { return template.HTML("<b>") }},
	{name: "nil *struct", truthy: false, mk: func() interface{} { return (*pt)(nil) }},
	{name: "nil *int", truthy: false, mk: func() interface{} { return (*int)(nil) }},
	{name: "nil *[]int", truthy: false, mk: func() interface{} { return (*[]int)(nil) }},
	{name: "nil *time.Time", truthy: false, mk: func() interface{} { return (*time.Time)(nil) }},
	{name: "nil *map", truthy: false, mk: func() interface{} { return (*map[string]int)(nil) }},
	{name: "*struct", truthy: true, mk: func() interface{} { return &pt{} }},
	{name: "*int to 0", truthy: true, mk: func() interface{} { z := 0; return &z }},
	{name: "*bool to false", truthy: true, mk: func() interface{} { b := false; return &b }},
	{name: "*string to empty", truthy: true, mk: func() interface{} { s := ""; return &s }},
	{name: "unknown identifier", truthy: false},
	{name: "context value nil", truthy: false, mk: func() interface{} { return nil }},
	{name: "int 0", truthy: true, lit: "0", mk: func() interface{} { return 0 }},
	{name: "int 1", truthy: true, lit: "1", mk: func() interface{} { return 1 }},
	{name: "int -1", truthy: true, mk: func() interface{} { return -1 }},
	{name: "float 0.0", truthy: true, lit: "0.0", mk: func() interface{} { return 0.0 }},
	{name: "float 1.5", truthy: true, lit: "1.5", mk: func() interface{} { return 1.5 }},
	{name: "int8 0", truthy: true, mk: func() interface{} { return int8(0) }},
	{name: "int64 0", truthy: true, mk: func() interface{} { return int64(0) }},
	{name: "uint 0", truthy: true, mk: func() interface{} { return uint(0) }},
	{name: "uint8 0", truthy: true, mk: func() interface{} { return uint8(0) }},
	{name: "float32 0", truthy: true, mk: func() interface{} { return float32(0) }},
	{name: "empty []int", truthy: true, mk: func() interface{} { return []int{} }},
	{name: "[]int", truthy: true, mk: func() interface{} { return []int{0} }},
	{name: "empty []interface{}", truthy: true, mk: func() interface{} { return []interface{}{} }},
	{name: "empty []string", truthy: true, mk: func() interface{} { return []string{} }},
	{name: "[0]int", truthy: true, mk: func() interface{} { return [0]int{} }},
	{name: "[2]int", truthy: true, mk: func() interface{} { return [2]int{} }},
	{name: "empty map", truthy: true, mk: func() interface{} { return map[string]interface{}{} }},
	// the zero values of collection and function types: not nil pointers, not "nil" - empty collections / other values
	{name: "nil []string", truthy: true, mk: func() interface{} { return []string(nil) }},
	{name: "nil []interface{}", truthy: true, mk: func() interface{} { return []interface{}(nil) }},
	{name: "nil map", truthy: true, mk: func() interface{} { return map[string]interface{}(nil) }},
	{name: "nil func", truthy: true, mk: func() interface{} { return (func() string)(nil) }},
	{name: "struct field holding a nil slice", truthy: true, helper: func() interface{} { return struct{ Tags []string }{}.Tags }},
	{name: "map", truthy: true, mk: func() interface{} { return map[string]int{"a": 0} }},
	{name: "empty struct", truthy: true, mk: func() interface{} { return struct{}{} }},
	{name: "zero struct", truthy: true, mk: func() interface{} { return pt{} }},
	{name: "func", truthy: true, mk: func() interface{} { return func() string { return "" } }},
	{name: "iterator", truthy: true, mk: func() interface{} { return &iter{} }},
	{name: "zero time", truthy: true, mk: func() interface{} { return time.Time{} }},
	{name: "rune 0", truthy: true, mk: func() interface{} { return rune(0) }},
	{name: "byte slice empty", truthy: true, mk: func() interface{} { return []byte{} }},
	{name: "helper returning nil", truthy: false, helper: func() interface{} { return nil }},
	{name: "helper returning empty string", truthy: false, helper: func() interface{} { return "" }},
	{name: "helper returning false", truthy: false, helper: func() interface{} { return false }},
	{name: "helper returning 0", truthy: true, helper: func() interface{} { return 0 }},
	{name: "helper returning nil *struct", truthy: false, helper: func() interface{} { return (*pt)(nil) }},
	{name: "helper returning empty slice", truthy: true, helper: func() interface{} { return []int{} }},
	{name: "helper returning empty HTML", truthy: false, helper: func() interface{} { return template.HTML("") }},
	// ---- added by the second widening pass (appended: indexes of the kinds above are stable) ----
	{name: "nil **int", truthy: false, mk: func() interface{} { return (**int)(nil) }},
	{name: "**int to a nil *int", truthy: true, mk: func() interface{} { var p *int; return &p }},
	{name: "***int, second link nil", truthy: true, mk: func() interface{} { var p **int; return &p }},
	{name: "*struct to nil *struct field", truthy: true, mk: func() interface{} { return &struct{ P *pt }{} }},
	{name: "nil *iterator", truthy: false, mk: func() interface{} { return (*iter)(nil) }},
	{name: "nil pointer stored through an interface type", truthy: false, mk: func() interface{} { var s fmt.Stringer = (*quiet)(nil); return s }},
	{name: "*HTML to empty", truthy: true, mk: func() interface{} { h := template.HTML(""); return &h }},
	{name: "*[]int to nil slice", truthy: true, mk: func() interface{} { var x []int; return &x }},
	{name: "*interface{} to nil", truthy: true, mk: func() interface{} { var x interface{}; return &x }},
	{name: "Stringer printing nothing", truthy: true, mk: func() interface{} { return quiet{} }},
	{name: "*Stringer printing nothing", truthy: true, mk: func() interface{} { return &quiet{} }},
	{name: "HTMLer producing empty HTML", truthy: true, mk: func() interface{} { return quietHTML{} }},
	{name: "error with empty message", truthy: true, mk: func() interface{} { return quietErr{} }},
	{name: "errors.New empty", truthy: true, mk: func() interface{} { return errors.New("") }},
	{name: "struct of one empty string", truthy: true, mk: func() interface{} { return onlyEmpty{} }},
	{name: "nil chan", truthy: true, mk: func() interface{} { return (chan int)(nil) }},
	{name: "chan", truthy: true, mk: func() interface{} { return make(chan int) }},
	{name: "uintptr 0", truthy: true, mk: func() interface{} { return uintptr(0) }},
	{name: "complex 0", truthy: true, mk: func() interface{} { return complex(0, 0) }},
	{name: "NaN", truthy: true, mk: func() interface{} { return math.NaN() }},
	{name: "negative zero", truthy: true, mk: func() interface{} { return math.Copysign(0, -1) }},
	{name: "int16 0", truthy: true, mk: func() interface{} { return int16(0) }},
	{name: "int32 0", truthy: true, mk: func() interface{} { return int32(0) }},
	{name: "uint16 0", truthy: true, mk: func() interface{} { return uint16(0) }},
	{name: "uint32 0", truthy: true, mk: func() interface{} { return uint32(0) }},
	{name: "uint64 0", truthy: true, mk: func() interface{} { return uint64(0) }},
	{name: "nil []byte", truthy: true, mk: func() interface{} { return []byte(nil) }},
	{name: "nil []int", truthy: true, mk: func() interface{} { return []int(nil) }},
	{name: "nil map[string]string", truthy: true, mk: func() interface{} { return map[string]string(nil) }},
	{name: "slice of one nil", truthy: true, mk: func() interface{} { return []interface{}{nil} }},
	{name: "slice of one empty string", truthy: true, mk: func() interface{} { return []string{""} }},
	{name: "slice of one false", truthy: true, mk: func() interface{} { return []bool{false} }},
	{name: "map with a nil value", truthy: true, mk: func() interface{} { return map[string]interface{}{"a": nil} }},
	{name: "[1]string of empty", truthy: true, mk: func() interface{} { return [1]string{} }},
	{name: "string nil", truthy: true, lit: `"nil"`, mk: func() interface{} { return "nil" }},
	{name: "newline string", truthy: true, mk: func() interface{} { return "\n" }},
	{name: "NUL string", truthy: true, mk: func() interface{} { return "\x00" }},
	{name: "HTML of one space", truthy: true, mk: func() interface{} { return template.HTML(" ") }},
	{name: "HTML false", truthy: true, mk: func() interface{} { return template.HTML("false") }},
	{name: "empty backquoted string", truthy: false, lit: "``"},
	{name: "large int", truthy: true, lit: "9223372036854775807", mk: func() interface{} { return math.MaxInt64 }},
	{name: "float literal 0.00", truthy: true, lit: "0.00"},
	{name: "literal 00", truthy: true, lit: "00"},
	// helpers with result types of their own (the value reaches the test through the call machinery)
	{name: "helper (string, error) returning empty", truthy: false, hfn: func(n *int) interface{} { return func() (string, error) { *n++; return "", nil } }},
	{name: "helper (string, error) returning x", truthy: true, hfn: func(n *int) interface{} { return func() (string, error) { *n++; return "x", nil } }},
	{name: "helper (int, error) returning 0", truthy: true, hfn: func(n *int) interface{} { return func() (int, error) { *n++; return 0, nil } }},
	{name: "helper (interface{}, error) returning nil", truthy: false, nilResult: true, hfn: func(n *int) interface{} { return func() (interface{}, error) { *n++; return nil, nil } }},
	{name: "helper *struct returning nil", truthy: false, hfn: func(n *int) interface{} { return func() *pt { *n++; return nil } }},
	{name: "helper *struct returning one", truthy: true, hfn: func(n *int) interface{} { return func() *pt { *n++; return &pt{} } }},
	{name: "helper error returning nil", truthy: false, nilResult: true, hfn: func(n *int) interface{} { return func() error { *n++; return nil } }},
	{name: "helper bool returning false", truthy: false, hfn: func(n *int) interface{} { return func() bool { *n++; return false } }},
	{name: "helper bool returning true", truthy: true, hfn: func(n *int) interface{} { return func() bool { *n++; return true } }},
	{name: "helper HTML returning empty", truthy: false, hfn: func(n *int) interface{} { return func() template.HTML { *n++; return "" } }},
	{name: "helper HTML returning text", truthy: true, hfn: func(n *int) interface{} { return func() template.HTML { *n++; return "<i>" } }},
	{name: "helper []string returning nil", truthy: true, hfn: func(n *int) interface{} { return func() []string { *n++; return nil } }},
	{name: "helper map returning nil", truthy: true, hfn: func(n *int) interface{} { return func() map[string]int { *n++; return nil } }},
	{name: "helper float64 returning 0", truthy: true, hfn: func(n *int) interface{} { return func() float64 { *n++; return 0 } }},
	{name: "helper taking the helper context, returning empty", truthy: false, hfn: func(n *int) interface{} { return func(plush.HelperContext) string { *n++; return "" } }},
	{name: "helper taking the helper context, returning 0", truthy: true, hfn: func(n *int) interface{} { return func(plush.HelperContext) int { *n++; return 0 } }},
	// the statement is silent about these: only uniformity is asserted
	{name: "empty value of a named string type", uniform: true, mk: func() interface{} { return named("") }},
	{name: "empty template.JS", uniform: true, mk: func() interface{} { return template.JS("") }},
	{name: "empty template.URL", uniform: true, mk: func() interface{} { return template.URL("") }},
	{name: "nil unsafe.Pointer", uniform: true, mk: func() interface{} { return unsafe.Pointer(nil) }},
	{name: "empty json.Number", uniform: true, mk: func() interface{} { return json.Number("") }},
}

// the test positions; %s is the value spelling. Each renders T for truthy, F for falsy.
var positions = []struct{ name, tmpl string }{
	{"if", `<%%= if (%s) { %%>T<%% } else { %%>F<%% } %%>`},
	{"else-if", `<%%= if (false) { %%>X<%% } else if (%s) { %%>T<%% } else { %%>F<%% } %%>`},
	{"second else-if", `<%%= if (false) { %%>X<%% } else if (nil) { %%>Y<%% } else if (%s) { %%>T<%% } else { %%>F<%% } %%>`},
	{"if !", `<%%= if (!%s) { %%>F<%% } else { %%>T<%% } %%>`},
	{"if !!", `<%%= if (!!%s) { %%>T<%% } else { %%>F<%% } %%>`},
	{"v && true", `<%%= if (%s && true) { %%>T<%% } else { %%>F<%% } %%>`},
	{"true && v", `<%%= if (true && %s) { %%>T<%% } else { %%>F<%% } %%>`},
	{"v || false", `<%%= if (%s || false) { %%>T<%% } else { %%>F<%% } %%>`},
	{"false || v", `<%%= if (false || %s) { %%>T<%% } else { %%>F<%% } %%>`},
	{"emit !", `<%%= if (true) { %%><%%= !%s %%><%% } %%>`}, // prints false for truthy
	{"emit &&", `<%%= %s && true %%>`},                      // prints true / false
	{"emit ||", `<%%= %s || false %%>`},
	{"emit ! top", `<%%= !%s %%>`},
	{"if in for", `<%%= for (i) in one { %%><%%= if (%s) { %%>T<%% } else { %%>F<%% } %%><%% } %%>`},
	{"if in fn", `<%% let f = fn() { %%><%%= if (%s) { %%>T<%% } else { %%>F<%% } %%><%% } %%><%%= f() %%>`},
	{"if in block helper", `<%%= blk() { %%><%%= if (%s) { %%>T<%% } else { %%>F<%% } %%><%% } %%>`},
	{"silent if + let", `<%% let r = "F" %%><%% if (%s) { let r = "T" } %%><%%= r %%>`},
	{"&& in silent tag", `<%% let r = %s && true %%><%%= if (r) { %%>T<%% } else { %%>F<%% } %%>`},
	// the name w is first tested while it is still unknown, THEN bound by a loop / parameter / helper context, then tested again
	{"unknown, then loop variable", `<%%= if (w) { %%>X<%% } %%><%%= for (w) in [%s] { %%><%%= if (w) { %%>T<%% } else { %%>F<%% } %%><%% } %%>`},
	{"unknown, then loop variable, !", `<%%= if (!w) { %%><%% } %%><%%= for (w) in [%s] { %%><%%= if (!w) { %%>F<%% } else { %%>T<%% } %%><%% } %%>`},
	{"unknown, then parameter", `<%%= if (w || w == nil) { %%><%% } %%><%% let f = fn(w) { %%><%%= if (w) { %%>T<%% } else { %%>F<%% } %%><%% } %%><%%= f(%s) %%>`},
	{"unknown, then parameter, &&", `<%%= if (w && true) { %%>X<%% } %%><%% let f = fn(w) { %%><%%= if (true && w) { %%>T<%% } else { %%>F<%% } %%><%% } %%><%%= f(%s) %%>`},
	{"unknown, then helper-context data", `<%%= if (w) { %%>X<%% } %%><%%= blkd({w: %s}) { %%><%%= if (w) { %%>T<%% } else { %%>F<%% } %%><%% } %%>`},
	// ---- added by the second widening pass (appended) ----
	{"emit !!", `<%%= !!%s %%>`}, // prints true / false, never the value
	{"emit !! in silent let", `<%% let r = !!%s %%><%%= r %%>`},
	{"if !!!", `<%%= if (!!!%s) { %%>F<%% } else { %%>T<%% } %%>`},
	{"if !(!v)", `<%%= if (!(!%s)) { %%>T<%% } else { %%>F<%% } %%>`},
	{"if ((v))", `<%%= if ((%s)) { %%>T<%% } else { %%>F<%% } %%>`},
	{"if !(v)", `<%%= if (!(%s)) { %%>F<%% } else { %%>T<%% } %%>`},
	{"v && v", `<%%= if (%[1]s && %[1]s) { %%>T<%% } else { %%>F<%% } %%>`},
	{"v || v", `<%%= if (%[1]s || %[1]s) { %%>T<%% } else { %%>F<%% } %%>`},
	{"!(v && true)", `<%%= if (!(%s && true)) { %%>F<%% } else { %%>T<%% } %%>`},
	{"(v || false) && true", `<%%= if ((%s || false) && true) { %%>T<%% } else { %%>F<%% } %%>`},
	{"true && true && v", `<%%= if (true && true && %s) { %%>T<%% } else { %%>F<%% } %%>`},
	{"false || false || v", `<%%= if (false || false || %s) { %%>T<%% } else { %%>F<%% } %%>`},
	{"!v || false", `<%%= if (!%s || false) { %%>F<%% } else { %%>T<%% } %%>`},
	{"!v && true", `<%%= if (!%s && true) { %%>F<%% } else { %%>T<%% } %%>`},
	{"true && !v", `<%%= if (true && !%s) { %%>F<%% } else { %%>T<%% } %%>`},
	{"if in then block", `<%%= if (true) { %%><%%= if (%s) { %%>T<%% } else { %%>F<%% } %%><%% } else { %%>X<%% } %%>`},
	{"if in else block", `<%%= if (false) { %%>X<%% } else { %%><%%= if (%s) { %%>T<%% } else { %%>F<%% } %%><%% } %%>`},
	{"if in else-if block", `<%%= if (nil) { %%>X<%% } else if (0) { %%><%%= if (%s) { %%>T<%% } else { %%>F<%% } %%><%% } else { %%>Y<%% } %%>`},
	{"else-if in else block", `<%%= if (false) { %%>X<%% } else { %%><%%= if (false) { %%>Y<%% } else if (%s) { %%>T<%% } else { %%>F<%% } %%><%% } %%>`},
	{"fifth else-if", `<%%= if (false) { %%>1<%% } else if (nil) { %%>2<%% } else if ("") { %%>3<%% } else if (false) { %%>4<%% } else if (%s) { %%>T<%% } else if (true) { %%>F<%% } else { %%>Z<%% } %%>`},
	{"return from fn", `<%% let f = fn() { if (%s) { return "T" } return "F" } %%><%%= f() %%>`},
	{"return from fn, else-if", `<%% let f = fn() { if (false) { return "X" } else if (%s) { return "T" } else { return "F" } return "Z" } %%><%%= f() %%>`},
	{"one-tag chain", `<%% let r = "Z" %%><%% if (false) { r = "X" } else if (%s) { r = "T" } else { r = "F" } %%><%%= r %%>`},
	{"if in for in fn", `<%% let f = fn() { %%><%%= for (i) in one { %%><%%= if (%s) { %%>T<%% } else { %%>F<%% } %%><%% } %%><%% } %%><%%= f() %%>`},
	{"if in fn in for", `<%%= for (i) in one { %%><%% let f = fn() { %%><%%= if (%s) { %%>T<%% } else { %%>F<%% } %%><%% } %%><%%= f() %%><%% } %%>`},
	{"if in block helper in for", `<%%= for (i) in one { %%><%%= blk() { %%><%%= if (%s) { %%>T<%% } else { %%>F<%% } %%><%% } %%><%% } %%>`},
	{"compact spelling", `<%%=if(%s){%%>T<%%}else{%%>F<%%}%%>`},
	{"compact else-if", `<%%=if(false){%%>X<%%}else if(%s){%%>T<%%}else{%%>F<%%}%%>`},
	{"multi-line tag", "<%%=\n if (\n %s\n )\n {\n %%>T<%%\n }\n else\n {\n %%>F<%%\n }\n %%>"},
	{"multi-line else-if", "<%%= if (false) { %%>X<%% }\n else\n if\n (%s) { %%>T<%% } else { %%>F<%% } %%>"},
	{"under 20 else blocks", strings.Repeat(`<%%= if (false) { %%>X<%% } else { %%>`, 20) + `<%%= if (%s) { %%>T<%% } else { %%>F<%% } %%>` + strings.Repeat(`<%% } %%>`, 20)},
	{"under 20 then blocks, else-if", strings.Repeat(`<%%= if (1) { %%>`, 20) + `<%%= if (nil) { %%>X<%% } else if (%s) { %%>T<%% } else { %%>F<%% } %%>` + strings.Repeat(`<%% } else { %%>Y<%% } %%>`, 20)},
	{"if in contentFor block", `<%%= if (true) { %%><%% contentFor("cf") { %%><%%= if (%s) { %%>T<%% } else { %%>F<%% } %%><%% } %%><%%= contentOf("cf") %%><%% } %%>`},
	// the same statement has already forgiven an unknown identifier when the value is tested
	{"after a forgiven unknown, ||", `<%%= if (unk0 || %s) { %%>T<%% } else { %%>F<%% } %%>`},
	{"after a forgiven unknown, !&&", `<%%= if (!unk0 && %s) { %%>T<%% } else { %%>F<%% } %%>`},
	{"after two forgiven unknown conditions", `<%%= if (unk0) { %%>X<%% } else if (unk1) { %%>Y<%% } else if (%s) { %%>T<%% } else { %%>F<%% } %%>`},
	{"before a forgiven unknown", `<%%= if (%s && !unk0) { %%>T<%% } else { %%>F<%% } %%>`},
	{"statement forgiving again on every pass", `<%%= for (i) in three { %%><%%= if (unk0 || %s) { %%>T<%% } else { %%>F<%% } %%><%% } %%>`},
}

// how the value reaches the test site
var spells = []struct{ name, expr, pre string }{
	{"", "", ""}, // v, the literal, or hv()
	{"map index", `d["v"]`, ""},
	{"slice index", `l[0]`, ""},
	{"field of interface type", `s.V`, ""},
	{"result of a template function", `id(%s)`, `<% let id = fn(x) { return x } %>`},
	{"result of a template function without return keyword", `pick(%s)`, `<% let pick = fn(x) { if (true) { return x } return 0 } %>`},
	{"field of an indexed element", `hs[0].V`, ""},
	{"field of a call result", `hold().V`, ""},
	{"method result", `s.Get()`, ""},
	{"field of an element of a map of structs", `hm["k"].V`, ""},
	// variables whose names begin like a keyword
	{"variable named nilx", `nilx`, ""},
	{"variable named falsey", `falsey`, ""},
	{"variable named iffy", `iffy`, ""},
	{"variable named elsewhere", `elsewhere`, ""},
	// an unknown identifier written as a dotted name (only for the kind "unknown identifier")
	{"member of an unknown name", `nosuchroot.Name`, ""},
	{"member path of an unknown name", `nosuchroot.A.B`, ""},
}

type TruthCase struct {
	Kind     int  `json:"kind"`
	Position int  `json:"position"`
	Literal  bool `json:"literal"`
	Spell    int  `json:"spell,omitempty"`
}

func expectFor(pos string, truthy bool) string {
	switch pos {
	case "emit !", "emit ! top":
		return fmt.Sprint(!truthy)
	case "emit &&", "emit ||", "emit !!", "emit !! in silent let":
		return fmt.Sprint(truthy)
	case "statement forgiving again on every pass":
		if truthy {
			return "TTT"
		}
		return "FFF"
	}
	if truthy {
		return "T"
	}
	return "F"
}

// value returns the Go value of a kind where it has one that can be stored in data.
func (k kind) value() (interface{}, bool) {
	switch {
	case k.mk != nil:
		return k.mk(), true
	case k.helper != nil:
		return k.helper(), true
	}
	return nil, false
}

func isNonNilPointer(v interface{}) bool {
	rv := reflect.ValueOf(v)
	return rv.IsValid() && rv.Kind() == reflect.Ptr && !rv.IsNil()
}

func checkTruth(r *vk.Run, c TruthCase) *vk.Fail {
	defer r.Watch("truth", c)()
	k, p, sp := kinds[c.Kind], positions[c.Position], spells[c.Spell]
	spelling := "v"
	if c.Literal {
		spelling = k.lit
	}
	if k.helper != nil || k.hfn != nil {
		spelling = "hv()" // (a helper context parameter is supplied by the engine)
	}
	calls := 0
	counted := spelling == "hv()"
	data := map[string]interface{}{
		"one": []int{1}, "three": []int{1, 2, 3},
		"blk": func(h plush.HelperContext) (template.HTML, error) { s, err := h.Block(); return template.HTML(s), err },
		"blkd": func(d map[string]interface{}, h plush.HelperContext) (template.HTML, error) {
			hc := h.New()
			for k, v := range d {
				hc.Set(k, v)
			}
			s, err := h.BlockWith(hc)
			return template.HTML(s), err
		},
	}
	switch sp.name {
	case "":
	case "variable named nilx", "variable named falsey", "variable named iffy", "variable named elsewhere":
		// the same as v under another name (also for the unset name and the nil context value)
		if spelling != "v" {
			r.Exclude("value-needed")
			return nil
		}
		if k.mk != nil {
			data[sp.expr] = k.mk()
		}
		spelling = sp.expr
	case "member of an unknown name", "member path of an unknown name":
		// a dotted name whose first name is bound nowhere is an unknown identifier like a bare one
		if spelling != "v" || k.mk != nil || k.name != "unknown identifier" {
			r.Exclude("value-needed")
			return nil
		}
		spelling = sp.expr
	case "result of a template function", "result of a template function without return keyword":
		// the value is passed on: an unset name cannot be passed (that is an error by C05, not a truth value)
		if v, ok := k.value(); spelling == "nil" || k.nilResult || (ok && v == nil) || (spelling == "v" && !ok) {
			r.Exclude("value-needed")
			return nil
		}
		spelling = fmt.Sprintf(sp.expr, spelling)
	default:
		v, ok := k.value()
		if !ok || c.Literal || k.hfn != nil {
			r.Exclude("value-needed")
			return nil
		}
		if sp.name != "map index" && sp.name != "slice index" && isNonNilPointer(v) {
			// whether a field that holds a pointer yields the pointer or what it points to is C11's matter
			r.Exclude("unspecified")
			return nil
		}
		if _, isErr := v.(error); isErr && sp.name == "method result" {
			// a Go function whose interface{} result holds an error value: whether that is a failed call is C12's matter (unspecified there)
			r.Exclude("unspecified")
			return nil
		}
		data["d"] = map[string]interface{}{"v": v}
		data["l"] = []interface{}{v}
		data["s"] = holder{V: v}
		data["hs"] = []holder{{V: v}}
		data["hm"] = map[string]holder{"k": {V: v}}
		data["hold"] = func() holder { return holder{V: v} }
		spelling, counted = sp.expr, false
	}
	src := sp.pre + fmt.Sprintf(p.tmpl, spelling)
	if strings.HasPrefix(p.name, "unknown, then") && (spelling == "v" || strings.HasPrefix(sp.name, "variable named") || strings.HasSuffix(sp.name, "of an unknown name")) && (k.mk == nil || k.mk() == nil) {
		// these positions pass the value on: an unset name cannot be passed (that is an error by C05, not a truth value)
		r.Exclude("value-needed")
		return nil
	}
	if k.mk != nil && !c.Literal && (sp.name == "" || sp.pre != "") {
		data["v"] = k.mk()
	}
	if k.helper != nil {
		data["hv"] = func() interface{} { calls++; return k.helper() }
	}
	if k.hfn != nil {
		data["hv"] = k.hfn(&calls)
	}
	truthy := k.truthy
	if k.uniform {
		// the reference is what the plain if makes of the same spelling
		base := vk.Safe(func() (string, error) {
			return plush.Render(sp.pre+fmt.Sprintf(positions[0].tmpl, spelling), plush.NewContextWith(data))
		})
		if base.Panicked() || base.Err != nil || (base.Out != "T" && base.Out != "F") {
			r.Exclude("unspecified")
			return nil
		}
		truthy = base.Out == "T"
		calls = 0
	}
	res := vk.Safe(func() (string, error) { return plush.Render(src, plush.NewContextWith(data)) })
	want := expectFor(p.name, truthy)
	nt := fmt.Sprintf("%s|%s|%v|%s", k.name, p.name, c.Literal, sp.name)
	class := "truth/" + p.name
	if k.uniform {
		class = "truth-uniform/" + p.name
	}
	if sp.name != "" {
		class += " via " + sp.name
	}
	r.Count(nt, class)
	r.Sample(func() interface{} {
		return map[string]interface{}{"value": k.name, "position": p.name, "template": src, "expected": want}
	})
	if res.Panicked() || res.Err != nil || res.Out != want {
		return &vk.Fail{Kind: "truth", Case: c, Msg: fmt.Sprintf("value %q tested as %q: %s gave %s, want %q (the value is %s everywhere)", k.name, p.name, src, res, want, map[bool]string{true: "truthy", false: "falsy"}[truthy])}
	}
	// a tested expression is evaluated once (conditions carry side-effect counters); the positions that spell the value
	// twice around a logical operator are not counted: the statement does not speak of short-circuiting
	if wantCalls := 1; counted && p.name != "v && v" && p.name != "v || v" && p.name != "if in contentFor block" {
		if p.name == "statement forgiving again on every pass" {
			wantCalls = 3
		}
		if calls != wantCalls {
			return &vk.Fail{Kind: "truth", Case: c, Msg: fmt.Sprintf("value %q tested as %q: %s evaluated the tested call %d times, want %d", k.name, p.name, src, calls, wantCalls)}
		}
	}
	return nil
}

// ---- part A2: one test site, values of changing kind -------------------------------------------

// SweepCase: ONE set of test sites (if, else-if, !, &&, ||, emitted !) is evaluated for several values in turn
// within one render - as a loop body over a slice of the values, or as the body of a template function called once
// per value. The truth value of what is tested now may not depend on what the same site tested before.
type SweepCase struct {
	Kinds []int  `json:"kinds"`
	Mode  string `json:"mode"` // loop | fn
}

const sweepBody = `<%= if (v) { %>T<% } else { %>F<% } %><%= if (false) { %>X<% } else if (v) { %>T<% } else { %>F<% } %>` +
	`<%= if (!v) { %>F<% } else { %>T<% } %><%= if (v && true) { %>T<% } else { %>F<% } %><%= if (false || v) { %>T<% } else { %>F<% } %><%= !v %>,`

func sweepable(k kind) bool { return sweepableIn("fn", k) }

// sweepableIn: which kinds can be one of the values of a sweep. A function argument must be a value (an unset name
// cannot be passed on); an element of the slice a loop walks may also be nil; the data of one execution of a parsed
// template may also leave the name unset.
func sweepableIn(mode string, k kind) bool {
	if k.uniform || k.helper != nil || k.hfn != nil {
		return false
	}
	if k.mk == nil {
		return strings.HasPrefix(mode, "exec") && k.lit == "" // the unknown identifier
	}
	return !strings.HasPrefix(mode, "fn") || k.mk() != nil
}

func checkSweep(r *vk.Run, c SweepCase) *vk.Fail {
	defer r.Watch("sweep", c)()
	var vals []interface{}
	want := ""
	names := []string{}
	data := map[string]interface{}{}
	for i, ki := range c.Kinds {
		k := kinds[ki]
		var v interface{}
		if k.mk != nil {
			v = k.mk()
		}
		vals = append(vals, v)
		data[fmt.Sprintf("a%d", i)] = v
		names = append(names, k.name)
		if k.truthy {
			want += "TTTTTfalse,"
		} else {
			want += "FFFFFtrue,"
		}
	}
	data["vals"] = vals
	src := ""
	var res vk.Res
	switch c.Mode {
	case "loop":
		src = `<%= for (v) in vals { %>` + sweepBody + `<% } %>`
	case "fn":
		src = `<% let f = fn(v) { %>` + sweepBody + `<% } %>`
		for i := range c.Kinds {
			src += fmt.Sprintf(`<%%= f(a%d) %%>`, i)
		}
	case "fn reads outer, let between calls", "fn reads outer, assignment between calls":
		// the function body reads v of the enclosing scope; v is rebound between the calls
		src = `<% let f = fn() { %>` + sweepBody + `<% } %>`
		for i := range c.Kinds {
			if i == 0 || strings.Contains(c.Mode, "let") {
				src += fmt.Sprintf(`<%% let v = a%d %%><%%= f() %%>`, i)
			} else {
				src += fmt.Sprintf(`<%% v = a%d %%><%%= f() %%>`, i)
			}
		}
	case "exec, one context":
		// ONE parsed template and ONE context: the value is Set on the context before each execution
		src = sweepBody
		res = vk.Safe(func() (string, error) {
			t, err := plush.NewTemplate(src)
			if err != nil {
				return "", err
			}
			ctx := plush.NewContext()
			out := ""
			for i := range c.Kinds {
				ctx.Set("v", vals[i]) // nil unsets the name
				s, err := t.Exec(ctx)
				if err != nil {
					return out, fmt.Errorf("execution %d: %w", i+1, err)
				}
				out += s
			}
			return out, nil
		})
	case "exec", "exec in loop":
		// ONE parsed template, executed once per value with fresh data
		src = sweepBody
		if c.Mode == "exec in loop" {
			src = `<%= for (i) in one { %>` + sweepBody + `<% } %>`
		}
		res = vk.Safe(func() (string, error) {
			t, err := plush.NewTemplate(src)
			if err != nil {
				return "", err
			}
			out := ""
			for i, ki := range c.Kinds {
				d := map[string]interface{}{"one": []int{1}}
				if kinds[ki].mk != nil {
					d["v"] = vals[i]
				}
				s, err := t.Exec(plush.NewContextWith(d))
				if err != nil {
					return out, fmt.Errorf("execution %d: %w", i+1, err)
				}
				out += s
			}
			return out, nil
		})
	default:
		return &vk.Fail{Kind: "decode", Msg: "unknown mode"}
	}
	if !strings.HasPrefix(c.Mode, "exec") {
		res = vk.Safe(func() (string, error) { return plush.Render(src, plush.NewContextWith(data)) })
	}
	nt := fmt.Sprintf("sweep|%v|%s", c.Kinds, c.Mode)
	r.Count(nt, "sweep/"+c.Mode)
	r.Sample(func() interface{} {
		return map[string]interface{}{"values": names, "template": src, "mode": c.Mode, "expected": want}
	})
	if res.Panicked() || res.Err != nil || res.Out != want {
		return &vk.Fail{Kind: "sweep", Case: c, Msg: fmt.Sprintf("values %q tested one after the other by one set of sites (%s): %s gave %s, want %q", names, c.Mode, src, res, want)}
	}
	return nil
}

// ---- part B: chains ---------------------------------------------------------------

// ChainCase: conditions are c(i, value) where value is one of the spellings below.
type ChainCase struct {
	Conds   []int `json:"conds"` // index into condVals
	HasElse bool  `json:"else"`
	Place   int   `json:"place"` // index into places
	// Body: what the branch blocks hold. 0 = the text B<i>; 1 = nothing at all (the else block still holds E);
	// 2 = two output tags printing B and i; 3 = odd branches empty, even ones B<i>
	Body int `json:"body,omitempty"`
	// Boom: every condition AFTER the first truthy one is spelled boom(i), a helper that fails: evaluating it is an error
	Boom bool `json:"boom,omitempty"`
	// BareFirst: the first condition is spelled bare (false, not c(1, false)): the parser sees a literal / a plain name
	BareFirst bool `json:"bare_first,omitempty"`
}

var condVals = []struct {
	spell  string
	truthy bool
}{
	{"true", true}, {"false", false}, {`""`, false}, {"0", true}, {"nil", false}, {`"x"`, true}, {"hn()", false}, {"es", true}, {"np", false},
}

var places = []struct {
	name, pre, post string
	reps            int
}{
	{"top", "", "", 1},
	{"in for x3", `<%= for (i) in three { %>`, `<% } %>`, 3},
	{"in fn", `<% let f = fn() { %>`, `<% } %><%= f() %>|<%= f() %>`, 2},
	{"in block helper", `<%= blk() { %>`, `<% } %>`, 1},
	{"in if in for", `<%= for (i) in three { %><%= if (i) { %>`, `<% } %><% } %>`, 3},
	// ---- added by the second widening pass (appended) ----
	{"in else block", `<%= if (false) { %>X<% } else { %>`, `<% } %>`, 1},
	{"in else-if block", `<%= if (nil) { %>X<% } else if (0) { %>`, `<% } else { %>Y<% } %>`, 1},
	{"script in one tag", ``, ``, 1},       // <% if (..) { r = "B1" } else if (..) { r = "B2" } else { r = "E" } %><%= r %>
	{"returns from a function", ``, ``, 2}, // fn() { if (..) { return "B1" } else if ... else { return "E" } return "" }, called twice
	{"in block helper in for x3", `<%= for (i) in three { %><%= blk() { %>`, `<% } %><% } %>`, 3},
}

func chainBlock(body, i int) string {
	switch {
	case body == 1, body == 3 && i%2 == 1:
		return ""
	case body == 2:
		return fmt.Sprintf(`<%%= "B" %%><%%= %d %%>`, i)
	}
	return fmt.Sprintf("B%d", i)
}

func checkChain(r *vk.Run, c ChainCase) *vk.Fail {
	defer r.Watch("chain", c)()
	var sb strings.Builder
	first := -1
	for i, ci := range c.Conds {
		if condVals[ci].truthy {
			first = i
			break
		}
	}
	pl := places[c.Place]
	script := pl.name == "script in one tag" || pl.name == "returns from a function"
	if script && c.Body != 0 {
		return &vk.Fail{Kind: "decode", Msg: "script placements have no block bodies"}
	}
	stmt := `r = "%s"`
	if pl.name == "returns from a function" {
		stmt = `return "%s"`
	}
	for i, ci := range c.Conds {
		cond := fmt.Sprintf("c(%d, %s)", i+1, condVals[ci].spell)
		if i == 0 && c.BareFirst {
			cond = condVals[ci].spell
		}
		if c.Boom && first >= 0 && i > first {
			cond = fmt.Sprintf("boom(%d)", i+1)
		}
		switch {
		case script && i == 0:
			fmt.Fprintf(&sb, `if (%s) { `+stmt+` }`, cond, fmt.Sprintf("B%d", i+1))
		case script:
			fmt.Fprintf(&sb, ` else if (%s) { `+stmt+` }`, cond, fmt.Sprintf("B%d", i+1))
		case i == 0:
			fmt.Fprintf(&sb, `<%%= if (%s) { %%>%s`, cond, chainBlock(c.Body, i+1))
		default:
			fmt.Fprintf(&sb, `<%% } else if (%s) { %%>%s`, cond, chainBlock(c.Body, i+1))
		}
	}
	switch {
	case script && c.HasElse:
		fmt.Fprintf(&sb, ` else { `+stmt+` }`, "E")
	case script:
	case c.HasElse:
		sb.WriteString(`<% } else { %>E<% } %>`)
	default:
		sb.WriteString(`<% } %>`)
	}
	src := pl.pre + sb.String() + pl.post
	switch pl.name {
	case "script in one tag":
		src = `<% let r = "" %><% ` + sb.String() + ` %><%= r %>`
	case "returns from a function":
		src = `<% let f = fn() { ` + sb.String() + ` return "" } %><%= f() %>|<%= f() %>`
	}
	one := ""
	var oneTrace []int
	switch {
	case first >= 0:
		one = fmt.Sprintf("B%d", first+1)
		if c.Body == 1 || (c.Body == 3 && (first+1)%2 == 1) {
			one = ""
		}
		for i := 0; i <= first; i++ {
			oneTrace = append(oneTrace, i+1)
		}
	default:
		if c.HasElse {
			one = "E"
		}
		for i := range c.Conds {
			oneTrace = append(oneTrace, i+1)
		}
	}
	if c.BareFirst {
		oneTrace = oneTrace[1:]
	}
	want := strings.Repeat(one, pl.reps)
	if pl.name == "in fn" || pl.name == "returns from a function" {
		want = one + "|" + one
	}
	var wantTrace []int
	for i := 0; i < pl.reps; i++ {
		wantTrace = append(wantTrace, oneTrace...)
	}
	var trace []int
	data := map[string]interface{}{
		"three": []int{1, 2, 3}, "es": []int{}, "np": (*pt)(nil),
		"blk": func(h plush.HelperContext) (template.HTML, error) { s, err := h.Block(); return template.HTML(s), err },
		"c":   func(i int, v interface{}) interface{} { trace = append(trace, i); return v },
		"hn":  func() interface{} { return nil },
		"boom": func(i int) (interface{}, error) {
			trace = append(trace, -i)
			return nil, fmt.Errorf("condition %d was evaluated", i)
		},
	}
	res := vk.Safe(func() (string, error) { return plush.Render(src, plush.NewContextWith(data)) })
	b, _ := json.Marshal(c)
	class := "chain/" + pl.name
	switch {
	case len(c.Conds) > 4:
		class = "chain/long/" + pl.name
	case c.Body != 0:
		class = fmt.Sprintf("chain/body %d/%s", c.Body, pl.name)
	case c.Boom:
		class = "chain/later conditions fail/" + pl.name
	case c.BareFirst:
		class = "chain/bare first condition/" + pl.name
	}
	r.Count(string(b), class)
	r.Sample(func() interface{} {
		return map[string]interface{}{"template": src, "expected": want, "conditions evaluated": wantTrace}
	})
	if res.Panicked() || res.Err != nil || res.Out != want {
		return &vk.Fail{Kind: "chain", Case: c, Msg: fmt.Sprintf("%s gave %s, want %q", src, res, want)}
	}
	if !reflect.DeepEqual(trace, wantTrace) {
		return &vk.Fail{Kind: "chain", Case: c, Msg: fmt.Sprintf("%s evaluated conditions %v, want %v (in order, none after the first truthy one)", src, trace, wantTrace)}
	}
	return nil
}

// ---- part B3: a chain after a call that failed and was forgiven ---------------------------------------

// AfterCase: a template function whose body fails on an unknown identifier is called inside a condition; whether that
// failure is forgiven there is not stated (the render may fail). If the render goes on, the call has left nothing
// behind: a variable named like the function's PARAMETER tests as it did before the call, in all five sites, and a
// later else-if of the same chain reads the variable, not the argument.
type AfterCase struct {
	Val   int `json:"val"`   // index into afterVals: the variable's value
	Arg   int `json:"arg"`   // index into afterVals: the argument bound to the parameter of the same name
	Body  int `json:"body"`  // index into afterBodies
	Use   int `json:"use"`   // index into afterUses: how the call stands in the condition
	Place int `json:"place"` // 0 top, 1 loop body x2, 2 function body called twice
}

var afterVals = []struct {
	spell  string
	truthy bool
}{{`""`, false}, {"false", false}, {"nil", false}, {`"x"`, true}, {"0", true}, {"true", true}, {"[]", true}}

var afterBodies = []string{"return v + missing", "return missing.X", "return v > missing", "let q = missing\nreturn q", "return [v, missing]"}

var afterUses = []string{"ff(ARG)", "!ff(ARG)", "ff(ARG) == 1", "ff(ARG) && true", "false || ff(ARG)", "!!ff(ARG)"}

func checkAfter(r *vk.Run, c AfterCase) *vk.Fail {
	defer r.Watch("after", c)()
	v, a := afterVals[c.Val], afterVals[c.Arg]
	probe := `<%= if (v) { %>T<% } else { %>F<% } %>,<%= !v %>,<%= !!v %>,<%= if (v && true) { %>T<% } else { %>F<% } %>,<%= if (v || false) { %>T<% } else { %>F<% } %>`
	use := strings.ReplaceAll(afterUses[c.Use], "ARG", a.spell)
	mid := probe + `#<%= if (` + use + `) { %>t<% } else { %>f<% } %>#` + probe +
		`#<%= if (` + use + `) { %>A<% } else if (v) { %>B<% } else { %>C<% } %>#` + probe
	src := `<% let v = ` + v.spell + ` %><% let ff = fn(v) { ` + afterBodies[c.Body] + ` } %>`
	reps := 1
	switch c.Place {
	case 1:
		src += `<%= for (i) in [1, 2] { %>` + mid + `|<% } %>`
		reps = 2
	case 2:
		src += `<% let g = fn() { %>` + mid + `|<% } %><%= g() %><%= g() %>`
		reps = 2
	default:
		src += mid + "|"
	}
	one := "F,true,false,F,F"
	if v.truthy {
		one = "T,false,true,T,T"
	}
	res := vk.Safe(func() (string, error) { return plush.Render(src, plush.NewContext()) })
	b, _ := json.Marshal(c)
	r.Count(string(b), "after a forgiven failing call")
	r.Sample(func() interface{} { return map[string]interface{}{"template": src, "each probe must read": one} })
	if res.Panicked() {
		return &vk.Fail{Kind: "after", Case: c, Msg: fmt.Sprintf("%s: %s", src, res)}
	}
	if res.Err != nil {
		r.Class("after: the failing call fails the render")
		return nil
	}
	passes := strings.Split(strings.TrimSuffix(res.Out, "|"), "|")
	if len(passes) != reps {
		return &vk.Fail{Kind: "after", Case: c, Msg: fmt.Sprintf("%s gave %q: %d passes expected", src, res.Out, reps)}
	}
	for _, p := range passes {
		f := strings.Split(p, "#")
		if len(f) != 5 {
			return &vk.Fail{Kind: "after", Case: c, Msg: fmt.Sprintf("%s gave %q", src, res.Out)}
		}
		for _, i := range []int{0, 2, 4} {
			if f[i] != one {
				return &vk.Fail{Kind: "after", Case: c, Msg: fmt.Sprintf("%s gave %q: probe %d of the variable v = %s reads %q, want %q (the same before and after the call)", src, res.Out, i/2+1, v.spell, f[i], one)}
			}
		}
		// the chain: A if the condition held; otherwise B exactly when v is truthy
		wantRest := "C"
		if v.truthy {
			wantRest = "B"
		}
		if f[3] != "A" && f[3] != wantRest {
			return &vk.Fail{Kind: "after", Case: c, Msg: fmt.Sprintf("%s gave %q: the chain rendered %q, want A or %s (its else-if tests the variable v = %s)", src, res.Out, f[3], wantRest, v.spell)}
		}
	}
	return nil
}

// ---- part B2: one chain, truth assignments that change between evaluations ----------------------

// RowsCase: ONE chain of k branches whose conditions read the k values of a row; the chain is evaluated once per row -
// as a loop body over the rows, as the body of a template function called once per row, or as a parsed template
// executed once per row. Which branch was taken (and which conditions were evaluated) for the previous row may not
// matter for this one.
type RowsCase struct {
	Rows    [][]int `json:"rows"` // each row: k indexes into rowVals
	HasElse bool    `json:"else"`
	Mode    string  `json:"mode"` // loop | fn | exec
	Bare    bool    `json:"bare"` // conditions spelled r[j] instead of c(j+1, r[j])
	// Field: a row is a struct, the values are its fields A..D (r.A instead of r[0])
	Field bool `json:"field,omitempty"`
}

type rowS struct{ A, B, C, D interface{} }

var rowVals = []struct {
	name   string
	mk     func() interface{}
	truthy bool
}{
	{"true", func() interface{} { return true }, true},
	{"false", func() interface{} { return false }, false},
	{`""`, func() interface{} { return "" }, false},
	{"0", func() interface{} { return 0 }, true},
	{"nil", func() interface{} { return nil }, false},
	{`"x"`, func() interface{} { return "x" }, true},
	{"[]", func() interface{} { return []int{} }, true},
	{"nil *struct", func() interface{} { return (*pt)(nil) }, false},
	{"*struct", func() interface{} { return &pt{} }, true},
	{"empty HTML", func() interface{} { return template.HTML("") }, false},
}

func checkRows(r *vk.Run, c RowsCase) *vk.Fail {
	defer r.Watch("rows", c)()
	k := len(c.Rows[0])
	var sb strings.Builder
	for j := 0; j < k; j++ {
		operand := fmt.Sprintf("r[%d]", j)
		if c.Field {
			operand = "r." + string(rune('A'+j))
		}
		cond := fmt.Sprintf("c(%d, %s)", j+1, operand)
		if c.Bare {
			cond = operand
		}
		if j == 0 {
			fmt.Fprintf(&sb, `<%%= if (%s) { %%>B%d`, cond, j+1)
		} else {
			fmt.Fprintf(&sb, `<%% } else if (%s) { %%>B%d`, cond, j+1)
		}
	}
	if c.HasElse {
		sb.WriteString(`<% } else { %>E`)
	}
	sb.WriteString(`<% } %>,`)
	chain := sb.String()
	var rows []interface{}
	var shown [][]string
	want := ""
	var wantTrace []int
	for _, row := range c.Rows {
		var vals []interface{}
		var names []string
		hit := false
		for j, vi := range row {
			vals = append(vals, rowVals[vi].mk())
			names = append(names, rowVals[vi].name)
			if !hit {
				wantTrace = append(wantTrace, j+1)
				if rowVals[vi].truthy {
					hit = true
					want += fmt.Sprintf("B%d", j+1)
				}
			}
		}
		if !hit && c.HasElse {
			want += "E"
		}
		want += ","
		if c.Field {
			for len(vals) < 4 {
				vals = append(vals, nil)
			}
			rows = append(rows, rowS{vals[0], vals[1], vals[2], vals[3]})
		} else {
			rows = append(rows, vals)
		}
		shown = append(shown, names)
	}
	var trace []int
	helpers := func(d map[string]interface{}) map[string]interface{} {
		d["c"] = func(i int, v interface{}) interface{} { trace = append(trace, i); return v }
		return d
	}
	src := ""
	var res vk.Res
	switch c.Mode {
	case "loop":
		src = `<%= for (r) in rows { %>` + chain + `<% } %>`
		res = vk.Safe(func() (string, error) {
			return plush.Render(src, plush.NewContextWith(helpers(map[string]interface{}{"rows": rows})))
		})
	case "fn":
		src = `<% let f = fn(r) { %>` + chain + `<% } %>`
		d := helpers(map[string]interface{}{})
		for i := range rows {
			src += fmt.Sprintf(`<%%= f(r%d) %%>`, i)
			d[fmt.Sprintf("r%d", i)] = rows[i]
		}
		res = vk.Safe(func() (string, error) { return plush.Render(src, plush.NewContextWith(d)) })
	case "exec":
		src = chain
		res = vk.Safe(func() (string, error) {
			t, err := plush.NewTemplate(src)
			if err != nil {
				return "", err
			}
			out := ""
			for i := range rows {
				s, err := t.Exec(plush.NewContextWith(helpers(map[string]interface{}{"r": rows[i]})))
				if err != nil {
					return out, fmt.Errorf("execution %d: %w", i+1, err)
				}
				out += s
			}
			return out, nil
		})
	default:
		return &vk.Fail{Kind: "decode", Msg: "unknown mode"}
	}
	b, _ := json.Marshal(c)
	if c.Field {
		r.Count(string(b), "rows of structs/"+c.Mode)
	} else {
		r.Count(string(b), "rows/"+c.Mode)
	}
	r.Sample(func() interface{} {
		return map[string]interface{}{"rows": shown, "mode": c.Mode, "template": src, "expected": want, "conditions evaluated": wantTrace}
	})
	if res.Panicked() || res.Err != nil || res.Out != want {
		return &vk.Fail{Kind: "rows", Case: c, Msg: fmt.Sprintf("one chain evaluated for the rows %v (%s): %s gave %s, want %q", shown, c.Mode, src, res, want)}
	}
	if !c.Bare && !reflect.DeepEqual(trace, wantTrace) {
		return &vk.Fail{Kind: "rows", Case: c, Msg: fmt.Sprintf("one chain evaluated for the rows %v (%s): %s evaluated conditions %v, want %v", shown, c.Mode, src, trace, wantTrace)}
	}
	return nil
}

// ---- part C: random nested chains against the reference interpreter ---------------

type NestCase struct {
	Src  string          `json:"src"` // informational: the canonical printing of Prog
	Prog json.RawMessage `json:"prog"`
	// Thrice: one parsed template, executed with the data, the flipped data, the data
	Thrice bool `json:"thrice,omitempty"`
	// Cell: a cell of the exhaustive OPERANDS matrix (part C2): non-trivial whatever its number of chains
	Cell bool `json:"cell,omitempty"`
}

var leafSpells = []model.Expr{
	model.Lit{V: true}, model.Lit{V: false}, model.Lit{V: ""}, model.Lit{V: "x"}, model.Lit{V: 0}, model.Lit{V: 1}, model.Lit{V: nil},
	model.Var{Name: "unk"}, model.Var{Name: "es"}, model.Var{Name: "t"}, model.Var{Name: "f"},
}

type nestGen struct {
	t   *rapid.T
	ctr int
}

func (g *nestGen) cond() model.Expr {
	g.ctr++
	l := rapid.SampledFrom(leafSpells).Draw(g.t, "leaf")
	var e model.Expr = model.Call{Fn: "c", Args: []model.Expr{model.Lit{V: g.ctr}, l}}
	if v, ok := l.(model.Var); ok && v.Name == "unk" {
		e = l // an unknown identifier is tolerated as the condition itself, not as a helper argument
	}
	switch rapid.IntRange(0, 13).Draw(g.t, "wrap") {
	case 10, 11, 12, 13: // a TREE of !, &&, || and parentheses (no parentheses but those the grammar needs) over recording calls
		return g.tree(rapid.IntRange(1, 3).Draw(g.t, "treedepth"))
	case 8: // a condition that is an ARITHMETIC expression: its int value (also 0) is truthy
		g.ctr++
		e = model.Bin{Op: rapid.SampledFrom([]string{"+", "-", "*"}).Draw(g.t, "aop"),
			L: model.Call{Fn: "c", Args: []model.Expr{model.Lit{V: g.ctr - 1}, model.Lit{V: rapid.IntRange(0, 2).Draw(g.t, "ai")}}},
			R: model.Call{Fn: "c", Args: []model.Expr{model.Lit{V: g.ctr}, model.Lit{V: rapid.IntRange(0, 2).Draw(g.t, "aj")}}}}
	case 9: // a condition that is a CONCATENATION: truthy iff the result is non-empty
		g.ctr++
		e = model.Bin{Op: "+",
			L: model.Call{Fn: "c", Args: []model.Expr{model.Lit{V: g.ctr - 1}, model.Lit{V: rapid.SampledFrom([]string{"", "x"}).Draw(g.t, "si")}}},
			R: model.Call{Fn: "c", Args: []model.Expr{model.Lit{V: g.ctr}, model.Lit{V: rapid.SampledFrom([]string{"", "y"}).Draw(g.t, "sj")}}}}
	case 0:
		e = model.Not{X: e}
	case 1:
		g.ctr++
		e = model.Bin{Op: "&&", L: e, R: model.Call{Fn: "c", Args: []model.Expr{model.Lit{V: g.ctr}, rapid.SampledFrom(leafSpells[:7]).Draw(g.t, "leaf2")}}}
	case 2:
		g.ctr++
		e = model.Bin{Op: "||", L: e, R: model.Call{Fn: "c", Args: []model.Expr{model.Lit{V: g.ctr}, rapid.SampledFrom(leafSpells[:7]).Draw(g.t, "leaf2")}}}
	}
	return e
}

// cmpAtom is an operand that is itself an infix expression with a comparison / arithmetic operator over the
// variable n (1; 0 in the flipped data) or over a recording call.
func (g *nestGen) cmpAtom() model.Expr {
	n := model.Expr(model.Var{Name: "n"})
	if rapid.Bool().Draw(g.t, "recorded") {
		g.ctr++
		n = model.Call{Fn: "c", Args: []model.Expr{model.Lit{V: g.ctr}, model.Var{Name: "n"}}}
	}
	k := model.Lit{V: rapid.IntRange(0, 2).Draw(g.t, "k")}
	cmp := rapid.SampledFrom([]string{"<", "<=", ">", ">=", "==", "!="}).Draw(g.t, "cmp")
	switch rapid.IntRange(0, 4).Draw(g.t, "cmpshape") {
	case 0: // n + 1 > k
		return model.Bin{Op: cmp, L: model.Bin{Op: "+", L: n, R: model.Lit{V: 1}}, R: k}
	case 1: // k < n * 2
		return model.Bin{Op: cmp, L: k, R: model.Bin{Op: "*", L: n, R: model.Lit{V: 2}}}
	case 2: // an arithmetic value: every int, 0 too, is truthy
		return model.Bin{Op: rapid.SampledFrom([]string{"+", "-", "*"}).Draw(g.t, "aop2"), L: n, R: k}
	}
	return model.Bin{Op: cmp, L: n, R: k}
}

func (g *nestGen) atom() model.Expr {
	if rapid.IntRange(0, 3).Draw(g.t, "cmpatom") == 0 {
		return g.cmpAtom()
	}
	g.ctr++
	l := rapid.SampledFrom(leafSpells).Draw(g.t, "leaf")
	if v, ok := l.(model.Var); ok && v.Name == "unk" {
		return l
	}
	return model.Call{Fn: "c", Args: []model.Expr{model.Lit{V: g.ctr}, l}}
}

func (g *nestGen) tree(depth int) model.Expr {
	if depth <= 0 {
		return g.atom()
	}
	switch rapid.IntRange(0, 6).Draw(g.t, "tree") {
	case 0:
		return model.Not{X: g.tree(depth - 1)}
	case 1, 2:
		return model.Bin{Op: "&&", L: g.tree(depth - 1), R: g.tree(depth - 1)}
	case 3, 4:
		return model.Bin{Op: "||", L: g.tree(depth - 1), R: g.tree(depth - 1)}
	case 5:
		return model.Paren{X: g.tree(depth - 1)}
	}
	return g.atom()
}

func (g *nestGen) nodes(depth int) []model.Node {
	n := rapid.IntRange(0, 3).Draw(g.t, "n")
	var out []model.Node
	for i := 0; i < n; i++ {
		g.ctr++
		switch k := rapid.IntRange(0, 8).Draw(g.t, "node"); {
		case k == 8: // an OUTPUT TAG printing a tree whose root is ! / && / ||: "true" or "false"
			d := rapid.IntRange(0, 2).Draw(g.t, "emitdepth")
			var e model.Expr
			switch rapid.IntRange(0, 2).Draw(g.t, "emitroot") {
			case 0:
				e = model.Not{X: g.tree(d)}
			case 1:
				e = model.Bin{Op: "&&", L: g.tree(d), R: g.tree(d)}
			default:
				e = model.Bin{Op: "||", L: g.tree(d), R: g.tree(d)}
			}
			out = append(out, model.Text{S: "{"}, model.Emit{X: e}, model.Text{S: "}"})
		case k <= 1 || depth <= 0:
			out = append(out, model.Text{S: fmt.Sprintf("[t%d]", g.ctr)})
		case k == 6: // a function of the template, called twice
			name := fmt.Sprintf("g%d", g.ctr)
			out = append(out, model.Code{S: model.LetS{Name: name, X: model.FnLit{Body: g.nodes(depth - 1)}}},
				model.Emit{X: model.Call{Fn: name}}, model.Text{S: "~"}, model.Emit{X: model.Call{Fn: name}})
		case k == 7: // the block of a block helper
			out = append(out, model.EmitBlock{Helper: "blk", Body: g.nodes(depth - 1)})
		case k == 2:
			out = append(out, model.EmitFor{For: &model.For{Val: "i", Iter: model.Var{Name: "two"}, Body: g.nodes(depth - 1)}})
		default:
			f := &model.If{Cond: g.cond(), Then: g.nodes(depth - 1)}
			for j := rapid.IntRange(0, 3).Draw(g.t, "elseifs"); j > 0; j-- {
				f.ElseIfs = append(f.ElseIfs, model.ElseIf{Cond: g.cond(), Then: g.nodes(depth - 1)})
			}
			if rapid.Bool().Draw(g.t, "else") {
				f.HasElse = true
				f.Else = g.nodes(depth - 1)
			}
			out = append(out, model.EmitIf{If: f})
		}
	}
	return out
}

func checkNest(r *vk.Run, prog []model.Node, thrice, cell bool) *vk.Fail {
	src := model.Printer{}.Nodes(prog)
	c := NestCase{Src: src, Prog: model.Encode(prog), Thrice: thrice, Cell: cell}
	return checkNestSrc(r, prog, src, c)
}

// the data of a nested program; the second set flips what the leaves t, f and es are worth and shortens the loops
func nestData(flipped bool) map[string]interface{} {
	if flipped {
		return map[string]interface{}{"two": []interface{}{1}, "es": "", "t": false, "f": true, "n": 0, "arr": []interface{}{true, false, nil}}
	}
	return map[string]interface{}{"two": []interface{}{1, 2}, "es": []interface{}{}, "t": true, "f": false, "n": 1, "arr": []interface{}{true, false, nil}}
}

func nestContext(data map[string]interface{}, helpers map[string]model.Helper) *plush.Context {
	ctx := model.Context(data, helpers)
	ctx.Set("blk", func(h plush.HelperContext) (template.HTML, error) { s, err := h.Block(); return template.HTML(s), err })
	return ctx
}

func checkNestSrc(r *vk.Run, prog []model.Node, src string, c NestCase) *vk.Fail {
	defer r.Watch("nest", c)()
	mk := func(tr *[]int) map[string]model.Helper {
		return map[string]model.Helper{"c": func(a []interface{}) (interface{}, error) { *tr = append(*tr, a[0].(int)); return a[1], nil }}
	}
	// Thrice: ONE parsed template executed with the data, with the flipped data, and with the data again
	runs := []bool{false}
	if c.Thrice {
		runs = []bool{false, true, false}
	}
	var tmpl *plush.Template
	for i, flipped := range runs {
		var mtrace, ptrace []int
		want := model.Run(prog, nestData(flipped), mk(&mtrace))
		if want.Unspec != "" {
			r.Exclude("nested-unspecified")
			return nil
		}
		res := vk.Safe(func() (string, error) {
			if !c.Thrice {
				return plush.Render(src, nestContext(nestData(flipped), mk(&ptrace)))
			}
			if tmpl == nil {
				t, err := plush.NewTemplate(src)
				if err != nil {
					return "", err
				}
				tmpl = t
			}
			return tmpl.Exec(nestContext(nestData(flipped), mk(&ptrace)))
		})
		if i == 0 {
			nt := ""
			if strings.Count(src, "if (") >= 2 {
				nt = src
				if c.Thrice {
					nt += "|thrice"
				}
			}
			if c.Cell {
				nt = src
				r.Count(nt, "operands: an unknown identifier next to an operand that is itself an operator expression")
			} else if c.Thrice {
				r.Count(nt, "nested, one template executed three times")
			} else {
				r.Count(nt, "nested")
			}
			if nt != "" {
				r.Sample(func() interface{} {
					return map[string]interface{}{"template": src, "expected": want.Out, "conditions evaluated": mtrace}
				})
			}
		}
		if !res.Panicked() && res.Err != nil && want.Err == "" && want.Lenient != "" && strings.Contains(res.Err.Error(), "unknown identifier") {
			r.Exclude("nested unknown identifier not forgiven")
			return nil
		}
		if res.Panicked() || (res.Err != nil) != (want.Err != "") || !match.SameText(res.Out, want.Out) {
			return &vk.Fail{Kind: "nest", Case: c, Msg: fmt.Sprintf("%s (execution %d of %d) gave %s, reference says out=%q err=%q", src, i+1, len(runs), res, want.Out, want.Err)}
		}
		if want.Err == "" && !reflect.DeepEqual(mtrace, ptrace) {
			return &vk.Fail{Kind: "nest", Case: c, Msg: fmt.Sprintf("%s (execution %d of %d) evaluated conditions %v, reference says %v", src, i+1, len(runs), ptrace, mtrace)}
		}
		if want.Err != "" {
			break
		}
	}
	return nil
}

// ---- part C2: an unknown identifier next to an operand that is itself an operator expression ----
//
// The statement: an unknown identifier is falsy wherever it is tested (if, !, &&, ||). The cells put the unknown
// identifier DIRECTLY under && / || (never inside a comparison or a call: whether that is forgiven is not fixed, see
// Result.Lenient) and make the OTHER operand an expression that has operators, calls or indexing of its own; the
// whole is then tested bare and one and two levels deep. The oracle is the reference interpreter.

func operandCells() [][]model.Node {
	v := func(s string) model.Expr { return model.Var{Name: s} }
	l := func(x interface{}) model.Expr { return model.Lit{V: x} }
	b := func(op string, x, y model.Expr) model.Expr { return model.Bin{Op: op, L: x, R: y} }
	n, t, f := v("n"), v("t"), v("f")
	rec := func(k int, x model.Expr) model.Expr { return model.Call{Fn: "c", Args: []model.Expr{l(k), x}} }
	others := []model.Expr{
		b(">", n, l(0)), b(">=", n, l(1)), b("<", n, l(1)), b("<=", n, l(0)), b("==", n, l(1)), b("!=", n, l(1)),
		b(">", b("+", n, l(1)), l(1)), b("==", b("-", n, l(1)), l(0)), b("!=", b("*", n, l(2)), l(2)), b("<", l(1), b("+", n, n)),
		b("+", n, l(1)), b("-", n, l(1)), b("*", n, l(0)), // values: every int is truthy
		b("+", l(""), v("s")), // a concatenation: truthy iff non-empty (s is "" or "x")
		model.Not{X: b(">", n, l(0))}, model.Paren{X: b(">", n, l(0))},
		b("&&", b(">", n, l(0)), t), b("||", b("<", n, l(1)), f), b("&&", t, b(">", n, l(0))),
		model.Call{Fn: "gt", Args: []model.Expr{n}}, // a function of the template whose body is a comparison
		rec(1, b(">", n, l(0))),                     // a helper whose argument is a comparison
		b(">", rec(1, n), l(0)),
		model.Idx{X: v("arr"), I: b("-", l(2), n)}, // arr = [true, false, nil]
		model.Idx{X: model.Arr{Els: []model.Expr{b(">", n, l(0)), b("<", n, l(1))}}, I: l(0)},
		t, f, // reference points
	}
	var exprs []model.Expr
	for _, o := range others {
		for _, op := range []string{"&&", "||"} {
			exprs = append(exprs, b(op, o, v("unk")), b(op, v("unk"), o), b(op, b(op, o, v("unk")), o), b(op, o, model.Not{X: v("unk")}))
		}
	}
	tf := func(c model.Expr) model.Node {
		return model.EmitIf{If: &model.If{Cond: c, Then: []model.Node{model.Text{S: "T"}}, HasElse: true, Else: []model.Node{model.Text{S: "F"}}}}
	}
	chain := func(conds ...model.Expr) model.Node {
		i := &model.If{Cond: conds[0], Then: []model.Node{model.Text{S: "A"}}, HasElse: true, Else: []model.Node{model.Text{S: "Z"}}}
		for j, c := range conds[1:] {
			i.ElseIfs = append(i.ElseIfs, model.ElseIf{Cond: c, Then: []model.Node{model.Text{S: string(rune('B' + j))}}})
		}
		return model.EmitIf{If: i}
	}
	wraps := []func(x model.Expr) []model.Node{
		func(x model.Expr) []model.Node { return []model.Node{tf(x)} },
		func(x model.Expr) []model.Node { return []model.Node{tf(model.Not{X: x})} },
		func(x model.Expr) []model.Node { return []model.Node{tf(model.Not{X: model.Not{X: x}})} },
		func(x model.Expr) []model.Node { return []model.Node{tf(b("||", x, t))} },
		func(x model.Expr) []model.Node { return []model.Node{tf(b("||", x, f))} },
		func(x model.Expr) []model.Node { return []model.Node{tf(b("&&", x, t))} },
		func(x model.Expr) []model.Node { return []model.Node{tf(b("&&", t, x))} },
		func(x model.Expr) []model.Node { return []model.Node{tf(b("||", f, x))} },
		func(x model.Expr) []model.Node { return []model.Node{tf(b("&&", model.Not{X: x}, t))} },
		func(x model.Expr) []model.Node { return []model.Node{tf(b("||", x, v("unk2")))} },
		func(x model.Expr) []model.Node { return []model.Node{tf(b("||", b("||", x, v("unk2")), t))} },
		func(x model.Expr) []model.Node { return []model.Node{tf(b("&&", b("||", x, f), t))} },               // two levels
		func(x model.Expr) []model.Node { return []model.Node{tf(b("||", model.Not{X: b("||", x, f)}, f))} }, // two levels under !
		func(x model.Expr) []model.Node { return []model.Node{tf(b("||", f, b("&&", t, x)))} },               // two levels, right operands
		func(x model.Expr) []model.Node {
			return []model.Node{tf(b("&&", model.Not{X: x}, b("||", b("||", x, x), t)))}
		}, // the demo's shape
		func(x model.Expr) []model.Node { return []model.Node{chain(f, x)} },
		func(x model.Expr) []model.Node { return []model.Node{chain(f, b("||", x, f))} },
		func(x model.Expr) []model.Node {
			return []model.Node{chain(b(">", n, l(5)), b("||", x, b("==", n, l(1))))}
		},
		func(x model.Expr) []model.Node { return []model.Node{chain(f, l(nil), b("&&", t, x), model.Not{X: x})} },
		func(x model.Expr) []model.Node { return []model.Node{chain(b("&&", x, f), b("||", x, f), t)} },
		func(x model.Expr) []model.Node { return []model.Node{model.Emit{X: x}} },
		func(x model.Expr) []model.Node { return []model.Node{model.Emit{X: b("||", x, f)}} },
		func(x model.Expr) []model.Node { return []model.Node{model.Emit{X: model.Not{X: x}}} },
		func(x model.Expr) []model.Node {
			return []model.Node{model.Emit{X: model.Call{Fn: "c", Args: []model.Expr{l(9), x}}}}
		}, // as an argument
		func(x model.Expr) []model.Node {
			return []model.Node{model.Code{S: model.LetS{Name: "w", X: x}}, tf(v("w")), tf(b("||", v("w"), f))}
		},
		func(x model.Expr) []model.Node {
			return []model.Node{model.Code{S: model.LetS{Name: "h", X: model.FnLit{Body: []model.Node{model.Code{S: model.ReturnS{X: x}}}}}},
				tf(model.Call{Fn: "h"}), tf(b("||", model.Call{Fn: "h"}, f))}
		},
		func(x model.Expr) []model.Node {
			return []model.Node{model.EmitFor{For: &model.For{Val: "i", Iter: v("two"), Body: []model.Node{tf(b("||", x, f)), tf(x)}}}}
		},
		func(x model.Expr) []model.Node {
			return []model.Node{model.EmitBlock{Helper: "blk", Body: []model.Node{tf(b("&&", x, t))}}}
		},
		func(x model.Expr) []model.Node { // a chain in the then block of a chain that tested the same expression
			return []model.Node{model.EmitIf{If: &model.If{Cond: model.Not{X: x}, Then: []model.Node{tf(b("||", x, f))}, HasElse: true, Else: []model.Node{tf(b("&&", x, t))}}}}
		},
	}
	var out [][]model.Node
	for nv := 0; nv <= 2; nv++ {
		pre := []model.Node{
			model.Code{S: model.LetS{Name: "n", X: l(nv)}},
			model.Code{S: model.LetS{Name: "s", X: l([]string{"", "x", "x"}[nv])}},
			model.Code{S: model.LetS{Name: "gt", X: model.FnLit{Params: []string{"x"}, Body: []model.Node{model.Code{S: model.ReturnS{X: b(">", v("x"), l(0))}}}}}},
		}
		for _, x := range exprs {
			for _, w := range wraps {
				out = append(out, append(append([]model.Node{}, pre...), w(x)...))
			}
		}
	}
	return out
}

const rule = "(A, exhaustive) 122 value kinds (nil, bools, nil slices / maps / funcs / chans (truthy: not nil pointers), strings incl. \"false\"/\"0\"/\"nil\"/newline/NUL, trusted HTML, typed nil pointers incl. nil pointers to pointers, to iterators and stored through an interface type, non-nil pointers to zero values and to nil pointers, values that PRINT as nothing (Stringer / HTMLer / error with empty text: truthy, they are not the empty string), unknown identifier, nil context value, every numeric width at 0, NaN, -0, complex, uintptr, empty and non-empty slices/arrays/maps/structs, func, iterator, time, results of helpers with 16 result signatures; 5 kinds the statement is silent about - empty values of other string types, nil unsafe.Pointer - are checked for uniformity only, against the plain if) x 61 test positions (if, else-if, second and fifth else-if, !, !!, !!!, !(!v), parenthesised, &&/|| on either side, v && v, v || v, three-operand and mixed ! && || forms, emitted ! !! && ||, inside for / function / block helper / contentFor and their combinations, inside the then / else / else-if block of another chain, returned from a function, a chain written in one tag, silent if, compact and multi-line spellings, five sequences in which a name is first tested while unknown and then bound, five positions where the same statement has forgiven another unknown identifier before / after / on every pass of a loop, under 20 levels of else / then blocks) x 16 ways the value reaches the site (an unknown identifier also as a dotted name whose first name is bound nowhere; variable, variables named like keyword prefixes - nilx falsey iffy elsewhere -, literal, helper call, map index, slice index, struct field, field of an indexed element / of a map element / of a call result, method result, result of a template function): the truth value must be the same everywhere and equal the table in the property; a tested helper call is evaluated exactly once. plus 13 conditions that are arithmetic / concatenation expressions x 6 positions. (A2, exhaustive + random) one set of six test sites evaluated for several values in turn - loop body over a slice of the values (nil elements too), template function called once per value, template function reading an outer variable that is rebound by let / by assignment between the calls, ONE parsed template executed once per value with fresh data (nil and unset too; sites at top level or in a loop), ONE parsed template and ONE context whose value is Set before each execution: every pair (A, B) of the value kinds tested A, B, A (quick: unordered pairs, thorough: ordered), and random sequences of 2-8 kinds. (B, exhaustive) every chain of 1..4 branches x every assignment of 9 condition values x with/without else x 10 placements (top, loop, function, block helper, if in loop, else block, else-if block, a script in one tag assigning a variable, a function returning from the branches, block helper in loop), each condition wrapped in a recording helper: output = block of the first truthy branch, conditions evaluated = exactly the prefix up to it; for 1..3 branches also with empty / output-tag / mixed blocks, with every later condition replaced by a helper that fails when evaluated, and with a bare first condition; chains of 5..12 branches with the first truthy condition at every position. (B2, exhaustive + random) ONE chain evaluated for a sequence of rows of truth assignments (conditions read r[j] or the field r.A of the row, bare or through the recording helper) as loop body / function body / parsed template executed per row: every ordered pair of assignments of 2 branches over 4 values as A, B, A, and random 1..4 branches x 2..6 rows over 10 values. (B3, exhaustive) a chain and the five test sites after a condition that called a template function whose body fails on an unknown identifier (7 values of a variable x 7 arguments bound to the parameter of the same name x 5 failing bodies x 6 uses x top level / loop / function): the render may fail; if it goes on, every site reads the variable as before the call and the chain's else-if tests the variable. (C, random) nested if/else-if/else chains whose conditions are trees of !, &&, || and parentheses (depth <= 3, only the parentheses the grammar needs) over recording calls, arithmetic and concatenation, inside loops, template functions called twice and block helpers, compared with the reference interpreter incl. the evaluation trace; a quarter of them as one parsed template executed with the data, with flipped data, and with the data again; a quarter of the leaves of a tree are operator expressions themselves (comparisons of n, n + 1, n * 2 or of a recording call with 0..2 under the six comparison operators, arithmetic values), and a ninth of the nodes are OUTPUT TAGS printing a tree whose root is ! / && / ||. (C2, exhaustive) an unknown identifier written DIRECTLY as an operand of && / || (never inside a comparison or a call: whether that is forgiven is not asserted, Result.Lenient) whose other operand X is one of 26 expressions that have operators, calls or indexing of their own (n > 0, n >= 1, n < 1, n <= 0, n == 1, n != 1, n + 1 > 1, n - 1 == 0, n * 2 != 2, 1 < n + n, n + 1, n - 1, n * 0, \"\" + s, !(n > 0), (n > 0), n > 0 && t, n < 1 || f, t && n > 0, a template function whose body is a comparison, a helper given a comparison, a helper result compared, arr[2 - n], [n > 0, n < 1][0]; t and f as reference points) x {&&, ||} x {X op unk, unk op X, X op unk op X, X op !unk} x 29 ways the whole is tested (bare if, !, !!, left / right operand of && / || next to true / false / a second unknown identifier, two levels deep on the left, on the right and under !, else-if condition at position 2, 3 and 4 and next to a comparison, after an else-if that tested the same expression, output tag of the expression / of its negation / of it || false, helper argument, let + test, returned from a template function, in a loop, in a block helper, in the then / else block of a chain that tested it) x n = 0, 1, 2, compared with the reference interpreter (the unknown identifier counts as nil: falsy). Non-trivial: every matrix cell, chain and row sequence is (distinct by cell / chain / template)."

func setup(t *testing.T) *vk.Run {
	r := vk.Start(t, "C07", rule,
		"the zero values of slice, map and func types are in the table as truthy: the statement lists what is falsy (nil, false, the empty string, empty HTML, nil pointers, unknown identifiers) and calls every other value, empty collections included, truthy",
		"conditions must be spelled as identifiers, literals, calls, index, prefix or infix expressions: other forms are rejected by the parser before evaluation",
		"a value that prints as nothing (a Stringer, HTMLer or error with empty text) is a struct / pointer, not the empty string or empty HTML: truthy; a non-nil pointer is truthy whatever it points to (a nil pointer included)",
		"empty values of string types other than string and template.HTML, and a nil unsafe.Pointer, are not placed by the statement: only 'the same truth value wherever it is tested' is asserted for them",
		"what a struct field or method yields for a stored non-nil pointer (C11) and whether an interface{} result holding an error value is a failed call (C12) are other properties' matters: those cells are excluded, not asserted",
		"a tested helper call is evaluated exactly once per evaluation of its test site (the statement's side-effect counters); the two positions that spell the value on both sides of one && / || are not counted, short-circuiting is not part of this statement")
	r.Replayer("truth", func(raw json.RawMessage) *vk.Fail {
		var c TruthCase
		if f := vk.Decode(raw, &c); f != nil {
			return f
		}
		if c.Kind < 0 || c.Kind >= len(kinds) || c.Position < 0 || c.Position >= len(positions) || c.Spell < 0 || c.Spell >= len(spells) {
			return &vk.Fail{Kind: "decode", Msg: "index out of range"}
		}
		return checkTruth(r, c)
	})
	r.Replayer("chain", func(raw json.RawMessage) *vk.Fail {
		var c ChainCase
		if f := vk.Decode(raw, &c); f != nil {
			return f
		}
		for _, x := range c.Conds {
			if x < 0 || x >= len(condVals) {
				return &vk.Fail{Kind: "decode", Msg: "index out of range"}
			}
		}
		if c.Place < 0 || c.Place >= len(places) || len(c.Conds) == 0 || c.Body < 0 || c.Body > 3 {
			return &vk.Fail{Kind: "decode", Msg: "index out of range"}
		}
		return checkChain(r, c)
	})
	r.Replayer("sweep", func(raw json.RawMessage) *vk.Fail {
		var c SweepCase
		if f := vk.Decode(raw, &c); f != nil {
			return f
		}
		for _, k := range c.Kinds {
			if k < 0 || k >= len(kinds) || !sweepableIn(c.Mode, kinds[k]) {
				return &vk.Fail{Kind: "decode", Msg: "kind cannot be swept"}
			}
		}
		return checkSweep(r, c)
	})
	r.Replayer("rows", func(raw json.RawMessage) *vk.Fail {
		var c RowsCase
		if f := vk.Decode(raw, &c); f != nil {
			return f
		}
		if len(c.Rows) == 0 || len(c.Rows[0]) == 0 {
			return &vk.Fail{Kind: "decode", Msg: "no rows"}
		}
		for _, row := range c.Rows {
			if len(row) != len(c.Rows[0]) {
				return &vk.Fail{Kind: "decode", Msg: "rows of different lengths"}
			}
			for _, x := range row {
				if x < 0 || x >= len(rowVals) || (c.Field && rowVals[x].name == "*struct") {
					return &vk.Fail{Kind: "decode", Msg: "index out of range"}
				}
			}
		}
		if len(c.Rows[0]) > 4 {
			return &vk.Fail{Kind: "decode", Msg: "at most four branches"}
		}
		return checkRows(r, c)
	})
	r.Replayer("after", func(raw json.RawMessage) *vk.Fail {
		var c AfterCase
		if f := vk.Decode(raw, &c); f != nil {
			return f
		}
		if c.Val < 0 || c.Val >= len(afterVals) || c.Arg < 0 || c.Arg >= len(afterVals) || c.Body < 0 || c.Body >= len(afterBodies) || c.Use < 0 || c.Use >= len(afterUses) || c.Place < 0 || c.Place > 2 {
			return &vk.Fail{Kind: "decode", Msg: "index out of range"}
		}
		return checkAfter(r, c)
	})
	r.Replayer("arith", func(raw json.RawMessage) *vk.Fail {
		var c map[string]string
		if f := vk.Decode(raw, &c); f != nil {
			return f
		}
		res := vk.Safe(func() (string, error) {
			return plush.Render(c["src"], plush.NewContextWith(map[string]interface{}{"n0": 0, "n1": 1, "f0": 0.0, "e": "", "one": []int{1}}))
		})
		if res.Panicked() || res.Err != nil || res.Out != c["want"] {
			return &vk.Fail{Kind: "arith", Case: c, Msg: fmt.Sprintf("%s gave %s, want %q", c["src"], res, c["want"])}
		}
		return nil
	})
	r.Replayer("nest", func(raw json.RawMessage) *vk.Fail {
		var c NestCase
		if f := vk.Decode(raw, &c); f != nil {
			return f
		}
		prog, err := model.Decode(c.Prog)
		if err != nil {
			return &vk.Fail{Kind: "decode", Msg: err.Error()}
		}
		return checkNest(r, prog, c.Thrice, c.Cell)
	})
	return r
}

func TestReplay(t *testing.T) { setup(t).ReplayEnv() }

func TestProp(t *testing.T) {
	r := setup(t)
	defer r.Finish()
	r.ReplayCommitted()

	var n int64
	var cells []TruthCase
	for ki, k := range kinds {
		litOnly := k.lit != "" && k.mk == nil && k.helper == nil && k.hfn == nil && ki != 0
		for pi := range positions {
			for si, sp := range spells {
				if !litOnly {
					cells = append(cells, TruthCase{Kind: ki, Position: pi, Spell: si})
				}
				if k.lit != "" && k.helper == nil && (si == 0 || sp.pre != "") {
					cells = append(cells, TruthCase{Kind: ki, Position: pi, Literal: true, Spell: si})
				}
			}
		}
	}
	n = int64(len(cells))
	r.Parallel(n, 0, func(i int64) { r.Check(checkTruth(r, cells[i])) })
	// conditions that are arithmetic / concatenation expressions (their value is tested, not a bool)
	arith := []struct {
		cond   string
		truthy bool
	}{
		{"n0 + n0", true}, {"n1 - n1", true}, {"n0 * n1", true}, {"n1 + n1", true}, {"n1 / n1", true}, {"f0 + f0", true}, {"f0 * f0", true},
		{`e + e`, false}, {`e + "x"`, true}, {`"x" + e`, true}, {`e + n0`, true}, {"(n0 + n0)", true}, {"n0 + n0 * n0", true},
	}
	for _, a := range arith {
		for _, tm := range []string{
			`<%%= if (%s) { %%>T<%% } else { %%>F<%% } %%>`,
			`<%%= if (false) { %%>X<%% } else if (%s) { %%>T<%% } else { %%>F<%% } %%>`,
			`<%%= if (nil) { %%>X<%% } else if (false) { %%>Y<%% } else if (%s) { %%>T<%% } else { %%>F<%% } %%>`,
			`<%%= for (i) in one { %%><%%= if (%s) { %%>T<%% } else { %%>F<%% } %%><%% } %%>`,
			`<%%= if (!(%s)) { %%>F<%% } else { %%>T<%% } %%>`,
			`<%%= if ((%s) && true) { %%>T<%% } else { %%>F<%% } %%>`,
		} {
			src := fmt.Sprintf(tm, a.cond)
			want := "F"
			if a.truthy {
				want = "T"
			}
			res := vk.Safe(func() (string, error) {
				return plush.Render(src, plush.NewContextWith(map[string]interface{}{"n0": 0, "n1": 1, "f0": 0.0, "e": "", "one": []int{1}}))
			})
			r.Count("arith|"+src, "truth/arithmetic condition")
			n++
			if res.Panicked() || res.Err != nil || res.Out != want {
				r.Violation(&vk.Fail{Kind: "arith", Case: map[string]string{"src": src, "want": want}, Msg: fmt.Sprintf("%s gave %s, want %q (the value of an arithmetic/concatenation condition is %v wherever it is tested)", src, res, want, a.truthy)})
			}
		}
	}
	r.Subspace(fmt.Sprintf("truth table: %d value kinds x %d test positions x %d ways the value reaches the site (variable / literal / helper call, map index, slice index, struct field, result of a template function) + 13 arithmetic/concatenation conditions x 6 positions", len(kinds), len(positions), len(spells)), n, true)

	// A2: every ordered pair of passable value kinds, tested A, B, A by one set of sites
	modes := []string{"loop", "fn", "exec", "exec in loop", "exec, one context", "fn reads outer, let between calls", "fn reads outer, assignment between calls"}
	sw := map[string][]int{}
	for ki, k := range kinds {
		for _, m := range modes {
			if sweepableIn(m, k) {
				sw[m] = append(sw[m], ki)
			}
		}
	}
	var sweeps []SweepCase
	for _, mode := range modes {
		for _, a := range sw[mode] {
			for _, b := range sw[mode] {
				if a != b && (a < b || !r.Quick()) { // quick: A, B, A for every unordered pair (both transitions are still made)
					sweeps = append(sweeps, SweepCase{Kinds: []int{a, b, a}, Mode: mode})
				}
			}
		}
	}
	ns := int64(len(sweeps))
	r.Parallel(ns, 0, func(i int64) { r.Check(checkSweep(r, sweeps[i])) })
	r.Subspace("sweeps: every pair (A, B) of value kinds tested A, B, A by one set of six test sites x {loop body (nil elements too), function body, function body reading a variable rebound by let / by assignment between the calls, one parsed template executed three times (nil and unset too), the same with the sites inside a loop, the same with ONE context whose value is Set before each execution}", ns, true)
	r.Rapid("sweeps", r.Pick(400, 6000), func(t *rapid.T) *vk.Fail {
		mode := rapid.SampledFrom(modes).Draw(t, "mode")
		return checkSweep(r, SweepCase{Kinds: rapid.SliceOfN(rapid.SampledFrom(sw[mode]), 2, 8).Draw(t, "kinds"), Mode: mode})
	})

	maxB := 4
	nv := int64(len(condVals))
	for b := 1; b <= maxB; b++ {
		total := int64(1)
		for i := 0; i < b; i++ {
			total *= nv
		}
		cells := total * 2 * int64(len(places))
		if r.Quick() && b == 4 {
			// quick: every truth assignment at 4 branches, but only values {true,false,"",0,nil}
			continue
		}
		r.Subspace(fmt.Sprintf("chains of %d branches x 9 condition values x else/no else x %d placements", b, len(places)), cells, true)
		r.Parallel(cells, 0, func(i int64) {
			c := ChainCase{Place: int(i % int64(len(places))), HasElse: (i/int64(len(places)))%2 == 1}
			j := i / int64(len(places)) / 2
			for k := 0; k < b; k++ {
				c.Conds = append(c.Conds, int(j%nv))
				j /= nv
			}
			r.Check(checkChain(r, c))
		})
	}
	if r.Quick() {
		vals := []int{0, 1, 2, 3, 4}
		var cnt int64
		for a := range vals {
			for b := range vals {
				for c := range vals {
					for d := range vals {
						for pl := range places {
							for _, e := range []bool{false, true} {
								r.Check(checkChain(r, ChainCase{Conds: []int{vals[a], vals[b], vals[c], vals[d]}, HasElse: e, Place: pl}))
								cnt++
							}
						}
					}
				}
			}
		}
		r.Subspace(fmt.Sprintf("chains of 4 branches x 5 condition values x else/no else x %d placements", len(places)), cnt, true)
	}

	// chains: block bodies (empty, output tags, mixed), failing later conditions, bare first condition - 1..3 branches
	var extra []ChainCase
	for b := 1; b <= 3; b++ {
		base := int(nv)
		if r.Quick() && b == 3 {
			base = 5 // quick: three branches over {true, false, "", 0, nil} only
		}
		total := 1
		for i := 0; i < b; i++ {
			total *= base
		}
		for j := 0; j < total; j++ {
			conds, x := []int{}, j
			for k := 0; k < b; k++ {
				conds = append(conds, x%base)
				x /= base
			}
			for pl := range places {
				script := places[pl].pre == "" && places[pl].name != "top"
				for _, e := range []bool{false, true} {
					if !script {
						for body := 1; body <= 3; body++ {
							extra = append(extra, ChainCase{Conds: conds, HasElse: e, Place: pl, Body: body})
						}
					}
					extra = append(extra, ChainCase{Conds: conds, HasElse: e, Place: pl, Boom: true})
					extra = append(extra, ChainCase{Conds: conds, HasElse: e, Place: pl, BareFirst: true})
					if !script {
						extra = append(extra, ChainCase{Conds: conds, HasElse: e, Place: pl, BareFirst: true, Boom: true, Body: 3})
					}
				}
			}
		}
	}
	// long chains: 5..12 branches, the first truthy condition at every position (and nowhere), what follows all falsy or all truthy
	falsyVals, truthyVals := []int{1, 2, 4, 6, 8}, []int{0, 3, 5, 7}
	for nb := 5; nb <= 12; nb++ {
		for firstAt := 0; firstAt <= nb; firstAt++ {
			for _, tail := range []bool{false, true} {
				conds := []int{}
				for i := 0; i < nb; i++ {
					switch {
					case i == firstAt, i > firstAt && tail:
						conds = append(conds, truthyVals[(i+nb)%len(truthyVals)])
					default:
						conds = append(conds, falsyVals[(i+firstAt)%len(falsyVals)])
					}
				}
				for pl := range places {
					for _, e := range []bool{false, true} {
						extra = append(extra, ChainCase{Conds: conds, HasElse: e, Place: pl})
						extra = append(extra, ChainCase{Conds: conds, HasElse: e, Place: pl, Boom: true})
					}
				}
			}
		}
	}
	r.Subspace("chains of 1..3 branches x 9 condition values x else/no else x 10 placements x {empty blocks, output-tag blocks, mixed blocks, later conditions that fail when evaluated, bare first condition}; chains of 5..12 branches with the first truthy condition at every position", int64(len(extra)), true)
	r.Parallel(int64(len(extra)), 0, func(i int64) { r.Check(checkChain(r, extra[i])) })

	// B2: one chain, rows of truth assignments. Exhaustive: 2 branches, every ordered pair of rows over {true, false, "", 0}
	var rowCases []RowsCase
	for a := 0; a < 16; a++ {
		for b := 0; b < 16; b++ {
			for _, mode := range []string{"loop", "fn", "exec"} {
				for _, e := range []bool{false, true} {
					for _, bare := range []bool{false, true} {
						for _, field := range []bool{false, true} {
							rowCases = append(rowCases, RowsCase{Rows: [][]int{{a % 4, a / 4}, {b % 4, b / 4}, {a % 4, a / 4}}, HasElse: e, Mode: mode, Bare: bare, Field: field})
						}
					}
				}
			}
		}
	}
	r.Subspace("rows: one chain of 2 branches evaluated for the rows A, B, A - every ordered pair of truth assignments over {true, false, \"\", 0} x {loop body, function body, parsed template executed per row} x else/no else x {recording, bare} conditions x {row = slice, row = struct}", int64(len(rowCases)), true)
	r.Parallel(int64(len(rowCases)), 0, func(i int64) { r.Check(checkRows(r, rowCases[i])) })
	var afterCases []AfterCase
	for vi := range afterVals {
		for ai := range afterVals {
			for bi := range afterBodies {
				for ui := range afterUses {
					for pl := 0; pl < 3; pl++ {
						afterCases = append(afterCases, AfterCase{Val: vi, Arg: ai, Body: bi, Use: ui, Place: pl})
					}
				}
			}
		}
	}
	r.Subspace("after a forgiven failing call: 7 values of the variable x 7 arguments bound to the same-named parameter x 5 failing bodies x 6 uses of the call in a condition x {top level, loop body, function body}", int64(len(afterCases)), true)
	r.Parallel(int64(len(afterCases)), 0, func(i int64) { r.Check(checkAfter(r, afterCases[i])) })
	r.Rapid("rows", r.Pick(1500, 30000), func(t *rapid.T) *vk.Fail {
		k := rapid.IntRange(1, 4).Draw(t, "branches")
		field := rapid.Bool().Draw(t, "field")
		pool := []int{0, 1, 2, 3, 4, 5, 6, 7, 8, 9}
		if field {
			pool = []int{0, 1, 2, 3, 4, 5, 6, 7, 9} // a field that holds a non-nil pointer: what it yields is C11's matter
		}
		rows := rapid.SliceOfN(rapid.SliceOfN(rapid.SampledFrom(pool), k, k), 2, 6).Draw(t, "rows")
		return checkRows(r, RowsCase{Rows: rows, HasElse: rapid.Bool().Draw(t, "else"), Mode: rapid.SampledFrom([]string{"loop", "fn", "exec"}).Draw(t, "mode"), Bare: rapid.Bool().Draw(t, "bare"), Field: field})
	})

	opCells := operandCells()
	r.Subspace("operands: 26 operands that are operator expressions themselves (6 comparisons of n, 4 comparisons of arithmetic, 3 arithmetic values, a concatenation, !, parentheses, 3 logical expressions, a template function / a helper argument / a helper result compared / 2 index expressions with a comparison inside, 2 plain references) x {&&, ||} x {X op unk, unk op X, X op unk op X, X op !unk} x 29 ways the whole is tested (bare, !, !!, either operand of && / || next to true / false / a second unknown identifier, two levels deep on either side and under !, else-if conditions at positions 2-4 and next to a comparison, after a chain that tested it, output tag, helper argument, let + test, returned from a function, in a loop / block helper / nested chain) x n = 0, 1, 2", int64(len(opCells)), true)
	r.Parallel(int64(len(opCells)), 0, func(i int64) { r.Check(checkNest(r, opCells[i], false, true)) })

	r.Rapid("nested", r.Pick(4000, 60000), func(t *rapid.T) *vk.Fail {
		g := &nestGen{t: t}
		return checkNest(r, g.nodes(3), rapid.IntRange(0, 3).Draw(t, "thrice") == 0, false)
	})
}
