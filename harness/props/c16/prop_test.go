// C16 — user-defined functions bind parameters to argument values and return their value.
package c16

import (
	"encoding/json"
	"fmt"
	"sort"
	"strings"
	"testing"

	"verif/internal/match"
	"verif/internal/model"
	"verif/internal/vk"

	plush "github.com/gobuffalo/plush/v5"
	"pgregory.net/rapid"
)

func TestMain(m *testing.M) { vk.Main(m) }

type Case struct {
	Src     string          `json:"src"` // informational
	Compact bool            `json:"compact"`
	Prog    json.RawMessage `json:"prog"`
	Many    int             `json:"many,omitempty"` // length of the data array "many" (0: absent)
}

// LitCase is a program the mini-AST cannot spell (a call of a call result, of
// an indexed element, of a function literal); its expectation is derived by
// hand from the statement.
type LitCase struct {
	Src  string `json:"src"`
	Want string `json:"want"`
}

// caller-side variables deliberately named like the parameters (a, b, c, d)
func data() map[string]interface{} {
	return map[string]interface{}{
		"a": "A", "b": "B", "c": "C", "d": "D",
		"i0": 0, "i1": 1, "i2": 2, "sx": "x", "sy": "y", "t": true, "f": false,
		"two": []interface{}{1, 2},
		// boundary containers, only mentioned by the returned-container programs (E5, R5)
		"one1": []interface{}{7}, "nest1": []interface{}{[]interface{}{1, 2}},
		"hash1": &model.OrderedMap{Keys: []interface{}{"k"}, Vals: map[interface{}]interface{}{"k": 1}},
		// a Go struct value: only the hand-written cases (memberCases) mention it
		"user": person{Name: "ann", Kid: &person{Name: "kid"}},
	}
}

type person struct {
	Name string
	Kid  *person
}

func (p person) Hello() string { return "hi " + p.Name }

func dataFor(many int) map[string]interface{} {
	d := data()
	if many > 0 {
		arr := make([]interface{}, many)
		for i := range arr {
			arr[i] = i
		}
		d["many"] = arr
	}
	return d
}

// mkHelpers: fresh for every evaluation (the reference and the render each get
// their own). id returns its argument; tick(k) counts its calls per key k and
// returns the count, so that how often an argument expression, a body
// statement or dead code was evaluated shows in the output (keys are unique
// per call site, so the order of evaluation of two arguments does not).
func mkHelpers() map[string]model.Helper {
	counts := map[string]int{}
	return map[string]model.Helper{
		"id": func(a []interface{}) (interface{}, error) { return a[0], nil },
		// kind reports the Go-side shape of its argument (E5, R5): a list of one element and that element differ
		"kind": func(a []interface{}) (interface{}, error) {
			if len(a) != 1 {
				return nil, fmt.Errorf("kind of %d values", len(a))
			}
			return shape(a[0]), nil
		},
		"tick": func(a []interface{}) (interface{}, error) {
			k := fmt.Sprint(a[0])
			counts[k]++
			return counts[k], nil
		},
	}
}

func run(r *vk.Run, prog []model.Node, compact bool, class string) *vk.Fail {
	return runMany(r, prog, compact, 0, class)
}

func runMany(r *vk.Run, prog []model.Node, compact bool, many int, class string) *vk.Fail {
	src := model.Printer{Compact: compact}.Nodes(prog)
	c := Case{Src: src, Compact: compact, Prog: model.Encode(prog), Many: many}
	defer r.Watch("fn", c)()
	want := model.Run(prog, dataFor(many), modelHelpers())
	if want.Unspec != "" {
		r.Exclude("unspecified")
		return nil
	}
	res := vk.Safe(func() (string, error) { return plush.Render(src, model.Context(dataFor(many), mkHelpers())) })
	r.Count(src, class)
	r.Sample(func() interface{} {
		return map[string]interface{}{"template": src, "expected": want.Out, "expected_error": want.Err}
	})
	fail := func(f string, a ...interface{}) *vk.Fail {
		return &vk.Fail{Kind: "fn", Case: c, Msg: src + ": " + fmt.Sprintf(f, a...)}
	}
	if res.Panicked() {
		return fail("%s", res)
	}
	if want.Err != "" {
		r.Class("expected-render-fails:" + strings.SplitN(strings.SplitN(class, "/", 2)[0], ":", 2)[0])
		if res.Err == nil {
			return fail("reference says error (%s), render gave %q", want.Err, res.Out)
		}
		return nil
	}
	if res.Err != nil {
		// how deep calls may nest is not stated: beyond 64 levels an engine may refuse (with an error, never a panic)
		var depth int
		if i := strings.Index(class, "deep-recursion:"); i >= 0 {
			fmt.Sscanf(class[i:], "deep-recursion:%d", &depth)
		}
		if depth > 64 {
			r.Class("deep recursion refused with an error")
			return nil
		}
		if want.Lenient != "" && strings.Contains(res.Err.Error(), "unknown identifier") {
			r.Exclude("nested unknown identifier not forgiven")
			return nil
		}
		return fail("render failed: %v; reference output %q", res.Err, want.Out)
	}
	if !match.SameText(res.Out, want.Out) {
		return fail("output %q, reference says %q", res.Out, want.Out)
	}
	return nil
}

func runLit(r *vk.Run, c LitCase, class string) *vk.Fail {
	defer r.Watch("lit", c)()
	res := vk.Safe(func() (string, error) { return plush.Render(c.Src, model.Context(data(), mkHelpers())) })
	r.Count(c.Src, class)
	r.Sample(func() interface{} { return map[string]interface{}{"template": c.Src, "expected": c.Want} })
	if res.Panicked() {
		return &vk.Fail{Kind: "lit", Case: c, Msg: c.Src + ": " + res.String()}
	}
	if res.Err != nil {
		return &vk.Fail{Kind: "lit", Case: c, Msg: fmt.Sprintf("%s: render failed: %v; the statement gives %q", c.Src, res.Err, c.Want)}
	}
	if !match.SameText(res.Out, c.Want) {
		return &vk.Fail{Kind: "lit", Case: c, Msg: fmt.Sprintf("%s: output %q, the statement gives %q", c.Src, res.Out, c.Want)}
	}
	return nil
}

// ---- generator --------------------------------------------------------------------

type fam int

const (
	famInt fam = iota
	famStr
	famBool
)

var paramNames = []string{"a", "b", "c", "d"}

type fnGen struct {
	t      *rapid.T
	ret    int
	fams   []fam // family of each parameter
	retInt bool  // the function returns small ints instead of labels
}

func (g *fnGen) litOf(f fam) model.Expr {
	switch f {
	case famInt:
		return model.Lit{V: rapid.IntRange(0, 2).Draw(g.t, "ilit")}
	case famStr:
		return model.Lit{V: rapid.SampledFrom([]string{"x", "y", "A", "B"}).Draw(g.t, "slit")}
	}
	return model.Lit{V: rapid.Bool().Draw(g.t, "blit")}
}

func (g *fnGen) retStmt() model.Node {
	g.ret++
	if g.retInt {
		return model.Code{S: model.ReturnS{X: model.Lit{V: g.ret}}}
	}
	return model.Code{S: model.ReturnS{X: model.Lit{V: fmt.Sprintf("r%d", g.ret)}}}
}

func (g *fnGen) cond() model.Expr {
	t := g.t
	if len(g.fams) == 0 {
		return model.Lit{V: rapid.Bool().Draw(t, "c")}
	}
	pi := rapid.IntRange(0, len(g.fams)-1).Draw(t, "param")
	p := model.Var{Name: paramNames[pi]}
	f := g.fams[pi]
	switch k := rapid.IntRange(0, 6).Draw(t, "ck"); {
	case k == 0:
		return p // truthiness of the parameter
	case k == 1:
		return model.Not{X: p}
	case k == 2 && f == famInt:
		return model.Bin{Op: rapid.SampledFrom([]string{"<", ">", "<=", ">="}).Draw(t, "cmp"), L: p, R: g.litOf(f)}
	case k == 3:
		// compare two parameters of the same family
		for qi, qf := range g.fams {
			if qi != pi && qf == f {
				return model.Bin{Op: rapid.SampledFrom([]string{"==", "!="}).Draw(t, "eq"), L: p, R: model.Var{Name: paramNames[qi]}}
			}
		}
	case k == 4:
		return model.Bin{Op: "!=", L: p, R: g.litOf(f)}
	}
	return model.Bin{Op: "==", L: p, R: g.litOf(f)}
}

// chain: a decision chain; every path ends in a return when final is true.
func (g *fnGen) chain(depth int, final bool) []model.Node {
	t := g.t
	var out []model.Node
	n := rapid.IntRange(0, 2).Draw(t, "ifs")
	if depth <= 0 {
		n = 0
	}
	for i := 0; i < n; i++ {
		f := &model.If{Cond: g.cond(), Then: g.block(depth - 1)}
		for j := rapid.IntRange(0, 2).Draw(t, "elseifs"); j > 0; j-- {
			f.ElseIfs = append(f.ElseIfs, model.ElseIf{Cond: g.cond(), Then: g.block(depth - 1)})
		}
		if rapid.Bool().Draw(t, "else") {
			f.HasElse = true
			f.Else = g.block(depth - 1)
		}
		out = append(out, model.Code{S: model.IfS{If: f}})
		if rapid.IntRange(0, 9).Draw(t, "txt") == 0 { // text rendered before the return is not part of the value
			out = append(out, model.Text{S: "(body text)"})
		}
		if rapid.IntRange(0, 4).Draw(t, "let") == 0 {
			out = append(out, model.Code{S: model.LetS{Name: "tmp", X: model.Lit{V: "local"}}})
		}
	}
	if final {
		out = append(out, g.retStmt())
		if rapid.IntRange(0, 3).Draw(t, "dead") == 0 { // dead code after the return
			out = append(out, g.retStmt())
		}
	}
	return out
}

func (g *fnGen) block(depth int) []model.Node {
	// a branch either returns (possibly after a nested chain) or falls through
	if rapid.IntRange(0, 4).Draw(g.t, "fall") == 0 {
		return g.chain(depth, false)
	}
	return g.chain(depth, true)
}

// argument for a parameter of family f: literal, a plain variable, or a variable
// that is NAMED LIKE ONE OF THE FUNCTION'S PARAMETERS (only for string parameters,
// whose caller-side namesakes hold strings).
func (g *fnGen) arg(f fam) model.Expr {
	t := g.t
	if rapid.IntRange(0, 6).Draw(t, "nilarg") == 0 {
		// nil is a value like any other: the parameter is BOUND to it (and hides a caller variable of the same name)
		return model.Lit{V: nil}
	}
	switch f {
	case famInt:
		if rapid.Bool().Draw(t, "var") {
			return model.Var{Name: rapid.SampledFrom([]string{"i0", "i1", "i2"}).Draw(t, "iv")}
		}
		return g.litOf(f)
	case famBool:
		if rapid.Bool().Draw(t, "var") {
			return model.Var{Name: rapid.SampledFrom([]string{"t", "f"}).Draw(t, "bv")}
		}
		return g.litOf(f)
	}
	switch rapid.IntRange(0, 3).Draw(t, "sk") {
	case 0:
		return g.litOf(f)
	case 1:
		return model.Var{Name: rapid.SampledFrom([]string{"sx", "sy"}).Draw(t, "sv")}
	}
	return model.Var{Name: rapid.SampledFrom(paramNames).Draw(t, "namesake")}
}

func (g *fnGen) program() ([]model.Node, string) {
	t := g.t
	np := rapid.IntRange(0, 4).Draw(t, "nparams")
	g.fams = nil
	for i := 0; i < np; i++ {
		g.fams = append(g.fams, fam(rapid.IntRange(0, 2).Draw(t, "fam")))
	}
	// bias: all-string parameters so that swapped namesake arguments are common
	if rapid.IntRange(0, 2).Draw(t, "allstr") == 0 {
		for i := range g.fams {
			g.fams[i] = famStr
		}
	}
	use := rapid.IntRange(0, 11).Draw(t, "use")
	g.retInt = use == 5
	body := g.chain(3, true)
	def := model.Code{S: model.LetS{Name: "fun", X: model.FnLit{Params: paramNames[:np], Body: body}}}
	var args []model.Expr
	for _, f := range g.fams {
		args = append(args, g.arg(f))
	}
	// an argument that is itself a call of the SAME function (its result has
	// the right family for string parameters, or int parameters of an
	// int-returning function)
	if np > 0 && rapid.IntRange(0, 2).Draw(t, "nested") == 0 {
		want := famStr
		if g.retInt {
			want = famInt
		}
		var pos []int
		for i, f := range g.fams {
			if f == want {
				pos = append(pos, i)
			}
		}
		if len(pos) > 0 {
			at := rapid.SampledFrom(pos).Draw(t, "nestpos")
			var inner []model.Expr
			for _, f := range g.fams {
				inner = append(inner, g.arg(f))
			}
			args[at] = model.Call{Fn: "fun", Args: inner}
		}
	}
	call := model.Call{Fn: "fun", Args: args}
	T := func(s string) model.Node { return model.Text{S: s} }
	prog := []model.Node{def, T("[")}
	class := ""
	switch use {
	case 0, 1:
		class = "emit"
		prog = append(prog, model.Emit{X: call})
	case 2:
		class = "let-then-emit"
		prog = append(prog, model.Code{S: model.LetS{Name: "res", X: call}}, model.Emit{X: model.Var{Name: "res"}})
	case 3:
		class = "compare"
		prog = append(prog, model.Emit{X: model.Bin{Op: "==", L: call, R: model.Lit{V: fmt.Sprintf("r%d", rapid.IntRange(1, 4).Draw(t, "rk"))}}})
	case 4:
		class = "if-test"
		prog = append(prog, model.EmitIf{If: &model.If{Cond: call, Then: []model.Node{T("T")}, HasElse: true, Else: []model.Node{T("F")}}})
	case 5:
		class = "arithmetic"
		prog = append(prog, model.Emit{X: model.Bin{Op: "+", L: call, R: model.Lit{V: 100}}})
	case 6:
		class = "concat"
		prog = append(prog, model.Emit{X: model.Bin{Op: "+", L: model.Lit{V: "p-"}, R: call}})
	case 7:
		class = "arg-of-user-fn"
		prog = append(prog, model.Code{S: model.LetS{Name: "wrap", X: model.FnLit{Params: []string{"x"}, Body: []model.Node{model.Code{S: model.ReturnS{X: model.Var{Name: "x"}}}}}}},
			model.Emit{X: model.Call{Fn: "wrap", Args: []model.Expr{call}}})
	case 8:
		class = "arg-of-go-helper"
		prog = append(prog, model.Emit{X: model.Call{Fn: "id", Args: []model.Expr{call}}})
	case 9:
		class = "emit-inside-if-block"
		prog = append(prog, model.EmitIf{If: &model.If{Cond: model.Lit{V: true}, Then: []model.Node{T("a"), model.Emit{X: call}, T("b")}}})
	case 10:
		class = "emit-inside-for-block"
		prog = append(prog, model.EmitFor{For: &model.For{Val: "it", Iter: model.Var{Name: "two"}, Body: []model.Node{T("a"), model.Emit{X: call}, T("b")}}})
	case 11:
		class = "higher-order"
		ap := model.FnLit{Params: append([]string{"h"}, paramNames[:np]...), Body: []model.Node{model.Code{S: model.ReturnS{X: model.Call{Fn: "h", Args: varsOf(paramNames[:np])}}}}}
		prog = append(prog, model.Code{S: model.LetS{Name: "ap", X: ap}}, model.Emit{X: model.Call{Fn: "ap", Args: append([]model.Expr{model.Var{Name: "fun"}}, args...)}})
	}
	prog = append(prog, T("]"))
	return prog, class
}

// sequence: SEVERAL functions of one signature and several calls in one render.
// The same called name has to resolve to different functions at different
// moments: a higher-order function handed each of them in turn, a parameter
// named like a function the caller has already called, an alias rebound with
// let / = between calls.
func (g *fnGen) sequence() ([]model.Node, string) {
	t := g.t
	np := rapid.IntRange(0, 3).Draw(t, "nparams")
	g.fams = nil
	for i := 0; i < np; i++ {
		g.fams = append(g.fams, fam(rapid.IntRange(0, 2).Draw(t, "fam")))
	}
	nf := rapid.IntRange(2, 3).Draw(t, "nfuncs")
	names := []string{"f0", "f1", "f2"}[:nf]
	var prog []model.Node
	for _, n := range names {
		prog = append(prog, model.Code{S: model.LetS{Name: n, X: model.FnLit{Params: paramNames[:np], Body: g.chain(2, true)}}})
	}
	ps := paramNames[:np]
	// ap(h, params...) calls its parameter; sh(f0, params...) calls a PARAMETER
	// named like the first function; tw(h, k, params...) calls two parameters
	prog = append(prog,
		model.Code{S: model.LetS{Name: "ap", X: model.FnLit{Params: append([]string{"h"}, ps...), Body: []model.Node{model.Code{S: model.ReturnS{X: model.Call{Fn: "h", Args: varsOf(ps)}}}}}}},
		model.Code{S: model.LetS{Name: "sh", X: model.FnLit{Params: append([]string{"f0"}, ps...), Body: []model.Node{model.Code{S: model.ReturnS{X: model.Call{Fn: "f0", Args: varsOf(ps)}}}}}}},
		model.Code{S: model.LetS{Name: "tw", X: model.FnLit{Params: append([]string{"h", "k"}, ps...), Body: []model.Node{
			model.Code{S: model.LetS{Name: "fst", X: model.Call{Fn: "h", Args: varsOf(ps)}}},
			model.Code{S: model.ReturnS{X: model.Bin{Op: "+", L: model.Bin{Op: "+", L: model.Var{Name: "fst"}, R: model.Lit{V: "&"}}, R: model.Call{Fn: "k", Args: varsOf(ps)}}}}}}}},
	)
	// hb(<helper name>, params...) calls a PARAMETER named like a built-in helper (or like the Go helper of this check)
	hname := rapid.SampledFrom([]string{"len", "raw", "capitalize", "id", "partial"}).Draw(t, "helpername")
	prog = append(prog, model.Code{S: model.LetS{Name: "hb", X: model.FnLit{Params: append([]string{hname}, ps...), Body: []model.Node{
		model.Code{S: model.IfS{If: &model.If{Cond: model.Lit{V: true}, Then: []model.Node{model.Code{S: model.ReturnS{X: model.Call{Fn: hname, Args: varsOf(ps)}}}}}}},
		model.Code{S: model.ReturnS{X: model.Lit{V: "unreachable"}}}}}}})
	args := func() []model.Expr {
		var out []model.Expr
		for _, f := range g.fams {
			out = append(out, g.arg(f))
		}
		return out
	}
	fv := func() model.Expr { return model.Var{Name: rapid.SampledFrom(names).Draw(t, "fn")} }
	class := map[string]bool{}
	aliased := false
	for i, n := 0, rapid.IntRange(2, 5).Draw(t, "ncalls"); i < n; i++ {
		prog = append(prog, model.Text{S: "["})
		k := rapid.IntRange(0, 7).Draw(t, "how")
		if (k == 5 || k == 6) && !aliased {
			k = 4
		}
		switch k {
		case 0:
			class["direct"] = true
			prog = append(prog, model.Emit{X: model.Call{Fn: rapid.SampledFrom(names).Draw(t, "fn"), Args: args()}})
		case 1:
			class["ap"] = true
			prog = append(prog, model.Emit{X: model.Call{Fn: "ap", Args: append([]model.Expr{fv()}, args()...)}})
		case 2:
			class["shadow"] = true
			prog = append(prog, model.Emit{X: model.Call{Fn: "sh", Args: append([]model.Expr{fv()}, args()...)}})
		case 3:
			class["two"] = true
			prog = append(prog, model.Emit{X: model.Call{Fn: "tw", Args: append([]model.Expr{fv(), fv()}, args()...)}})
		case 4:
			class["alias-let"] = true
			aliased = true
			prog = append(prog, model.Code{S: model.LetS{Name: "al", X: fv()}}, model.Emit{X: model.Call{Fn: "al", Args: args()}})
		case 5:
			class["alias-assign"] = true
			prog = append(prog, model.Code{S: model.AssignS{Name: "al", X: fv()}}, model.Emit{X: model.Call{Fn: "al", Args: args()}})
		case 6:
			class["alias-again"] = true
			prog = append(prog, model.Emit{X: model.Call{Fn: "al", Args: args()}})
		case 7:
			class["helper-name"] = true
			prog = append(prog, model.Emit{X: model.Call{Fn: "hb", Args: append([]model.Expr{fv()}, args()...)}})
		}
		prog = append(prog, model.Text{S: "]"})
	}
	var cs []string
	for _, c := range []string{"direct", "ap", "shadow", "two", "helper-name", "alias-let", "alias-assign", "alias-again"} {
		if class[c] {
			cs = append(cs, c)
		}
	}
	return prog, "seq:" + strings.Join(cs, "+")
}

func varsOf(names []string) []model.Expr {
	var out []model.Expr
	for _, n := range names {
		out = append(out, model.Var{Name: n})
	}
	return out
}

// ---- richer bodies and callers (R3) --------------------------------------------------------
//
// Bodies stay CLOSED: they read their parameters, what they let-bind themselves, the Go helpers, and functions
// defined at the top level BEFORE them (so the call graph has no cycles and no name a body reads is ever bound in a
// scope between the top level and the body). A name a body let-binds only on some paths ("sensor") is read only
// where an unknown identifier is tolerated, and no other scope ever binds that name.

const famAny fam = 3 // a value whose kind is not known to the generator: only tested for truth

type rvar struct {
	name string
	fam  fam
}

type rfn struct {
	name   string
	params []rvar
}

type richGen struct {
	t      *rapid.T
	ret    int
	nvar   int
	ntick  int
	fns    []rfn
	locals map[string]bool // every name some body let-binds (never bound by the caller unless listed in callerVars)
	ticks  []string
	noID   bool // a parameter of the function being generated is called "id": the body must not use the Go helper
	nest   int  // depth of calls inside arguments at the caller's level
	narrow bool // the body being generated nests deeply (up to 12 blocks) but has one nested branch per level
	class  map[string]bool
}

func (g *richGen) lit(f fam) model.Expr {
	switch f {
	case famInt:
		return model.Lit{V: rapid.IntRange(0, 2).Draw(g.t, "ilit")}
	case famBool:
		return model.Lit{V: rapid.Bool().Draw(g.t, "blit")}
	}
	return model.Lit{V: rapid.SampledFrom([]string{"x", "y", "A", "B", ""}).Draw(g.t, "slit")}
}

func (g *richGen) tick() model.Expr {
	k := fmt.Sprintf("k%d", g.ntick)
	g.ntick++
	g.ticks = append(g.ticks, k)
	g.class["tick"] = true
	return model.Call{Fn: "tick", Args: []model.Expr{model.Lit{V: k}}}
}

func (g *richGen) cond(vars []rvar, lower []rfn) model.Expr {
	t := g.t
	if len(lower) > 0 && rapid.IntRange(0, 5).Draw(t, "callcond") == 0 {
		f := lower[rapid.IntRange(0, len(lower)-1).Draw(t, "cf")]
		c := g.callOf(f, vars, nil)
		g.class["call-in-condition"] = true
		if rapid.Bool().Draw(t, "plain") {
			return c
		}
		return model.Bin{Op: rapid.SampledFrom([]string{"==", "!="}).Draw(t, "eq"), L: c, R: model.Lit{V: fmt.Sprintf("r%d", rapid.IntRange(1, 6).Draw(t, "rk"))}}
	}
	if len(vars) == 0 {
		return model.Lit{V: rapid.Bool().Draw(t, "c")}
	}
	pv := vars[rapid.IntRange(0, len(vars)-1).Draw(t, "var")]
	p := model.Var{Name: pv.name}
	if pv.fam == famAny {
		if rapid.Bool().Draw(t, "neg") {
			return model.Not{X: p}
		}
		return p
	}
	switch k := rapid.IntRange(0, 7).Draw(t, "ck"); {
	case k == 0:
		return p
	case k == 1:
		return model.Not{X: p}
	case k == 2 && pv.fam == famInt:
		return model.Bin{Op: rapid.SampledFrom([]string{"<", ">", "<=", ">="}).Draw(t, "cmp"), L: p, R: g.lit(pv.fam)}
	case k == 3:
		for _, q := range vars {
			if q.name != pv.name && q.fam == pv.fam {
				return model.Bin{Op: rapid.SampledFrom([]string{"==", "!="}).Draw(t, "eq"), L: p, R: model.Var{Name: q.name}}
			}
		}
	case k == 4:
		return model.Bin{Op: "!=", L: p, R: g.lit(pv.fam)}
	case k == 5:
		return model.Bin{Op: rapid.SampledFrom([]string{"&&", "||"}).Draw(t, "lop"), L: p, R: model.Bin{Op: "==", L: p, R: g.lit(pv.fam)}}
	case k == 6:
		return model.Bin{Op: "==", L: p, R: model.Lit{V: nil}}
	}
	return model.Bin{Op: "==", L: p, R: g.lit(pv.fam)}
}

// argFrom: an argument of family f built from the variables readable at the call (inside a body) or, when vars is
// nil, from the caller's data.
func (g *richGen) argFrom(f fam, vars []rvar, extra model.Expr) model.Expr {
	t := g.t
	if extra != nil && rapid.IntRange(0, 2).Draw(t, "loopvar") == 0 {
		return extra
	}
	if vars != nil {
		var same []rvar
		for _, v := range vars {
			if v.fam == f {
				same = append(same, v)
			}
		}
		if len(same) > 0 && rapid.IntRange(0, 3).Draw(t, "fromvar") > 0 {
			return model.Var{Name: same[rapid.IntRange(0, len(same)-1).Draw(t, "av")].name}
		}
		if rapid.IntRange(0, 7).Draw(t, "nilarg") == 0 {
			return model.Lit{V: nil}
		}
		return g.lit(f)
	}
	if g.nest < 2 && len(g.fns) > 0 && rapid.IntRange(0, 11).Draw(t, "callarg") == 0 {
		// the result of a call of any defined function (another one, or the same) as the argument
		g.class["call-as-argument"] = true
		g.nest++
		c := g.callOf(g.fns[rapid.IntRange(0, len(g.fns)-1).Draw(t, "argfn")], nil, extra)
		g.nest--
		return c
	}
	switch k := rapid.IntRange(0, 15).Draw(t, "argkind"); {
	case k == 0:
		if rapid.IntRange(0, 9).Draw(t, "unknown") == 0 {
			// an argument that cannot be evaluated fails the call
			g.class["unknown-argument"] = true
			return model.Var{Name: "nope"}
		}
		return model.Lit{V: nil}
	case k <= 3:
		return g.lit(f)
	case k <= 9: // composite expressions over the caller's variables, namesakes of the parameters included
		g.class["composite-argument"] = true
		ns := func(l string) model.Expr { return model.Var{Name: rapid.SampledFrom(paramNames).Draw(t, l)} }
		switch f {
		case famStr:
			switch rapid.IntRange(0, 5).Draw(t, "sc") {
			case 0:
				return model.Bin{Op: "+", L: ns("l"), R: ns("r")}
			case 1:
				if !g.noID {
					return model.Call{Fn: "id", Args: []model.Expr{ns("x")}}
				}
			case 2:
				return model.Idx{X: model.Arr{Els: []model.Expr{ns("e0"), ns("e1")}}, I: model.Var{Name: rapid.SampledFrom([]string{"i0", "i1"}).Draw(t, "ix")}}
			case 3:
				return model.Idx{X: model.Hash{KVs: []model.KV{{K: "k", V: ns("hv")}}}, I: model.Lit{V: "k"}}
			case 4:
				return model.Bin{Op: "+", L: ns("l"), R: model.Lit{V: "x"}}
			}
			return model.Paren{X: ns("p")}
		case famInt:
			switch rapid.IntRange(0, 3).Draw(t, "ic") {
			case 0:
				return model.Bin{Op: rapid.SampledFrom([]string{"+", "*", "-"}).Draw(t, "iop"), L: model.Var{Name: "i2"}, R: model.Var{Name: rapid.SampledFrom([]string{"i0", "i1", "i2"}).Draw(t, "iv")}}
			case 1:
				return model.Idx{X: model.Var{Name: "two"}, I: model.Var{Name: rapid.SampledFrom([]string{"i0", "i1"}).Draw(t, "ix")}}
			case 2:
				return g.tick()
			}
			return model.Idx{X: model.Arr{Els: []model.Expr{model.Lit{V: 0}, model.Lit{V: 1}, model.Lit{V: 2}}}, I: model.Var{Name: rapid.SampledFrom([]string{"i0", "i1", "i2"}).Draw(t, "ix")}}
		default:
			switch rapid.IntRange(0, 3).Draw(t, "bc") {
			case 0:
				return model.Not{X: ns("n")}
			case 1:
				return model.Bin{Op: "==", L: ns("l"), R: model.Lit{V: rapid.SampledFrom([]string{"A", "B"}).Draw(t, "sl")}}
			case 2:
				return model.Bin{Op: rapid.SampledFrom([]string{"&&", "||"}).Draw(t, "lop"), L: model.Var{Name: rapid.SampledFrom([]string{"t", "f"}).Draw(t, "bv")}, R: ns("r")}
			}
			return model.Bin{Op: "<", L: model.Var{Name: "i1"}, R: model.Var{Name: rapid.SampledFrom([]string{"i0", "i1", "i2"}).Draw(t, "iv")}}
		}
	}
	switch f {
	case famInt:
		return model.Var{Name: rapid.SampledFrom([]string{"i0", "i1", "i2"}).Draw(t, "iv")}
	case famBool:
		return model.Var{Name: rapid.SampledFrom([]string{"t", "f"}).Draw(t, "bv")}
	}
	return model.Var{Name: rapid.SampledFrom([]string{"a", "b", "c", "d", "sx", "sy"}).Draw(t, "sv")}
}

func (g *richGen) callOf(f rfn, vars []rvar, extra model.Expr) model.Expr {
	var args []model.Expr
	for _, p := range f.params {
		args = append(args, g.argFrom(p.fam, vars, extra))
	}
	return model.Call{Fn: f.name, Args: args}
}

func (g *richGen) fresh(prefix string) string {
	g.nvar++
	n := fmt.Sprintf("%s%d", prefix, g.nvar)
	g.locals[n] = true
	return n
}

func (g *richGen) retStmts(vars []rvar) []model.Node {
	t := g.t
	g.ret++
	label := model.Lit{V: fmt.Sprintf("r%d", g.ret)}
	var x model.Expr = label
	switch k := rapid.IntRange(0, 13).Draw(t, "retkind"); {
	case k == 0 && len(vars) > 0:
		g.class["return-variable"] = true
		x = model.Var{Name: vars[rapid.IntRange(0, len(vars)-1).Draw(t, "rv")].name}
	case k == 1:
		g.class["return-nil"] = true
		x = model.Lit{V: nil}
	case k == 2 && len(vars) > 0:
		g.class["return-array"] = true
		x = model.Arr{Els: []model.Expr{label, model.Var{Name: vars[rapid.IntRange(0, len(vars)-1).Draw(t, "rv")].name}}}
	case k == 3:
		for _, v := range vars {
			if v.fam == famStr {
				g.class["return-computed"] = true
				x = model.Bin{Op: "+", L: model.Bin{Op: "+", L: label, R: model.Lit{V: ":"}}, R: model.Var{Name: v.name}}
				break
			}
		}
	case k == 4:
		g.class["return-false-or-empty"] = true
		x = model.Lit{V: rapid.SampledFrom([]interface{}{false, "", 0}).Draw(t, "falsy")}
	}
	out := []model.Node{model.Code{S: model.ReturnS{X: x}}}
	// dead code: never evaluated, whatever it is
	switch rapid.IntRange(0, 11).Draw(t, "dead") {
	case 0:
		g.ret++
		out = append(out, model.Code{S: model.ReturnS{X: model.Lit{V: fmt.Sprintf("r%d", g.ret)}}})
	case 1:
		g.class["dead-code-that-would-fail"] = true
		out = append(out, model.Code{S: model.ExprS{X: model.Call{Fn: "boom", Args: []model.Expr{model.Lit{V: 1}}}}})
	case 2:
		g.class["dead-code-that-would-fail"] = true
		out = append(out, model.Code{S: model.LetS{Name: g.fresh("z"), X: model.Bin{Op: "/", L: model.Lit{V: 1}, R: model.Lit{V: 0}}}})
	case 3:
		g.class["dead-code-with-effect"] = true
		out = append(out, model.Code{S: model.ExprS{X: model.Call{Fn: "tick", Args: []model.Expr{model.Lit{V: "dead"}}}}})
	case 4:
		out = append(out, model.Text{S: "(dead text)"}, model.Emit{X: model.Var{Name: "nope"}})
	}
	return out
}

func (g *richGen) chain(depth int, final bool, vars []rvar, lower []rfn) []model.Node {
	t := g.t
	var out []model.Node
	n := rapid.IntRange(0, 2).Draw(t, "ifs")
	if g.narrow {
		n = 1 // one if per level, the other branches are leaves: depth without breadth
	}
	if depth <= 0 {
		n = 0
	}
	for i := 0; i < n; i++ {
		f := &model.If{Cond: g.cond(vars, lower)}
		deepIn := 0
		if g.narrow {
			deepIn = rapid.IntRange(0, 2).Draw(t, "deepin") // which branch carries the nesting
		}
		sub := func(k int) []model.Node {
			if g.narrow && k != deepIn {
				return g.block(0, vars, lower)
			}
			return g.block(depth-1, vars, lower)
		}
		f.Then = sub(0)
		nei := rapid.IntRange(0, 2).Draw(t, "elseifs")
		if g.narrow {
			nei = rapid.IntRange(0, 1).Draw(t, "elseif")
		}
		for j := 0; j < nei; j++ {
			f.ElseIfs = append(f.ElseIfs, model.ElseIf{Cond: g.cond(vars, lower), Then: sub(1)})
		}
		if rapid.Bool().Draw(t, "else") || (g.narrow && deepIn == 2) {
			f.HasElse = true
			f.Else = sub(2)
		}
		if g.narrow && deepIn == 1 && nei == 0 {
			f.ElseIfs = append(f.ElseIfs, model.ElseIf{Cond: g.cond(vars, lower), Then: sub(1)})
		}
		if rapid.IntRange(0, 4).Draw(t, "emitting") == 0 {
			out = append(out, model.EmitIf{If: f}) // what it renders before a return is not part of the value
		} else {
			out = append(out, model.Code{S: model.IfS{If: f}})
		}
		if rapid.IntRange(0, 9).Draw(t, "txt") == 0 {
			out = append(out, model.Text{S: "(body text)"})
		}
	}
	if final {
		out = append(out, g.retStmts(vars)...)
	}
	return out
}

func (g *richGen) block(depth int, vars []rvar, lower []rfn) []model.Node {
	var pre []model.Node
	if rapid.IntRange(0, 5).Draw(g.t, "blocklet") == 0 {
		pre = append(pre, model.Code{S: model.LetS{Name: "tmp", X: model.Lit{V: "local"}}})
	}
	if rapid.IntRange(0, 4).Draw(g.t, "fall") == 0 {
		return append(pre, g.chain(depth, false, vars, lower)...)
	}
	return append(pre, g.chain(depth, true, vars, lower)...)
}

func (g *richGen) define(i int) (rfn, model.Node) {
	t := g.t
	np := rapid.IntRange(0, 4).Draw(t, "nparams")
	f := rfn{name: fmt.Sprintf("g%d", i)}
	for k := 0; k < np; k++ {
		f.params = append(f.params, rvar{paramNames[k], fam(rapid.IntRange(0, 2).Draw(t, "fam"))})
	}
	g.noID = false
	if np > 0 && rapid.IntRange(0, 4).Draw(t, "exotic") == 0 {
		// a parameter named like a helper, like a variable of the caller, like the caller's loop variable
		n := rapid.SampledFrom([]string{"id", "len", "raw", "tmp", "res", "it"}).Draw(t, "pname")
		f.params[rapid.IntRange(0, np-1).Draw(t, "which")].name = n
		g.noID = n == "id"
		g.class["parameter-named-"+n] = true
	}
	lower := g.fns
	vars := append(make([]rvar, 0, 8), f.params...) // never nil: nil means "at the caller's level" to argFrom
	var body []model.Node
	for k := rapid.IntRange(0, 3).Draw(t, "prelude"); k > 0; k-- {
		switch rapid.IntRange(0, 9).Draw(t, "pre") {
		case 0:
			body = append(body, model.Text{S: "(t)"})
		case 1:
			if len(vars) > 0 {
				body = append(body, model.Emit{X: model.Var{Name: vars[rapid.IntRange(0, len(vars)-1).Draw(t, "ev")].name}})
			}
		case 2:
			fm := fam(rapid.IntRange(0, 2).Draw(t, "lfam"))
			n := g.fresh("v")
			body = append(body, model.Code{S: model.LetS{Name: n, X: g.lit(fm)}})
			vars = append(vars, rvar{n, fm})
			g.class["body-let-read"] = true
		case 3:
			if len(f.params) > 0 {
				p := f.params[rapid.IntRange(0, len(f.params)-1).Draw(t, "sp")]
				body = append(body, model.Code{S: model.LetS{Name: p.name, X: g.lit(p.fam)}})
				g.class["parameter-shadowed-by-let"] = true
			}
		case 4:
			if len(f.params) > 0 {
				p := f.params[rapid.IntRange(0, len(f.params)-1).Draw(t, "ap")]
				body = append(body, model.Code{S: model.AssignS{Name: p.name, X: g.lit(p.fam)}})
				g.class["parameter-assigned"] = true
			}
		case 5:
			s := g.fresh("s")
			g.ret++
			body = append(body,
				model.Code{S: model.IfS{If: &model.If{Cond: g.cond(vars, nil), Then: []model.Node{model.Code{S: model.LetS{Name: s, X: model.Lit{V: "set"}}}}}}},
				model.Code{S: model.IfS{If: &model.If{Cond: model.Var{Name: s}, Then: []model.Node{model.Code{S: model.ReturnS{X: model.Lit{V: fmt.Sprintf("r%d", g.ret)}}}}}}})
			g.class["sensor"] = true
		case 6:
			if len(lower) > 0 {
				body = append(body, model.Code{S: model.ExprS{X: g.callOf(lower[rapid.IntRange(0, len(lower)-1).Draw(t, "lf")], vars, nil)}})
				g.class["call-as-statement-in-body"] = true
			}
		case 7:
			if len(lower) > 0 {
				n := g.fresh("v")
				body = append(body, model.Code{S: model.LetS{Name: n, X: g.callOf(lower[rapid.IntRange(0, len(lower)-1).Draw(t, "lf")], vars, nil)}})
				vars = append(vars, rvar{n, famAny})
				g.class["call-in-let-in-body"] = true
			}
		case 8:
			n := g.fresh("v")
			body = append(body, model.Code{S: model.LetS{Name: n, X: g.tick()}})
			vars = append(vars, rvar{n, famInt})
		case 9:
			body = append(body, model.Code{S: model.LetS{Name: "tmp", X: model.Lit{V: "local"}}})
			g.locals["tmp"] = true
		}
	}
	depth := rapid.IntRange(1, 3).Draw(t, "depth")
	if g.narrow = rapid.IntRange(0, 7).Draw(t, "narrow") == 0; g.narrow {
		depth = rapid.IntRange(4, 12).Draw(t, "deep")
		g.class["return-nested-4-to-12-blocks"] = true
	}
	body = append(body, g.chain(depth, true, vars, lower)...)
	g.narrow = false
	var names []string
	for _, p := range f.params {
		names = append(names, p.name)
	}
	return f, model.Code{S: model.LetS{Name: f.name, X: model.FnLit{Params: names, Body: body}}}
}

func (g *richGen) program() ([]model.Node, []string) {
	t := g.t
	g.locals = map[string]bool{"tmp": true}
	g.class = map[string]bool{}
	T := func(s string) model.Node { return model.Text{S: s} }
	var prog []model.Node
	// variables of the caller named like names the bodies let-bind
	callerTmp := rapid.Bool().Draw(t, "callertmp")
	if callerTmp {
		prog = append(prog, model.Code{S: model.LetS{Name: "tmp", X: model.Lit{V: "caller"}}}, model.Code{S: model.LetS{Name: "res", X: model.Lit{V: "init"}}})
	}
	for i, n := 0, rapid.IntRange(1, 3).Draw(t, "nfuncs"); i < n; i++ {
		f, def := g.define(i)
		g.fns = append(g.fns, f)
		prog = append(prog, def)
	}
	g.noID = false
	resBound := callerTmp
	for u, n := 0, rapid.IntRange(1, 4).Draw(t, "ncalls"); u < n; u++ {
		f := g.fns[rapid.IntRange(0, len(g.fns)-1).Draw(t, "callee")]
		use := rapid.IntRange(0, 19).Draw(t, "use")
		var extra model.Expr
		if use == 10 || use == 11 {
			extra = model.Var{Name: "it"}
		}
		call := g.callOf(f, nil, extra)
		prog = append(prog, T("["))
		switch use {
		case 0, 1:
			prog = append(prog, model.Emit{X: call})
		case 2:
			prog = append(prog, model.Code{S: model.LetS{Name: "res", X: call}}, model.EmitIf{If: &model.If{Cond: model.Var{Name: "res"}, Then: []model.Node{model.Emit{X: model.Var{Name: "res"}}}}})
			resBound = true
		case 3:
			prog = append(prog, model.Emit{X: model.Bin{Op: rapid.SampledFrom([]string{"==", "!="}).Draw(t, "eq"), L: call, R: model.Lit{V: fmt.Sprintf("r%d", rapid.IntRange(1, 6).Draw(t, "rk"))}}})
		case 4:
			prog = append(prog, model.EmitIf{If: &model.If{Cond: call, Then: []model.Node{T("T")}, HasElse: true, Else: []model.Node{T("F")}}})
		case 5:
			prog = append(prog, model.EmitIf{If: &model.If{Cond: model.Var{Name: "f"}, Then: []model.Node{T("T")}, ElseIfs: []model.ElseIf{{Cond: call, Then: []model.Node{T("EI")}}}, HasElse: true, Else: []model.Node{T("E")}}})
		case 6:
			prog = append(prog, model.Emit{X: model.Bin{Op: "+", L: model.Lit{V: "p-"}, R: call}})
		case 7:
			prog = append(prog, model.Emit{X: model.Call{Fn: "id", Args: []model.Expr{call}}})
		case 8:
			prog = append(prog, model.Emit{X: model.Not{X: call}})
		case 9:
			prog = append(prog, model.EmitIf{If: &model.If{Cond: model.Lit{V: true}, Then: []model.Node{T("a"), model.Emit{X: call}, T("b")}}})
		case 10: // the same call site several times, its arguments following the loop variable
			prog = append(prog, model.EmitFor{For: &model.For{Val: "it", Iter: model.Arr{Els: []model.Expr{g.lit(famStr), g.lit(famInt), g.lit(famBool), g.lit(famStr)}}, Body: []model.Node{T("a"), model.Emit{X: call}, T("b")}}})
			g.class["call-in-loop"] = true
		case 11:
			prog = append(prog, model.EmitFor{For: &model.For{Val: "it", Iter: model.Var{Name: "two"}, Body: []model.Node{T("a"), model.Code{S: model.ExprS{X: call}}, T("b")}}})
			g.class["call-in-loop"] = true
		case 12:
			prog = append(prog, model.Code{S: model.ExprS{X: call}}, T("silent"))
		case 13:
			prog = append(prog, model.EmitIf{If: &model.If{Cond: model.Lit{V: true}, Then: []model.Node{T("a"), model.Code{S: model.ExprS{X: call}}, T("b")}}})
		case 14:
			prog = append(prog, model.Emit{X: model.Idx{X: model.Arr{Els: []model.Expr{model.Lit{V: "z"}, call}}, I: model.Var{Name: "i1"}}})
		case 15:
			prog = append(prog, model.Code{S: model.LetS{Name: "hh", X: model.Hash{KVs: []model.KV{{K: "k", V: call}}}}}, model.Emit{X: model.Bin{Op: "==", L: model.Idx{X: model.Var{Name: "hh"}, I: model.Lit{V: "k"}}, R: model.Lit{V: nil}}})
		case 16:
			prog = append(prog, model.Emit{X: model.Bin{Op: rapid.SampledFrom([]string{"&&", "||"}).Draw(t, "lop"), L: call, R: model.Var{Name: rapid.SampledFrom([]string{"t", "f"}).Draw(t, "bv")}}})
		case 17:
			if !resBound {
				prog = append(prog, model.Code{S: model.LetS{Name: "res", X: model.Lit{V: "init"}}})
				resBound = true
			}
			prog = append(prog, model.Code{S: model.AssignS{Name: "res", X: call}}, model.Emit{X: model.Bin{Op: "==", L: model.Var{Name: "res"}, R: model.Lit{V: "init"}}})
		case 18:
			prog = append(prog, model.Emit{X: model.Bin{Op: "==", L: call, R: call}})
		case 19: // a caller variable rebound between two evaluations of the same call
			prog = append(prog, model.Emit{X: call}, model.Code{S: model.LetS{Name: rapid.SampledFrom(paramNames).Draw(t, "rebind"), X: model.Lit{V: "Z"}}}, T("/"), model.Emit{X: call})
			g.class["caller-variable-rebound"] = true
		}
		prog = append(prog, T("]"))
	}
	// afterwards: the caller's variables are what they were, and nothing a body bound is visible
	prog = append(prog, T("|"))
	for _, n := range paramNames {
		prog = append(prog, model.Emit{X: model.Var{Name: n}})
	}
	var ls []string
	for n := range g.locals {
		ls = append(ls, n)
	}
	sort.Strings(ls)
	for _, n := range ls {
		if n == "tmp" && callerTmp {
			prog = append(prog, model.Emit{X: model.Var{Name: "tmp"}})
			continue
		}
		prog = append(prog, model.EmitIf{If: &model.If{Cond: model.Var{Name: n}, Then: []model.Node{T("LEAK:" + n)}}})
	}
	if len(g.ticks) > 0 || g.class["dead-code-with-effect"] {
		prog = append(prog, T("|"))
		for _, k := range append(g.ticks, "dead") {
			prog = append(prog, model.Emit{X: model.Call{Fn: "tick", Args: []model.Expr{model.Lit{V: k}}}}, T(","))
		}
	}
	var cs []string
	for c := range g.class {
		cs = append(cs, c)
	}
	sort.Strings(cs)
	return prog, cs
}

// ---- generated recursion (R4) -----------------------------------------------------------------
//
// rec(p1..pk, n): k string parameters and a counter. n <= 0 ends the recursion; otherwise the body may keep a
// parameter in a let, call itself (arguments: the parameters permuted, repeated, joined with literals; n - 1),
// and return an expression that reads parameters, the let and the inner result AFTER the inner call, or a self call
// in tail position. Two such functions may also call each other. Every body reads only its parameters and lets.

func recProgram(t *rapid.T) ([]model.Node, string) {
	k := rapid.IntRange(1, 3).Draw(t, "k")
	ps := append(append([]string(nil), paramNames[:k]...), "n")
	v := func(n string) model.Expr { return model.Var{Name: n} }
	lit := func(x interface{}) model.Expr { return model.Lit{V: x} }
	bin := func(op string, l, r model.Expr) model.Expr { return model.Bin{Op: op, L: l, R: r} }
	ret := func(e model.Expr) model.Node { return model.Code{S: model.ReturnS{X: e}} }
	mutual := rapid.IntRange(0, 3).Draw(t, "mutual") == 0
	names := []string{"rec"}
	if mutual {
		names = []string{"rec", "cer"}
	}
	strOf := func(locals []string) model.Expr { // a string: parameter, let, literal
		pool := append(append([]string(nil), paramNames[:k]...), locals...)
		if rapid.IntRange(0, 3).Draw(t, "litstr") == 0 {
			return lit(rapid.SampledFrom([]string{"x", "y", "-"}).Draw(t, "s"))
		}
		return v(rapid.SampledFrom(pool).Draw(t, "sv"))
	}
	selfCall := func(locals []string) model.Expr {
		// the inner result is not passed down again: sizes would grow as a tower of exponentials
		var nl []string
		for _, l := range locals {
			if l != "r" {
				nl = append(nl, l)
			}
		}
		locals = nl
		var args []model.Expr
		for i := 0; i < k; i++ {
			switch rapid.IntRange(0, 4).Draw(t, "ak") {
			case 0:
				args = append(args, bin("+", strOf(locals), strOf(locals)))
			default:
				args = append(args, strOf(locals))
			}
		}
		args = append(args, bin("-", v("n"), lit(1)))
		return model.Call{Fn: rapid.SampledFrom(names).Draw(t, "callee"), Args: args}
	}
	nlab := 0
	concat := func(locals []string) model.Expr {
		nlab++
		var e model.Expr = lit(fmt.Sprintf("r%d", nlab))
		for i := rapid.IntRange(0, 3).Draw(t, "terms"); i > 0; i-- {
			e = bin("+", e, strOf(locals))
		}
		return e
	}
	var prog []model.Node
	classes := map[string]bool{}
	for _, name := range names {
		body := []model.Node{model.Code{S: model.IfS{If: &model.If{Cond: bin("<=", v("n"), lit(0)), Then: []model.Node{ret(concat(nil))}}}}}
		var locals []string
		if rapid.Bool().Draw(t, "keep") {
			body = append(body, model.Code{S: model.LetS{Name: "keep", X: strOf(nil)}})
			locals = append(locals, "keep")
			classes["let-kept-across-call"] = true
		}
		if rapid.IntRange(0, 2).Draw(t, "inner") > 0 {
			body = append(body, model.Code{S: model.LetS{Name: "r", X: selfCall(locals)}})
			locals = append(locals, "r")
			classes["result-in-let"] = true
		}
		if rapid.IntRange(0, 3).Draw(t, "shadow") == 0 {
			// a parameter rebound inside the body after the inner call
			// (not from the inner result: what is passed down must stay small)
			var nl []string
			for _, l := range locals {
				if l != "r" {
					nl = append(nl, l)
				}
			}
			body = append(body, model.Code{S: model.LetS{Name: paramNames[rapid.IntRange(0, k-1).Draw(t, "sp")], X: concat(nl)}})
			classes["parameter-rebound"] = true
		}
		final := func() model.Node {
			switch rapid.IntRange(0, 3).Draw(t, "final") {
			case 0:
				classes["tail-call"] = true
				return ret(selfCall(locals))
			case 1:
				classes["call-in-operand"] = true
				return ret(bin("+", bin("+", selfCall(locals), lit("/")), concat(locals)))
			case 2:
				classes["two-calls"] = true
				return ret(bin("+", bin("+", selfCall(locals), lit("&")), selfCall(locals)))
			}
			return ret(concat(locals))
		}
		for i := rapid.IntRange(0, 2).Draw(t, "ifs"); i > 0; i-- {
			var c model.Expr
			switch rapid.IntRange(0, 3).Draw(t, "ck") {
			case 0:
				c = bin("==", v("n"), lit(rapid.IntRange(1, 3).Draw(t, "nv")))
			case 1:
				c = bin("==", strOf(locals), strOf(locals))
			case 2:
				c = bin(">", v("n"), lit(rapid.IntRange(1, 2).Draw(t, "nv")))
			default:
				c = bin("!=", v(paramNames[0]), lit(rapid.SampledFrom([]string{"A", "B", "x"}).Draw(t, "sl")))
			}
			f := &model.If{Cond: c, Then: []model.Node{final()}}
			if rapid.Bool().Draw(t, "else") {
				f.HasElse = true
				f.Else = []model.Node{final()}
			}
			body = append(body, model.Code{S: model.IfS{If: f}})
		}
		body = append(body, final())
		prog = append(prog, model.Code{S: model.LetS{Name: name, X: model.FnLit{Params: ps, Body: body}}})
	}
	for i := rapid.IntRange(1, 2).Draw(t, "ncalls"); i > 0; i-- {
		var args []model.Expr
		for j := 0; j < k; j++ {
			if rapid.Bool().Draw(t, "namesake") {
				args = append(args, v(rapid.SampledFrom(paramNames).Draw(t, "ns")))
			} else {
				args = append(args, lit(rapid.SampledFrom([]string{"x", "y", "A"}).Draw(t, "al")))
			}
		}
		args = append(args, lit(rapid.IntRange(0, 4).Draw(t, "depth")))
		prog = append(prog, model.Text{S: "["}, model.Emit{X: model.Call{Fn: rapid.SampledFrom(names).Draw(t, "entry"), Args: args}}, model.Text{S: "]"})
	}
	prog = append(prog, model.Text{S: "|"})
	for _, n := range paramNames {
		prog = append(prog, model.Emit{X: v(n)})
	}
	for _, n := range []string{"n", "keep", "r"} {
		prog = append(prog, model.EmitIf{If: &model.If{Cond: v(n), Then: []model.Node{model.Text{S: "LEAK:" + n}}}})
	}
	var cs []string
	for c := range classes {
		cs = append(cs, c)
	}
	sort.Strings(cs)
	class := "recursion"
	if mutual {
		class = "recursion-mutual"
	}
	return prog, class + ":" + strings.Join(cs, "+")
}

// ---- fixed programs ---------------------------------------------------------------------

func fixed() [][]model.Node {
	T := func(s string) model.Node { return model.Text{S: s} }
	ret := func(e model.Expr) model.Node { return model.Code{S: model.ReturnS{X: e}} }
	v := func(n string) model.Expr { return model.Var{Name: n} }
	let := func(n string, e model.Expr) model.Node { return model.Code{S: model.LetS{Name: n, X: e}} }
	call := func(fn string, a ...model.Expr) model.Expr { return model.Call{Fn: fn, Args: a} }
	emit := func(e model.Expr) model.Node { return model.Emit{X: e} }
	sif := func(c model.Expr, ns ...model.Node) model.Node {
		return model.Code{S: model.IfS{If: &model.If{Cond: c, Then: ns}}}
	}
	pair := let("pair", model.FnLit{Params: []string{"a", "b"}, Body: []model.Node{ret(model.Bin{Op: "+", L: model.Bin{Op: "+", L: v("a"), R: model.Lit{V: "-"}}, R: v("b")})}})
	tri := let("tri", model.FnLit{Params: []string{"a", "b", "c"}, Body: []model.Node{ret(model.Bin{Op: "+", L: model.Bin{Op: "+", L: v("a"), R: v("b")}, R: v("c")})}})
	one := let("one", model.FnLit{Body: []model.Node{ret(model.Lit{V: 1})}})
	no := let("no", model.FnLit{Body: []model.Node{ret(model.Lit{V: false})}})
	empty := let("empty", model.FnLit{Body: []model.Node{ret(model.Lit{V: ""})}})
	idf := let("idf", model.FnLit{Params: []string{"x"}, Body: []model.Node{ret(v("x"))}})
	countdown := let("cd", model.FnLit{Params: []string{"n"}, Body: []model.Node{
		sif(model.Bin{Op: "==", L: v("n"), R: model.Lit{V: 0}}, ret(model.Lit{V: "done"})),
		ret(call("cd", model.Bin{Op: "-", L: v("n"), R: model.Lit{V: 1}}))}})
	sum := let("sum", model.FnLit{Params: []string{"n"}, Body: []model.Node{
		sif(model.Bin{Op: "<=", L: v("n"), R: model.Lit{V: 0}}, ret(model.Lit{V: 0})),
		ret(model.Bin{Op: "+", L: v("n"), R: call("sum", model.Bin{Op: "-", L: v("n"), R: model.Lit{V: 1}})})}})
	first := let("first", model.FnLit{Params: []string{"x"}, Body: []model.Node{
		sif(v("x"), ret(model.Lit{V: "one"}), ret(model.Lit{V: "dead"})),
		ret(model.Lit{V: "two"}), ret(model.Lit{V: "three"})}})
	apply := let("apply", model.FnLit{Params: []string{"h", "x"}, Body: []model.Node{ret(call("h", v("x")))}})
	var out [][]model.Node
	add := func(ns ...model.Node) { out = append(out, ns) }
	add(pair, emit(call("pair", v("a"), v("b"))))
	add(pair, emit(call("pair", v("b"), v("a")))) // swapped namesakes
	add(tri, emit(call("tri", v("c"), v("a"), v("b"))))
	add(tri, emit(call("tri", v("b"), v("c"), v("a"))))
	add(pair, emit(call("pair", v("b"), model.Lit{V: "lit"})))
	add(pair, emit(call("pair", call("pair", v("b"), v("a")), v("a"))))
	add(pair, emit(call("pair", v("a"), call("pair", v("b"), v("a"))))) // the same function called inside a LATER argument
	// nil arguments: the parameter is bound to nil and hides the caller's variable of the same name
	add(let("isset", model.FnLit{Params: []string{"a", "b"}, Body: []model.Node{sif(v("a"), ret(model.Lit{V: "a-set"})), sif(v("b"), ret(model.Lit{V: "b-set"})), ret(model.Lit{V: "none"})}}),
		emit(call("isset", model.Lit{V: nil}, model.Lit{V: nil})), T("|"), emit(call("isset", model.Lit{V: nil}, v("a"))), T("|"), emit(call("isset", v("b"), model.Lit{V: nil})))
	add(let("deep", model.FnLit{Params: []string{"a", "n"}, Body: []model.Node{sif(model.Bin{Op: "==", L: v("n"), R: model.Lit{V: 0}}, sif(v("a"), ret(model.Lit{V: "saw outer a"})), ret(model.Lit{V: "a is nil"})),
		ret(call("deep", model.Lit{V: nil}, model.Bin{Op: "-", L: v("n"), R: model.Lit{V: 1}}))}}), emit(call("deep", model.Lit{V: "outer"}, model.Lit{V: 2})))
	add(tri, emit(call("tri", v("a"), call("tri", v("b"), v("c"), v("a")), call("tri", v("c"), v("c"), v("b")))))
	add(let("pick", model.FnLit{Params: []string{"a", "b"}, Body: []model.Node{ret(v("a"))}}), emit(call("pick", model.Lit{V: 9}, call("pick", model.Lit{V: 2}, model.Lit{V: 3}))))
	add(let("ack", model.FnLit{Params: []string{"m", "n"}, Body: []model.Node{
		sif(model.Bin{Op: "==", L: v("m"), R: model.Lit{V: 0}}, ret(model.Bin{Op: "+", L: v("n"), R: model.Lit{V: 1}})),
		sif(model.Bin{Op: "==", L: v("n"), R: model.Lit{V: 0}}, ret(call("ack", model.Bin{Op: "-", L: v("m"), R: model.Lit{V: 1}}, model.Lit{V: 1}))),
		ret(call("ack", model.Bin{Op: "-", L: v("m"), R: model.Lit{V: 1}}, call("ack", v("m"), model.Bin{Op: "-", L: v("n"), R: model.Lit{V: 1}})))}}),
		emit(call("ack", model.Lit{V: 2}, model.Lit{V: 2})))
	add(one, emit(model.Bin{Op: "+", L: call("one"), R: model.Lit{V: 1}}))
	add(one, emit(model.Bin{Op: "==", L: call("one"), R: model.Lit{V: 1}}))
	add(one, emit(model.Bin{Op: "<", L: call("one"), R: model.Lit{V: 2}}))
	add(no, model.EmitIf{If: &model.If{Cond: call("no"), Then: []model.Node{T("T")}, HasElse: true, Else: []model.Node{T("F")}}})
	add(empty, model.EmitIf{If: &model.If{Cond: call("empty"), Then: []model.Node{T("T")}, HasElse: true, Else: []model.Node{T("F")}}})
	add(no, emit(model.Not{X: call("no")}))
	add(no, emit(model.Bin{Op: "||", L: call("no"), R: model.Lit{V: false}}))
	add(one, model.EmitIf{If: &model.If{Cond: model.Lit{V: true}, Then: []model.Node{T("a"), emit(call("one")), T("b")}}}, T("c"))
	add(one, model.EmitFor{For: &model.For{Val: "it", Iter: v("two"), Body: []model.Node{T("a"), emit(call("one")), T("b")}}})
	add(one, idf, emit(call("idf", call("one"))), emit(call("id", call("one"))))
	add(idf, emit(model.Bin{Op: "+", L: model.Lit{V: "s"}, R: call("idf", model.Lit{V: "t"})}))
	add(idf, let("r", call("idf", model.Lit{V: 5})), emit(model.Bin{Op: "*", L: v("r"), R: model.Lit{V: 2}}))
	add(first, emit(call("first", v("t"))), T("|"), emit(call("first", v("f"))))
	add(idf, apply, emit(call("apply", v("idf"), model.Lit{V: "ho"})))
	add(idf, let("alias", v("idf")), emit(call("alias", model.Lit{V: "al"})))
	for _, k := range []int{0, 1, 5, 25} {
		add(countdown, emit(call("cd", model.Lit{V: k})))
		add(sum, emit(call("sum", model.Lit{V: k})))
	}
	// self-recursion whose parameters (and lets) are read AFTER the inner call has returned: every invocation has
	// its own fresh scope
	lit := func(x interface{}) model.Expr { return model.Lit{V: x} }
	bin := func(op string, l, r model.Expr) model.Expr { return model.Bin{Op: op, L: l, R: r} }
	sumAfter := let("sa", model.FnLit{Params: []string{"n"}, Body: []model.Node{
		sif(bin("<=", v("n"), lit(0)), ret(lit(0))),
		ret(bin("+", call("sa", bin("-", v("n"), lit(1))), v("n")))}})
	fib := let("fib", model.FnLit{Params: []string{"n"}, Body: []model.Node{
		sif(bin("<", v("n"), lit(2)), ret(v("n"))),
		ret(bin("+", call("fib", bin("-", v("n"), lit(1))), call("fib", bin("-", v("n"), lit(2)))))}})
	viaLet := let("vl", model.FnLit{Params: []string{"n"}, Body: []model.Node{
		sif(bin("==", v("n"), lit(0)), ret(lit("."))),
		let("mine", bin("+", lit("m"), v("n"))),
		let("r", call("vl", bin("-", v("n"), lit(1)))),
		ret(bin("+", bin("+", v("r"), v("mine")), v("n")))}})
	swap := let("sw", model.FnLit{Params: []string{"a", "b", "n"}, Body: []model.Node{
		sif(bin("==", v("n"), lit(0)), ret(v("a"))),
		let("r", call("sw", v("b"), v("a"), bin("-", v("n"), lit(1)))),
		ret(bin("+", bin("+", bin("+", v("r"), lit("/")), v("a")), v("b")))}})
	for _, k := range []int{0, 1, 2, 4, 7} {
		add(sumAfter, emit(call("sa", lit(k))))
		add(fib, emit(call("fib", lit(k))))
		add(viaLet, emit(call("vl", lit(k))))
		add(swap, emit(call("sw", v("a"), v("b"), lit(k))), T("|"), emit(call("sw", lit("x"), lit("y"), lit(k))))
	}
	add(let("noisy", model.FnLit{Params: []string{"x"}, Body: []model.Node{T("before"), emit(v("x")), ret(model.Lit{V: "val"}), T("after")}}),
		emit(call("noisy", model.Lit{V: "arg"})), T("|"), emit(model.Bin{Op: "==", L: call("noisy", model.Lit{V: 1}), R: model.Lit{V: "val"}}))
	// a function returning a function
	add(let("mk", model.FnLit{Body: []model.Node{ret(model.FnLit{Params: []string{"x"}, Body: []model.Node{ret(model.Bin{Op: "+", L: v("x"), R: model.Lit{V: "!"}})}})}}),
		let("g", call("mk")), emit(call("g", model.Lit{V: "hi"})))
	return out
}

// ---- further fixed programs (boundaries, state between calls) -------------------------

type fixedProg struct {
	name string
	prog []model.Node
	many int
}

func fixed2(thorough bool) []fixedProg {
	T := func(s string) model.Node { return model.Text{S: s} }
	ret := func(e model.Expr) model.Node { return model.Code{S: model.ReturnS{X: e}} }
	v := func(n string) model.Expr { return model.Var{Name: n} }
	lit := func(x interface{}) model.Expr { return model.Lit{V: x} }
	bin := func(op string, l, r model.Expr) model.Expr { return model.Bin{Op: op, L: l, R: r} }
	let := func(n string, e model.Expr) model.Node { return model.Code{S: model.LetS{Name: n, X: e}} }
	asg := func(n string, e model.Expr) model.Node { return model.Code{S: model.AssignS{Name: n, X: e}} }
	call := func(fn string, a ...model.Expr) model.Expr { return model.Call{Fn: fn, Args: a} }
	stmt := func(e model.Expr) model.Node { return model.Code{S: model.ExprS{X: e}} }
	emit := func(e model.Expr) model.Node { return model.Emit{X: e} }
	fn := func(params []string, body ...model.Node) model.Expr { return model.FnLit{Params: params, Body: body} }
	ps := func(n ...string) []string { return n }
	sif := func(c model.Expr, ns ...model.Node) model.Node {
		return model.Code{S: model.IfS{If: &model.If{Cond: c, Then: ns}}}
	}
	eif := func(c model.Expr, ns ...model.Node) model.Node { return model.EmitIf{If: &model.If{Cond: c, Then: ns}} }
	ifelse := func(c model.Expr, th, el []model.Node) model.Node {
		return model.EmitIf{If: &model.If{Cond: c, Then: th, HasElse: true, Else: el}}
	}
	arr := func(e ...model.Expr) model.Expr { return model.Arr{Els: e} }
	idx := func(x, i model.Expr) model.Expr { return model.Idx{X: x, I: i} }
	hash := func(k string, e model.Expr) model.Expr { return model.Hash{KVs: []model.KV{{K: k, V: e}}} }
	var out []fixedProg
	add := func(name string, ns ...model.Node) { out = append(out, fixedProg{name: name, prog: ns}) }
	addMany := func(name string, many int, ns ...model.Node) {
		out = append(out, fixedProg{name: name, prog: ns, many: many})
	}
	probes := []model.Node{T("|"), emit(v("a")), emit(v("b")), emit(v("c")), emit(v("d"))}
	leak := func(names ...string) []model.Node {
		var ns []model.Node
		for _, n := range names {
			ns = append(ns, eif(v(n), T("LEAK:"+n)))
		}
		return ns
	}
	cat := func(parts ...[]model.Node) []model.Node {
		var ns []model.Node
		for _, p := range parts {
			ns = append(ns, p...)
		}
		return ns
	}
	one := func(n model.Node) []model.Node { return []model.Node{n} }

	// mutual recursion, self-application, a helper function local to a body, recursion in tail position with
	// swapped / mutually dependent arguments
	even := let("even", fn(ps("n"), sif(bin("==", v("n"), lit(0)), ret(lit(true))), ret(call("odd", bin("-", v("n"), lit(1))))))
	odd := let("odd", fn(ps("n"), sif(bin("==", v("n"), lit(0)), ret(lit(false))), ret(call("even", bin("-", v("n"), lit(1))))))
	fact := let("fact", fn(ps("self", "n"), sif(bin("==", v("n"), lit(0)), ret(lit(1))), ret(bin("*", v("n"), call("self", v("self"), bin("-", v("n"), lit(1)))))))
	local := let("outerf", fn(ps("x"), let("h", fn(ps("y"), ret(bin("+", v("y"), lit(1))))), ret(call("h", call("h", v("x"))))))
	tsw := let("tsw", fn(ps("a", "b", "n"), sif(bin("==", v("n"), lit(0)), ret(bin("+", bin("+", v("a"), lit("/")), v("b")))), ret(call("tsw", v("b"), v("a"), bin("-", v("n"), lit(1))))))
	fibi := let("fibi", fn(ps("a", "b", "n"), sif(bin("==", v("n"), lit(0)), ret(v("a"))), ret(call("fibi", v("b"), bin("+", v("a"), v("b")), bin("-", v("n"), lit(1))))))
	rot := let("rot", fn(ps("a", "b", "c", "n"), sif(bin("==", v("n"), lit(0)), ret(bin("+", bin("+", v("a"), v("b")), v("c")))), ret(call("rot", v("b"), v("c"), v("a"), bin("-", v("n"), lit(1))))))
	for _, k := range []int{0, 1, 2, 7, 10} {
		add("mutual", even, odd, emit(call("even", lit(k))), T("|"), emit(call("odd", lit(k))))
		add("self-application", fact, emit(call("fact", v("fact"), lit(k))))
		add("tail-swap", tsw, emit(call("tsw", v("a"), v("b"), lit(k))), T("|"), emit(call("tsw", lit("x"), lit("y"), lit(k))))
		add("tail-dependent", fibi, emit(call("fibi", lit(0), lit(1), lit(k))))
		add("tail-rotate", rot, emit(call("rot", v("c"), v("a"), v("b"), lit(k))))
	}
	add("local-function", local, emit(call("outerf", lit(1))), T("|"), emit(call("outerf", lit(5))), cat(leak("h", "y", "x"))[0], cat(leak("h", "y", "x"))[1], cat(leak("h", "y", "x"))[2])

	// deep recursion (the statement sets no bound; plush documents 1000 nested calls)
	cd := let("cd", fn(ps("n"), sif(bin("==", v("n"), lit(0)), ret(lit("done"))), ret(call("cd", bin("-", v("n"), lit(1))))))
	sa := let("sa", fn(ps("n"), sif(bin("<=", v("n"), lit(0)), ret(lit(0))), ret(bin("+", call("sa", bin("-", v("n"), lit(1))), v("n")))))
	for _, k := range []int{60, 99, 100, 101, 128, 300, 900} {
		add(fmt.Sprintf("deep-recursion:%d", k), cd, emit(call("cd", lit(k))))
		if k < 900 || thorough {
			add(fmt.Sprintf("deep-recursion:%d", k), sa, emit(call("sa", lit(k))))
		}
	}

	// a return nested in k blocks (silent ifs, and emitting ifs with text before the return) ends the call
	for k := 1; k <= 14; k++ {
		for _, emitting := range []bool{false, true} {
			inner := []model.Node{ret(lit(fmt.Sprintf("deep%d", k))), ret(lit("dead"))}
			for i := 0; i < k; i++ {
				var n model.Node
				if emitting {
					n = model.EmitIf{If: &model.If{Cond: v("x"), Then: cat(one(T("t")), inner)}}
				} else if i%2 == 0 {
					n = sif(v("x"), inner...)
				} else {
					n = model.Code{S: model.IfS{If: &model.If{Cond: model.Not{X: v("x")}, Then: one(ret(lit("wrong"))), HasElse: true, Else: inner}}}
				}
				inner = []model.Node{n, ret(lit(fmt.Sprintf("after%d", i)))}
			}
			add("return-depth", let("nest", fn(ps("x"), inner...)), emit(call("nest", lit(true))), T("|"), emit(call("nest", lit(false))))
		}
	}

	// fresh scope: what one call let-binds is gone in the next call of the same function, and in the caller
	sensor := let("sens", fn(ps("a"), sif(v("a"), let("s0", lit("v"))), sif(v("s0"), ret(lit("seen"))), ret(lit("unseen"))))
	add("fresh-scope", cat(one(sensor), one(emit(call("sens", lit("x")))), one(emit(call("sens", lit(nil)))), one(emit(call("sens", lit(false)))), one(emit(call("sens", lit("y")))), one(emit(call("sens", lit("")))), leak("s0"), probes)...)
	add("fresh-scope", cat(one(sensor), one(eif(lit(true), emit(call("sens", lit("x"))), emit(call("sens", lit(nil))))), one(model.EmitFor{For: &model.For{Val: "it", Iter: arr(lit("p"), lit(""), lit("q"), lit(false), lit(0)), Body: one(emit(call("sens", v("it"))))}}), leak("s0"))...)
	wrapSens := let("ws", fn(ps("a", "b"), ret(bin("+", call("sens", v("a")), call("sens", v("b"))))))
	add("fresh-scope", cat(one(sensor), one(wrapSens), one(emit(call("ws", lit("x"), lit("")))), one(emit(call("ws", lit(false), lit("")))), one(emit(call("ws", lit(""), lit("y")))), leak("s0"))...)
	// functions without parameters get a fresh scope too
	for _, np := range []int{0, 1, 2} {
		params := []string{"p", "q"}[:np]
		var args []model.Expr
		for i := 0; i < np; i++ {
			args = append(args, lit(i))
		}
		zf := let("zf", fn(params, let("tmp", lit("local")), let("a", lit("changed")), let("fresh", lit("f")), ret(v("tmp"))))
		add("fresh-scope", cat([]model.Node{let("tmp", lit("caller")), zf, emit(call("zf", args...)), T("|"), emit(v("tmp")), emit(v("a"))}, leak("fresh"), probes)...)
		add("fresh-scope", cat([]model.Node{zf, emit(call("zf", args...)), emit(call("zf", args...))}, leak("tmp", "fresh"), probes)...)
		za := let("za", fn(params, let("a", lit("mine")), asg("a", bin("+", v("a"), lit("!"))), ret(v("a"))))
		add("fresh-scope", cat([]model.Node{za, emit(call("za", args...)), emit(call("za", args...))}, probes)...)
	}
	// parameters shadowed by let / assigned inside the body; the caller's namesakes keep their values
	sh := let("sh", fn(ps("a", "b"), let("a", bin("+", v("b"), lit("'"))), asg("b", lit("bb")), ret(bin("+", bin("+", v("a"), lit("-")), v("b")))))
	add("fresh-scope", cat([]model.Node{sh, emit(call("sh", v("b"), v("a"))), T("|"), emit(call("sh", v("a"), v("b")))}, probes)...)

	// return nil ends the call like any other return
	rn := let("rn", fn(ps("a"), sif(bin("==", v("a"), lit(nil)), ret(lit(nil)), ret(lit("dead"))), ret(lit("after"))))
	add("return-nil", rn, T("["), emit(call("rn", lit(nil))), T("]["), emit(call("rn", lit("x"))), T("]["), emit(bin("==", call("rn", lit(nil)), lit(nil))), T("]"),
		ifelse(call("rn", lit(nil)), one(T("T")), one(T("F"))))
	add("return-nil", let("rn0", fn(nil, ret(lit(nil)), ret(lit("after")))), T("["), emit(call("rn0")), T("]"), emit(bin("==", call("rn0"), lit(nil))))
	add("return-nil", let("rf", fn(ps("a"), sif(v("a"), ret(lit(false))), ret(lit("after")))), T("["), emit(call("rf", lit(true))), T("]["), emit(call("rf", lit(false))), T("]"))

	// statements after the return reached are not evaluated at all
	dead := let("dd", fn(ps("a"), sif(v("a"), ret(lit("r1")), stmt(call("boom", lit(1))), let("z", bin("/", lit(1), lit(0))), stmt(call("tick", lit("dead")))),
		ret(lit("r2")), stmt(call("boom", lit(2))), let("z", bin("+", v("nope"), lit(1))), stmt(call("tick", lit("dead"))), T("text"), emit(v("nope"))))
	add("dead-code", dead, emit(call("dd", lit(true))), emit(call("dd", lit(false))), T("|"), emit(call("tick", lit("dead"))))

	// a call that fails inside the body, forgiven by the caller's expression: the caller goes on in its own scope
	bad := let("bad", fn(ps("a", "b"), let("tmp", lit("local")), ret(v("nope"))))
	add("forgiven-failure", cat([]model.Node{bad, ifelse(call("bad", v("b"), v("a")), one(T("T")), one(T("F")))}, probes, leak("tmp"))...)
	add("forgiven-failure", cat([]model.Node{bad, emit(bin("==", call("bad", v("b"), v("a")), lit(nil)))}, probes, leak("tmp"))...)
	add("forgiven-failure", cat([]model.Node{bad, emit(model.Not{X: call("bad", lit("x"), lit("y"))}), emit(bin("||", call("bad", lit("x"), lit("y")), lit("z")))}, probes, leak("tmp"))...)
	add("forgiven-failure", cat([]model.Node{bad, let("pair", fn(ps("a", "b"), ret(bin("+", bin("+", v("a"), lit("-")), v("b"))))),
		emit(bin("==", call("bad", v("b"), v("a")), lit(nil))), emit(call("pair", v("a"), v("b"))), let("tmp", lit("mine")), emit(v("tmp"))}, probes)...)
	// ... also when the failing call happens inside another function
	add("forgiven-failure", cat([]model.Node{bad, let("outerf", fn(ps("c", "d"), sif(call("bad", v("d"), v("c")), ret(lit("T"))), ret(bin("+", v("c"), v("d"))))),
		emit(call("outerf", v("d"), v("c")))}, probes, leak("tmp"))...)

	// one call site evaluated more than a thousand times in one render
	dbl := let("dbl", fn(ps("x"), ret(bin("*", v("x"), lit(2)))))
	addMany("call-site-x1100", 1100, dbl, model.EmitFor{For: &model.For{Val: "it", Iter: v("many"), Body: []model.Node{emit(call("dbl", v("it"))), T(",")}}})
	addMany("call-site-x1100", 1100, bad, model.EmitFor{For: &model.For{Val: "it", Iter: v("many"), Body: []model.Node{eif(bin("==", call("bad", v("it"), v("it")), lit(nil)), T("."))}}}, emit(call("tick", lit("end"))))
	addMany("call-site-x1100", 1100, bad, dbl, model.EmitFor{For: &model.For{Val: "it", Iter: v("many"), Body: []model.Node{eif(model.Not{X: call("bad", v("it"), v("it"))}, emit(call("dbl", v("it"))), T(","))}}})

	// argument expressions (not just names) that mention the caller's namesakes of the parameters
	pair := let("pair", fn(ps("a", "b"), ret(bin("+", bin("+", v("a"), lit("-")), v("b")))))
	for _, second := range []model.Expr{
		bin("+", v("a"), lit("x")), bin("+", v("a"), v("b")), idx(arr(v("b"), v("a")), v("i1")), idx(hash("k", v("a")), lit("k")),
		call("id", v("a")), call("id", bin("+", v("a"), v("b"))), idx(arr(call("pair", v("a"), v("b")), v("a")), v("i0")),
	} {
		add("composite-argument", pair, emit(call("pair", v("b"), second)), T("|"), emit(call("pair", second, v("a"))), T("|"), emit(call("pair", second, second)))
	}
	tst := let("tst", fn(ps("a", "b"), sif(v("b"), ret(bin("+", lit("T:"), v("a")))), ret(bin("+", lit("F:"), v("a")))))
	add("composite-argument", tst, emit(call("tst", v("b"), model.Not{X: v("a")})), T("|"), emit(call("tst", v("b"), bin("==", v("a"), lit("A")))), T("|"),
		emit(call("tst", v("b"), bin("&&", v("a"), v("b")))), T("|"), emit(call("tst", lit(""), bin("||", v("a"), v("b")))))
	// arguments are evaluated exactly once per call, whether or not the parameter is read
	twice := let("twice", fn(ps("x", "unused"), ret(bin("+", bin("+", v("x"), v("x")), v("x")))))
	add("evaluated-once", twice, emit(call("twice", call("tick", lit("p")), call("tick", lit("q")))), T("|"), emit(call("twice", call("tick", lit("p")), call("tick", lit("q")))), T("|"),
		emit(call("tick", lit("p"))), emit(call("tick", lit("q"))))

	// values that print alike are different values (one function, several calls in one render)
	echo := let("echo", fn(ps("x"), ret(v("x"))))
	add("alike-values", echo, emit(bin("+", call("echo", lit(1)), lit(1))), T("|"), emit(bin("+", call("echo", lit("1")), lit(1))), T("|"), emit(bin("+", call("echo", lit(1.0)), lit(1.5))))
	add("alike-values", echo, emit(bin("+", call("echo", lit("1")), lit(1))), T("|"), emit(bin("+", call("echo", lit(1)), lit(1))))
	add("alike-values", echo, emit(bin("==", call("echo", lit(nil)), lit(nil))), T("|"), emit(bin("==", call("echo", lit("<nil>")), lit(nil))), T("|"), emit(bin("==", call("echo", lit("")), lit(nil))))
	add("alike-values", echo, emit(bin("==", call("echo", lit("<nil>")), lit(nil))), T("|"), emit(bin("==", call("echo", lit(nil)), lit(nil))))
	add("alike-values", echo, emit(call("echo", arr(lit(1), lit(2)))), T("|"), emit(call("echo", lit("[1 2]"))), T("|"), emit(call("echo", arr(lit(1), lit(2)))))
	add("alike-values", echo, emit(bin("==", call("echo", lit("true")), lit("true"))), T("|"), emit(bin("==", call("echo", lit(true)), lit(true))), T("|"), emit(bin("==", call("echo", lit("true")), lit("true"))))
	add("alike-values", pair, emit(call("pair", lit("a b"), lit("c"))), T("|"), emit(call("pair", lit("a"), lit("b c"))), T("|"), emit(call("pair", lit("a b"), lit("c"))))
	add("alike-values", pair, emit(call("pair", lit("1"), lit("2"))), T("|"), emit(call("pair", lit("1 2"), lit(""))), T("|"), emit(call("pair", lit(""), lit("1 2"))))
	// the same call with a caller variable rebound in between
	add("rebound-argument", pair, emit(call("pair", v("a"), v("b"))), let("a", lit("Z")), T("|"), emit(call("pair", v("a"), v("b"))), asg("b", lit("Y")), T("|"), emit(call("pair", v("a"), v("b"))))

	// functions and parameters named like built-in helpers and like the Go helper of this check
	for _, name := range []string{"len", "raw", "capitalize", "id", "partial", "debug"} {
		add("helper-namesake", let(name, fn(ps("x"), ret(bin("+", lit("mine:"), v("x"))))), emit(call(name, lit("v"))), T("|"),
			let("viaf", fn(ps("y"), ret(call(name, v("y"))))), emit(call("viaf", lit("w"))))
		add("helper-namesake", let("g", fn(ps("x"), ret(bin("+", lit("g:"), v("x"))))), let("ap", fn(ps(name, "x"), ret(call(name, v("x"))))), emit(call("ap", v("g"), lit("v"))), T("|"),
			let("ap2", fn(ps(name, "x"), sif(lit(true), ret(call(name, v("x")))), ret(lit("no")))), emit(call("ap2", v("g"), lit("w"))))
	}

	// the same names reached from two, three and four calls deep, through a function parameter from a nested call, and
	// by a recursion: a template's function is found by its name from whatever depth
	for _, name := range []string{"len", "raw", "capitalize", "truncate", "upcase", "range", "partial", "debug", "id"} {
		add("helper-namesake-deep", let(name, fn(ps("x"), ret(bin("+", lit("mine:"), v("x"))))),
			let("viaf", fn(ps("y"), ret(call(name, v("y"))))), let("via2", fn(ps("z"), ret(call("viaf", v("z"))))), let("via3", fn(ps("w"), ret(call("via2", v("w"))))),
			emit(call("via3", lit("u"))), T("|"), emit(call("via2", lit("t"))), T("|"), emit(call("viaf", lit("s"))), T("|"), emit(call(name, lit("r"))))
		add("helper-namesake-deep", let(name, fn(ps("x"), ret(bin("+", lit("mine:"), v("x"))))),
			let("ap", fn(ps("h", "x"), ret(call("h", v("x"))))), let("outer", fn(ps("q"), ret(call("ap", v(name), v("q"))))), let("outer2", fn(ps("q"), ret(call("outer", v("q"))))),
			emit(call("outer2", lit("k"))), T("|"), emit(call("outer", lit("j"))))
		add("helper-namesake-deep", let(name, fn(ps("n"), sif(bin("==", v("n"), lit(0)), ret(lit("end"))), ret(bin("+", lit("."), call(name, bin("-", v("n"), lit(1))))))),
			emit(call(name, lit(4))), T("|"), emit(call(name, lit(1))))
		// a VARIABLE of that name read from nested calls
		add("helper-namesake-deep", let(name, lit("value")), let("rd", fn(ps(), ret(v(name)))), let("rd2", fn(ps(), ret(call("rd")))), let("rd3", fn(ps(), ret(call("rd2")))),
			emit(call("rd3")), T("|"), emit(call("rd2")), T("|"), emit(call("rd")))
	}

	// values of every kind pass through parameters and returns: arrays, hashes, floats, functions
	add("value-kinds", echo, emit(idx(call("echo", arr(lit("p"), lit("q"))), v("i1"))), T("|"), emit(idx(call("echo", hash("k", v("b"))), lit("k"))), T("|"), emit(bin("+", call("echo", lit(1.5)), lit(1.0))), T("|"),
		let("g", call("echo", v("echo"))), emit(call("g", lit("fn"))), T("|"), let("h", call("id", v("echo"))), emit(call("h", lit("go"))))
	add("value-kinds", let("second", fn(ps("xs"), ret(idx(v("xs"), lit(1))))), emit(call("second", v("two"))), emit(call("second", arr(v("a"), v("b")))),
		let("mkarr", fn(ps("a", "b"), ret(arr(v("b"), v("a"))))), model.EmitFor{For: &model.For{Val: "it", Iter: call("mkarr", v("a"), v("b")), Body: []model.Node{T("("), emit(v("it")), T(")")}}},
		emit(idx(call("mkarr", v("b"), v("c")), lit(0))))
	add("value-kinds", let("mkh", fn(ps("a"), ret(hash("k", v("a"))))), let("m", call("mkh", v("b"))), emit(idx(v("m"), lit("k"))), emit(idx(call("mkh", lit("z")), lit("k"))))
	// a function literal as an argument; a function that returns one of its function parameters
	add("value-kinds", let("ap", fn(ps("h", "x"), ret(call("h", v("x"))))), emit(call("ap", fn(ps("y"), ret(bin("+", v("y"), lit("!")))), v("a"))), T("|"),
		let("choose", fn(ps("c", "f", "g"), sif(v("c"), ret(v("f"))), ret(v("g")))), let("up", fn(ps("s"), ret(bin("+", v("s"), lit("^"))))), let("dn", fn(ps("s"), ret(bin("+", v("s"), lit("_"))))),
		let("p1", call("choose", lit(true), v("up"), v("dn"))), let("p2", call("choose", lit(false), v("up"), v("dn"))), emit(call("p1", lit("x"))), emit(call("p2", lit("x"))), emit(call("ap", call("choose", lit(nil), v("up"), v("dn")), lit("y"))))

	// the result used in every position of the caller
	lab := let("lab", fn(ps("x"), sif(v("x"), ret(lit("yes"))), ret(lit(""))))
	num := let("num", fn(ps("x"), ret(v("x"))))
	add("use-sites", lab, emit(arr(call("lab", lit(1)), lit("z"))), T("|"), let("hh", hash("k", call("lab", lit(1)))), emit(idx(v("hh"), lit("k"))), T("|"),
		model.EmitIf{If: &model.If{Cond: v("f"), Then: one(T("T")), ElseIfs: []model.ElseIf{{Cond: call("lab", lit(1)), Then: one(T("EI"))}}, HasElse: true, Else: one(T("E"))}}, T("|"),
		model.EmitIf{If: &model.If{Cond: call("lab", lit(false)), Then: one(T("T")), ElseIfs: []model.ElseIf{{Cond: call("lab", lit(nil)), Then: one(T("EI"))}}, HasElse: true, Else: one(T("E"))}}, T("|"),
		emit(model.Not{X: call("lab", lit(1))}), emit(model.Not{X: call("lab", lit(false))}), T("|"), emit(bin("&&", call("lab", lit(1)), v("t"))), emit(bin("||", v("f"), call("lab", lit(false)))), T("|"),
		let("res", lit("init")), asg("res", call("lab", lit(1))), emit(v("res")), T("|"), stmt(call("lab", lit(1))), T("after"))
	add("use-sites", num, emit(idx(v("two"), call("num", lit(1)))), T("|"), emit(bin("<", call("num", lit(1)), call("num", lit(2)))), emit(bin("*", call("num", lit(3)), call("num", lit(4)))), T("|"),
		emit(bin("-", bin("*", call("num", lit(2)), call("num", lit(3))), call("num", lit(1)))), T("|"), emit(bin("~=", call("num", lit("abc")), lit("b"))), T("|"),
		eif(lit(true), T("a"), stmt(call("num", lit(1))), T("b"), let("q", call("num", lit(7))), emit(v("q")), T("c")), T("|"),
		model.EmitFor{For: &model.For{Val: "it", Iter: v("two"), Body: []model.Node{T("a"), stmt(call("num", v("it"))), let("q", call("num", v("it"))), emit(bin("*", v("q"), call("num", v("it")))), T("b")}}})
	// calls as statements, as let values and in conditions INSIDE another function's body
	add("use-sites", num, lab, let("user", fn(ps("x"), stmt(call("num", v("x"))), emit(call("num", v("x"))), let("r", call("lab", v("x"))), sif(call("lab", v("x")), ret(bin("+", lit("in:"), v("r")))), ret(lit("out")))),
		emit(call("user", lit(1))), T("|"), emit(call("user", lit(false))), T("|"), emit(call("user", lit("s"))))
	return out
}

// litCases: shapes the mini-AST cannot spell; expectations by hand from the statement (functions are values: they
// can be stored anywhere a value can, and a call applies whatever function value the called expression yields).
func litCases() []LitCase {
	return []LitCase{
		{`<% let mk = fn() { return fn(x) { return x + "!" } } %><%= mk()("hi") %>`, "hi!"},
		{`<% let mk = fn(k) { return fn(x) { return x + "?" } } %><%= mk(1)("a") %>|<%= mk(2)(b) %>`, "a?|B?"},
		{`<%= fn(y) { return y + 1 }(2) %>`, "3"},
		{`<%= fn(a, b) { return a + "-" + b }(b, a) %>`, "B-A"},
		{`<% let fs = [fn(y) { return y + 1 }, fn(y) { return y * 10 }] %><%= fs[0](4) %>|<%= fs[1](4) %>|<%= fs[i1](fs[i0](1)) %>`, "5|40|20"},
		{`<% let fs = {"inc": fn(y) { return y + 1 }, "dec": fn(y) { return y - 1 }} %><%= fs["inc"](4) %>|<%= fs["dec"](4) %>`, "5|3"},
		{`<% let fs = {"inc": fn(y) { return y + 1 }} %><% let g = fs["inc"] %><%= g(1) %>`, "2"},
		{`<% let fs = [fn(a, b) { return a + "-" + b }] %><%= fs[0](b, a) %>|<%= a %><%= b %>`, "B-A|AB"},
		{`<% let f = fn(x) { return [x, x + 1] } %><%= for (v) in f(3) { %>(<%= v %>)<% } %>|<%= f(5)[1] %>`, "(3)(4)|6"},
		{`<% let f = fn(x) { return x }
let g = fn(y) { return f(y) + f(y) } %><%= g(2) %>`, "4"},
		{`<% let f = fn( x , y ) { return x - y } %><%= f( 5 , 3 ) %>|<%= f(5,
 3) %>`, "2|2"},
		{`<% let f = fn(x) { return x; } %><%= f(1) %><% let g = fn(x) { return x; return 2; } %><%= g(3) %>`, "13"},
		{`<% let g = fn(x,y,z,w,v,u) { return x + y + z + w + v + u } %><%= g("1","2","3","4","5","6") %>`, "123456"},
	}
}

// calledExprCases (E): a call applies whatever function value the called expression yields - the result of another
// call, an element of an array or a hash, a function literal - whatever the spelling of that expression. Every
// function here appends a suffix to its argument, so the expectation is argument + suffix. Class
// "called-expression-with-dot": the called expression contains a dot inside a number or a string.
const dotClass = "called-expression-with-dot"

type litClassed struct {
	LitCase
	class string
}

func calledExprCases() []litClassed {
	type lv struct{ src, val string }
	keys := []string{`"ab"`, `"a.b"`, `"."`, `"1.5"`, `1.5`, `2`, `"x y"`, `b`}
	sufs := []string{"!", ".", ".5"}
	args := []lv{{`"v"`, "v"}, {`"v.w"`, "v.w"}, {`b`, "B"}, {`a + "."`, "A."}}
	var out []litClassed
	for _, k := range keys {
		for _, s := range sufs {
			lit := `fn(x) { return x + "` + s + `" }`
			forms := []struct{ pre, called string }{
				{`<% let mk = fn(k) { return ` + lit + ` } %>`, `mk(` + k + `)`},
				{``, lit},
				{`<% let ap = fn(h) { return h } %>`, `ap(` + lit + `)`},
			}
			if strings.HasPrefix(k, `"`) {
				forms = append(forms, struct{ pre, called string }{`<% let fs = {` + k + `: ` + lit + `, "other": fn(x) { return "wrong" }} %>`, `fs[` + k + `]`})
			} else {
				forms = append(forms, struct{ pre, called string }{`<% let fs = [fn(x) { return "wrong" }, ` + lit + `] %><% let ks = [` + k + `, 1] %>`, `fs[ks[1]]`})
			}
			for _, f := range forms {
				for _, a := range args {
					class := "called-expression"
					if strings.Contains(f.called, ".") {
						class = dotClass
					}
					out = append(out, litClassed{LitCase{f.pre + `[<%= ` + f.called + `(` + a.src + `) %>]`, "[" + a.val + s + "]"}, class})
					// the result passed on: called again on its own result, and compared
					out = append(out, litClassed{LitCase{f.pre + `<% let r = ` + f.called + `(` + f.called + `(` + a.src + `)) %>[<%= r %>|<%= ` + f.called + `(` + a.src + `) == "` + a.val + s + `" %>]`, "[" + a.val + s + s + "|true]"}, class})
				}
			}
		}
	}
	return out
}

// memberCases (E): the value a call yields is a value like any other, so a member can be selected from it directly
// (f(x).Name), exactly as from the result of a Go function or from a variable holding the same value.
const memberClass = "member-of-call-result"

func memberCases() []litClassed {
	defs := `<% let same = fn(x) { return x } %><% let kidOf = fn(x) { return x.Kid } %><% let first = fn(x, y) { if (y) { return x } return y } %><% let ap = fn(h, x) { return h(x) } %>`
	calls := []struct{ src, who string }{
		{`same(user)`, "ann"}, {`kidOf(user)`, "kid"}, {`first(user, 1.5)`, "ann"}, {`first(user.Kid, "a.b")`, "kid"}, {`ap(same, user)`, "ann"}, {`same(same(user))`, "ann"},
	}
	var out []litClassed
	for _, c := range calls {
		out = append(out,
			litClassed{LitCase{defs + `[<%= ` + c.src + `.Name %>]`, "[" + c.who + "]"}, memberClass},
			litClassed{LitCase{defs + `[<%= ` + c.src + `.Hello() %>]`, "[hi " + c.who + "]"}, memberClass},
			litClassed{LitCase{defs + `[<%= ` + c.src + `.Name == "` + c.who + `" %>]`, "[true]"}, memberClass},
			litClassed{LitCase{defs + `[<%= if (` + c.src + `.Name == "` + c.who + `") { %>T<% } else { %>F<% } %>]`, "[T]"}, memberClass},
			litClassed{LitCase{defs + `<% let n = ` + c.src + `.Name %>[<%= n + "!" %>]`, "[" + c.who + "!]"}, memberClass},
			// controls: the same value held in a variable first
			litClassed{LitCase{defs + `<% let u = ` + c.src + ` %>[<%= u.Name %>|<%= u.Hello() %>]`, "[" + c.who + "|hi " + c.who + "]"}, "member-of-variable"},
		)
	}
	out = append(out, litClassed{LitCase{defs + `[<%= same(user).Kid.Name %>]`, "[kid]"}, memberClass})
	return out
}

// ---- returned containers (E5, R5) ----------------------------------------------------
//
// "yields the value of the first return reached ... the value can be emitted, tested, compared and passed on like any
// other value": the value a call yields is the returned value ITSELF, whatever its kind and size. A list of one
// element prints like its element, so these programs use the result where a container and its content differ: the Go
// helper kind (reports the Go-side shape), the built-in len, an index, a for loop, a truth test, == nil, another
// template function, an element of a new list / hash.

// shape spells the kind and the content of a value as a Go helper sees it, on the model side and on the engine side.
func shape(v interface{}) string {
	ents := func(keys []string, get func(string) interface{}) string {
		sort.Strings(keys)
		parts := make([]string, len(keys))
		for i, k := range keys {
			parts[i] = k + "=" + shape(get(k))
		}
		return "map(" + strings.Join(parts, ",") + ")"
	}
	switch t := v.(type) {
	case nil:
		return "nil"
	case []interface{}:
		parts := make([]string, len(t))
		for i, e := range t {
			parts[i] = shape(e)
		}
		return "list(" + strings.Join(parts, ",") + ")"
	case *model.OrderedMap:
		keys := make([]string, 0, len(t.Keys))
		for _, k := range t.Keys {
			keys = append(keys, fmt.Sprint(k))
		}
		return ents(keys, func(k string) interface{} { return t.Vals[k] })
	case map[string]interface{}:
		keys := make([]string, 0, len(t))
		for k := range t {
			keys = append(keys, k)
		}
		return ents(keys, func(k string) interface{} { return t[k] })
	case map[interface{}]interface{}:
		keys := make([]string, 0, len(t))
		byName := map[string]interface{}{}
		for k, e := range t {
			keys = append(keys, fmt.Sprint(k))
			byName[fmt.Sprint(k)] = e
		}
		return ents(keys, func(k string) interface{} { return byName[k] })
	case int, float64, bool:
		return fmt.Sprintf("%T.%v", v, v)
	case string:
		return "string." + t + "."
	case model.HTML:
		return "html." + string(t) + "."
	}
	return "other"
}

// modelHelpers: what the reference interpreter knows. The built-in len is not redefined for the engine (its own is
// used); the reference needs its meaning for lists and hashes: the number of elements / entries.
func modelHelpers() map[string]model.Helper {
	h := mkHelpers()
	h["len"] = func(a []interface{}) (interface{}, error) {
		if len(a) != 1 {
			return nil, fmt.Errorf("len of %d values", len(a))
		}
		switch t := a[0].(type) {
		case []interface{}:
			return len(t), nil
		case *model.OrderedMap:
			return len(t.Keys), nil
		}
		return nil, fmt.Errorf("len of %T: only asked of lists and hashes", a[0])
	}
	return h
}

// cval: an expression together with what the generator knows about its value
type cval struct {
	e    model.Expr
	kind byte     // 'l' list, 'm' hash, 's' anything else
	n    int      // elements / entries
	keys []string // of a hash
	el0  *cval    // of a non-empty list: its first element; of a hash: the value of keys[0]
}

func cScalar(x interface{}) cval { return cval{e: model.Lit{V: x}, kind: 's'} }
func cList(els ...cval) cval {
	c := cval{kind: 'l', n: len(els)}
	xs := make([]model.Expr, len(els))
	for i := range els {
		xs[i] = els[i].e
	}
	c.e = model.Arr{Els: xs}
	if len(els) > 0 {
		c.el0 = &els[0]
	}
	return c
}
func cHashOf(keys []string, vals ...cval) cval {
	c := cval{kind: 'm', n: len(keys), keys: keys}
	kvs := make([]model.KV, len(keys))
	for i, k := range keys {
		kvs[i] = model.KV{K: k, V: vals[i].e}
	}
	c.e = model.Hash{KVs: kvs}
	if len(vals) > 0 {
		c.el0 = &vals[0]
	}
	return c
}

// with: the same knowledge about another expression that has the same value
func (c cval) with(e model.Expr) cval { c.e = e; return c }

// containerPool: the boundaries of "a list / a hash": empty, one element of every kind (among them the values that
// are false, nil and themselves containers), one list in a list in a list, one-entry hashes, and 0 / 2 / 3 elements
// and scalars as neighbours.
func containerPool() []cval {
	i1, i2, i7 := cScalar(1), cScalar(2), cScalar(7)
	k, kq := []string{"k"}, []string{"k", "q"}
	return []cval{
		cList(), cList(i7), cList(cScalar("x")), cList(cScalar(nil)), cList(cScalar(false)), cList(cScalar("")),
		cList(cScalar(0)), cList(cScalar(true)), cList(cScalar(1.5)),
		cList(cList()), cList(cList(i1)), cList(cList(i1, i2)), cList(cList(cList(i1))), cList(cList(cList())),
		cList(cHashOf(k, i1)), cList(cList(cHashOf(k, i1))),
		cList(i1, i2), cList(cList(i1), cList(i2)), cList(cList(i1, i2), cList(cScalar(3))), cList(i1, i2, cScalar(3)),
		cList(cList(i1), i2), cList(cScalar(nil), cScalar(nil)),
		cHashOf(k, i1), cHashOf(k, cList(i1)), cHashOf(k, cList(cList(i1))), cHashOf(k, cHashOf(k, i1)), cHashOf(k, cList()),
		cHashOf(k, cScalar(nil)), cHashOf(kq, i1, i2), cHashOf(kq, cList(i1), cList(i2)),
		i7, cScalar("x"), cScalar(""), cScalar(nil), cScalar(true), cScalar(false), cScalar(1.5), cScalar(0),
		// held in the data of the render
		cList(i7).with(model.Var{Name: "one1"}), cList(cList(i1, i2)).with(model.Var{Name: "nest1"}),
		cHashOf(k, i1).with(model.Var{Name: "hash1"}), cList(i1, i2).with(model.Var{Name: "two"}),
	}
}

// a route: how a function comes to return the value. It defines its functions (named with the suffix sfx, so that
// routes can be chained: the argument of one is the call of another) and gives the call together with what is known
// about its value.
type cRoute struct {
	name string
	mk   func(arg cval, sfx string) ([]model.Node, cval)
}

func containerRoutes() []cRoute {
	ret := func(e model.Expr) model.Node { return model.Code{S: model.ReturnS{X: e}} }
	v := func(n string) model.Expr { return model.Var{Name: n} }
	lit := func(x interface{}) model.Expr { return model.Lit{V: x} }
	let := func(n string, e model.Expr) model.Node { return model.Code{S: model.LetS{Name: n, X: e}} }
	call := func(fn string, a ...model.Expr) model.Expr { return model.Call{Fn: fn, Args: a} }
	fn := func(params []string, body ...model.Node) model.Expr { return model.FnLit{Params: params, Body: body} }
	ps := func(n ...string) []string { return n }
	sif := func(c model.Expr, ns ...model.Node) model.Node {
		return model.Code{S: model.IfS{If: &model.If{Cond: c, Then: ns}}}
	}
	bin := func(op string, l, r model.Expr) model.Expr { return model.Bin{Op: op, L: l, R: r} }
	one := func(n model.Node) []model.Node { return []model.Node{n} }
	listOf := func(c cval, e model.Expr) cval { return cval{e: e, kind: 'l', n: 1, el0: &c} }
	return []cRoute{
		{"literal", func(a cval, s string) ([]model.Node, cval) {
			return one(let("lit"+s, fn(ps(), ret(a.e)))), a.with(call("lit" + s))
		}},
		{"parameter", func(a cval, s string) ([]model.Node, cval) {
			return one(let("same"+s, fn(ps("p"), ret(v("p"))))), a.with(call("same"+s, a.e))
		}},
		{"second-parameter", func(a cval, s string) ([]model.Node, cval) {
			return one(let("snd"+s, fn(ps("a", "b"), ret(v("b"))))), a.with(call("snd"+s, lit(0), a.e))
		}},
		{"let-variable", func(a cval, s string) ([]model.Node, cval) {
			return one(let("held"+s, fn(ps("p"), let("t", v("p")), ret(v("t"))))), a.with(call("held"+s, a.e))
		}},
		{"let-literal", func(a cval, s string) ([]model.Node, cval) {
			return one(let("hlit"+s, fn(ps(), let("t", a.e), ret(v("t"))))), a.with(call("hlit" + s))
		}},
		{"two-calls", func(a cval, s string) ([]model.Node, cval) {
			return []model.Node{let("inner"+s, fn(ps("p"), ret(v("p")))), let("outer"+s, fn(ps("p"), ret(call("inner"+s, v("p")))))},
				a.with(call("outer"+s, a.e))
		}},
		{"two-calls-let", func(a cval, s string) ([]model.Node, cval) {
			return []model.Node{let("inl"+s, fn(ps("p"), ret(v("p")))), let("outl"+s, fn(ps("p"), let("r", call("inl"+s, v("p"))), ret(v("r"))))},
				a.with(call("outl"+s, a.e))
		}},
		{"nested-if", func(a cval, s string) ([]model.Node, cval) {
			return one(let("cond"+s, fn(ps("p", "w"), sif(v("w"), sif(lit(true), ret(v("p")))), ret(lit("no"))))), a.with(call("cond"+s, a.e, lit(true)))
		}},
		{"higher-order", func(a cval, s string) ([]model.Node, cval) {
			return []model.Node{let("hid"+s, fn(ps("p"), ret(v("p")))), let("ap"+s, fn(ps("h", "p"), ret(call("h", v("p")))))},
				a.with(call("ap"+s, v("hid"+s), a.e))
		}},
		{"recursion", func(a cval, s string) ([]model.Node, cval) {
			return one(let("rec"+s, fn(ps("p", "n"), sif(bin("==", v("n"), lit(0)), ret(v("p"))), ret(call("rec"+s, v("p"), bin("-", v("n"), lit(1))))))),
				a.with(call("rec"+s, a.e, lit(2)))
		}},
		{"wrap", func(a cval, s string) ([]model.Node, cval) {
			e := call("wrap"+s, a.e)
			return one(let("wrap"+s, fn(ps("x"), ret(model.Arr{Els: []model.Expr{v("x")}})))), listOf(a, e)
		}},
		{"wrap-let", func(a cval, s string) ([]model.Node, cval) {
			e := call("wlet"+s, a.e)
			return one(let("wlet"+s, fn(ps("x"), let("t", model.Arr{Els: []model.Expr{v("x")}}), ret(v("t"))))), listOf(a, e)
		}},
		{"wrap-twice", func(a cval, s string) ([]model.Node, cval) {
			e := call("wtw"+s, a.e)
			in := listOf(a, nil)
			return one(let("wtw"+s, fn(ps("x"), ret(model.Arr{Els: []model.Expr{model.Arr{Els: []model.Expr{v("x")}}}})))), listOf(in, e)
		}},
		{"wrap-recursive", func(a cval, s string) ([]model.Node, cval) {
			e := call("wrec"+s, a.e, lit(2))
			in := listOf(a, nil)
			return one(let("wrec"+s, fn(ps("p", "n"), sif(bin("==", v("n"), lit(0)), ret(v("p"))), ret(model.Arr{Els: []model.Expr{call("wrec"+s, v("p"), bin("-", v("n"), lit(1)))}})))),
				listOf(listOf(a, nil), e).withEl0(in)
		}},
		{"wrap-hash", func(a cval, s string) ([]model.Node, cval) {
			e := call("wh"+s, a.e)
			return one(let("wh"+s, fn(ps("x"), ret(model.Hash{KVs: []model.KV{{K: "k", V: v("x")}}})))), cval{e: e, kind: 'm', n: 1, keys: []string{"k"}, el0: &a}
		}},
		{"pair", func(a cval, s string) ([]model.Node, cval) { // control: two elements
			e := call("pair"+s, a.e)
			return one(let("pair"+s, fn(ps("x"), ret(model.Arr{Els: []model.Expr{v("x"), v("x")}})))), cval{e: e, kind: 'l', n: 2, el0: &a}
		}},
		{"first-of", func(a cval, s string) ([]model.Node, cval) { // the function itself takes the container apart
			if a.kind != 'l' || a.n == 0 {
				return nil, cval{}
			}
			return one(let("first"+s, fn(ps("xs"), ret(model.Idx{X: v("xs"), I: lit(0)})))), a.el0.with(call("first"+s, a.e))
		}},
	}
}

func (c cval) withEl0(e cval) cval { c.el0 = &e; return c }

// a use: where the result stands. Each is chosen so that a container and its only element give different output
// (directly emitted, the control, they print alike).
type cUse struct {
	name string
	mk   func(r cval, sfx string) []model.Node // nil: not applicable to this kind of value
}

func containerUses() []cUse {
	T := func(s string) model.Node { return model.Text{S: s} }
	v := func(n string) model.Expr { return model.Var{Name: n} }
	lit := func(x interface{}) model.Expr { return model.Lit{V: x} }
	let := func(n string, e model.Expr) model.Node { return model.Code{S: model.LetS{Name: n, X: e}} }
	call := func(fn string, a ...model.Expr) model.Expr { return model.Call{Fn: fn, Args: a} }
	emit := func(e model.Expr) model.Node { return model.Emit{X: e} }
	ret := func(e model.Expr) model.Node { return model.Code{S: model.ReturnS{X: e}} }
	fn := func(params []string, body ...model.Node) model.Expr { return model.FnLit{Params: params, Body: body} }
	ifelse := func(c model.Expr, th, el model.Node) model.Node {
		return model.EmitIf{If: &model.If{Cond: c, Then: []model.Node{th}, HasElse: true, Else: []model.Node{el}}}
	}
	isCont := func(r cval) bool { return r.kind == 'l' || r.kind == 'm' }
	key0 := func(r cval) model.Expr {
		if r.kind == 'm' {
			return lit(r.keys[0])
		}
		return lit(0)
	}
	return []cUse{
		{"kind", func(r cval, s string) []model.Node { return []model.Node{T("["), emit(call("kind", r.e)), T("]")} }},
		{"emit", func(r cval, s string) []model.Node { return []model.Node{T("["), emit(r.e), T("]")} }}, // control (a hash has no stated printed form: excluded by the reference)
		{"len", func(r cval, s string) []model.Node {
			if !isCont(r) {
				return nil
			}
			return []model.Node{T("["), emit(call("len", r.e)), T("]")}
		}},
		{"index", func(r cval, s string) []model.Node {
			if !isCont(r) || r.n == 0 {
				return nil
			}
			return []model.Node{T("["), emit(call("kind", model.Idx{X: r.e, I: key0(r)})), T("]")}
		}},
		{"index-index", func(r cval, s string) []model.Node {
			if !isCont(r) || r.n == 0 || r.el0 == nil || !isCont(*r.el0) || r.el0.n == 0 {
				return nil
			}
			return []model.Node{T("["), emit(call("kind", model.Idx{X: model.Idx{X: r.e, I: key0(r)}, I: key0(*r.el0)})), T("]")}
		}},
		{"for", func(r cval, s string) []model.Node {
			if !isCont(r) || (r.kind == 'm' && r.n > 1) { // the visiting order of a hash is not stated
				return nil
			}
			return []model.Node{T("["), model.EmitFor{For: &model.For{Key: "i", Val: "e", Iter: r.e, Body: []model.Node{T("("), emit(v("i")), T(":"), emit(call("kind", v("e"))), T(")")}}}, T("]")}
		}},
		{"truth", func(r cval, s string) []model.Node {
			return []model.Node{T("["), ifelse(r.e, T("yes"), T("no")), T("]")}
		}},
		{"not", func(r cval, s string) []model.Node {
			return []model.Node{T("["), emit(model.Not{X: r.e}), T("]")}
		}},
		{"is-nil", func(r cval, s string) []model.Node {
			return []model.Node{T("["), emit(model.Bin{Op: "==", L: r.e, R: lit(nil)}), T("]")}
		}},
		{"let-then", func(r cval, s string) []model.Node {
			ns := []model.Node{let("res"+s, r.e), T("["), emit(call("kind", v("res"+s)))}
			if isCont(r) {
				ns = append(ns, T("/"), emit(call("len", v("res"+s))))
			}
			return append(ns, T("]"))
		}},
		{"passed-on", func(r cval, s string) []model.Node {
			return []model.Node{let("tell"+s, fn([]string{"x"}, ret(call("kind", v("x"))))), T("["), emit(call("tell"+s, r.e)), T("]")}
		}},
		{"passed-on-len", func(r cval, s string) []model.Node {
			if !isCont(r) {
				return nil
			}
			return []model.Node{let("size"+s, fn([]string{"x"}, ret(call("len", v("x"))))), T("["), emit(call("size"+s, r.e)), T("]")}
		}},
		{"passed-on-first", func(r cval, s string) []model.Node {
			if !isCont(r) || r.n == 0 {
				return nil
			}
			return []model.Node{let("head"+s, fn([]string{"x"}, ret(model.Idx{X: v("x"), I: key0(r)}))), T("["), emit(call("kind", call("head"+s, r.e))), T("]")}
		}},
		{"element", func(r cval, s string) []model.Node {
			return []model.Node{T("["), emit(call("kind", model.Arr{Els: []model.Expr{r.e}})), T("|"), emit(call("kind", model.Arr{Els: []model.Expr{lit(0), r.e}})), T("|"),
				emit(call("kind", model.Hash{KVs: []model.KV{{K: "q", V: r.e}}})), T("]")}
		}},
		{"in-blocks", func(r cval, s string) []model.Node {
			return []model.Node{T("["), model.EmitIf{If: &model.If{Cond: lit(true), Then: []model.Node{T("a"), emit(call("kind", r.e)), T("b")}}},
				model.EmitFor{For: &model.For{Val: "it", Iter: model.Arr{Els: []model.Expr{lit(1), lit(2)}}, Body: []model.Node{T("("), emit(call("kind", r.e)), T(")")}}}, T("]")}
		}},
		{"twice", func(r cval, s string) []model.Node { // the same call twice in one render
			return []model.Node{T("["), emit(call("kind", r.e)), T("|"), emit(call("kind", r.e)), T("]")}
		}},
	}
}

// containerProgram (R5): a random value nested up to 3 deep, returned through a chain of 1-3 routes (the call of one
// is the argument of the next), used at 1-3 discriminating sites of one render; the caller may own variables named
// like the parameters and lets of the routes.
func containerProgram(t *rapid.T) ([]model.Node, []string) {
	var genV func(depth int) cval
	scalars := []interface{}{0, 1, 7, "x", "", nil, true, false, 1.5, "a b"}
	genV = func(depth int) cval {
		k := rapid.IntRange(0, 9).Draw(t, "vk")
		if depth == 0 || k < 2 {
			return cScalar(scalars[rapid.IntRange(0, len(scalars)-1).Draw(t, "sc")])
		}
		if k < 8 {
			n := []int{0, 1, 1, 1, 1, 2, 3}[rapid.IntRange(0, 6).Draw(t, "n")]
			els := make([]cval, n)
			for i := range els {
				els[i] = genV(depth - 1)
			}
			return cList(els...)
		}
		if rapid.IntRange(0, 3).Draw(t, "two") == 0 {
			return cHashOf([]string{"k", "q"}, genV(depth-1), genV(depth-1))
		}
		return cHashOf([]string{"k"}, genV(depth-1))
	}
	let := func(n string, e model.Expr) model.Node { return model.Code{S: model.LetS{Name: n, X: e}} }
	var prog []model.Node
	var classes []string
	// decoys: the caller's variables named like what the routes bind
	for _, n := range []string{"p", "x", "t", "r", "xs", "n"} {
		if rapid.IntRange(0, 3).Draw(t, "decoy") == 0 {
			prog = append(prog, let(n, model.Lit{V: "caller-" + n}))
		}
	}
	val := genV(rapid.IntRange(1, 3).Draw(t, "depth"))
	pool := containerPool()
	if rapid.IntRange(0, 3).Draw(t, "frompool") == 0 {
		val = pool[rapid.IntRange(0, len(pool)-1).Draw(t, "pool")]
	}
	if rapid.IntRange(0, 3).Draw(t, "argvar") == 0 {
		prog = append(prog, let("held", val.e))
		val = val.with(model.Var{Name: "held"})
	}
	routes := containerRoutes()
	cur := val
	for i, n := 0, rapid.IntRange(1, 3).Draw(t, "routes"); i < n; i++ {
		rt := routes[rapid.IntRange(0, len(routes)-1).Draw(t, "route")]
		defs, res := rt.mk(cur, fmt.Sprint(i))
		if defs == nil {
			continue
		}
		prog = append(prog, defs...)
		cur = res
		classes = append(classes, "route:"+rt.name)
	}
	if len(classes) == 0 {
		defs, res := routes[1].mk(cur, "0")
		prog, cur = append(prog, defs...), res
		classes = append(classes, "route:"+routes[1].name)
	}
	uses := containerUses()
	for i, n := 0, rapid.IntRange(1, 3).Draw(t, "uses"); i < n; i++ {
		u := uses[rapid.IntRange(0, len(uses)-1).Draw(t, "use")]
		ns := u.mk(cur, "u"+fmt.Sprint(i))
		if ns == nil {
			u = uses[0]
			ns = u.mk(cur, "u"+fmt.Sprint(i))
		}
		prog = append(prog, ns...)
		classes = append(classes, "use:"+u.name)
	}
	switch {
	case cur.kind == 'l' && cur.n == 1:
		classes = append(classes, "result:list-of-one")
	case cur.kind == 'l' && cur.n == 0:
		classes = append(classes, "result:empty-list")
	case cur.kind == 'l':
		classes = append(classes, "result:longer-list")
	case cur.kind == 'm':
		classes = append(classes, fmt.Sprintf("result:hash-of-%d", cur.n))
	default:
		classes = append(classes, "result:scalar")
	}
	return prog, classes
}

const rule = "(E) 61 fixed programs: self-recursion whose parameters and lets are read after the inner call returned (sum, fibonacci, a let kept across the call, swapped arguments), swapped and rotated namesake arguments, nested calls, results used in + == < ! || and if tests, emission inside if/for blocks with content after it, aliasing, higher-order application, a function returning a function, recursion to depth 25, first-return-wins with dead code; each in the tag-per-statement and in the compact single-tag layout. " +
	"(E2) ~135 boundary and state programs x 2 layouts: mutual recursion, self-application, a function local to a body, recursion in tail position with swapped / rotated / mutually dependent arguments, recursion to depth 60..900 (around 100 and 128; beyond 64 a refusal with an error is accepted), a return nested in 1..14 silent or emitting blocks, conditional lets that must be gone in the next call of the same function (directly, in blocks, in loops, through another function) and in the caller, functions of 0/1/2 parameters whose lets are named like variables of the caller, parameters shadowed by let and assigned, return nil / false / \"\" followed by more code, dead code that would fail or count if it were evaluated, calls that fail inside the body and are forgiven by if / == / ! / || with the caller's variables probed afterwards, one call site evaluated 1100 times (succeeding, and failing + forgiven), argument EXPRESSIONS (+, index of an array / hash literal, Go helper call, nested call, ! == && ||) that mention namesakes of the parameters, arguments counted by a tick helper (evaluated exactly once, read or not), values that print alike (1 / \"1\" / 1.0, nil / \"<nil>\", [1,2] / \"[1 2]\", true / \"true\", \"a b\",\"c\" / \"a\",\"b c\") passed to one function in one render, a caller variable rebound between two identical calls, functions and function-valued parameters named like built-in helpers (len raw capitalize partial debug) and like the Go helper of the check, such functions and variables (also truncate upcase range) reached from two to four calls deep / through a parameter from a nested call / by a recursion, arrays / hashes / floats / functions through parameters and returns, function literals as arguments, results as array elements, hash values, indexes, for-iterables, else-if conditions, operands of ! && || < * - ~=, assigned with =, as silent statements inside if / for blocks and inside other bodies. " +
	"(E3) programs whose called expression is not a name (13 by hand + 768 from a matrix): the result of a call, a function literal, an element of a hash or an array x 8 keys (strings with and without dots, float, int, variable) x 3 suffixes x 4 arguments x {emitted, applied to its own result and compared}; expectation argument + suffix. " +
	"(R) generated functions of 0-4 parameters (families int/string/bool) whose bodies are if/else-if/else decision chains over the parameters nested to depth 3, every path ending in return <unique label>, with dead code after returns and local lets; argument tuples from literals (incl. nil), plain variables, caller variables NAMED LIKE THE FUNCTION'S OWN PARAMETERS, and calls of the SAME function in any argument position; 12 use sites (emit, let-then-emit, ==, if test, +, string concat, argument of a user function / Go helper, inside if / for blocks with text after, higher-order through a parameter). " +
	"(R2) call SEQUENCES in one render: 2-3 functions of one signature and 2-5 calls, each direct, through a higher-order function handed any of them, through a parameter NAMED LIKE an already-called function or like a built-in helper, through two function parameters in one body, or through an alias rebound with let / = between calls, so that one called name resolves to different functions at different moments. " +
	"(R3) 1-3 functions defined in turn (a later one may call an earlier one as a statement, in a let, in a condition) with richer CLOSED bodies: lets that are read, parameters shadowed by let or assigned, parameters named id / len / raw / tmp / res / it, conditional lets read where an unknown name is tolerated, tick counters, silent and emitting ifs, chains nested 4..12 blocks deep, returns of labels, variables (possibly nil), nil, false / \"\" / 0, arrays, label + parameter, dead code that would fail or count; 1-4 calls from a caller that may own variables named like the bodies' lets, arguments that are composite expressions over namesakes, unknown identifiers (the render must fail) or the loop variable, 20 use sites incl. else-if, !, && ||, array / hash element, = assignment, call == call, silent statement at top level / in if / in for, the same call before and after a caller variable is rebound; afterwards a b c d are emitted, every name a body let-bound is tested for leaking, and the tick totals are emitted. " +
	"(R4) generated recursion: rec(p1..pk, n) and optionally a second function calling it back; below n = 0 the body keeps a parameter in a let, calls itself with permuted / joined / literal arguments, rebinds a parameter, and returns expressions that read parameters, the let and the inner result after the inner call, self calls in tail position, in operands, two per return; called to depth 0-4 with namesake arguments. " +
	"(E4) 37 programs selecting a field or a method directly from the result of a call of a template function (f(x).Name, .Hello(), .Kid.Name; emitted, compared, tested, let-bound), the value being a Go struct of the data; controls with the value held in a variable first. " +
	"(E5) returned containers: 42 boundary values (the empty list, lists of ONE element of every kind - int, string, float, true, and the values that are false, nil, \"\", 0, an empty list, a list, a list in a list, a hash -, lists of 2 and 3, one- and two-entry hashes of scalars / lists / hashes, scalars as neighbours, lists and a hash held in the data) x 17 routes by which a function comes to return the value (return of the literal, of a parameter, of the second parameter, of a let variable, through two calls, through a let of an inner call, from a nested if, through a function-valued parameter, by recursion, wrapped by the function into [x] / a let of [x] / [[x]] / recursively / {k: x} / [x, x], taken apart by the function xs[0]) x 17 uses at which a container and its only element differ (a Go helper reporting the Go-side shape, the built-in len, [0] / [\"k\"], [0][0], for (i, e), if test, !, == nil, let then shape and len, passed on to template functions that report the shape / the length / the first element, as an element of a new list and hash, inside if and for blocks, twice in one render; emitted directly as control); quick: each program in one of the two layouts, thorough: both. " +
	"(R5) random values nested to depth 3 (lists of 0-3 elements, mostly 1; hashes of 1-2 entries; scalars incl. nil false \"\" 0) or pool values, optionally held in a caller variable, returned through a CHAIN of 1-3 of these routes (the call of one is the argument of the next), 1-3 of these uses in one render, caller variables named like the routes' parameters and lets. " +
	"Oracle: reference interpreter (arguments evaluated once in the caller's scope, parameters bound to argument values, fresh scope, first return reached, nothing after it evaluated); for E3 and E4 the expectation is written down by hand; in E5 / R5 the shape helper is the same Go function on both sides and len of a list / hash is its number of elements / entries. Non-trivial: every generated program (distinct by template text)."

func setup(t *testing.T) *vk.Run {
	r := vk.Start(t, "C16", rule,
		"function bodies are closed (they mention only their parameters, their own lets, Go helpers and functions defined at the top level that no scope in between rebinds), so lexical and dynamic scoping agree",
		"a parameter bound to nil reads as an unset name (C10) and hides the caller's variable of that name",
		"for loops inside function bodies, calls with a wrong number of arguments and the value of a call that reaches no return are not covered by the statement",
		"the statement sets no bound on recursion; depths up to 64 are demanded, up to 900 are run: there a render that fails (without a panic) counts as refused for its depth, a render that succeeds must give the value")
	r.Replayer("fn", func(raw json.RawMessage) *vk.Fail {
		var c Case
		if f := vk.Decode(raw, &c); f != nil {
			return f
		}
		prog, err := model.Decode(c.Prog)
		if err != nil {
			return &vk.Fail{Kind: "decode", Msg: err.Error()}
		}
		return runMany(r, prog, c.Compact, c.Many, "replay")
	})
	r.Replayer("lit", func(raw json.RawMessage) *vk.Fail {
		var c LitCase
		if f := vk.Decode(raw, &c); f != nil {
			return f
		}
		return runLit(r, c, "replay")
	})
	return r
}

func TestReplay(t *testing.T) { setup(t).ReplayEnv() }

func TestProp(t *testing.T) {
	r := setup(t)
	defer r.Finish()
	r.ReplayCommitted()

	fx := fixed()
	for _, p := range fx {
		r.Check(run(r, p, false, "fixed"))
		r.Check(run(r, p, true, "fixed-compact"))
	}
	r.Subspace("fixed programs x 2 layouts", int64(2*len(fx)), true)

	fx2 := fixed2(r.Thorough())
	for i, p := range fx2 {
		if !r.Mine(int64(i)) {
			continue
		}
		r.Check(runMany(r, p.prog, false, p.many, "fixed:"+p.name))
		r.Check(runMany(r, p.prog, true, p.many, "fixed:"+p.name+"/compact"))
	}
	r.Subspace("boundary and state programs x 2 layouts", int64(2*len(fx2)), true)
	lits := litCases()
	for _, c := range lits {
		r.Check(runLit(r, c, "fixed:called-expression"))
	}
	r.Subspace("programs whose called expression is not a name", int64(len(lits)), true)
	ce := calledExprCases()
	for i, c := range ce {
		if !r.Mine(int64(i)) {
			continue
		}
		if c.class == dotClass && r.OpenClass(dotClass) {
			r.Exclude(dotClass)
			continue
		}
		f := runLit(r, c.LitCase, "fixed:"+c.class)
		if f != nil {
			f.Class = c.class
		}
		r.Check(f)
	}
	r.Subspace("called expressions (call result, function literal, hash / array element) x 8 keys x 3 suffixes x 4 arguments x 2 uses", int64(len(ce)), true)
	mc := memberCases()
	for _, c := range mc {
		if c.class == memberClass && r.OpenClass(memberClass) {
			r.Exclude(memberClass)
			continue
		}
		f := runLit(r, c.LitCase, "fixed:"+c.class)
		if f != nil {
			f.Class = c.class
		}
		r.Check(f)
	}
	r.Subspace("a member selected from the result of a call (6 calls x 5 uses + controls)", int64(len(mc)), true)


	// E5: boundary containers x routes x discriminating uses
	{
		pool, routes, uses := containerPool(), containerRoutes(), containerUses()
		var n int64
		for vi, val := range pool {
			for ri, rt := range routes {
				defs, res := rt.mk(val, "")
				if defs == nil {
					continue
				}
				for ui, u := range uses {
					ns := u.mk(res, "")
					if ns == nil {
						continue
					}
					n++
					if !r.Mine(int64(vi*len(routes)*len(uses) + ri*len(uses) + ui)) {
						continue
					}
					prog := append(append([]model.Node{}, defs...), ns...)
					class := "containers:" + rt.name
					r.Class("containers:use:" + u.name)
					// quick: every program in one layout (alternating), thorough: in both
					if r.Thorough() || (vi+ri+ui)%2 == 0 {
						r.Check(run(r, prog, false, class))
					}
					if r.Thorough() || (vi+ri+ui)%2 == 1 {
						r.Check(run(r, prog, true, class+"/compact"))
					}
				}
			}
		}
		r.Subspace("returned containers: 42 boundary values x 17 routes x 17 uses (applicable combinations), layouts: quick alternating, thorough both", n, true)
	}

	r.Rapid("functions", r.Pick(8000, 100000), func(t *rapid.T) *vk.Fail {
		g := &fnGen{t: t}
		prog, class := g.program()
		compact := rapid.Bool().Draw(t, "compact")
		if compact {
			class += "/compact"
		}
		return run(r, prog, compact, class)
	})
	r.Rapid("bodies", r.Pick(5000, 32000), func(t *rapid.T) *vk.Fail {
		g := &richGen{t: t}
		prog, classes := g.program()
		compact := rapid.Bool().Draw(t, "compact")
		for _, c := range classes {
			r.Class("bodies:" + c)
		}
		class := "bodies"
		if compact {
			class += "/compact"
		}
		return run(r, prog, compact, class)
	})
	r.Rapid("recursion", r.Pick(2000, 10000), func(t *rapid.T) *vk.Fail {
		prog, class := recProgram(t)
		compact := rapid.Bool().Draw(t, "compact")
		if compact {
			class += "/compact"
		}
		return run(r, prog, compact, class)
	})
	r.Rapid("sequences", r.Pick(6000, 60000), func(t *rapid.T) *vk.Fail {
		g := &fnGen{t: t}
		prog, class := g.sequence()
		compact := rapid.Bool().Draw(t, "compact")
		if compact {
			class += "/compact"
		}
		return run(r, prog, compact, class)
	})
	r.Rapid("containers", r.Pick(4000, 20000), func(t *rapid.T) *vk.Fail {
		prog, classes := containerProgram(t)
		compact := rapid.Bool().Draw(t, "compact")
		for _, c := range classes {
			r.Class("containers:" + c)
		}
		class := "containers:random"
		if compact {
			class += "/compact"
		}
		return run(r, prog, compact, class)
	})
}
