// C16 — user-defined functions bind parameters to argument values and return their value.
package c16

import (
	"encoding/json"
	"fmt"
	"strings"
	"testing"

	"verif/internal/match"
	"verif/internal/model"
	"verif/internal/vk"

	plush "github.com/gobuffalo/plush/v5"
	"pgregory.net/rapid"
)

func TestMain(m *testing.M) { vk.Main(m) }

type Case struct {
	Src     string          `json:"src"` // informational
	Compact bool            `json:"compact"`
	Prog    json.RawMessage `json:"prog"`
}

// caller-side variables deliberately named like the parameters (a, b, c, d)
func data() map[string]interface{} {
	return map[string]interface{}{
		"a": "A", "b": "B", "c": "C", "d": "D",
		"i0": 0, "i1": 1, "i2": 2, "sx": "x", "sy": "y", "t": true, "f": false,
		"two": []interface{}{1, 2},
	}
}

var helpers = map[string]model.Helper{
	"id": func(a []interface{}) (interface{}, error) { return a[0], nil },
}

func run(r *vk.Run, prog []model.Node, compact bool, class string) *vk.Fail {
	src := model.Printer{Compact: compact}.Nodes(prog)
	c := Case{Src: src, Compact: compact, Prog: model.Encode(prog)}
	defer r.Watch("fn", c)()
	want := model.Run(prog, data(), helpers)
	if want.Unspec != "" {
		r.Exclude("unspecified")
		return nil
	}
	res := vk.Safe(func() (string, error) { return plush.Render(src, model.Context(data(), helpers)) })
	r.Count(src, class)
	r.Sample(func() interface{} {
		return map[string]interface{}{"template": src, "expected": want.Out, "expected_error": want.Err}
	})
	fail := func(f string, a ...interface{}) *vk.Fail {
		return &vk.Fail{Kind: "fn", Case: c, Msg: src + ": " + fmt.Sprintf(f, a...)}
	}
	if res.Panicked() {
		return fail("%s", res)
	}
	if want.Err != "" {
		if res.Err == nil {
			return fail("reference says error (%s), render gave %q", want.Err, res.Out)
		}
		return nil
	}
	if res.Err != nil {
		return fail("render failed: %v; reference output %q", res.Err, want.Out)
	}
	if !match.SameText(res.Out, want.Out) {
		return fail("output %q, reference says %q", res.Out, want.Out)
	}
	return nil
}

// ---- generator --------------------------------------------------------------------

type fam int

const (
	famInt fam = iota
	famStr
	famBool
)

var paramNames = []string{"a", "b", "c", "d"}

type fnGen struct {
	t      *rapid.T
	ret    int
	fams   []fam // family of each parameter
	retInt bool  // the function returns small ints instead of labels
}

func (g *fnGen) litOf(f fam) model.Expr {
	switch f {
	case famInt:
		return model.Lit{V: rapid.IntRange(0, 2).Draw(g.t, "ilit")}
	case famStr:
		return model.Lit{V: rapid.SampledFrom([]string{"x", "y", "A", "B"}).Draw(g.t, "slit")}
	}
	return model.Lit{V: rapid.Bool().Draw(g.t, "blit")}
}

func (g *fnGen) retStmt() model.Node {
	g.ret++
	if g.retInt {
		return model.Code{S: model.ReturnS{X: model.Lit{V: g.ret}}}
	}
	return model.Code{S: model.ReturnS{X: model.Lit{V: fmt.Sprintf("r%d", g.ret)}}}
}

func (g *fnGen) cond() model.Expr {
	t := g.t
	if len(g.fams) == 0 {
		return model.Lit{V: rapid.Bool().Draw(t, "c")}
	}
	pi := rapid.IntRange(0, len(g.fams)-1).Draw(t, "param")
	p := model.Var{Name: paramNames[pi]}
	f := g.fams[pi]
	switch k := rapid.IntRange(0, 6).Draw(t, "ck"); {
	case k == 0:
		return p // truthiness of the parameter
	case k == 1:
		return model.Not{X: p}
	case k == 2 && f == famInt:
		return model.Bin{Op: rapid.SampledFrom([]string{"<", ">", "<=", ">="}).Draw(t, "cmp"), L: p, R: g.litOf(f)}
	case k == 3:
		// compare two parameters of the same family
		for qi, qf := range g.fams {
			if qi != pi && qf == f {
				return model.Bin{Op: rapid.SampledFrom([]string{"==", "!="}).Draw(t, "eq"), L: p, R: model.Var{Name: paramNames[qi]}}
			}
		}
	case k == 4:
		return model.Bin{Op: "!=", L: p, R: g.litOf(f)}
	}
	return model.Bin{Op: "==", L: p, R: g.litOf(f)}
}

// chain: a decision chain; every path ends in a return when final is true.
func (g *fnGen) chain(depth int, final bool) []model.Node {
	t := g.t
	var out []model.Node
	n := rapid.IntRange(0, 2).Draw(t, "ifs")
	if depth <= 0 {
		n = 0
	}
	for i := 0; i < n; i++ {
		f := &model.If{Cond: g.cond(), Then: g.block(depth - 1)}
		for j := rapid.IntRange(0, 2).Draw(t, "elseifs"); j > 0; j-- {
			f.ElseIfs = append(f.ElseIfs, model.ElseIf{Cond: g.cond(), Then: g.block(depth - 1)})
		}
		if rapid.Bool().Draw(t, "else") {
			f.HasElse = true
			f.Else = g.block(depth - 1)
		}
		out = append(out, model.Code{S: model.IfS{If: f}})
		if rapid.IntRange(0, 9).Draw(t, "txt") == 0 { // text rendered before the return is not part of the value
			out = append(out, model.Text{S: "(body text)"})
		}
		if rapid.IntRange(0, 4).Draw(t, "let") == 0 {
			out = append(out, model.Code{S: model.LetS{Name: "tmp", X: model.Lit{V: "local"}}})
		}
	}
	if final {
		out = append(out, g.retStmt())
		if rapid.IntRange(0, 3).Draw(t, "dead") == 0 { // dead code after the return
			out = append(out, g.retStmt())
		}
	}
	return out
}

func (g *fnGen) block(depth int) []model.Node {
	// a branch either returns (possibly after a nested chain) or falls through
	if rapid.IntRange(0, 4).Draw(g.t, "fall") == 0 {
		return g.chain(depth, false)
	}
	return g.chain(depth, true)
}

// argument for a parameter of family f: literal, a plain variable, or a variable
// that is NAMED LIKE ONE OF THE FUNCTION'S PARAMETERS (only for string parameters,
// whose caller-side namesakes hold strings).
func (g *fnGen) arg(f fam) model.Expr {
	t := g.t
	if rapid.IntRange(0, 6).Draw(t, "nilarg") == 0 {
		// nil is a value like any other: the parameter is BOUND to it (and hides a caller variable of the same name)
		return model.Lit{V: nil}
	}
	switch f {
	case famInt:
		if rapid.Bool().Draw(t, "var") {
			return model.Var{Name: rapid.SampledFrom([]string{"i0", "i1", "i2"}).Draw(t, "iv")}
		}
		return g.litOf(f)
	case famBool:
		if rapid.Bool().Draw(t, "var") {
			return model.Var{Name: rapid.SampledFrom([]string{"t", "f"}).Draw(t, "bv")}
		}
		return g.litOf(f)
	}
	switch rapid.IntRange(0, 3).Draw(t, "sk") {
	case 0:
		return g.litOf(f)
	case 1:
		return model.Var{Name: rapid.SampledFrom([]string{"sx", "sy"}).Draw(t, "sv")}
	}
	return model.Var{Name: rapid.SampledFrom(paramNames).Draw(t, "namesake")}
}

func (g *fnGen) program() ([]model.Node, string) {
	t := g.t
	np := rapid.IntRange(0, 4).Draw(t, "nparams")
	g.fams = nil
	for i := 0; i < np; i++ {
		g.fams = append(g.fams, fam(rapid.IntRange(0, 2).Draw(t, "fam")))
	}
	// bias: all-string parameters so that swapped namesake arguments are common
	if rapid.IntRange(0, 2).Draw(t, "allstr") == 0 {
		for i := range g.fams {
			g.fams[i] = famStr
		}
	}
	use := rapid.IntRange(0, 11).Draw(t, "use")
	g.retInt = use == 5
	body := g.chain(3, true)
	def := model.Code{S: model.LetS{Name: "fun", X: model.FnLit{Params: paramNames[:np], Body: body}}}
	var args []model.Expr
	for _, f := range g.fams {
		args = append(args, g.arg(f))
	}
	// an argument that is itself a call of the SAME function (its result has
	// the right family for string parameters, or int parameters of an
	// int-returning function)
	if np > 0 && rapid.IntRange(0, 2).Draw(t, "nested") == 0 {
		want := famStr
		if g.retInt {
			want = famInt
		}
		var pos []int
		for i, f := range g.fams {
			if f == want {
				pos = append(pos, i)
			}
		}
		if len(pos) > 0 {
			at := rapid.SampledFrom(pos).Draw(t, "nestpos")
			var inner []model.Expr
			for _, f := range g.fams {
				inner = append(inner, g.arg(f))
			}
			args[at] = model.Call{Fn: "fun", Args: inner}
		}
	}
	call := model.Call{Fn: "fun", Args: args}
	T := func(s string) model.Node { return model.Text{S: s} }
	prog := []model.Node{def, T("[")}
	class := ""
	switch use {
	case 0, 1:
		class = "emit"
		prog = append(prog, model.Emit{X: call})
	case 2:
		class = "let-then-emit"
		prog = append(prog, model.Code{S: model.LetS{Name: "res", X: call}}, model.Emit{X: model.Var{Name: "res"}})
	case 3:
		class = "compare"
		prog = append(prog, model.Emit{X: model.Bin{Op: "==", L: call, R: model.Lit{V: fmt.Sprintf("r%d", rapid.IntRange(1, 4).Draw(t, "rk"))}}})
	case 4:
		class = "if-test"
		prog = append(prog, model.EmitIf{If: &model.If{Cond: call, Then: []model.Node{T("T")}, HasElse: true, Else: []model.Node{T("F")}}})
	case 5:
		class = "arithmetic"
		prog = append(prog, model.Emit{X: model.Bin{Op: "+", L: call, R: model.Lit{V: 100}}})
	case 6:
		class = "concat"
		prog = append(prog, model.Emit{X: model.Bin{Op: "+", L: model.Lit{V: "p-"}, R: call}})
	case 7:
		class = "arg-of-user-fn"
		prog = append(prog, model.Code{S: model.LetS{Name: "wrap", X: model.FnLit{Params: []string{"x"}, Body: []model.Node{model.Code{S: model.ReturnS{X: model.Var{Name: "x"}}}}}}},
			model.Emit{X: model.Call{Fn: "wrap", Args: []model.Expr{call}}})
	case 8:
		class = "arg-of-go-helper"
		prog = append(prog, model.Emit{X: model.Call{Fn: "id", Args: []model.Expr{call}}})
	case 9:
		class = "emit-inside-if-block"
		prog = append(prog, model.EmitIf{If: &model.If{Cond: model.Lit{V: true}, Then: []model.Node{T("a"), model.Emit{X: call}, T("b")}}})
	case 10:
		class = "emit-inside-for-block"
		prog = append(prog, model.EmitFor{For: &model.For{Val: "it", Iter: model.Var{Name: "two"}, Body: []model.Node{T("a"), model.Emit{X: call}, T("b")}}})
	case 11:
		class = "higher-order"
		ap := model.FnLit{Params: append([]string{"h"}, paramNames[:np]...), Body: []model.Node{model.Code{S: model.ReturnS{X: model.Call{Fn: "h", Args: varsOf(paramNames[:np])}}}}}
		prog = append(prog, model.Code{S: model.LetS{Name: "ap", X: ap}}, model.Emit{X: model.Call{Fn: "ap", Args: append([]model.Expr{model.Var{Name: "fun"}}, args...)}})
	}
	prog = append(prog, T("]"))
	return prog, class
}

// sequence: SEVERAL functions of one signature and several calls in one render.
// The same called name has to resolve to different functions at different
// moments: a higher-order function handed each of them in turn, a parameter
// named like a function the caller has already called, an alias rebound with
// let / = between calls.
func (g *fnGen) sequence() ([]model.Node, string) {
	t := g.t
	np := rapid.IntRange(0, 3).Draw(t, "nparams")
	g.fams = nil
	for i := 0; i < np; i++ {
		g.fams = append(g.fams, fam(rapid.IntRange(0, 2).Draw(t, "fam")))
	}
	nf := rapid.IntRange(2, 3).Draw(t, "nfuncs")
	names := []string{"f0", "f1", "f2"}[:nf]
	var prog []model.Node
	for _, n := range names {
		prog = append(prog, model.Code{S: model.LetS{Name: n, X: model.FnLit{Params: paramNames[:np], Body: g.chain(2, true)}}})
	}
	ps := paramNames[:np]
	// ap(h, params...) calls its parameter; sh(f0, params...) calls a PARAMETER
	// named like the first function; tw(h, k, params...) calls two parameters
	prog = append(prog,
		model.Code{S: model.LetS{Name: "ap", X: model.FnLit{Params: append([]string{"h"}, ps...), Body: []model.Node{model.Code{S: model.ReturnS{X: model.Call{Fn: "h", Args: varsOf(ps)}}}}}}},
		model.Code{S: model.LetS{Name: "sh", X: model.FnLit{Params: append([]string{"f0"}, ps...), Body: []model.Node{model.Code{S: model.ReturnS{X: model.Call{Fn: "f0", Args: varsOf(ps)}}}}}}},
		model.Code{S: model.LetS{Name: "tw", X: model.FnLit{Params: append([]string{"h", "k"}, ps...), Body: []model.Node{
			model.Code{S: model.LetS{Name: "fst", X: model.Call{Fn: "h", Args: varsOf(ps)}}},
			model.Code{S: model.ReturnS{X: model.Bin{Op: "+", L: model.Bin{Op: "+", L: model.Var{Name: "fst"}, R: model.Lit{V: "&"}}, R: model.Call{Fn: "k", Args: varsOf(ps)}}}}}}}},
	)
	args := func() []model.Expr {
		var out []model.Expr
		for _, f := range g.fams {
			out = append(out, g.arg(f))
		}
		return out
	}
	fv := func() model.Expr { return model.Var{Name: rapid.SampledFrom(names).Draw(t, "fn")} }
	class := map[string]bool{}
	aliased := false
	for i, n := 0, rapid.IntRange(2, 5).Draw(t, "ncalls"); i < n; i++ {
		prog = append(prog, model.Text{S: "["})
		k := rapid.IntRange(0, 6).Draw(t, "how")
		if k >= 5 && !aliased {
			k = 4
		}
		switch k {
		case 0:
			class["direct"] = true
			prog = append(prog, model.Emit{X: model.Call{Fn: rapid.SampledFrom(names).Draw(t, "fn"), Args: args()}})
		case 1:
			class["ap"] = true
			prog = append(prog, model.Emit{X: model.Call{Fn: "ap", Args: append([]model.Expr{fv()}, args()...)}})
		case 2:
			class["shadow"] = true
			prog = append(prog, model.Emit{X: model.Call{Fn: "sh", Args: append([]model.Expr{fv()}, args()...)}})
		case 3:
			class["two"] = true
			prog = append(prog, model.Emit{X: model.Call{Fn: "tw", Args: append([]model.Expr{fv(), fv()}, args()...)}})
		case 4:
			class["alias-let"] = true
			aliased = true
			prog = append(prog, model.Code{S: model.LetS{Name: "al", X: fv()}}, model.Emit{X: model.Call{Fn: "al", Args: args()}})
		case 5:
			class["alias-assign"] = true
			prog = append(prog, model.Code{S: model.AssignS{Name: "al", X: fv()}}, model.Emit{X: model.Call{Fn: "al", Args: args()}})
		case 6:
			class["alias-again"] = true
			prog = append(prog, model.Emit{X: model.Call{Fn: "al", Args: args()}})
		}
		prog = append(prog, model.Text{S: "]"})
	}
	var cs []string
	for _, c := range []string{"direct", "ap", "shadow", "two", "alias-let", "alias-assign", "alias-again"} {
		if class[c] {
			cs = append(cs, c)
		}
	}
	return prog, "seq:" + strings.Join(cs, "+")
}

func varsOf(names []string) []model.Expr {
	var out []model.Expr
	for _, n := range names {
		out = append(out, model.Var{Name: n})
	}
	return out
}

// ---- fixed programs ---------------------------------------------------------------------

func fixed() [][]model.Node {
	T := func(s string) model.Node { return model.Text{S: s} }
	ret := func(e model.Expr) model.Node { return model.Code{S: model.ReturnS{X: e}} }
	v := func(n string) model.Expr { return model.Var{Name: n} }
	let := func(n string, e model.Expr) model.Node { return model.Code{S: model.LetS{Name: n, X: e}} }
	call := func(fn string, a ...model.Expr) model.Expr { return model.Call{Fn: fn, Args: a} }
	emit := func(e model.Expr) model.Node { return model.Emit{X: e} }
	sif := func(c model.Expr, ns ...model.Node) model.Node {
		return model.Code{S: model.IfS{If: &model.If{Cond: c, Then: ns}}}
	}
	pair := let("pair", model.FnLit{Params: []string{"a", "b"}, Body: []model.Node{ret(model.Bin{Op: "+", L: model.Bin{Op: "+", L: v("a"), R: model.Lit{V: "-"}}, R: v("b")})}})
	tri := let("tri", model.FnLit{Params: []string{"a", "b", "c"}, Body: []model.Node{ret(model.Bin{Op: "+", L: model.Bin{Op: "+", L: v("a"), R: v("b")}, R: v("c")})}})
	one := let("one", model.FnLit{Body: []model.Node{ret(model.Lit{V: 1})}})
	no := let("no", model.FnLit{Body: []model.Node{ret(model.Lit{V: false})}})
	empty := let("empty", model.FnLit{Body: []model.Node{ret(model.Lit{V: ""})}})
	idf := let("idf", model.FnLit{Params: []string{"x"}, Body: []model.Node{ret(v("x"))}})
	countdown := let("cd", model.FnLit{Params: []string{"n"}, Body: []model.Node{
		sif(model.Bin{Op: "==", L: v("n"), R: model.Lit{V: 0}}, ret(model.Lit{V: "done"})),
		ret(call("cd", model.Bin{Op: "-", L: v("n"), R: model.Lit{V: 1}}))}})
	sum := let("sum", model.FnLit{Params: []string{"n"}, Body: []model.Node{
		sif(model.Bin{Op: "<=", L: v("n"), R: model.Lit{V: 0}}, ret(model.Lit{V: 0})),
		ret(model.Bin{Op: "+", L: v("n"), R: call("sum", model.Bin{Op: "-", L: v("n"), R: model.Lit{V: 1}})})}})
	first := let("first", model.FnLit{Params: []string{"x"}, Body: []model.Node{
		sif(v("x"), ret(model.Lit{V: "one"}), ret(model.Lit{V: "dead"})),
		ret(model.Lit{V: "two"}), ret(model.Lit{V: "three"})}})
	apply := let("apply", model.FnLit{Params: []string{"h", "x"}, Body: []model.Node{ret(call("h", v("x")))}})
	var out [][]model.Node
	add := func(ns ...model.Node) { out = append(out, ns) }
	add(pair, emit(call("pair", v("a"), v("b"))))
	add(pair, emit(call("pair", v("b"), v("a")))) // swapped namesakes
	add(tri, emit(call("tri", v("c"), v("a"), v("b"))))
	add(tri, emit(call("tri", v("b"), v("c"), v("a"))))
	add(pair, emit(call("pair", v("b"), model.Lit{V: "lit"})))
	add(pair, emit(call("pair", call("pair", v("b"), v("a")), v("a"))))
	add(pair, emit(call("pair", v("a"), call("pair", v("b"), v("a"))))) // the same function called inside a LATER argument
	// nil arguments: the parameter is bound to nil and hides the caller's variable of the same name
	add(let("isset", model.FnLit{Params: []string{"a", "b"}, Body: []model.Node{sif(v("a"), ret(model.Lit{V: "a-set"})), sif(v("b"), ret(model.Lit{V: "b-set"})), ret(model.Lit{V: "none"})}}),
		emit(call("isset", model.Lit{V: nil}, model.Lit{V: nil})), T("|"), emit(call("isset", model.Lit{V: nil}, v("a"))), T("|"), emit(call("isset", v("b"), model.Lit{V: nil})))
	add(let("deep", model.FnLit{Params: []string{"a", "n"}, Body: []model.Node{sif(model.Bin{Op: "==", L: v("n"), R: model.Lit{V: 0}}, sif(v("a"), ret(model.Lit{V: "saw outer a"})), ret(model.Lit{V: "a is nil"})),
		ret(call("deep", model.Lit{V: nil}, model.Bin{Op: "-", L: v("n"), R: model.Lit{V: 1}}))}}), emit(call("deep", model.Lit{V: "outer"}, model.Lit{V: 2})))
	add(tri, emit(call("tri", v("a"), call("tri", v("b"), v("c"), v("a")), call("tri", v("c"), v("c"), v("b")))))
	add(let("pick", model.FnLit{Params: []string{"a", "b"}, Body: []model.Node{ret(v("a"))}}), emit(call("pick", model.Lit{V: 9}, call("pick", model.Lit{V: 2}, model.Lit{V: 3}))))
	add(let("ack", model.FnLit{Params: []string{"m", "n"}, Body: []model.Node{
		sif(model.Bin{Op: "==", L: v("m"), R: model.Lit{V: 0}}, ret(model.Bin{Op: "+", L: v("n"), R: model.Lit{V: 1}})),
		sif(model.Bin{Op: "==", L: v("n"), R: model.Lit{V: 0}}, ret(call("ack", model.Bin{Op: "-", L: v("m"), R: model.Lit{V: 1}}, model.Lit{V: 1}))),
		ret(call("ack", model.Bin{Op: "-", L: v("m"), R: model.Lit{V: 1}}, call("ack", v("m"), model.Bin{Op: "-", L: v("n"), R: model.Lit{V: 1}})))}}),
		emit(call("ack", model.Lit{V: 2}, model.Lit{V: 2})))
	add(one, emit(model.Bin{Op: "+", L: call("one"), R: model.Lit{V: 1}}))
	add(one, emit(model.Bin{Op: "==", L: call("one"), R: model.Lit{V: 1}}))
	add(one, emit(model.Bin{Op: "<", L: call("one"), R: model.Lit{V: 2}}))
	add(no, model.EmitIf{If: &model.If{Cond: call("no"), Then: []model.Node{T("T")}, HasElse: true, Else: []model.Node{T("F")}}})
	add(empty, model.EmitIf{If: &model.If{Cond: call("empty"), Then: []model.Node{T("T")}, HasElse: true, Else: []model.Node{T("F")}}})
	add(no, emit(model.Not{X: call("no")}))
	add(no, emit(model.Bin{Op: "||", L: call("no"), R: model.Lit{V: false}}))
	add(one, model.EmitIf{If: &model.If{Cond: model.Lit{V: true}, Then: []model.Node{T("a"), emit(call("one")), T("b")}}}, T("c"))
	add(one, model.EmitFor{For: &model.For{Val: "it", Iter: v("two"), Body: []model.Node{T("a"), emit(call("one")), T("b")}}})
	add(one, idf, emit(call("idf", call("one"))), emit(call("id", call("one"))))
	add(idf, emit(model.Bin{Op: "+", L: model.Lit{V: "s"}, R: call("idf", model.Lit{V: "t"})}))
	add(idf, let("r", call("idf", model.Lit{V: 5})), emit(model.Bin{Op: "*", L: v("r"), R: model.Lit{V: 2}}))
	add(first, emit(call("first", v("t"))), T("|"), emit(call("first", v("f"))))
	add(idf, apply, emit(call("apply", v("idf"), model.Lit{V: "ho"})))
	add(idf, let("alias", v("idf")), emit(call("alias", model.Lit{V: "al"})))
	for _, k := range []int{0, 1, 5, 25} {
		add(countdown, emit(call("cd", model.Lit{V: k})))
		add(sum, emit(call("sum", model.Lit{V: k})))
	}
	// self-recursion whose parameters (and lets) are read AFTER the inner call has returned: every invocation has
	// its own fresh scope
	lit := func(x interface{}) model.Expr { return model.Lit{V: x} }
	bin := func(op string, l, r model.Expr) model.Expr { return model.Bin{Op: op, L: l, R: r} }
	sumAfter := let("sa", model.FnLit{Params: []string{"n"}, Body: []model.Node{
		sif(bin("<=", v("n"), lit(0)), ret(lit(0))),
		ret(bin("+", call("sa", bin("-", v("n"), lit(1))), v("n")))}})
	fib := let("fib", model.FnLit{Params: []string{"n"}, Body: []model.Node{
		sif(bin("<", v("n"), lit(2)), ret(v("n"))),
		ret(bin("+", call("fib", bin("-", v("n"), lit(1))), call("fib", bin("-", v("n"), lit(2)))))}})
	viaLet := let("vl", model.FnLit{Params: []string{"n"}, Body: []model.Node{
		sif(bin("==", v("n"), lit(0)), ret(lit("."))),
		let("mine", bin("+", lit("m"), v("n"))),
		let("r", call("vl", bin("-", v("n"), lit(1)))),
		ret(bin("+", bin("+", v("r"), v("mine")), v("n")))}})
	swap := let("sw", model.FnLit{Params: []string{"a", "b", "n"}, Body: []model.Node{
		sif(bin("==", v("n"), lit(0)), ret(v("a"))),
		let("r", call("sw", v("b"), v("a"), bin("-", v("n"), lit(1)))),
		ret(bin("+", bin("+", bin("+", v("r"), lit("/")), v("a")), v("b")))}})
	for _, k := range []int{0, 1, 2, 4, 7} {
		add(sumAfter, emit(call("sa", lit(k))))
		add(fib, emit(call("fib", lit(k))))
		add(viaLet, emit(call("vl", lit(k))))
		add(swap, emit(call("sw", v("a"), v("b"), lit(k))), T("|"), emit(call("sw", lit("x"), lit("y"), lit(k))))
	}
	add(let("noisy", model.FnLit{Params: []string{"x"}, Body: []model.Node{T("before"), emit(v("x")), ret(model.Lit{V: "val"}), T("after")}}),
		emit(call("noisy", model.Lit{V: "arg"})), T("|"), emit(model.Bin{Op: "==", L: call("noisy", model.Lit{V: 1}), R: model.Lit{V: "val"}}))
	// a function returning a function
	add(let("mk", model.FnLit{Body: []model.Node{ret(model.FnLit{Params: []string{"x"}, Body: []model.Node{ret(model.Bin{Op: "+", L: v("x"), R: model.Lit{V: "!"}})}})}}),
		let("g", call("mk")), emit(call("g", model.Lit{V: "hi"})))
	return out
}

const rule = "(E) 61 fixed programs: self-recursion whose parameters and lets are read after the inner call returned (sum, fibonacci, a let kept across the call, swapped arguments), swapped and rotated namesake arguments, nested calls, results used in + == < ! || and if tests, emission inside if/for blocks with content after it, aliasing, higher-order application, a function returning a function, recursion to depth 25, first-return-wins with dead code; each in the tag-per-statement and in the compact single-tag layout. (R) generated functions of 0-4 parameters (families int/string/bool) whose bodies are if/else-if/else decision chains over the parameters nested to depth 3, every path ending in return <unique label>, with dead code after returns and local lets; argument tuples from literals (incl. nil), plain variables, caller variables NAMED LIKE THE FUNCTION'S OWN PARAMETERS, and calls of the SAME function in any argument position; 12 use sites (emit, let-then-emit, ==, if test, +, string concat, argument of a user function / Go helper, inside if / for blocks with text after, higher-order through a parameter). (R2) call SEQUENCES in one render: 2-3 functions of one signature and 2-5 calls, each direct, through a higher-order function handed any of them, through a parameter NAMED LIKE an already-called function, through two function parameters in one body, or through an alias rebound with let / = between calls, so that one called name resolves to different functions at different moments. Oracle: reference interpreter (arguments evaluated in the caller's scope, parameters bound to argument values, fresh scope, first return reached). Non-trivial: every generated program (distinct by template text)."

func setup(t *testing.T) *vk.Run {
	r := vk.Start(t, "C16", rule,
		"function bodies are closed (they mention only their parameters and their own lets), so lexical and dynamic scoping agree",
		"for loops inside function bodies and calls with a wrong number of arguments are not covered by the statement")
	r.Replayer("fn", func(raw json.RawMessage) *vk.Fail {
		var c Case
		if f := vk.Decode(raw, &c); f != nil {
			return f
		}
		prog, err := model.Decode(c.Prog)
		if err != nil {
			return &vk.Fail{Kind: "decode", Msg: err.Error()}
		}
		return run(r, prog, c.Compact, "replay")
	})
	return r
}

func TestReplay(t *testing.T) { setup(t).ReplayEnv() }

func TestProp(t *testing.T) {
	r := setup(t)
	defer r.Finish()
	r.ReplayCommitted()

	fx := fixed()
	for _, p := range fx {
		r.Check(run(r, p, false, "fixed"))
		r.Check(run(r, p, true, "fixed-compact"))
	}
	r.Subspace("fixed programs x 2 layouts", int64(2*len(fx)), true)

	r.Rapid("functions", r.Pick(8000, 100000), func(t *rapid.T) *vk.Fail {
		g := &fnGen{t: t}
		prog, class := g.program()
		compact := rapid.Bool().Draw(t, "compact")
		if compact {
			class += "/compact"
		}
		return run(r, prog, compact, class)
	})
	r.Rapid("sequences", r.Pick(6000, 60000), func(t *rapid.T) *vk.Fail {
		g := &fnGen{t: t}
		prog, class := g.sequence()
		compact := rapid.Bool().Draw(t, "compact")
		if compact {
			class += "/compact"
		}
		return run(r, prog, compact, class)
	})
}
