// C15 — every template error names the line of the failing tag, invariant under shifting.
package c15

import (
	"encoding/json"
	"errors"
	"fmt"
	"html/template"
	"os"
	"regexp"
	"strconv"
	"strings"
	"sync/atomic"
	"testing"
	"time"

	"verif/internal/vk"

	plush "github.com/gobuffalo/plush/v5"
	"pgregory.net/rapid"
)

func TestMain(m *testing.M) { vk.Main(m) }

// ---- exclusion table -------------------------------------------------------------
//
// Generator classes that reproduce a genuine defect of the tree and are steered away from so that the rest of
// the space is still checked. EMPTY THIS TABLE (or delete single lines) once the defect is fixed in /repo:
// the cases of that class are then generated and asserted like all others. An open entry of
// known_findings.json that lists the class name has the same effect (r.OpenClass).
var knownOpen = map[string]bool{
	// (empty: AF-14, AF-15 and AF-16 were fixed in /repo; their classes
	// "parse-number-literal-message", "runtime-error-after-block",
	// "runtime-error-after-call-in-same-statement" and
	// "error-keyed-to-last-token-before-newline" are generated and asserted like all others)
	//
	// Hunter round: two classes reproduce defects that are NOT yet fixed in /repo. They are left live on purpose
	// (the check reports them until the fixes are applied; afterwards the shapes are regression coverage):
	//   "runtime-error-after-a-failure-a-helper-forgave"  fix: /tmp/hunt-C15/rescue/fix.diff
	//   "for-header-runs-past-its-tag"                    fix: /tmp/hunt-C15/forheader/fix.diff
	// To run the rest of the space meanwhile: C15_OPEN=runtime-error-after-a-failure-a-helper-forgave,for-header-runs-past-its-tag
}

// C15_NOEXCLUDE=1 ignores the table for one run (shows what the excluded classes still do on the current tree).
func isOpen(r *vk.Run, class string) bool {
	if os.Getenv("C15_NOEXCLUDE") != "" {
		return false
	}
	for _, c := range strings.Split(os.Getenv("C15_OPEN"), ",") {
		if c == class {
			return true // C15_OPEN=<class,...>: treat these classes as open for one run (mutant runs while a defect is unfixed)
		}
	}
	return knownOpen[class] || r.OpenClass(class)
}

// ---- tables ------------------------------------------------------------------------

// piece: a chunk of valid template text that renders without error on its own.
type piece struct {
	name      string
	text      string
	runsBlock bool // executes the body of a block (if / for / function / block helper) while rendering
	late      bool // later addition (set by init for the entries after latePrefixesFrom)
}

const latePrefixesFrom = "comment whose body begins with a second comment opener"

func init() {
	late := false
	for i := range prefixes {
		late = late || prefixes[i].name == latePrefixesFrom
		prefixes[i].late = late
	}
}

var prefixes = []piece{
	{name: "empty", text: ""},
	{name: "one text line", text: "hello world\n"},
	{name: "empty lines", text: "\n\n\n"},
	{name: "text, same line", text: "lead \t"},
	{name: "ok emit tag", text: "<%= 1 + 2 %>\n"},
	{name: "silent let", text: "<% let a = 1 %>\n"},
	{name: "multi-line double-quoted string", text: "<% let s = \"multi\nline\n\nstring\" %>\n"},
	{name: "multi-line back-quoted string", text: "<% let b = `raw\nback\n\nquoted` %>\n"},
	{name: "string with escaped quote and newline", text: "<% let u = \"q\\\"x\ny\" %>\n"},
	{name: "string holding tag delimiters", text: "<% let t = \"a %> b\n<% c\" %>\n"},
	{name: "multi-line comment", text: "<%# a\nmulti-line\n\ncomment %>\n"},
	{name: "comment with quote and opener", text: "<%# it's \"quoted\n<% ` %>\n"},
	{name: "comment opener directly followed by a newline", text: "<%#\nbody starts on the next line\n%>\n"},
	{name: "empty comments and comment opener followed by CRLF", text: "<%#%><%#\r\n\r\n%>\r\n<%##\n%>\n"},
	{name: "tags whose code starts on the next line", text: "<%\nlet nl = 1\n%>\n<%=\nnl\n%>\n"},
	{name: "line comment before code", text: "<% # line comment\n let c = 3 %>\n"},
	{name: "line comment after code", text: "<% let d = 4 # trailing comment\n %>\n"},
	{name: "CRLF text and tag", text: "text\r\nwith crlf\r\n<%= 2 %>\r\n"},
	{name: "CRLF inside string and comment", text: "<% let e = \"x\r\ny\" %>\r\n<%# c\r\nd %>\r\n"},
	{name: "multi-line code tag", text: "<%=\n 1 +\n 2\n%>\n"},
	{name: "multi-line hash literal", text: "<% let h = {\n\"a\": 1,\n\"b\": 2\n} %>\n"},
	{name: "escaped tag opener", text: "\\<%= not a tag %>\n"},
	{name: "multi-byte text", text: "é漢字 ü\n"},
	{name: "if not taken", text: "<%= if (false) { %>\nno\n<% } %>\n"},
	{name: "if block", text: "<%= if (true) { %>\nyes\n<% } %>\n", runsBlock: true},
	{name: "if/else block with statements", text: "<%= if (false) { %>\nno\n<% } else { %>\n<% let z = 1 %>\n<%= z %>\n<% } %>\n", runsBlock: true},
	{name: "for block", text: "<%= for (v) in xs { %>\n<%= v %>\n<% } %>\n", runsBlock: true},
	{name: "function defined and called", text: "<% let g = fn(y) { %>\n<%= y %>\n<% } %>\n<%= g(1) %>\n", runsBlock: true},
	{name: "function defined, not called", text: "<% let g = fn(y) { %>\n<%= y %>\n<% } %>\n"},
	{name: "block helper", text: "<%= blk() { %>\nin\n<% } %>\n", runsBlock: true},
	// an unknown identifier inside a NESTED statement whose failure the enclosing tag tolerates (if conditions, !,
	// ==, ||): that earlier tag succeeded, a later failure is reported on its own line
	{name: "tolerated failure in a function body, if condition", text: "<% let tf = fn() { %>\n<%= undefinedThing %>\n<% } %>\n<%= if (tf()) { %>\nyes\n<% } else { %>\nno\n<% } %>\n", runsBlock: true},
	{name: "tolerated failure in a function body, bang", text: "<% let tg = fn() {\n  return missingName\n} %>\n<%= !tg() %>\n", runsBlock: true},
	{name: "tolerated failure in a function body, == nil", text: "<% let th = fn() { %>\n<% let q = missingName %>\n<% } %>\n<%= th() == nil %>\n", runsBlock: true},
	{name: "tolerated failure in a function body, ||", text: "<% let tk = fn() { %>\n\n<% if (true) { %>\n<% return missingName %>\n<% } %>\n<% } %>\n<%= tk() || \"alt\" %>\n", runsBlock: true},
	{name: "tolerated failure in a loop in a function body", text: "<% let tl = fn() { %>\n<%= for (v) in xs { %>\n<%= missingName %>\n<% } %>\n<% } %>\n<%= if (!tl()) { %>t<% } %>\n", runsBlock: true},
	// --- later additions (hunter round): boundaries of the five scanning loops, spelled out
	{name: "comment whose body begins with a second comment opener", text: "<%# <%# inner\nopener %>\n"},
	{name: "comment whose body begins with a double quote", text: "<%#\"\n%>\n"},
	{name: "comment whose body begins with a backtick", text: "<%#`\n\n%>\n"},
	{name: "comment directly after a tag, text directly after it", text: "<%= 1 %><%# c\nd %>tail\n"},
	{name: "comment that ends the prefix without a line end", text: "<%# a\nb %>"},
	{name: "multi-line string tag that ends the prefix without a line end", text: "<% let ms = \"x\ny\" %>"},
	{name: "line comment tag that ends the prefix without a line end", text: "<% let lc = 1 # c\n%>"},
	{name: "empty line comment", text: "<% #\n let e1 = 1 %>\n"},
	{name: "line comments in a row, LF CRLF and an empty line", text: "<% # a\n # b\r\n\n # c\n let e2 = 2 %>\n"},
	{name: "line comment as the last thing of the tag", text: "<% let e3 = 3 # c\n%>\n"},
	{name: "empty lines and tabs inside a tag", text: "<%\n\n\tlet w = 1\n\n%>\n"},
	{name: "tag closed on a later line, text and tag after it", text: "<%= 1\n%>x<%= 2 %>\n"},
	{name: "escaped backslash before a live multi-line tag", text: "\\\\<%=\n1\n%>\n"},
	{name: "escaped opener with a line end inside", text: "\\<%= a\nb %>\n"},
	{name: "back-quoted string holding a double quote", text: "<% let bq = `a\"\n` %>\n"},
	{name: "double-quoted string holding a backtick and a hash", text: "<% let dq = \"a`#\n\" %>\n"},
	{name: "escaped quote directly before a line end and at the end of the string", text: "<% let eq = \"x\\\"\ny\\\"\" %>\n"},
	{name: "escaped opener directly followed by a line end", text: "\\<%\nx %>\n"},
	{name: "empty tags", text: "<%%>\n<%=%>\n<% %>\n<%\n%>\n"},
	{name: "line comment directly after the emit opener", text: "<%=# c\n1 %>\n"},
	{name: "statements separated by a semicolon, closed on the next line", text: "<% let s1 = 1 ; let s2 = 2\n%>\n"},
	{name: "line comment inside a block inside a tag, hash in text", text: "<% if (true) { # c\n} %># text\n"},
	{name: "line comment between the operands of an expression", text: "<%= \"a\" # c\n+ \"b\" %>\n"},
	{name: "ninety-seven empty lines", text: strings.Repeat("\n", 97)},
	{name: "other vertical white space is no line end", text: "a b\u0085c\vd\fe\n"},
	{name: "contentFor and contentOf", text: "<% contentFor(\"cf\") { %>\nstored\n<% } %>\n<%= contentOf(\"cf\") %>\n", runsBlock: true},
	{name: "loop run three times, if / else-if / else inside", text: "<%= for (i, v) in xs { %>\n<%= if (v == 2) { %>\ntwo\n<% } else if (v == 3) { %>\nthree\n<% } else { %>\nother\n<% } %>\n<% } %>\n", runsBlock: true},
	{name: "function called twice on one line", text: "<% let g2 = fn(y) {\n return y\n} %>\n<%= g2(1) %><%= g2(2) %>\n", runsBlock: true},
	// a Go helper that forgives the failure of its block (returns a fallback): that earlier tag succeeded
	{name: "helper forgives the failure of its block", text: "<%= rescue() { %>\n<%= missingName %>\n<% } %>\n", runsBlock: true},
	{name: "helper forgives a failure in a function called by its block", text: "<% let rf = fn() { %>\n<%= missingName %>\n<% } %>\n<%= rescue() { %><%= rf() %><% } %>\n", runsBlock: true},
}

// ctx: where the failing tag is placed. The template is prefix + kind.setup + pre + TAG + tail + gap + post + suffix.
type ctx struct {
	name, pre, post string
	top             bool   // the failing statement is a top-level statement
	loop            bool   // break / continue are legal here
	fn              bool   // the failing tag lies in the body of a template function called by post (an unterminated tag would swallow the call)
	forgives        bool   // the call site of that function tolerates an unknown identifier (C07): such kinds are no fault here
	extra           bool   // later addition: swept by E3 (and the random phase) in the quick tier, by every sweep in the thorough tier
	harmless        string // tag that validate() puts in place of the failing one (default: <%= 1 %>)
}

func (x ctx) ok() string {
	if x.harmless != "" {
		return x.harmless
	}
	return "<%= 1 %>"
}

var ctxs = []ctx{
	{name: "top", top: true},
	{name: "top, mid-line", pre: "mid \t", top: true},
	{name: "if", pre: "<%= if (true) { %>\n", post: "<% } %>"},
	{name: "else", pre: "<%= if (false) { %>\nno\n<% } else { %>\n", post: "<% } %>"},
	{name: "for", pre: "<%= for (x) in xs { %>\n", post: "<% } %>", loop: true},
	{name: "function", pre: "<% let f = fn() { %>\n", post: "<% } %>\n\n<%= f() %>", fn: true},
	{name: "block helper", pre: "<%= blk() { %>\n", post: "<% } %>"},
	{name: "for, after a tolerated failure in the same body", pre: "<% let tz = fn() { %>\n<%= missingName %>\n<% } %>\n<%= for (x) in xs { %>\n<%= if (tz()) { %>y<% } %>\n", post: "<% } %>", loop: true},
	{name: "if in for, same line", pre: "<%= for (x) in one { %><%= if (x) { %>", post: "<% } %><% } %>", loop: true},
	// --- later additions (hunter round). The body of a function holds the failing tag; what varies is the expression
	// that CALLS the function two lines further down: the error has to travel through it with its line intact.
	{name: "function, called as if condition", pre: fnPre, post: "<% } %>\n\n<%= if (f()) { %>y<% } %>", fn: true, forgives: true, extra: true},
	{name: "function, called as else-if condition", pre: fnPre, post: "<% } %>\n\n<%= if (false) { %>n<% } else if (f()) { %>y<% } %>", fn: true, forgives: true, extra: true},
	{name: "function, called under !", pre: fnPre, post: "<% } %>\n\n<%= !f() %>", fn: true, forgives: true, extra: true},
	{name: "function, called left of ==", pre: fnPre, post: "<% } %>\n\n<%= f() == nil %>", fn: true, forgives: true, extra: true},
	{name: "function, called right of !=", pre: fnPre, post: "<% } %>\n\n<%= nil != f() %>", fn: true, forgives: true, extra: true},
	{name: "function, called right of &&", pre: fnPre, post: "<% } %>\n\n<%= true && f() %>", fn: true, forgives: true, extra: true},
	{name: "function, called left of ||", pre: fnPre, post: "<% } %>\n\n<%= f() || true %>", fn: true, forgives: true, extra: true},
	{name: "function, called right of +", pre: fnPre, post: "<% } %>\n\n<%= \"a\" + f() %>", fn: true, extra: true},
	{name: "function, called left of <", pre: fnPre, post: "<% } %>\n\n<%= f() < 1 %>", harmless: "<% return 0 %>", fn: true, extra: true},
	{name: "function, called in let", pre: fnPre, post: "<% } %>\n\n<% let r = f() %>", fn: true, extra: true},
	{name: "function, called in an assignment", pre: "<% let r = 0 %>" + fnPre, post: "<% } %>\n\n<% r = f() %>", fn: true, extra: true},
	{name: "function, called in return", pre: fnPre, post: "<% } %>\n\n<% return f() %>", fn: true, extra: true},
	{name: "function, called as helper argument", pre: fnPre, post: "<% } %>\n\n<%= len(f()) %>", fn: true, extra: true},
	{name: "function, called as for iterable", pre: fnPre, post: "<% } %>\n\n<%= for (w) in f() { %>w<% } %>", fn: true, extra: true},
	{name: "function, called in an array literal", pre: fnPre, post: "<% } %>\n\n<%= [1, f()] %>", fn: true, extra: true},
	{name: "function, called in a hash literal", pre: fnPre, post: "<% } %>\n\n<% let h = {\"k\": f()} %>", fn: true, extra: true},
	{name: "function, called as index", pre: fnPre, post: "<% } %>\n\n<%= mp[f()] %>", harmless: "<% return \"a\" %>", fn: true, extra: true},
	{name: "function, called as argument of a function", pre: fnPre, post: "<% } %>\n<% let g = fn(a) { return a } %>\n<%= g(f()) %>", fn: true, extra: true},
	{name: "function, called from a function", pre: fnPre, post: "<% } %>\n<% let g = fn() { %>\n<%= f() %>\n<% } %>\n<%= g() %>", fn: true, extra: true},
	{name: "function, called in a helper block", pre: fnPre, post: "<% } %>\n\n<%= blk() { %>\n<%= f() %>\n<% } %>", fn: true, extra: true},
	{name: "function, called in a loop body", pre: fnPre, post: "<% } %>\n\n<%= for (x) in xs { %>\n<%= f() %>\n<% } %>", fn: true, extra: true},
	{name: "function, failing on its second call", pre: "<% let f = fn(n) { %>\n<%= if (n == 2) { %>\n", post: "<% } %><% } %>\n<%= f(1) %>\n<%= f(2) %>", fn: true, extra: true},
	{name: "function with parameters, called on the line after", pre: "<% let f = fn(a, b) { %>\n", post: "<% } %>\n<%= f(1, \"x\") %>", fn: true, extra: true},
	// other bodies
	{name: "loop, third iteration", pre: "<%= for (x) in xs { %>\n<%= if (x == 3) { %>\n", post: "<% } %>\n<% } %>", loop: true, extra: true},
	{name: "else-if body", pre: "<%= if (false) { %>\nno\n<% } else if (true) { %>\n", post: "<% } %>", extra: true},
	{name: "else after else-if", pre: "<%= if (false) { %>\nno\n<% } else if (false) { %>\nno\n<% } else { %>\n", post: "<% } %>", extra: true},
	{name: "for over a map", pre: "<%= for (k, v) in mp { %>\n", post: "<% } %>", loop: true, extra: true},
	{name: "for in for, second round of the outer loop", pre: "<%= for (i) in xs { %>\n<%= for (j) in one { %>\n<%= if (i == 2) { %>\n", post: "<% } %>\n<% } %>\n<% } %>", loop: true, extra: true},
	{name: "contentFor body, rendered by a later contentOf", pre: "<% contentFor(\"slot\") { %>\n", post: "<% } %>\nbetween\n<%= contentOf(\"slot\") %>", extra: true},
	{name: "default block of contentOf", pre: "<%= contentOf(\"unset\") { %>\n", post: "<% } %>", extra: true},
	{name: "helper block in a function in a helper block", pre: "<%= blk() { %>\n<% let f = fn() { %>\n<%= blk() { %>\n", post: "<% } %>\n<% } %>\n<%= f() %>\n<% } %>", fn: true, extra: true},
	{name: "function in for in if", pre: "<%= if (true) { %>\n<%= for (x) in one { %>\n<% let f = fn() { %>\n", post: "<% } %>\n<%= f() %>\n<% } %>\n<% } %>", fn: true, extra: true},
	{name: "body after a failure that a helper forgave", pre: "<%= for (x) in one { %>\n<%= rescue() { %><%= missingName %><% } %>\n", post: "<% } %>", loop: true, extra: true},
	{name: "top, directly after a comment that spans lines", pre: "<%# c1\nc2 %>", top: true, extra: true},
	{name: "top, directly after a tag that spans lines", pre: "<% let ms = `x\ny` %>", top: true, extra: true},
}

const fnPre = "<% let f = fn() { %>\n"

// kind: one failing statement. tag is the failing tag (single line, single spaces between tokens, no spaces
// inside strings, so that layouts can turn spaces into line ends); tail is further text belonging to the same
// construct (never part of the failing tag); setup is valid text needed before it.
type kind struct {
	name, family string
	setup        string
	lead         string // valid opening part of the same construct, before the failing tag
	tag, tail    string
	runtime      bool // the error is raised while rendering (else: while parsing)
	loopOnly     bool // not a fault inside a loop body (break / continue)
	toEOF        bool // the tag is unterminated: it extends to the end of the input
	// attributes used ONLY to name the generator classes of the exclusion table:
	number     bool // over-long number literal (AF-15)
	keyedToEnd bool // the parser consumes the closing %> as an operand, the message is keyed to that token (AF-16)
	afterCall  bool // a function body runs earlier in the same statement (AF-14, second shape)
	rescued    bool // a helper forgave the failure of its block earlier in the same statement
	late       bool // later addition: swept by E4 in the quick tier, by every sweep in the thorough tier
}

var kinds = []kind{
	// --- runtime families
	{name: "unknown identifier", family: "unknown-identifier", tag: `<%= nope %>`, runtime: true},
	{name: "unknown identifier in let", family: "unknown-identifier", tag: `<% let q = nope %>`, runtime: true},
	{name: "unknown function", family: "unknown-identifier", tag: `<%= nope(1) %>`, runtime: true},
	{name: "assignment to undeclared", family: "unknown-identifier", tag: `<% undeclared = 1 %>`, runtime: true},
	{name: "unknown identifier as for iterable", family: "unknown-identifier", tag: `<%= for (w) in nope { %>`, tail: `w<% } %>`, runtime: true},
	{name: "failing helper", family: "failing-helper", tag: `<%= boom() %>`, runtime: true},
	{name: "failing helper, silent tag", family: "failing-helper", tag: `<% boom() %>`, runtime: true},
	{name: "failing helper as operand", family: "failing-helper", tag: `<%= "a" + boom() %>`, runtime: true},
	{name: "failing helper as if condition", family: "failing-helper", tag: `<%= if (boom()) { %>`, tail: `c<% } %>`, runtime: true},
	{name: "type error int + string", family: "type-error", tag: `<%= 1 + "a" %>`, runtime: true},
	{name: "type error minus string", family: "type-error", tag: `<%= -"a" %>`, runtime: true},
	{name: "no such field", family: "type-error", tag: `<%= xs.Nope %>`, runtime: true},
	{name: "call of a non-function", family: "type-error", tag: `<%= xs() %>`, runtime: true},
	{name: "dangling operator", family: "type-error", tag: `<%= 1 + %>`, runtime: true},
	{name: "minus without operand", family: "type-error", tag: `<%= - %>`, runtime: true},
	{name: "index of an int", family: "type-error", tag: `<%= xs[1][2] %>`, runtime: true},
	{name: "invalid regular expression", family: "type-error", tag: `<%= "a" ~= "(" %>`, runtime: true},
	{name: "no such field, nested", family: "type-error", tag: `<%= one.Foo.Bar %>`, runtime: true},
	{name: "failing helper in else-if condition", family: "failing-helper", lead: "<%= if (false) { %>\nc\n", tag: `<% } else if (boom()) { %>`, tail: `d<% } %>`, runtime: true},
	{name: "index out of range", family: "index-out-of-range", tag: `<%= xs[9] %>`, runtime: true},
	{name: "index out of range on literal", family: "index-out-of-range", tag: `<%= [1,2][5] %>`, runtime: true},
	{name: "division by zero", family: "division-by-zero", tag: `<%= 1 / 0 %>`, runtime: true},
	{name: "division by zero in let", family: "division-by-zero", tag: `<% let q = 7 / 0 %>`, runtime: true},
	{name: "unknown identifier after a call", family: "unknown-identifier", setup: "<% let f0 = fn() { %>\n<% let i0 = 1 %>\n<% } %>\n\n", tag: `<%= f0() + nope %>`, runtime: true, afterCall: true},
	// a failure that the SAME statement forgives (an unknown identifier raised in the body of a called function, used as
	// an operand of == / && / ! or as an if condition) comes first; the statement then fails for another reason
	{name: "type error after a forgiven failure, &&", family: "type-error", setup: "<% let t0 = fn() { %>\n<% return missingName %>\n<% } %>\n\n", tag: `<%= t0() == nil && 1 + "a" %>`, runtime: true, afterCall: true},
	{name: "failing helper after a forgiven failure, ==", family: "failing-helper", setup: "<% let t0 = fn() { %>\n<% return missingName %>\n<% } %>\n\n", tag: `<%= t0() == boom() %>`, runtime: true, afterCall: true},
	{name: "division by zero after a forgiven failure, !", family: "division-by-zero", setup: "<% let t0 = fn() { %>\n<% let q0 = missingName %>\n<% } %>\n\n", tag: `<%= !t0() && 1 / 0 %>`, runtime: true, afterCall: true},
	{name: "failing helper in else-if after a forgiven if condition", family: "failing-helper", setup: "<% let t0 = fn() { %>\n<% return missingName %>\n<% } %>\n\n", lead: "<%= if (t0()) { %>\nc\n", tag: `<% } else if (boom()) { %>`, tail: `d<% } %>`, runtime: true, afterCall: true},
	{name: "unknown identifier, unterminated tag", family: "unterminated", tag: `<%= nope`, runtime: true, toEOF: true},
	{name: "unknown identifier, unterminated string", family: "unterminated", tag: `<%= nope + "abc`, runtime: true, toEOF: true},
	{name: "unknown identifier, unterminated raw string", family: "unterminated", tag: "<%= nope + `abc", runtime: true, toEOF: true},
	// --- syntax families
	{name: "unbalanced (", family: "unbalanced", tag: `<%= (1 %>`},
	{name: "unbalanced [", family: "unbalanced", tag: `<%= [1 %>`},
	{name: "unbalanced {", family: "unbalanced", tag: `<%= {"a": 1 %>`},
	{name: "unclosed index", family: "unbalanced", tag: `<%= xs[1 %>`},
	{name: "open index", family: "unbalanced", tag: `<%= xs[ %>`, keyedToEnd: true},
	{name: "open call", family: "unbalanced", tag: `<%= boom( %>`, keyedToEnd: true},
	{name: "open call after comma", family: "unbalanced", tag: `<%= boom(1, %>`, keyedToEnd: true},
	{name: "open paren", family: "unbalanced", tag: `<%= ( %>`, keyedToEnd: true},
	{name: "open array after comma", family: "unbalanced", tag: `<%= [1, %>`, keyedToEnd: true},
	{name: "open hash after colon", family: "unbalanced", tag: `<%= {"a": %>`, keyedToEnd: true},
	{name: "open fn parameters", family: "unbalanced", tag: `<%= fn( %>`, keyedToEnd: true},
	{name: "open if condition", family: "unbalanced", tag: `<%= if ( %>`, keyedToEnd: true},
	{name: "open for header", family: "unbalanced", tag: `<%= for ( %>`},
	{name: "call arguments without comma", family: "unbalanced", tag: `<%= boom(1 2) %>`},
	{name: "stray )", family: "unbalanced", tag: `<%= ) %>`},
	{name: "stray ]", family: "unbalanced", tag: `<%= ] %>`},
	{name: "stray }", family: "unbalanced", tag: `<%= } %>`},
	{name: "unbalanced (, unterminated string", family: "unterminated", tag: `<%= (1 + "abc`, toEOF: true},
	{name: "dangling operator, unterminated tag", family: "unterminated", tag: `<%= 1 +`, runtime: true, toEOF: true}, // following text becomes the operand: fails while rendering
	{name: "if missing {", family: "missing-brace-or-paren", tag: `<%= if (true) %>`, tail: `c<% } %>`},
	{name: "if missing )", family: "missing-brace-or-paren", tag: `<%= if (true { %>`, tail: `c<% } %>`},
	{name: "if missing (", family: "missing-brace-or-paren", tag: `<%= if true { %>`, tail: `c<% } %>`},
	{name: "for missing {", family: "missing-brace-or-paren", tag: `<%= for (w) in xs %>`, tail: `c<% } %>`},
	{name: "for missing ( )", family: "missing-brace-or-paren", tag: `<%= for w in xs { %>`, tail: `c<% } %>`},
	{name: "else missing {", family: "missing-brace-or-paren", lead: "<%= if (true) { %>\nc\n", tag: `<% } else %>`, tail: `d<% } %>`},
	{name: "else if missing ( )", family: "if-without-condition", lead: "<%= if (true) { %>c", tag: `<% } else if { %>`, tail: `d<% } %>`},
	{name: "let missing name after let", family: "malformed-let", tag: `<% let q = 1 let %>`},
	{name: "return in emit tag", family: "illegal-character", tag: `<%= return %>`},
	{name: "fn missing {", family: "missing-brace-or-paren", tag: `<%= fn(p) %>`},
	{name: "fn missing )", family: "missing-brace-or-paren", tag: `<%= fn(p { } %>`},
	{name: "illegal character @", family: "illegal-character", tag: `<%= 1 @ 2 %>`},
	{name: "illegal character alone", family: "illegal-character", tag: `<%= @ %>`},
	{name: "illegal single &", family: "illegal-character", tag: `<%= 1 & 2 %>`},
	{name: "illegal single |", family: "illegal-character", tag: `<%= 1 | 2 %>`},
	{name: "illegal number 1.2.3", family: "illegal-character", tag: `<%= 1.2.3 %>`},
	{name: "prefix *", family: "illegal-character", tag: `<%= * 2 %>`},
	{name: "let without name", family: "malformed-let", tag: `<% let = 1 %>`},
	{name: "let without =", family: "malformed-let", tag: `<% let q 1 %>`},
	{name: "let number", family: "malformed-let", tag: `<% let 1 = 2 %>`},
	{name: "if without condition", family: "if-without-condition", tag: `<%= if () { %>`, tail: `c<% } %>`},
	{name: "if without ( )", family: "if-without-condition", tag: `<%= if { %>`, tail: `c<% } %>`},
	{name: "for without in", family: "for-without-in", tag: `<%= for (w) xs { %>`, tail: `c<% } %>`},
	{name: "break outside a loop", family: "break-outside-loop", tag: `<% break %>`, loopOnly: true},
	{name: "continue outside a loop", family: "break-outside-loop", tag: `<% continue %>`, loopOnly: true},
	{name: "over-long integer literal", family: "over-long-number", tag: `<%= 99999999999999999999 %>`, number: true},
	{name: "over-long integer literal in let", family: "over-long-number", tag: `<% let q = 123456789012345678901234567890 %>`, number: true},
	{name: "over-long float literal", family: "over-long-number", tag: `<%= 1` + strings.Repeat("9", 400) + `.5 %>`, number: true},
	// --- later additions (hunter round): the same families raised from other expression shapes
	{name: "unknown identifier in return", family: "unknown-identifier", tag: `<% return nope %>`, runtime: true, late: true},
	{name: "unknown identifier as index", family: "unknown-identifier", tag: `<%= xs[nope] %>`, runtime: true, late: true},
	{name: "unknown identifier in a hash literal", family: "unknown-identifier", tag: `<% let q = {"a": 1, "b": nope} %>`, runtime: true, late: true},
	{name: "unknown identifier in an array literal", family: "unknown-identifier", tag: `<%= [1, nope] %>`, runtime: true, late: true},
	{name: "unknown identifier as receiver", family: "unknown-identifier", tag: `<%= nope.Foo.Bar %>`, runtime: true, late: true},
	{name: "unknown identifier as method receiver", family: "unknown-identifier", tag: `<%= nope.Call() %>`, runtime: true, late: true},
	{name: "unknown identifier indexed", family: "unknown-identifier", tag: `<%= nope[1] %>`, runtime: true, late: true},
	{name: "unknown identifier as right operand of <", family: "unknown-identifier", tag: `<%= 1 < nope %>`, runtime: true, late: true},
	{name: "unknown function in a block inside one tag", family: "unknown-identifier", tag: `<% if (true) { nope(1) } %>`, runtime: true, late: true},
	{name: "failing helper in a loop inside one tag", family: "failing-helper", tag: `<% for (w) in xs { boom() } %>`, runtime: true, late: true},
	{name: "failing helper after a call that returned a value", family: "failing-helper", setup: "<% let r0 = fn() {\n return 1\n} %>\n\n", tag: `<%= r0() + boom() %>`, runtime: true, afterCall: true, late: true},
	{name: "type error after a call that returned from a nested block", family: "type-error", setup: "<% let r1 = fn(a) { %>\n<% if (a) { %>\n<% return 1 %>\n<% } %>\n<% } %>\n\n", tag: `<%= [r1(true), 1 + "a"] %>`, runtime: true, afterCall: true, late: true},
	{name: "unknown identifier as argument of a template function", family: "unknown-identifier", setup: "<% let f1 = fn(p) { %>\n<%= p %>\n<% } %>\n\n", tag: `<%= f1(nope) %>`, runtime: true, late: true},
	{name: "failing helper as helper argument", family: "failing-helper", tag: `<%= len(boom()) %>`, runtime: true, late: true},
	{name: "failing helper in let", family: "failing-helper", tag: `<% let q = boom() %>`, runtime: true, late: true},
	{name: "failing helper as for iterable", family: "failing-helper", tag: `<%= for (w) in boom() { %>`, tail: `w<% } %>`, runtime: true, late: true},
	{name: "failing helper under !", family: "failing-helper", tag: `<%= !boom() %>`, runtime: true, late: true},
	{name: "failing helper right of ||", family: "failing-helper", tag: `<%= false || boom() %>`, runtime: true, late: true},
	{name: "failing helper with a block", family: "failing-helper", tag: `<%= boomblk() { %>`, tail: `b<% } %>`, runtime: true, late: true},
	{name: "failing method", family: "failing-helper", tag: `<%= obj.Fail() %>`, runtime: true, late: true},
	{name: "failing method of a nested field", family: "failing-helper", tag: `<%= obj.Inner.Fail() %>`, runtime: true, late: true},
	{name: "panicking helper", family: "failing-helper", tag: `<%= panics() %>`, runtime: true, late: true},
	{name: "failing helper in else-if condition, second else-if", family: "failing-helper", lead: "<%= if (false) { %>\nc\n<% } else if (false) { %>\nc2\n", tag: `<% } else if (boom()) { %>`, tail: `d<% } else { %>e<% } %>`, runtime: true, late: true},
	{name: "wrong argument type", family: "type-error", tag: `<%= takesInt("a") %>`, runtime: true, late: true},
	{name: "too many arguments", family: "type-error", tag: `<%= len(1, 2, 3) %>`, runtime: true, late: true},
	// (a template function called with too few arguments is not a kind: whether that fails at the call or where the
	// body reads the unbound parameter is not stated)
	{name: "no such method", family: "type-error", tag: `<%= one.Foo() %>`, runtime: true, late: true},
	{name: "string times int", family: "type-error", tag: `<%= "a" * 2 %>`, runtime: true, late: true},
	{name: "float by int", family: "type-error", tag: `<%= 1.5 / 0 %>`, runtime: true, late: true},
	{name: "for over an int", family: "type-error", tag: `<%= for (w) in 1 { %>`, tail: `w<% } %>`, runtime: true, late: true},
	{name: "non-int index of a slice", family: "type-error", tag: `<%= xs["a"] %>`, runtime: true, late: true},
	{name: "missing partial feeder", family: "failing-helper", tag: `<%= partial("nope") %>`, runtime: true, late: true},
	{name: "contentOf without contentFor", family: "failing-helper", tag: `<%= contentOf("missing") %>`, runtime: true, late: true},
	{name: "index assignment out of range", family: "index-out-of-range", tag: `<% xs[9] = 1 %>`, runtime: true, late: true},
	{name: "index out of range, negative", family: "index-out-of-range", tag: `<%= xs[-1] %>`, runtime: true, late: true},
	{name: "division by zero in a call argument", family: "division-by-zero", tag: `<%= len([1 / 0]) %>`, runtime: true, late: true},
	// a Go helper forgives the failure of its block (an unknown identifier raised in a function that the block calls);
	// the same statement then fails for another reason
	{name: "failing helper after a failure that a helper forgave, +", family: "failing-helper", setup: "<% let t1 = fn() { %>\n<%= missingName %>\n<% } %>\n\n", tag: `<%= rescue() { %><%= t1() %><% } + boom() %>`, runtime: true, rescued: true, late: true},
	{name: "division by zero after a failure that a helper forgave, array", family: "division-by-zero", setup: "<% let t1 = fn() { %>\n<% let q1 = missingName %>\n<% } %>\n\n", tag: `<%= [rescue() { %><%= t1() %><% }, 1 / 0] %>`, runtime: true, rescued: true, late: true},
	{name: "type error after a failure that a helper forgave, helper argument", family: "type-error", setup: "<% let t1 = fn() { %>\n<% return 1 / 0 %>\n<% } %>\n\n", tag: `<%= len(rescue() { %><%= t1() %><% }) + "a" %>`, runtime: true, rescued: true, late: true},
	// --- syntax
	{name: "else alone", family: "illegal-character", tag: `<%= else %>`, late: true},
	{name: "in alone", family: "illegal-character", tag: `<% in %>`, late: true},
	{name: "fn alone", family: "missing-brace-or-paren", tag: `<%= fn %>`, late: true},
	{name: "let with two =", family: "malformed-let", tag: `<% let q = = 1 %>`, late: true},
	{name: "two operators", family: "illegal-character", tag: `<%= 1 +* 2 %>`, late: true},
	{name: "illegal number 1..2", family: "illegal-character", tag: `<%= 1..2 %>`, late: true},
	{name: "index without comma", family: "unbalanced", tag: `<%= xs[1 2] %>`, late: true},
	{name: "hash without colon", family: "unbalanced", tag: `<%= {"a" 1} %>`, late: true},
	{name: "hash with int key without colon", family: "unbalanced", tag: `<%= {1 2} %>`, late: true},
	{name: "hash with two commas", family: "unbalanced", tag: `<%= {"a": 1,, } %>`, late: true},
	{name: "array with two commas", family: "unbalanced", tag: `<%= [1,,2] %>`, late: true},
	{name: "call with a lone comma", family: "unbalanced", tag: `<%= boom(,) %>`, late: true},
	{name: "index after dot", family: "illegal-character", tag: `<%= xs[0].[1] %>`, late: true},
	{name: "indexed array literal after dot", family: "illegal-character", tag: `<%= xs[0].[1][2] %>`, late: true},
	{name: "number after call and dot", family: "illegal-character", tag: `<%= boom().(1) %>`, late: true},
	{name: "string after call and dot", family: "illegal-character", tag: `<%= boom()."a" %>`, late: true},
	{name: "illegal character $", family: "illegal-character", tag: `<%= $ %>`, late: true},
	{name: "single-quoted string", family: "illegal-character", tag: `<%= 'a' %>`, late: true},
	{name: "ternary", family: "illegal-character", tag: `<%= xs ? 1 : 2 %>`, late: true},
	{name: "modulo", family: "illegal-character", tag: `<%= 1 % 2 %>`, late: true},
	{name: "tilde alone", family: "illegal-character", tag: `<%= ~ %>`, late: true},
	{name: "assignment in if condition", family: "if-without-condition", tag: `<%= if (1 = 2) { %>`, tail: `c<% } %>`, late: true},
	{name: "let as if condition", family: "if-without-condition", tag: `<%= if (let) { %>`, tail: `c<% } %>`, late: true},
	{name: "else if missing {", family: "missing-brace-or-paren", lead: "<%= if (true) { %>c", tag: `<% } else if (true) %>`, tail: `d<% } %>`, late: true},
	{name: "( after a function literal", family: "unbalanced", lead: "<%= fn() { %>c", tag: `<% } ( %>`, late: true},
	{name: "stray ) after a helper block", family: "unbalanced", lead: "<%= blk() { %>c", tag: `<% } ) %>`, late: true},
	{name: "over-long integer literal as index", family: "over-long-number", tag: `<%= xs[99999999999999999999] %>`, number: true, late: true},
}

// text between the failing construct and the closing text of the context
var gaps = []string{"", " ", "\n", " \n", "\r\n"}

var suffixes = []string{
	"",
	"\n",
	"\nplain\n<%= 1 + 1 %>\n\n",
	" <%= 2 %> tail\r\n<%= if (true) { %>\ny\n<% } %>\n",
}

// layouts of the failing tag
const (
	layFlat      = iota // as written: the tag lies on one line
	layAllLF            // every space becomes a line feed
	layAllCRLF          // every space becomes CR LF
	layAfterOpen        // line feed after the opener
	layBeforeEnd        // line feed before the last token
	layStringLF         // as written, but a line feed inside the first string literal of the tag
	layTight            // later addition: no space after the opener and none before the closer: <%=nope%>
	nLayouts
)

func layout(tag string, lay int) string {
	switch lay {
	case layAllLF:
		return strings.ReplaceAll(tag, " ", "\n")
	case layAllCRLF:
		return strings.ReplaceAll(tag, " ", "\r\n")
	case layAfterOpen:
		return strings.Replace(tag, " ", "\n", 1)
	case layBeforeEnd:
		if i := strings.LastIndex(tag, " "); i >= 0 {
			return tag[:i] + "\n" + tag[i+1:]
		}
	case layStringLF:
		if i := strings.IndexAny(tag, "\"`"); i >= 0 {
			return tag[:i+1] + "\n" + tag[i+1:]
		}
	case layTight:
		t := tag
		for _, o := range []string{"<%= ", "<% "} {
			if strings.HasPrefix(t, o) {
				t = strings.TrimSuffix(o, " ") + t[len(o):]
				break
			}
		}
		if strings.HasSuffix(t, " %>") {
			t = strings.TrimSuffix(t, " %>") + "%>"
		}
		return t
	}
	return tag
}

// ---- the case and its oracle -----------------------------------------------------------

type Case struct {
	Kind      string   `json:"kind"`
	Ctx       string   `json:"ctx"`
	Pre       vk.Text  `json:"pre"`        // everything before the failing construct
	Lead      vk.Text  `json:"lead"`       // opening tags of the same construct when the failing tag continues one (else-if, else)
	Tag       vk.Text  `json:"tag"`        // the failing tag as laid out
	Post      vk.Text  `json:"post"`       // everything after it
	ToEOF     bool     `json:"to_eof"`     // the tag is unterminated and extends to the end of the input
	Shifts    []int    `json:"shifts"`     // numbers of newlines of literal text to prepend
	ShiftText vk.Text  `json:"shift_text"` // text of each prepended line (may be empty)
	Classes   []string `json:"classes,omitempty"`
	// later additions: the same template evaluated again with something changed in between
	Cached     bool `json:"cached,omitempty"`      // plush.CacheEnabled is on while the case runs; the parsed *Template is executed twice
	ShiftFirst bool `json:"shift_first,omitempty"` // the shifted templates are evaluated before the unshifted one
}

func (c Case) src() string { return string(c.Pre) + string(c.Lead) + string(c.Tag) + string(c.Post) }

func data() map[string]interface{} {
	return map[string]interface{}{
		"xs":   []int{1, 2, 3},
		"one":  []int{1},
		"boom": func() (string, error) { return "", errors.New("kaboom") },
		"blk": func(h plush.HelperContext) (template.HTML, error) {
			s, err := h.Block()
			return template.HTML(s), err
		},
		// later additions
		"mp": map[string]int{"a": 1},
		// rescue renders its block and forgives its failure: the call succeeds with a fallback
		"rescue": func(h plush.HelperContext) (template.HTML, error) {
			s, err := h.Block()
			if err != nil {
				return "fallback", nil
			}
			return template.HTML(s), nil
		},
		// boomblk fails without running its block
		"boomblk":  func(h plush.HelperContext) (string, error) { return "", errors.New("kaboom before the block") },
		"panics":   func() string { panic("helper panicked") },
		"takesInt": func(i int) int { return i },
		"obj":      obj{Inner: &obj{}},
	}
}

type obj struct{ Inner *obj }

func (obj) Fail() (string, error) { return "", errors.New("method failed") }

type api struct {
	name string
	run  func(src string) (string, error)
}

var apis = []api{
	{"Render", func(src string) (string, error) { return plush.Render(src, plush.NewContextWith(data())) }},
	{"Parse", func(src string) (string, error) { _, err := plush.Parse(src); return "", err }},
}

// apisCached are used while plush.CacheEnabled is on (sequential phase E5 only: the switch is a package variable).
// "Parse, Exec twice" executes one parsed template twice on fresh data: what the first execution left behind must
// not show in the error of the second.
var apisCached = []api{
	{"Render (cache on)", func(src string) (string, error) { return plush.Render(src, plush.NewContextWith(data())) }},
	{"Parse, Exec twice (cache on)", func(src string) (string, error) {
		t, err := plush.Parse(src)
		if err != nil {
			return "", err
		}
		_, err1 := t.Exec(plush.NewContextWith(data()))
		out, err2 := t.Clone().Exec(plush.NewContextWith(data()))
		if (err1 == nil) != (err2 == nil) || (err1 != nil && err1.Error() != err2.Error()) {
			return "", fmt.Errorf("no line: the first execution of the parsed template returned error %v, the second %v", err1, err2)
		}
		return out, err2
	}},
}

var lineRE = regexp.MustCompile(`^line (\d+): `)

// unknownName: the name in an unknown-identifier message
var unknownName = regexp.MustCompile(`"([A-Za-z_][A-Za-z0-9_]*)": unknown identifier`)

// innerLine: a line number a message mentions in its own text, not at the start of a line of the error text
var innerLine = regexp.MustCompile(`([^\n])line \d+`)

type msgLine struct {
	n    int
	rest string
}

// splitErr splits an error text into its messages; ok is false if the text does not START with "line N: ". A
// later line without the prefix continues the message before it (a message may quote a piece of the template that
// spans lines); every line that does carry a prefix is a message of its own, whose N must move with a shift.
func splitErr(s string) (out []msgLine, bad string, ok bool) {
	for i, l := range strings.Split(s, "\n") {
		m := lineRE.FindStringSubmatch(l)
		if m == nil {
			if i == 0 {
				return nil, l, false
			}
			out[len(out)-1].rest += "\n" + l
			continue
		}
		n, err := strconv.Atoi(m[1])
		if err != nil {
			return nil, l, false
		}
		out = append(out, msgLine{n, l[len(m[0]):]})
	}
	return out, "", true
}

var noError, evaluated int64

func check(r *vk.Run, c Case) *vk.Fail {
	defer r.Watch("line", c)()
	src := c.src()
	first := 1 + strings.Count(string(c.Pre), "\n")
	// When the failing tag continues a construct opened by earlier tags (Lead), the statement does not say whether
	// "the tag containing the failing statement" is the tag where the if-statement begins or the continuation tag
	// holding the faulty part: any line from the one to the other is accepted.
	last := first + strings.Count(string(c.Lead)+string(c.Tag), "\n")
	if c.ToEOF {
		last = 1 + strings.Count(src, "\n")
	}
	fail := func(f string, a ...interface{}) *vk.Fail {
		cl := ""
		if len(c.Classes) > 0 {
			cl = c.Classes[0]
		}
		return &vk.Fail{Kind: "line", Class: cl, Case: c, Msg: fmt.Sprintf("template %q (failing tag %q on line %d..%d): ", src, string(c.Lead)+string(c.Tag), first, last) + fmt.Sprintf(f, a...)}
	}
	if invalidCtx[c.Ctx] || invalidKind[c.Kind] {
		r.Exclude("table entry does not hold on this tree: " + map[bool]string{true: "context " + c.Ctx, false: "kind " + c.Kind}[invalidCtx[c.Ctx]])
		return nil
	}
	for _, t := range invalidPrefix {
		if strings.HasPrefix(string(c.Pre), t) {
			r.Exclude("table entry does not hold on this tree: a prefix")
			return nil
		}
	}
	nt := ""
	if first > 1 {
		nt = src + "\x00" + fmt.Sprint(c.Shifts, c.Cached, c.ShiftFirst) + string(c.ShiftText)
	}
	r.Count(nt, "kind/"+c.Kind)
	r.Class("ctx/" + c.Ctx)
	atomic.AddInt64(&evaluated, 1)
	use := apis
	if c.Cached {
		was := plush.CacheEnabled
		plush.CacheEnabled = true
		defer func() { plush.CacheEnabled = was }()
		use = apisCached
	}
	for _, api := range use {
		// every template of the case is evaluated up front, in the order the case asks for
		inputs := []string{src}
		for _, k := range c.Shifts {
			inputs = append(inputs, strings.Repeat(string(c.ShiftText)+"\n", k)+src)
		}
		results := make([]vk.Res, len(inputs))
		for j := range inputs {
			i := j
			if c.ShiftFirst {
				i = len(inputs) - 1 - j
			}
			results[i] = vk.Safe(func() (string, error) { return api.run(inputs[i]) })
		}
		res := results[0]
		if res.Panicked() {
			r.Exclude("panic (subject of C03/C04)")
			return nil
		}
		if res.Err == nil {
			if api.name == "Parse" {
				continue // the fault is raised while rendering
			}
			if c.Cached && api.name != use[0].name {
				return fail("%s returns no error, %s returned one", api.name, use[0].name)
			}
			atomic.AddInt64(&noError, 1)
			if os.Getenv("C15_TRACE") != "" {
				fmt.Printf("NOERR %s | %s | %q\n", c.Kind, c.Ctx, src)
			}
			r.Exclude("no error returned (subject of C05)")
			return nil
		}
		text := res.Err.Error()
		if api.name == "Render" {
			r.Sample(func() interface{} {
				return map[string]interface{}{"template": src, "failing_tag": string(c.Tag), "kind": c.Kind, "context": c.Ctx,
					"tag_lines": []int{first, last}, "error": text, "shifts": c.Shifts}
			})
		}
		// (1) the error starts with "line N: "
		msgs, bad, ok := splitErr(text)
		if !ok {
			return fail("%s error %q: its first line %q does not start with \"line N: \"", api.name, text, bad)
		}
		// (2) N names the failing tag
		if m := unknownName.FindStringSubmatch(msgs[0].rest); m != nil && !c.ToEOF && !strings.Contains(string(c.Lead)+string(c.Tag), m[1]) && strings.Contains(string(c.Pre)+string(c.Post), m[1]) {
			// the render stopped at an unknown identifier that stands elsewhere in the template, where the case counted on
			// it being forgiven (inside a called function's body, C07 / C05: not demanded): the designated tag is not
			// the failing one on this tree
			r.Exclude("an unknown identifier elsewhere in the template was not forgiven")
			return nil
		}
		if n := msgs[0].n; first == last && n != first {
			return fail("%s error %q names line %d, the failing tag lies on line %d", api.name, text, n, first)
		} else if n < first || n > last {
			return fail("%s error %q names line %d, the failing tag spans lines %d..%d", api.name, text, n, first, last)
		}
		// (3) shifting
		for i, k := range c.Shifts {
			res2 := results[i+1]
			if res2.Panicked() || res2.Err == nil {
				return fail("%s after prepending %d line(s) %q the result is %s, without them error %q", api.name, k, string(c.ShiftText), res2, text)
			}
			text2 := res2.Err.Error()
			var want []string
			for _, m := range msgs {
				want = append(want, fmt.Sprintf("line %d: %s", m.n+k, m.rest))
			}
			// a message may mention further lines in its own words ("... of the if on line 2"): those numbers are
			// not the leading N; whether they move is the message's business
			if w := strings.Join(want, "\n"); text2 != w && innerLine.ReplaceAllString(text2, "${1}line #") != innerLine.ReplaceAllString(w, "${1}line #") {
				return fail("%s after prepending %d line(s) %q the error is %q, want %q (unshifted: %q)", api.name, k, string(c.ShiftText), text2, w, text)
			}
		}
	}
	return nil
}

// ---- building cases from the tables --------------------------------------------------------

type cell struct {
	kind, ctx, gap, suffix, lay int
	prefix                      string
	prefixRunsBlock             bool
	extra                       string // further suffix text (random phase)
	nest                        *ctx   // a drawn context (random phase) instead of ctxs[ctx]
}

// build returns the case of a cell, the generator classes it belongs to, and ok=false for cells that are not
// faulty templates by construction (break inside a loop, a layout that does not apply).
func build(cl cell) (c Case, classes []string, ok bool) {
	k, x := kinds[cl.kind], ctxs[cl.ctx]
	if cl.nest != nil {
		x = *cl.nest
	}
	if k.loopOnly && x.loop {
		return c, nil, false
	}
	if k.toEOF && k.runtime && x.fn {
		return c, nil, false // the unterminated tag swallows the call of the function: nothing fails
	}
	if x.forgives && k.family == "unknown-identifier" {
		return c, nil, false // an unknown identifier is tolerated by this call site (C07): not a faulty template
	}
	tag := layout(k.tag, cl.lay)
	if cl.lay != layFlat && tag == k.tag {
		return c, nil, false
	}
	post := k.tail + gaps[cl.gap] + x.post + suffixes[cl.suffix] + cl.extra
	c = Case{Kind: k.name, Ctx: x.name, Pre: vk.Text(cl.prefix + k.setup + x.pre), Lead: vk.Text(k.lead), Tag: vk.Text(tag), Post: vk.Text(post), ToEOF: k.toEOF}
	if k.number {
		classes = append(classes, "parse-number-literal-message")
	}
	// (an unterminated tag or string takes the following text as code: what fails, and when, depends on that text)
	if (k.runtime || k.toEOF) && x.top && cl.prefixRunsBlock {
		classes = append(classes, "runtime-error-after-block")
	}
	if k.afterCall {
		classes = append(classes, "runtime-error-after-call-in-same-statement")
	}
	if k.rescued {
		classes = append(classes, "runtime-error-after-a-failure-a-helper-forgave")
	}
	if k.name == "open for header" && strings.Contains(post, ")") {
		classes = append(classes, "for-header-runs-past-its-tag")
	}
	if k.keyedToEnd && strings.HasPrefix(post, "\n") {
		classes = append(classes, "error-keyed-to-last-token-before-newline")
	}
	c.Classes = classes
	return c, classes, true
}

// trace (development aid): C15_TRACE=1 prints one line per failing case, beyond the eight that the kit reports.
func trace(f *vk.Fail) *vk.Fail {
	if f != nil && os.Getenv("C15_TRACE") != "" {
		c := f.Case.(Case)
		i := strings.Index(f.Msg, "): ")
		fmt.Printf("TRACE %s | %s | next=%q | %s\n", c.Kind, c.Ctx, firstByte(string(c.Post)), f.Msg[i+3:])
	}
	return f
}

// phase (development aid): C15_TRACE=1 prints the wall time at which each phase starts.
var t0 = time.Now()

func phase(name string) {
	if os.Getenv("C15_TRACE") != "" {
		fmt.Printf("PHASE %6.1fs %s\n", time.Since(t0).Seconds(), name)
	}
}

func firstByte(s string) string {
	if s == "" {
		return ""
	}
	return s[:1]
}

// run evaluates a cell unless it belongs to an open class.
func runCell(r *vk.Run, cl cell, shifts []int, shiftText string) *vk.Fail {
	return runCellWith(r, cl, shifts, shiftText, false, false)
}

func runCellWith(r *vk.Run, cl cell, shifts []int, shiftText string, cached, shiftFirst bool) *vk.Fail {
	c, classes, ok := build(cl)
	if !ok {
		return nil
	}
	for _, name := range classes {
		if isOpen(r, name) {
			r.Exclude(name)
			return nil
		}
	}
	c.Shifts, c.ShiftText = shifts, vk.Text(shiftText)
	c.Cached, c.ShiftFirst = cached, shiftFirst
	return check(r, c)
}

// validate renders every table entry with a harmless tag in place of the failing one: the tables themselves
// must be valid templates, otherwise the check would blame plush for the harness' own mistakes.
// Table entries that do not hold on the tree under test are dropped, not fatal: a context whose own tags no longer
// render (it relied on something no statement promises, e.g. forgiving an unknown identifier raised inside a called
// function), a prefix that no longer renders, a kind whose tag no longer fails (an operator that became legal). A tree on
// which a large part of the tables is invalid is another matter: then the check says so and gives up (exit 2).
var (
	invalidCtx    = map[string]bool{}
	invalidKind   = map[string]bool{}
	invalidPrefix []string
)

func validate() error {
	renders := func(src string) bool {
		res := vk.Safe(func() (string, error) { return plush.Render(src, plush.NewContextWith(data())) })
		return !res.Panicked() && res.Err == nil
	}
	for _, x := range ctxs {
		if !renders(x.pre + x.ok() + x.post) {
			invalidCtx[x.name] = true
		}
	}
	for _, p := range prefixes {
		if p.text != "" && !renders(p.text+"<%= 1 %>") {
			invalidPrefix = append(invalidPrefix, p.text)
		}
	}
	for _, p := range prefixes {
		bad := false
		for _, t := range invalidPrefix {
			bad = bad || t == p.text
		}
		if bad {
			continue
		}
		for _, x := range ctxs {
			if invalidCtx[x.name] {
				continue
			}
			for _, s := range suffixes {
				if src := p.text + x.pre + x.ok() + x.post + s; !renders(src) {
					return fmt.Errorf("prefix %s / context %s: %q does not render although each part does", p.name, x.name, src)
				}
			}
		}
	}
	for _, k := range kinds {
		if k.setup != "" && !renders(k.setup) {
			invalidKind[k.name] = true
			continue
		}
		// the premise of a kind: its tag fails where nothing else can
		if !k.loopOnly && renders(k.setup+k.lead+k.tag+k.tail) {
			invalidKind[k.name] = true
		}
	}
	if len(invalidCtx)*4 > len(ctxs) || len(invalidKind)*4 > len(kinds) || len(invalidPrefix)*4 > len(prefixes) {
		return fmt.Errorf("%d of %d contexts, %d of %d kinds and %d of %d prefixes do not hold on this tree", len(invalidCtx), len(ctxs), len(invalidKind), len(kinds), len(invalidPrefix), len(prefixes))
	}
	return nil
}

// pick returns the indexes of the named prefixes.
func pick(names ...string) []int {
	var out []int
	for _, n := range names {
		found := false
		for i, p := range prefixes {
			if p.name == n {
				out, found = append(out, i), true
			}
		}
		if !found {
			panic("no prefix named " + n)
		}
	}
	return out
}

// ---- random composition ------------------------------------------------------------------------

var textAlphabet = []string{"a", "b", "Z", "0", " ", " ", "\t", "é", "漢", "\"", "'", "`", "#", "%", ">", "%>", "=", "{", "}", "(", ")", "\\", "< ", "-"}

func genTextLine(t *rapid.T) string {
	n := rapid.IntRange(0, 12).Draw(t, "len")
	var sb strings.Builder
	for i := 0; i < n; i++ {
		sb.WriteString(rapid.SampledFrom(textAlphabet).Draw(t, "ch"))
	}
	s := sb.String()
	// a backslash directly before a tag opener is an escape; keep literal text from ending in one
	s = strings.TrimRight(s, "\\")
	return s
}

func genPrefix(t *rapid.T) (string, bool) {
	n := rapid.IntRange(0, 8).Draw(t, "pieces")
	var sb strings.Builder
	runs := false
	for i := 0; i < n; i++ {
		switch rapid.IntRange(0, 9).Draw(t, "piece") {
		case 0, 1, 2:
			eol := rapid.SampledFrom([]string{"\n", "\n", "\r\n"}).Draw(t, "eol")
			sb.WriteString(genTextLine(t) + eol)
		case 3:
			// a silent tag holding a multi-line string
			q := rapid.SampledFrom([]string{"\"", "`"}).Draw(t, "quote")
			m := rapid.IntRange(1, 4).Draw(t, "lines")
			body := ""
			for j := 0; j < m; j++ {
				l := genTextLine(t)
				l = strings.NewReplacer("\"", "", "`", "", "\\", "").Replace(l)
				body += l + rapid.SampledFrom([]string{"\n", "\r\n"}).Draw(t, "eol")
			}
			fmt.Fprintf(&sb, "<%% let s%d = %s%s%s %%>\n", i, q, body, q)
		case 4:
			// a multi-line comment tag
			m := rapid.IntRange(1, 4).Draw(t, "lines")
			body := ""
			for j := 0; j < m; j++ {
				l := strings.ReplaceAll(genTextLine(t), "%>", "% >")
				body += l + "\n"
			}
			sb.WriteString("<%# " + body + "%>\n")
		default:
			p := rapid.SampledFrom(prefixes).Draw(t, "table piece")
			sb.WriteString(p.text)
			runs = runs || p.runsBlock
		}
	}
	return sb.String(), runs
}

// genNest draws a context of 1..4 bodies nested in each other (if, else, else-if, for, function defined and called,
// block helper, contentFor rendered later, helper that forgives) with random text between the opening tags.
func genNest(t *rapid.T) ctx {
	depth := rapid.IntRange(1, 4).Draw(t, "depth")
	x := ctx{name: "nest"}
	for d := 0; d < depth; d++ {
		sep := rapid.SampledFrom([]string{"\n", "\n", "", "\n\n", "t\n", " "}).Draw(t, "sep")
		sep2 := rapid.SampledFrom([]string{"\n", "", "\n\n"}).Draw(t, "sep2")
		switch rapid.IntRange(0, 8).Draw(t, "body") {
		case 0:
			x.pre += "<%= if (true) { %>" + sep
			x.post = "<% } %>" + sep2 + x.post
			x.name += "/if"
		case 1:
			x.pre += "<%= if (false) { %>no<% } else { %>" + sep
			x.post = "<% } %>" + sep2 + x.post
			x.name += "/else"
		case 2:
			x.pre += "<%= if (false) { %>no" + sep2 + "<% } else if (true) { %>" + sep
			x.post = "<% } else { %>" + sep2 + "no<% } %>" + x.post
			x.name += "/else-if"
		case 3:
			x.pre += "<%= for (x) in one { %>" + sep
			x.post = "<% } %>" + sep2 + x.post
			x.loop = true
			x.name += "/for"
		case 4:
			f := fmt.Sprintf("nf%d", d)
			x.pre += "<% let " + f + " = fn() { %>" + sep
			call := rapid.SampledFrom([]string{"<%%= %s() %%>", "<%% let r%[2]d = %[1]s() %%>", "<%%= \"a\" + %s() %%>", "<%%= len(%s()) %%>", "<%%= blk() { %%><%%= %s() %%><%% } %%>"}).Draw(t, "call")
			x.post = "<% } %>" + sep2 + fmt.Sprintf(call, f, d) + x.post
			x.loop, x.fn = false, true
			x.name += "/function"
		case 5:
			x.pre += "<%= blk() { %>" + sep
			x.post = "<% } %>" + sep2 + x.post
			x.name += "/block helper"
		case 6:
			n := fmt.Sprintf("slot%d", d)
			x.pre += "<% contentFor(\"" + n + "\") { %>" + sep
			x.post = "<% } %>" + sep2 + "<%= contentOf(\"" + n + "\") %>" + x.post
			x.name += "/contentFor"
		case 7:
			x.pre += "<%= for (x) in xs { %>" + sep2 + "<%= if (x == 2) { %>" + sep
			x.post = "<% } %>" + sep2 + "<% } %>" + x.post
			x.loop = true
			x.name += "/for, second iteration"
		case 8:
			// an earlier statement of the same body whose failure a helper forgave
			x.pre += "<%= if (true) { %>" + sep + "<%= rescue() { %>" + sep2 + "<%= missingName %><% } %>" + sep
			x.post = "<% } %>" + sep2 + x.post
			x.name += "/if after a forgiven failure"
		}
	}
	return x
}

// ---- E8 / R2: the failing tag laid out token by token ---------------------------------------------------
//
// Added after seeded change C15-9 (word tokens stamped with the line counter after the word was read: a word that is
// the last thing on its line got the next line's number). The older layouts do put line ends directly after words,
// but a multi-line tag is judged only by "N within the tag's span", which such a slip satisfies. Here the tag is a
// token list; a LINE STRUCTURE says how many line ends stand at each join between two tokens, and one structure is
// written in five BLANK STYLES that differ only in blanks next to the line ends (and LF / CR LF). Every token stands
// on the same line in all five, the tag begins on the same line: whatever reading of "the line of the tag containing
// the failing statement" is taken for a multi-line tag (DESIGN §8: not fixed), N cannot depend on the style.

// laidKind: spec is the failing tag with its joins marked: '·' = a join where nothing is needed between the two
// tokens (they cannot fuse), '_' = a join that needs at least a blank or a line end. Joins where white space could
// change the meaning (name and '(' of a call, name and '[' of an index, '.' of a selector) are not marked: those
// tokens stay glued.
type laidKind struct {
	name, spec, tail string
	runtime          bool // raised while rendering
	whole            bool // the tag holds ONE statement without a body: it begins where the tag begins
	unk              bool // an unknown identifier (not combined with call sites that forgive one)
	toEOF            bool
}

var laidKinds = []laidKind{
	// run-time faults, the statement is the whole tag
	{name: "unknown identifier", spec: `<%=·nope·%>`, runtime: true, whole: true, unk: true},
	{name: "unknown identifier, silent tag", spec: `<%·nope·%>`, runtime: true, whole: true, unk: true},
	{name: "unknown identifier in let", spec: `<%·let_q·=·nope·%>`, runtime: true, whole: true, unk: true},
	{name: "assignment to undeclared", spec: `<%·undeclared·=·1·%>`, runtime: true, whole: true, unk: true},
	{name: "unknown identifier in return", spec: `<%·return_nope·%>`, runtime: true, whole: true, unk: true},
	{name: "unknown function", spec: `<%=·nope(·1·)·%>`, runtime: true, whole: true, unk: true},
	{name: "unknown identifier in an array literal", spec: `<%=·[·1·,·nope·]·%>`, runtime: true, whole: true, unk: true},
	{name: "unknown identifier in a hash literal", spec: `<%·let_h·=·{·"a"·:·nope·}·%>`, runtime: true, whole: true, unk: true},
	{name: "unknown identifier right of +", spec: `<%=·1·+·nope·%>`, runtime: true, whole: true, unk: true},
	{name: "failing helper", spec: `<%=·boom()·%>`, runtime: true, whole: true},
	{name: "failing helper, silent tag", spec: `<%·boom()·%>`, runtime: true, whole: true},
	{name: "failing helper as operand", spec: `<%=·"a"·+·boom()·%>`, runtime: true, whole: true},
	{name: "failing helper right of &&", spec: `<%=·true·&&·boom()·%>`, runtime: true, whole: true},
	{name: "failing helper in let", spec: `<%·let_q·=·boom()·%>`, runtime: true, whole: true},
	{name: "failing method", spec: `<%=·obj.Fail()·%>`, runtime: true, whole: true},
	{name: "type error int + string", spec: `<%=·1·+·"a"·%>`, runtime: true, whole: true},
	{name: "type error nil + int", spec: `<%=·nil·+·1·%>`, runtime: true, whole: true},
	{name: "type error minus string", spec: `<%=_-·"a"·%>`, runtime: true, whole: true},
	{name: "wrong argument type", spec: `<%=·takesInt(·"s"·)·%>`, runtime: true, whole: true},
	{name: "call of a non-function", spec: `<%=·xs()·%>`, runtime: true, whole: true},
	{name: "invalid regular expression", spec: `<%=·"a"·~=·"("·%>`, runtime: true, whole: true},
	{name: "division by zero", spec: `<%=·1·/·0·%>`, runtime: true, whole: true},
	{name: "division by zero in let", spec: `<%·let_q·=·7·/·0·%>`, runtime: true, whole: true},
	{name: "index out of range", spec: `<%=·xs[·9·]·%>`, runtime: true, whole: true},
	{name: "index out of range on literal", spec: `<%=·[·1·,·2·][·5·]·%>`, runtime: true, whole: true},
	// run-time faults in a body written inside the same tag, or in a later statement of the tag
	{name: "second statement of a tag", spec: `<%·let_a9·=·1_nope·%>`, runtime: true, unk: true},
	{name: "third statement of a tag", spec: `<%·let_a9·=·1_let_b9·=·"s"_boom()·%>`, runtime: true},
	{name: "if body in one tag", spec: `<%·if·(·true·)·{·nope·}·%>`, runtime: true, unk: true},
	{name: "if body in one tag, return", spec: `<%=·if·(·true·)·{·return_boom()·}·%>`, runtime: true},
	{name: "else body in one tag", spec: `<%·if·(·false·)·{·1·}·else·{·nope·}·%>`, runtime: true, unk: true},
	{name: "else-if body in one tag", spec: `<%·if·(·false·)·{·1·}·else_if·(·true·)·{·1·/·0·}·%>`, runtime: true},
	{name: "for body in one tag", spec: `<%·for·(·x·)·in_xs·{·nope·}·%>`, runtime: true, unk: true},
	{name: "for body in one tag, second statement", spec: `<%·for·(·i·,·x·)·in_xs·{·let_y·=·x_boom()·}·%>`, runtime: true},
	{name: "function body in one tag, called later", spec: `<%·let_g9·=·fn·(·)·{·nope·}·%>`, tail: "\nx\n<%= g9() %>", runtime: true, unk: true},
	{name: "function body in one tag, return", spec: `<%·let_g9·=·fn·(·)·{·return_nope·}·%>`, tail: "\nx\n<%= g9() %>", runtime: true, unk: true},
	{name: "function body in one tag, parameters", spec: `<%·let_g9·=·fn·(·a·,·b·)·{·let_c·=·a_return_c·+·boom()·}·%>`, tail: "<%= g9(1, 2) %>", runtime: true},
	{name: "function literal called at once", spec: `<%=·fn·(·)·{·return_boom()·}()·%>`, runtime: true},
	{name: "dangling operator", spec: `<%=·1·+·%>`, runtime: true},
	{name: "minus without operand", spec: `<%=_-·%>`, runtime: true},
	{name: "unknown identifier, unterminated tag", spec: `<%=·nope`, runtime: true, unk: true, toEOF: true},
	{name: "unknown identifier in let, unterminated tag", spec: `<%·let_q·=·nope`, runtime: true, unk: true, toEOF: true},
	// syntax faults
	{name: "unbalanced (", spec: `<%=·(·1·%>`},
	{name: "unbalanced [", spec: `<%=·[·1·%>`},
	{name: "unbalanced {", spec: `<%=·{·"a"·:·1·%>`},
	{name: "unbalanced index", spec: `<%=·xs[·1·%>`},
	{name: "missing comma after a word", spec: `<%=·[·1·,·b_2·]·%>`},
	{name: "missing comma after a number", spec: `<%=·[·1_2·]·%>`},
	{name: "missing comma after a string", spec: `<%=·[·"a"·"b"·]·%>`},
	{name: "let without a name", spec: `<%·let_=·1·%>`},
	{name: "let without =", spec: `<%·let_q_1·%>`},
	{name: "operator without left operand", spec: `<%=·1·+·*·2·%>`},
	{name: "if condition without )", spec: `<%·if·(·true·{·nope·}·%>`},
	{name: "if without condition", spec: `<%·if·{·1·}·%>`},
	{name: "for without in", spec: `<%·for·(·x·)·xs·{·1·}·%>`},
	{name: "hash literal without colon", spec: `<%·let_h·=·{·"a"_1·}·%>`},
	{name: "over-long number literal", spec: `<%=·99999999999999999999·%>`},
	{name: "over-long number literal as operand", spec: `<%=·1·+·99999999999999999999·%>`},
	{name: "keyword where an expression is expected", spec: `<%=·1·+·let_q·%>`},
}

func (k laidKind) split() (toks []string, need []bool) {
	cur := ""
	for _, ch := range k.spec {
		if ch == '·' || ch == '_' {
			toks, need, cur = append(toks, cur), append(need, ch == '_'), ""
			continue
		}
		cur += string(ch)
	}
	return append(toks, cur), need
}

// LaidCase: one failing tag, one line structure, judged in all blank styles.
type LaidCase struct {
	Kind    string   `json:"kind"`
	Ctx     string   `json:"ctx"`
	Pre     vk.Text  `json:"pre"`
	Toks    []string `json:"toks"` // tokens of the failing tag, opener first, closer last (none if ToEOF)
	Need    []bool   `json:"need"` // Need[i]: tokens i and i+1 would fuse without white space
	NL      []int    `json:"nl"`   // NL[i]: line ends between tokens i and i+1
	Post    vk.Text  `json:"post"`
	ToEOF   bool     `json:"to_eof,omitempty"`
	Runtime bool     `json:"runtime,omitempty"`
	Whole   bool     `json:"whole,omitempty"`
	Shifts  []int    `json:"shifts"`
}

const nStyles = 5

var styleNames = [nStyles]string{"line ends bare (LF)", "a blank before each line end", "a blank after each line end", "line ends bare (CR LF)", "tabs around each line end, two blanks elsewhere"}

func (c LaidCase) tag(style int) string {
	var sb strings.Builder
	for i, t := range c.Toks {
		sb.WriteString(t)
		if i == len(c.Toks)-1 {
			break
		}
		n, tight := c.NL[i], map[bool]string{true: " ", false: ""}[c.Need[i]]
		switch {
		case n == 0 && (style == 1):
			sb.WriteString(" ")
		case n == 0 && style == 4:
			sb.WriteString("  ")
		case n == 0:
			sb.WriteString(tight)
		case style == 0:
			sb.WriteString(strings.Repeat("\n", n))
		case style == 1:
			sb.WriteString(" " + strings.Repeat("\n", n))
		case style == 2:
			sb.WriteString(strings.Repeat("\n", n) + " ")
		case style == 3:
			sb.WriteString(strings.Repeat("\r\n", n))
		default:
			sb.WriteString("\t" + strings.Repeat("\n\t", n))
		}
	}
	return sb.String()
}

func (c LaidCase) src(style int) string { return string(c.Pre) + c.tag(style) + string(c.Post) }

func ns(ms []msgLine) []int {
	out := make([]int, len(ms))
	for i, m := range ms {
		out[i] = m.n
	}
	return out
}

func checkLaid(r *vk.Run, c LaidCase) *vk.Fail {
	defer r.Watch("laid", c)()
	if len(c.Toks) < 2 || len(c.Need) != len(c.Toks)-1 || len(c.NL) != len(c.Toks)-1 {
		return &vk.Fail{Kind: "decode", Msg: "token / join lists do not match"}
	}
	total := 0
	for _, n := range c.NL {
		if n < 0 || n > 8 {
			return &vk.Fail{Kind: "decode", Msg: "line ends out of range"}
		}
		total += n
	}
	first := 1 + strings.Count(string(c.Pre), "\n")
	last := first + total
	if c.ToEOF {
		last = 1 + strings.Count(c.src(0), "\n")
	}
	fail := func(f string, a ...interface{}) *vk.Fail {
		return &vk.Fail{Kind: "laid", Class: "laid/" + c.Kind, Case: c, Msg: fmt.Sprintf("template %q (failing tag %q on line %d..%d): ", c.src(0), c.tag(0), first, last) + fmt.Sprintf(f, a...)}
	}
	nt := ""
	if first > 1 && total > 0 {
		nt = "laid\x00" + c.src(0) + "\x00" + fmt.Sprint(c.Shifts)
	}
	r.Count(nt, "laid/"+c.Kind)
	r.Class("laid-ctx/" + c.Ctx)
	// the statement lies on the tag's first line: nothing but the closer stands on a later line
	oneLineStatement := c.Runtime && c.Whole && !c.ToEOF
	for i, n := range c.NL {
		if n > 0 && i != len(c.NL)-1 {
			oneLineStatement = false
		}
	}
	for _, api := range apis {
		res := vk.Safe(func() (string, error) { return api.run(c.src(0)) })
		if res.Panicked() {
			r.Exclude("panic (subject of C03/C04)")
			return nil
		}
		if res.Err == nil {
			if api.name == "Parse" {
				continue
			}
			r.Exclude("no error returned (subject of C05)")
			return nil
		}
		text := res.Err.Error()
		if api.name == "Render" {
			r.Sample(func() interface{} {
				return map[string]interface{}{"template": c.src(0), "failing_tag": c.tag(0), "kind": c.Kind, "context": c.Ctx,
					"tag_lines": []int{first, last}, "error": text, "phase": "laid"}
			})
		}
		msgs, bad, ok := splitErr(text)
		if !ok {
			return fail("%s error %q: its first line %q does not start with \"line N: \"", api.name, text, bad)
		}
		if m := unknownName.FindStringSubmatch(msgs[0].rest); m != nil && !c.ToEOF && !strings.Contains(c.tag(0), m[1]) && strings.Contains(string(c.Pre)+string(c.Post), m[1]) {
			r.Exclude("an unknown identifier elsewhere in the template was not forgiven")
			return nil
		}
		n0 := msgs[0].n
		switch {
		case first == last && n0 != first:
			return fail("%s error %q names line %d, the failing tag lies on line %d", api.name, text, n0, first)
		case n0 < first || n0 > last:
			return fail("%s error %q names line %d, the failing tag spans lines %d..%d", api.name, text, n0, first, last)
		case oneLineStatement && n0 != first:
			return fail("%s error %q names line %d; the tag begins on line %d and its one statement lies on that line entirely (only the closer stands on a later line)", api.name, text, n0, first)
		}
		// the same tokens on the same lines, blanks added next to the line ends
		for s := 1; s < nStyles; s++ {
			src := c.src(s)
			res2 := vk.Safe(func() (string, error) { return api.run(src) })
			if res2.Panicked() || res2.Err == nil {
				r.Exclude("a blank style of the failing tag returns no error (layout: subject of C18)")
				continue
			}
			msgs2, bad, ok := splitErr(res2.Err.Error())
			if !ok {
				return fail("%s, written with %s (%q): error %q: its first line %q does not start with \"line N: \"", api.name, styleNames[s], c.tag(s), res2.Err.Error(), bad)
			}
			if msgs2[0].n != n0 || (len(msgs2) == len(msgs) && fmt.Sprint(ns(msgs2)) != fmt.Sprint(ns(msgs))) {
				return fail("%s error %q names line(s) %v; written with %s (%q) - every token on the same line as before - the error %q names line(s) %v",
					api.name, text, ns(msgs), styleNames[s], c.tag(s), res2.Err.Error(), ns(msgs2))
			}
		}
		// shifting
		for _, k := range c.Shifts {
			res2 := vk.Safe(func() (string, error) { return api.run(strings.Repeat("\n", k) + c.src(0)) })
			if res2.Panicked() || res2.Err == nil {
				return fail("%s after prepending %d empty line(s) the result is %s, without them error %q", api.name, k, res2, text)
			}
			var want []string
			for _, m := range msgs {
				want = append(want, fmt.Sprintf("line %d: %s", m.n+k, m.rest))
			}
			if w, text2 := strings.Join(want, "\n"), res2.Err.Error(); text2 != w && innerLine.ReplaceAllString(text2, "${1}line #") != innerLine.ReplaceAllString(w, "${1}line #") {
				return fail("%s after prepending %d empty line(s) the error is %q, want %q (unshifted: %q)", api.name, k, text2, w, text)
			}
		}
	}
	return nil
}

// laidStructures: the line structures swept for a tag of j joins: one line end (and one empty line) at each join,
// line ends at every pair of joins (thorough: every triple), at all joins.
func laidStructures(j int, triples bool) [][]int {
	var out [][]int
	mk := func(at ...int) []int {
		v := make([]int, j)
		for _, i := range at {
			v[i]++
		}
		return v
	}
	all := make([]int, j)
	for a := 0; a < j; a++ {
		all[a] = 1
		out = append(out, mk(a), mk(a, a))
		for b := a + 1; b < j; b++ {
			out = append(out, mk(a, b))
			for d := b + 1; triples && d < j; d++ {
				out = append(out, mk(a, b, d))
			}
		}
	}
	return append(out, all)
}

var invalidLaid = map[string]bool{}

// validateLaid: the premise of a laid kind is that its tag, written on one line, fails where nothing else can.
func validateLaid() {
	for _, k := range laidKinds {
		toks, _ := k.split()
		src := strings.Join(toks, " ") + k.tail
		res := vk.Safe(func() (string, error) { return plush.Render(src, plush.NewContextWith(data())) })
		if !res.Panicked() && res.Err == nil {
			invalidLaid[k.name] = true
		}
	}
}

// buildLaid: ok=false for combinations that are no fault by construction.
func buildLaid(k laidKind, x ctx, prefix string, nl []int, shifts []int) (c LaidCase, ok bool) {
	if (k.unk && x.forgives) || (k.toEOF && (x.fn || !x.top)) {
		return c, false
	}
	toks, need := k.split()
	post := k.tail + "\n" + x.post + "\n"
	if k.toEOF {
		post = ""
	}
	return LaidCase{Kind: k.name, Ctx: x.name, Pre: vk.Text(prefix + x.pre), Toks: toks, Need: need, NL: nl, Post: vk.Text(post),
		ToEOF: k.toEOF, Runtime: k.runtime, Whole: k.whole, Shifts: shifts}, true
}

func runLaid(r *vk.Run, k laidKind, x ctx, prefix string, nl []int, shifts []int) *vk.Fail {
	c, ok := buildLaid(k, x, prefix, nl, shifts)
	if !ok {
		return nil
	}
	if invalidLaid[k.name] || invalidCtx[x.name] {
		r.Exclude("table entry does not hold on this tree: " + map[bool]string{true: "context " + x.name, false: "laid kind " + k.name}[invalidCtx[x.name]])
		return nil
	}
	for _, t := range invalidPrefix {
		if strings.HasPrefix(prefix, t) {
			r.Exclude("table entry does not hold on this tree: a prefix")
			return nil
		}
	}
	return checkLaid(r, c)
}

// ---- the check ---------------------------------------------------------------------------------------

var rule = "Templates = prefix + [setup] + context opener + ONE failing tag + tail + gap + context closer + suffix. " +
	fmt.Sprintf("Prefixes: %d table pieces", len(prefixes)) + " (text, empty lines, ok tags, silent tags holding multi-line double- and back-quoted strings incl. escaped quotes and tag delimiters, " +
	"multi-line <%# %> comments, # line comments, CRLF, multi-line code tags and hash literals, escaped openers, multi-byte text, if/else/for/function/block-helper blocks, taken and not taken; " +
	"later additions: comments whose body begins with <%# \" or `, comments / multi-line tags / line-comment tags that end the prefix without a line end, empty and consecutive # comments with LF and CRLF, " +
	"empty lines inside a tag, escaped backslash before a live tag, escaped opener spanning lines, 97 empty lines (digit boundaries), NEL/VT/FF/U+2028 as text, contentFor+contentOf, a loop run three times, " +
	"a function called twice, a Go helper that forgives the failure of its block) " +
	"and, in the random phase, sequences of 0..8 pieces mixed with random text lines, random multi-line strings and comments. " +
	fmt.Sprintf("Failing tags: %d kinds (", len(kinds)) + "unknown identifier, failing helper, type error, index out of range, division by zero, unbalanced ( [ {, missing { or ( ), illegal character, malformed let, " +
	"if without condition, for without in, break/continue outside a loop, over-long number literal, tag or string unterminated at the end of input, faults in else / else-if continuation tags; later additions: the same families " +
	"raised from return, index, hash and array literals, receivers, helper arguments, for iterables, methods, a panicking helper, wrong arity / argument type, partial and contentOf failures, index assignment, " +
	"blocks inside one tag, a failure that a Go helper forgave earlier in the same statement, and 27 further syntax faults), each in 7 layouts (one line; line feeds or CR LF between all tokens, " +
	"after the opener, before the last token, inside a string; later addition: no space after the opener and before the closer). " +
	fmt.Sprintf("Contexts: %d (", len(ctxs)) + "top level (start of line and mid-line), if, else, for, function body (called later), block helper, if-in-for on one line; later additions: the function that holds the failing tag " +
	"called from 24 kinds of call site (if / else-if condition, ! == != && || + <, let, assignment, return, helper argument, for iterable, array / hash literal, index, argument of / body of another function, " +
	"helper block, loop body, second call, with parameters), third loop iteration, else-if body, else after else-if, for over a map, nested loops, contentFor body rendered later, default block of contentOf, " +
	"three-deep mixed nests, a body after a failure that a helper forgave, directly after a multi-line comment / tag); the random phase also draws nests of 1..4 bodies. " +
	"Gaps after the failing construct: none, space, LF, space LF, CR LF; 4 suffixes. " +
	"Oracle (from the statement, by counting line feeds in the generated text, never from the lexer): (1) every message line of the error starts with 'line N: '; " +
	"(2) N of the first message = line of the failing tag if it lies on one line, else within [first,last] line of the tag (to the end of input for an unterminated tag); " +
	"(3) after prepending k in 1..50 (E7: also 127..65536) lines of literal text (empty or not) the error is byte-identical except that every leading N became N+k (line numbers a message mentions in its own words, not at the start of a line, may move or stay). Parse and Render are both judged. " +
	"E5 and a quarter of the random run-time cases repeat this with plush.CacheEnabled on, in both evaluation orders (unshifted first / shifted first), and execute one parsed template twice. " +
	fmt.Sprintf("E8 / R2 (added after seeded change C15-9): %d failing tags given as token lists", len(laidKinds)) + " (the families above; words, keywords, numbers, strings, operators and brackets as tokens; if / else / else-if / for / function bodies and " +
	"several statements written inside one tag) x 13 contexts x line structures (how many line ends stand at each join between two tokens: one, two at each join, one at each pair - thorough, tags of up to 9 joins: triple - of joins, one at every join; random: 0..3 at each join), " +
	"each structure written in 5 blank styles (bare LF with no blank at all where tokens cannot fuse, blank before each line end, blank after, bare CR LF, tabs around). Oracle: (1)-(3) as above for the bare style, and " +
	"(4) N - and the N of every follow-on message - is the same in all five styles, because every token stands on the same line in all of them and the tag begins on the same line; (5) for a run-time fault of a tag that is one statement " +
	"lying entirely on the tag's first line (only the closer on a later line) N = that line. Non-trivial there: the tag spans lines and does not start on line 1. " +
	"Non-trivial: the failing tag does not start on line 1 (there is something to count); distinct by template text + shifts + cache mode."

func setup(t *testing.T) *vk.Run {
	r := vk.Start(t, "C15", rule,
		"a line end is LF or CR LF; a lone CR is not generated (the statement does not say whether it ends a line)",
		"only N of the first message of a multi-message parse error is compared with the failing tag; follow-on messages must carry a prefix and shift, their N is not fixed by the statement",
		"a fault inside an else / else-if continuation tag: any line from the tag that opens the if-statement to the continuation tag is accepted (the statement does not say which of them 'contains the failing statement'; the tree names the opening tag for run-time faults and the continuation tag for syntax faults)",
		"when no error is returned at all the case is counted under excluded (subject of C05), a panic likewise (C03/C04)",
		"# line comments are generated only where the byte after the following token is white space (AF-05 swallows that byte; subject of C18)",
		"a call site that tolerates an unknown identifier (if / else-if condition, ! == != && ||, C07) is not combined with the unknown-identifier kinds: whether the forgiven statement or the caller is 'the failing statement' of a later fault is not fixed by the statement",
		"no random text is appended after a tag or string that is unterminated at the end of the input: that text is code, and a quote, brace or operator in it can make an enclosing statement the failing one",
		"a value that fails only when it is PRINTED (a String method that panics) inside a block is reported on the line of the enclosing top-level tag: not one of the fault kinds the property lists, observed, not asserted")
	r.Replayer("line", func(raw json.RawMessage) *vk.Fail {
		var c Case
		if f := vk.Decode(raw, &c); f != nil {
			return f
		}
		for _, k := range c.Shifts {
			if k < 0 || k > 100000 {
				return &vk.Fail{Kind: "decode", Msg: "shift out of range"}
			}
		}
		return check(r, c)
	})
	r.Replayer("laid", func(raw json.RawMessage) *vk.Fail {
		var c LaidCase
		if f := vk.Decode(raw, &c); f != nil {
			return f
		}
		for _, k := range c.Shifts {
			if k < 0 || k > 100000 {
				return &vk.Fail{Kind: "decode", Msg: "shift out of range"}
			}
		}
		return checkLaid(r, c)
	})
	return r
}

func TestReplay(t *testing.T) { setup(t).ReplayEnv() }

func TestProp(t *testing.T) {
	r := setup(t)
	defer r.Finish()
	if err := validate(); err != nil {
		fmt.Printf("HARNESS-ERROR property=C15: a table entry is not a valid template on this tree: %v\n", err)
		r.Finish()
		os.Exit(2)
	}
	r.ReplayCommitted()

	// E: products of the tables. sweep runs kinds x contexts x the given prefixes x gaps x suffixes x layouts;
	// with rotate the gap and the suffix are not multiplied out but rotate with the cell index.
	seq := func(n int) []int {
		out := make([]int, n)
		for i := range out {
			out[i] = i
		}
		return out
	}
	sweep := func(name string, kds, cxs, pfx, gp, sf, lays []int, rotate bool, nshift int) {
		dims := []int{len(lays), len(sf), len(gp), len(pfx), len(cxs), len(kds)}
		if rotate {
			dims[1], dims[2] = 1, 1
		}
		total := int64(1)
		for _, d := range dims {
			total *= int64(d)
		}
		phase(name)
		r.Subspace(fmt.Sprintf("%s: %d failing kinds x %d contexts x %d prefixes x %d gaps x %d suffixes x %d layouts, %d shifts each (cells that are no fault by construction are skipped)",
			name, dims[5], dims[4], dims[3], dims[2], dims[1], dims[0], nshift), total, true)
		r.Parallel(total, 0, func(i int64) {
			j := i
			next := func(n int) int { v := int(j % int64(n)); j /= int64(n); return v }
			var cl cell
			cl.lay = lays[next(dims[0])]
			cl.suffix = sf[next(dims[1])]
			cl.gap = gp[next(dims[2])]
			if rotate {
				cl.suffix, cl.gap = sf[int(i/7)%len(sf)], gp[int(i)%len(gp)]
			}
			p := prefixes[pfx[next(dims[3])]]
			cl.prefix, cl.prefixRunsBlock = p.text, p.runsBlock
			cl.ctx = cxs[next(dims[4])]
			cl.kind = kds[next(dims[5])]
			shiftText := ""
			if i%2 == 1 {
				shiftText = "zz <b> \\ % >"
			}
			shifts := []int{1, 2 + int(i*7%48), 50}
			if nshift == 2 {
				shifts = []int{1 + int(i%2)*49, 2 + int(i*7%48)}
			}
			r.Check(trace(runCell(r, cl, shifts, shiftText)))
		})
	}
	allLays := seq(nLayouts)
	earlyLays := seq(layTight)
	// the tables as they were before the later additions (early) and the additions (late / extra)
	var earlyKinds, lateKinds, runtimeKinds, coreCtxs, extraCtxs []int
	for i, k := range kinds {
		if k.late {
			lateKinds = append(lateKinds, i)
		} else {
			earlyKinds = append(earlyKinds, i)
		}
		if k.runtime {
			runtimeKinds = append(runtimeKinds, i)
		}
	}
	var syntaxKinds, extraCtxsForSyntax []int
	for i, k := range kinds {
		if !k.runtime {
			syntaxKinds = append(syntaxKinds, i)
		}
	}
	for i, x := range ctxs {
		if x.extra {
			extraCtxs = append(extraCtxs, i)
			if !strings.HasPrefix(x.name, "function, called ") || len(extraCtxs)%4 == 1 || x.name == "function, called from a function" {
				extraCtxsForSyntax = append(extraCtxsForSyntax, i)
			}
		} else {
			coreCtxs = append(coreCtxs, i)
		}
	}
	var earlyPfx, latePfx []int
	for i, p := range prefixes {
		if p.late {
			latePfx = append(latePfx, i)
		} else {
			earlyPfx = append(earlyPfx, i)
		}
	}
	// one kind of every family (the first of the table)
	var familyKinds []int
	seenFamily := map[string]bool{}
	for i, k := range kinds {
		if !seenFamily[k.family] {
			seenFamily[k.family] = true
			familyKinds = append(familyKinds, i)
		}
	}
	e3p := pick("one text line", "multi-line back-quoted string", "helper forgives a failure in a function called by its block")
	e4p := pick("ninety-seven empty lines", "comment that ends the prefix without a line end", "string holding tag delimiters", "empty", "multi-line comment", "for block")
	if r.Quick() {
		sweep("every prefix", earlyKinds, coreCtxs, earlyPfx, seq(len(gaps)), seq(len(suffixes)), []int{layFlat, layAllLF}, true, 2)
		sweep("every later prefix, one kind per family", familyKinds, coreCtxs, latePfx, seq(len(gaps)), seq(len(suffixes)), []int{layFlat}, true, 2)
		sweep("every gap, suffix and layout", earlyKinds, coreCtxs, pick("multi-line double-quoted string", "if block"), seq(len(gaps)), seq(len(suffixes)), earlyLays, false, 2)
		// E3: the later contexts (call sites of the function that holds the failing tag, deeper bodies, second calls
		// and later iterations) x every kind; E4: the later kinds x the earlier contexts x every layout
		// (a parse error does not depend on how the function is called: the syntax kinds meet every fourth call site)
		sweep("E3 later contexts, kinds failing at run time", runtimeKinds, extraCtxs, e3p[1:], seq(len(gaps)), seq(len(suffixes)), []int{layFlat, layAllLF}, true, 2)
		sweep("E3 later contexts, syntax kinds", syntaxKinds, extraCtxsForSyntax, e3p[1:], seq(len(gaps)), seq(len(suffixes)), []int{layFlat, layAllLF}, true, 2)
		sweep("E4 later kinds", lateKinds, coreCtxs, e4p[:3], seq(len(gaps)), seq(len(suffixes)), allLays, true, 2)
		sweep("E6 tight layout", earlyKinds, seq(len(ctxs)), e3p[:1], seq(len(gaps)), seq(len(suffixes)), []int{layTight}, true, 2)
	} else {
		// the full product of the earlier tables as before; the later additions are swept against a share of the other
		// dimensions (the full product of everything would be four times the budget of this tier)
		sweep("full product of the earlier tables", earlyKinds, coreCtxs, earlyPfx, seq(len(gaps)), seq(len(suffixes)), earlyLays, false, 3)
		sweep("every later prefix", earlyKinds, coreCtxs, latePfx, seq(len(gaps)), seq(len(suffixes)), []int{layFlat, layAllLF}, true, 3)
		sweep("E3 later contexts", seq(len(kinds)), extraCtxs, append(append([]int{}, e3p...), e4p...), seq(len(gaps)), seq(len(suffixes)), []int{layFlat, layAllLF, layAllCRLF}, true, 3)
		sweep("E4 later kinds", lateKinds, coreCtxs, append(append([]int{}, e4p...), latePfx...), seq(len(gaps)), seq(len(suffixes)), allLays, true, 3)
		sweep("E6 tight layout", seq(len(kinds)), seq(len(ctxs)), e4p, seq(len(gaps)), seq(len(suffixes)), []int{layTight}, true, 3)
	}

	// E2: every shift 1..50 for every kind x context (x 2 prefixes x 2 gaps; the later kinds and contexts: 1 x 1)
	e2p := pick("one text line", "multi-line double-quoted string")
	e2g := []int{0, 3}
	all := make([]int, 50)
	for i := range all {
		all[i] = i + 1
	}
	everyShift := func(name string, kds, cxs, pfx, gp []int) {
		n := int64(len(kds) * len(cxs) * len(pfx) * len(gp))
		phase("every shift, " + name)
		r.Subspace(fmt.Sprintf("every shift k=1..50 x %d failing kinds x %d contexts x %d prefixes x %d gaps (%s)", len(kds), len(cxs), len(pfx), len(gp), name), n, true)
		r.Parallel(n, 0, func(i int64) {
			j := int(i)
			var cl cell
			cl.gap = gp[j%len(gp)]
			j /= len(gp)
			p := prefixes[pfx[j%len(pfx)]]
			j /= len(pfx)
			cl.prefix, cl.prefixRunsBlock = p.text, p.runsBlock
			cl.ctx = cxs[j%len(cxs)]
			cl.kind = kds[j/len(cxs)]
			r.Check(trace(runCell(r, cl, all, "")))
		})
	}
	everyShift("earlier tables", earlyKinds, coreCtxs, e2p, e2g)
	everyShift("later kinds", lateKinds, coreCtxs, e2p[1:], e2g[:1])
	if r.Quick() {
		everyShift("later contexts, one kind per family", familyKinds, extraCtxs, e2p[:1], e2g[1:])
	} else {
		everyShift("later contexts", seq(len(kinds)), extraCtxs, e2p[:1], e2g[1:])
	}

	// E7: shifts across the limits of narrow integers (a line counter kept in 8 or 16 bits, a width-limited format)
	phase("E7")
	big := []int{127, 128, 255, 256, 999, 1000, 32767, 32768, 65535, 65536}
	e7n := int64(len(familyKinds) * len(coreCtxs))
	r.Subspace(fmt.Sprintf("E7 shifts %v x one kind per family x %d contexts", big, len(coreCtxs)), e7n, true)
	r.Parallel(e7n, 0, func(i int64) {
		var cl cell
		cl.ctx = coreCtxs[int(i)%len(coreCtxs)]
		cl.kind = familyKinds[int(i)/len(coreCtxs)]
		p := prefixes[e2p[int(i)%2]]
		cl.prefix, cl.prefixRunsBlock = p.text, p.runsBlock
		cl.gap = int(i) % len(gaps)
		r.Check(trace(runCell(r, cl, big, "")))
	})

	// E5 (sequential: the cache switch is a package variable): with plush.CacheEnabled on, every kind that fails
	// while rendering x every context x 2 prefixes x both evaluation orders (unshifted first / shifted first), the
	// shift lines empty or not; the parsed template is also executed twice. What an earlier evaluation left in the
	// cache or in the template must not show in the line of a later one.
	e5p := pick("empty", "multi-line comment")
	e5n := len(runtimeKinds) * len(ctxs) * 2
	phase("E5")
	r.Subspace("E5 cache on: kinds failing at run time x contexts x 2 evaluation orders (the prefix alternates), 2 shifts each, parsed template executed twice", int64(e5n), true)
	for i := 0; i < e5n; i++ {
		if !r.Mine(int64(i)) {
			continue
		}
		j := i
		var cl cell
		first := j%2 == 1
		j /= 2
		p := prefixes[e5p[(j/7)%len(e5p)]]
		cl.prefix, cl.prefixRunsBlock = p.text, p.runsBlock
		cl.ctx = j % len(ctxs)
		cl.kind = runtimeKinds[j/len(ctxs)]
		cl.gap, cl.suffix = i%len(gaps), (i/3)%len(suffixes)
		shiftText := ""
		if i%4 >= 2 {
			shiftText = " \t"
		}
		r.Check(trace(runCellWith(r, cl, []int{1 + i%3, 9 + i%40}, shiftText, true, first)))
	}

	if n, e := atomic.LoadInt64(&noError), atomic.LoadInt64(&evaluated); e > 0 && n*50 > e {
		fmt.Printf("HARNESS-ERROR property=C15: %d of %d generated faulty templates returned no error: the generator no longer produces faults\n", n, e)
		r.Finish()
		os.Exit(2)
	}

	// E8: the failing tag laid out token by token (see laidKinds): every kind x 13 contexts x line structures, each
	// judged in 5 blank styles; the prefix rotates in the quick tier and is multiplied out in the thorough tier.
	phase("E8")
	validateLaid()
	var e8x []ctx
	for _, n := range []string{"top", "top, mid-line", "if", "else", "for", "function", "block helper", "if in for, same line", "function, called in let",
		"function, called from a function", "loop, third iteration", "contentFor body, rendered by a later contentOf", "top, directly after a tag that spans lines"} {
		found := false
		for _, x := range ctxs {
			if x.name == n {
				e8x, found = append(e8x, x), true
			}
		}
		if !found {
			panic("no context named " + n)
		}
	}
	e8p := pick("one text line", "empty", "multi-line back-quoted string", "tags whose code starts on the next line", "CRLF text and tag")
	type e8cell struct {
		k, x, p int
		nl      []int
	}
	var e8 []e8cell
	e8structs := 0
	for ki, k := range laidKinds {
		toks, _ := k.split()
		st := laidStructures(len(toks)-1, !r.Quick() && len(toks)-1 <= 9)
		e8structs += len(st)
		for xi := range e8x {
			for si, nl := range st {
				if r.Quick() {
					e8 = append(e8, e8cell{ki, xi, (ki + xi + si) % len(e8p), nl})
					continue
				}
				for pi := range e8p {
					e8 = append(e8, e8cell{ki, xi, pi, nl})
				}
			}
		}
	}
	r.Subspace(fmt.Sprintf("E8 laid-out tags: %d kinds x %d contexts x %d line structures in all (a line end, an empty line at each join between two tokens; line ends at each pair%s of joins; at all joins) x %s, 5 blank styles and 2 shifts each",
		len(laidKinds), len(e8x), e8structs, map[bool]string{true: "", false: " and - tags of up to 9 joins - triple"}[r.Quick()], map[bool]string{true: "a rotating prefix out of 5", false: "5 prefixes"}[r.Quick()]), int64(len(e8)), true)
	r.Parallel(int64(len(e8)), 0, func(i int64) {
		cl := e8[i]
		r.Check(runLaid(r, laidKinds[cl.k], e8x[cl.x], prefixes[e8p[cl.p]].text, cl.nl, []int{1, 3 + int(i%47)}))
	})

	// R2: random line structures (0..3 line ends at each join) behind random prefixes
	phase("R2")
	r.Rapid("random laid-out tags", r.Pick(1500, 8000), func(t *rapid.T) *vk.Fail {
		prefix, _ := genPrefix(t)
		k := laidKinds[rapid.IntRange(0, len(laidKinds)-1).Draw(t, "kind")]
		x := e8x[rapid.IntRange(0, len(e8x)-1).Draw(t, "ctx")]
		toks, _ := k.split()
		nl := make([]int, len(toks)-1)
		for i := range nl {
			nl[i] = rapid.SampledFrom([]int{0, 0, 0, 1, 1, 2, 3}).Draw(t, "line ends")
		}
		if _, ok := buildLaid(k, x, prefix, nl, nil); !ok {
			r.Exclude("not a fault by construction")
			return nil
		}
		res := vk.Safe(func() (string, error) { return plush.Render(prefix+x.pre+x.ok()+x.post, plush.NewContextWith(data())) })
		if res.Panicked() || res.Err != nil {
			r.Exclude("random prefix or context does not render with a harmless tag (not C15's subject)")
			return nil
		}
		return runLaid(r, k, x, prefix, nl, []int{rapid.IntRange(1, 50).Draw(t, "k")})
	})

	phase("R")
	defer phase("end")
	// R: random prefixes, random layouts of the failing tag, random suffix text
	r.Rapid("random", r.Pick(6000, 60000), func(t *rapid.T) *vk.Fail {
		var cl cell
		cl.prefix, cl.prefixRunsBlock = genPrefix(t)
		cl.kind = rapid.IntRange(0, len(kinds)-1).Draw(t, "kind")
		cl.ctx = rapid.IntRange(0, len(ctxs)-1).Draw(t, "ctx")
		if rapid.IntRange(0, 2).Draw(t, "nested") == 0 {
			x := genNest(t)
			cl.nest = &x
		}
		cl.gap = rapid.IntRange(0, len(gaps)-1).Draw(t, "gap")
		cl.suffix = rapid.IntRange(0, len(suffixes)-1).Draw(t, "suffix")
		// random extra suffix lines
		for i := rapid.IntRange(0, 3).Draw(t, "extra"); i > 0; i-- {
			cl.extra += genTextLine(t) + "\n"
		}
		if kinds[cl.kind].toEOF {
			// the text after an unterminated tag or string is code: random text there (a quote that ends the string, a
			// brace that ends the enclosing block, an operator) can make an ENCLOSING statement the failing one
			cl.extra = ""
		}
		c, classes, ok := build(cl)
		if !ok {
			r.Exclude("not a fault by construction")
			return nil
		}
		// random layout: each space of the failing tag independently stays, or becomes LF / CR LF / several LFs
		var sb strings.Builder
		base := kinds[cl.kind].tag
		if rapid.IntRange(0, 3).Draw(t, "tight") == 0 {
			base = layout(base, layTight)
		}
		for _, ch := range base {
			if ch == ' ' {
				sb.WriteString(rapid.SampledFrom([]string{" ", " ", " ", "\n", "\r\n", "\n\n", " \n\t"}).Draw(t, "sep"))
			} else {
				sb.WriteRune(ch)
			}
		}
		c.Tag = vk.Text(sb.String())
		for _, name := range classes {
			if isOpen(r, name) {
				r.Exclude(name)
				return nil
			}
		}
		// the prefix must be a valid template on its own
		x := ctxs[cl.ctx]
		if cl.nest != nil {
			x = *cl.nest
		}
		res := vk.Safe(func() (string, error) {
			return plush.Render(cl.prefix+x.pre+x.ok()+x.post, plush.NewContextWith(data()))
		})
		if res.Panicked() || res.Err != nil {
			if cl.nest != nil && os.Getenv("C15_TRACE") != "" {
				fmt.Printf("NEST-INVALID %q: %s\n", cl.prefix+x.pre+x.ok()+x.post, res)
			}
			r.Exclude("random prefix or context does not render with a harmless tag (not C15's subject)")
			return nil
		}
		c.Shifts = []int{rapid.IntRange(1, 50).Draw(t, "k")}
		c.ShiftText = vk.Text(rapid.SampledFrom([]string{"", "", "t", "a \\ b", "é\r"}).Draw(t, "shift text"))
		// (this phase runs sequentially: the cache switch may be used)
		if kinds[cl.kind].runtime && rapid.IntRange(0, 3).Draw(t, "cache") == 0 {
			c.Cached, c.ShiftFirst = true, rapid.Bool().Draw(t, "shifted first")
		}
		return trace(check(r, c))
	})
}
