// C15 — every template error names the line of the failing tag, invariant under shifting.
package c15

import (
	"encoding/json"
	"errors"
	"fmt"
	"html/template"
	"os"
	"regexp"
	"strconv"
	"strings"
	"sync/atomic"
	"testing"

	"verif/internal/vk"

	plush "github.com/gobuffalo/plush/v5"
	"pgregory.net/rapid"
)

func TestMain(m *testing.M) { vk.Main(m) }

// ---- exclusion table -------------------------------------------------------------
//
// Generator classes that reproduce a genuine defect of the tree and are steered away from so that the rest of
// the space is still checked. EMPTY THIS TABLE (or delete single lines) once the defect is fixed in /repo:
// the cases of that class are then generated and asserted like all others. An open entry of
// known_findings.json that lists the class name has the same effect (r.OpenClass).
var knownOpen = map[string]bool{
	// (empty: AF-14, AF-15 and AF-16 were fixed in /repo; their classes
	// "parse-number-literal-message", "runtime-error-after-block",
	// "runtime-error-after-call-in-same-statement" and
	// "error-keyed-to-last-token-before-newline" are generated and asserted like all others)
}

// C15_NOEXCLUDE=1 ignores the table for one run (shows what the excluded classes still do on the current tree).
func isOpen(r *vk.Run, class string) bool {
	if os.Getenv("C15_NOEXCLUDE") != "" {
		return false
	}
	return knownOpen[class] || r.OpenClass(class)
}

// ---- tables ------------------------------------------------------------------------

// piece: a chunk of valid template text that renders without error on its own.
type piece struct {
	name      string
	text      string
	runsBlock bool // executes the body of a block (if / for / function / block helper) while rendering
}

var prefixes = []piece{
	{name: "empty", text: ""},
	{name: "one text line", text: "hello world\n"},
	{name: "empty lines", text: "\n\n\n"},
	{name: "text, same line", text: "lead \t"},
	{name: "ok emit tag", text: "<%= 1 + 2 %>\n"},
	{name: "silent let", text: "<% let a = 1 %>\n"},
	{name: "multi-line double-quoted string", text: "<% let s = \"multi\nline\n\nstring\" %>\n"},
	{name: "multi-line back-quoted string", text: "<% let b = `raw\nback\n\nquoted` %>\n"},
	{name: "string with escaped quote and newline", text: "<% let u = \"q\\\"x\ny\" %>\n"},
	{name: "string holding tag delimiters", text: "<% let t = \"a %> b\n<% c\" %>\n"},
	{name: "multi-line comment", text: "<%# a\nmulti-line\n\ncomment %>\n"},
	{name: "comment with quote and opener", text: "<%# it's \"quoted\n<% ` %>\n"},
	{name: "comment opener directly followed by a newline", text: "<%#\nbody starts on the next line\n%>\n"},
	{name: "empty comments and comment opener followed by CRLF", text: "<%#%><%#\r\n\r\n%>\r\n<%##\n%>\n"},
	{name: "tags whose code starts on the next line", text: "<%\nlet nl = 1\n%>\n<%=\nnl\n%>\n"},
	{name: "line comment before code", text: "<% # line comment\n let c = 3 %>\n"},
	{name: "line comment after code", text: "<% let d = 4 # trailing comment\n %>\n"},
	{name: "CRLF text and tag", text: "text\r\nwith crlf\r\n<%= 2 %>\r\n"},
	{name: "CRLF inside string and comment", text: "<% let e = \"x\r\ny\" %>\r\n<%# c\r\nd %>\r\n"},
	{name: "multi-line code tag", text: "<%=\n 1 +\n 2\n%>\n"},
	{name: "multi-line hash literal", text: "<% let h = {\n\"a\": 1,\n\"b\": 2\n} %>\n"},
	{name: "escaped tag opener", text: "\\<%= not a tag %>\n"},
	{name: "multi-byte text", text: "é漢字 ü\n"},
	{name: "if not taken", text: "<%= if (false) { %>\nno\n<% } %>\n"},
	{name: "if block", text: "<%= if (true) { %>\nyes\n<% } %>\n", runsBlock: true},
	{name: "if/else block with statements", text: "<%= if (false) { %>\nno\n<% } else { %>\n<% let z = 1 %>\n<%= z %>\n<% } %>\n", runsBlock: true},
	{name: "for block", text: "<%= for (v) in xs { %>\n<%= v %>\n<% } %>\n", runsBlock: true},
	{name: "function defined and called", text: "<% let g = fn(y) { %>\n<%= y %>\n<% } %>\n<%= g(1) %>\n", runsBlock: true},
	{name: "function defined, not called", text: "<% let g = fn(y) { %>\n<%= y %>\n<% } %>\n"},
	{name: "block helper", text: "<%= blk() { %>\nin\n<% } %>\n", runsBlock: true},
	// an unknown identifier inside a NESTED statement whose failure the enclosing tag tolerates (if conditions, !,
	// ==, ||): that earlier tag succeeded, a later failure is reported on its own line
	{name: "tolerated failure in a function body, if condition", text: "<% let tf = fn() { %>\n<%= undefinedThing %>\n<% } %>\n<%= if (tf()) { %>\nyes\n<% } else { %>\nno\n<% } %>\n", runsBlock: true},
	{name: "tolerated failure in a function body, bang", text: "<% let tg = fn() {\n  return missingName\n} %>\n<%= !tg() %>\n", runsBlock: true},
	{name: "tolerated failure in a function body, == nil", text: "<% let th = fn() { %>\n<% let q = missingName %>\n<% } %>\n<%= th() == nil %>\n", runsBlock: true},
	{name: "tolerated failure in a function body, ||", text: "<% let tk = fn() { %>\n\n<% if (true) { %>\n<% return missingName %>\n<% } %>\n<% } %>\n<%= tk() || \"alt\" %>\n", runsBlock: true},
	{name: "tolerated failure in a loop in a function body", text: "<% let tl = fn() { %>\n<%= for (v) in xs { %>\n<%= missingName %>\n<% } %>\n<% } %>\n<%= if (!tl()) { %>t<% } %>\n", runsBlock: true},
}

// ctx: where the failing tag is placed. The template is prefix + kind.setup + pre + TAG + tail + gap + post + suffix.
type ctx struct {
	name, pre, post string
	top             bool // the failing statement is a top-level statement
	loop            bool // break / continue are legal here
}

var ctxs = []ctx{
	{name: "top", top: true},
	{name: "top, mid-line", pre: "mid \t", top: true},
	{name: "if", pre: "<%= if (true) { %>\n", post: "<% } %>"},
	{name: "else", pre: "<%= if (false) { %>\nno\n<% } else { %>\n", post: "<% } %>"},
	{name: "for", pre: "<%= for (x) in xs { %>\n", post: "<% } %>", loop: true},
	{name: "function", pre: "<% let f = fn() { %>\n", post: "<% } %>\n\n<%= f() %>"},
	{name: "block helper", pre: "<%= blk() { %>\n", post: "<% } %>"},
	{name: "for, after a tolerated failure in the same body", pre: "<% let tz = fn() { %>\n<%= missingName %>\n<% } %>\n<%= for (x) in xs { %>\n<%= if (tz()) { %>y<% } %>\n", post: "<% } %>", loop: true},
	{name: "if in for, same line", pre: "<%= for (x) in one { %><%= if (x) { %>", post: "<% } %><% } %>", loop: true},
}

// kind: one failing statement. tag is the failing tag (single line, single spaces between tokens, no spaces
// inside strings, so that layouts can turn spaces into line ends); tail is further text belonging to the same
// construct (never part of the failing tag); setup is valid text needed before it.
type kind struct {
	name, family string
	setup        string
	lead         string // valid opening part of the same construct, before the failing tag
	tag, tail    string
	runtime      bool // the error is raised while rendering (else: while parsing)
	loopOnly     bool // not a fault inside a loop body (break / continue)
	toEOF        bool // the tag is unterminated: it extends to the end of the input
	// attributes used ONLY to name the generator classes of the exclusion table:
	number     bool // over-long number literal (AF-15)
	keyedToEnd bool // the parser consumes the closing %> as an operand, the message is keyed to that token (AF-16)
	afterCall  bool // a function body runs earlier in the same statement (AF-14, second shape)
}

var kinds = []kind{
	// --- runtime families
	{name: "unknown identifier", family: "unknown-identifier", tag: `<%= nope %>`, runtime: true},
	{name: "unknown identifier in let", family: "unknown-identifier", tag: `<% let q = nope %>`, runtime: true},
	{name: "unknown function", family: "unknown-identifier", tag: `<%= nope(1) %>`, runtime: true},
	{name: "assignment to undeclared", family: "unknown-identifier", tag: `<% undeclared = 1 %>`, runtime: true},
	{name: "unknown identifier as for iterable", family: "unknown-identifier", tag: `<%= for (w) in nope { %>`, tail: `w<% } %>`, runtime: true},
	{name: "failing helper", family: "failing-helper", tag: `<%= boom() %>`, runtime: true},
	{name: "failing helper, silent tag", family: "failing-helper", tag: `<% boom() %>`, runtime: true},
	{name: "failing helper as operand", family: "failing-helper", tag: `<%= "a" + boom() %>`, runtime: true},
	{name: "failing helper as if condition", family: "failing-helper", tag: `<%= if (boom()) { %>`, tail: `c<% } %>`, runtime: true},
	{name: "type error int + string", family: "type-error", tag: `<%= 1 + "a" %>`, runtime: true},
	{name: "type error minus string", family: "type-error", tag: `<%= -"a" %>`, runtime: true},
	{name: "no such field", family: "type-error", tag: `<%= xs.Nope %>`, runtime: true},
	{name: "call of a non-function", family: "type-error", tag: `<%= xs() %>`, runtime: true},
	{name: "dangling operator", family: "type-error", tag: `<%= 1 + %>`, runtime: true},
	{name: "minus without operand", family: "type-error", tag: `<%= - %>`, runtime: true},
	{name: "index of an int", family: "type-error", tag: `<%= xs[1][2] %>`, runtime: true},
	{name: "invalid regular expression", family: "type-error", tag: `<%= "a" ~= "(" %>`, runtime: true},
	{name: "no such field, nested", family: "type-error", tag: `<%= one.Foo.Bar %>`, runtime: true},
	{name: "failing helper in else-if condition", family: "failing-helper", lead: "<%= if (false) { %>\nc\n", tag: `<% } else if (boom()) { %>`, tail: `d<% } %>`, runtime: true},
	{name: "index out of range", family: "index-out-of-range", tag: `<%= xs[9] %>`, runtime: true},
	{name: "index out of range on literal", family: "index-out-of-range", tag: `<%= [1,2][5] %>`, runtime: true},
	{name: "division by zero", family: "division-by-zero", tag: `<%= 1 / 0 %>`, runtime: true},
	{name: "division by zero in let", family: "division-by-zero", tag: `<% let q = 7 / 0 %>`, runtime: true},
	{name: "unknown identifier after a call", family: "unknown-identifier", setup: "<% let f0 = fn() { %>\n<% let i0 = 1 %>\n<% } %>\n\n", tag: `<%= f0() + nope %>`, runtime: true, afterCall: true},
	// a failure that the SAME statement forgives (an unknown identifier raised in the body of a called function, used as
	// an operand of == / && / ! or as an if condition) comes first; the statement then fails for another reason
	{name: "type error after a forgiven failure, &&", family: "type-error", setup: "<% let t0 = fn() { %>\n<% return missingName %>\n<% } %>\n\n", tag: `<%= t0() == nil && 1 + "a" %>`, runtime: true, afterCall: true},
	{name: "failing helper after a forgiven failure, ==", family: "failing-helper", setup: "<% let t0 = fn() { %>\n<% return missingName %>\n<% } %>\n\n", tag: `<%= t0() == boom() %>`, runtime: true, afterCall: true},
	{name: "division by zero after a forgiven failure, !", family: "division-by-zero", setup: "<% let t0 = fn() { %>\n<% let q0 = missingName %>\n<% } %>\n\n", tag: `<%= !t0() && 1 / 0 %>`, runtime: true, afterCall: true},
	{name: "failing helper in else-if after a forgiven if condition", family: "failing-helper", setup: "<% let t0 = fn() { %>\n<% return missingName %>\n<% } %>\n\n", lead: "<%= if (t0()) { %>\nc\n", tag: `<% } else if (boom()) { %>`, tail: `d<% } %>`, runtime: true, afterCall: true},
	{name: "unknown identifier, unterminated tag", family: "unterminated", tag: `<%= nope`, runtime: true, toEOF: true},
	{name: "unknown identifier, unterminated string", family: "unterminated", tag: `<%= nope + "abc`, runtime: true, toEOF: true},
	{name: "unknown identifier, unterminated raw string", family: "unterminated", tag: "<%= nope + `abc", runtime: true, toEOF: true},
	// --- syntax families
	{name: "unbalanced (", family: "unbalanced", tag: `<%= (1 %>`},
	{name: "unbalanced [", family: "unbalanced", tag: `<%= [1 %>`},
	{name: "unbalanced {", family: "unbalanced", tag: `<%= {"a": 1 %>`},
	{name: "unclosed index", family: "unbalanced", tag: `<%= xs[1 %>`},
	{name: "open index", family: "unbalanced", tag: `<%= xs[ %>`, keyedToEnd: true},
	{name: "open call", family: "unbalanced", tag: `<%= boom( %>`, keyedToEnd: true},
	{name: "open call after comma", family: "unbalanced", tag: `<%= boom(1, %>`, keyedToEnd: true},
	{name: "open paren", family: "unbalanced", tag: `<%= ( %>`, keyedToEnd: true},
	{name: "open array after comma", family: "unbalanced", tag: `<%= [1, %>`, keyedToEnd: true},
	{name: "open hash after colon", family: "unbalanced", tag: `<%= {"a": %>`, keyedToEnd: true},
	{name: "open fn parameters", family: "unbalanced", tag: `<%= fn( %>`, keyedToEnd: true},
	{name: "open if condition", family: "unbalanced", tag: `<%= if ( %>`, keyedToEnd: true},
	{name: "open for header", family: "unbalanced", tag: `<%= for ( %>`},
	{name: "call arguments without comma", family: "unbalanced", tag: `<%= boom(1 2) %>`},
	{name: "stray )", family: "unbalanced", tag: `<%= ) %>`},
	{name: "stray ]", family: "unbalanced", tag: `<%= ] %>`},
	{name: "stray }", family: "unbalanced", tag: `<%= } %>`},
	{name: "unbalanced (, unterminated string", family: "unterminated", tag: `<%= (1 + "abc`, toEOF: true},
	{name: "dangling operator, unterminated tag", family: "unterminated", tag: `<%= 1 +`, runtime: true, toEOF: true}, // following text becomes the operand: fails while rendering
	{name: "if missing {", family: "missing-brace-or-paren", tag: `<%= if (true) %>`, tail: `c<% } %>`},
	{name: "if missing )", family: "missing-brace-or-paren", tag: `<%= if (true { %>`, tail: `c<% } %>`},
	{name: "if missing (", family: "missing-brace-or-paren", tag: `<%= if true { %>`, tail: `c<% } %>`},
	{name: "for missing {", family: "missing-brace-or-paren", tag: `<%= for (w) in xs %>`, tail: `c<% } %>`},
	{name: "for missing ( )", family: "missing-brace-or-paren", tag: `<%= for w in xs { %>`, tail: `c<% } %>`},
	{name: "else missing {", family: "missing-brace-or-paren", lead: "<%= if (true) { %>\nc\n", tag: `<% } else %>`, tail: `d<% } %>`},
	{name: "else if missing ( )", family: "if-without-condition", lead: "<%= if (true) { %>c", tag: `<% } else if { %>`, tail: `d<% } %>`},
	{name: "let missing name after let", family: "malformed-let", tag: `<% let q = 1 let %>`},
	{name: "return in emit tag", family: "illegal-character", tag: `<%= return %>`},
	{name: "fn missing {", family: "missing-brace-or-paren", tag: `<%= fn(p) %>`},
	{name: "fn missing )", family: "missing-brace-or-paren", tag: `<%= fn(p { } %>`},
	{name: "illegal character @", family: "illegal-character", tag: `<%= 1 @ 2 %>`},
	{name: "illegal character alone", family: "illegal-character", tag: `<%= @ %>`},
	{name: "illegal single &", family: "illegal-character", tag: `<%= 1 & 2 %>`},
	{name: "illegal single |", family: "illegal-character", tag: `<%= 1 | 2 %>`},
	{name: "illegal number 1.2.3", family: "illegal-character", tag: `<%= 1.2.3 %>`},
	{name: "prefix *", family: "illegal-character", tag: `<%= * 2 %>`},
	{name: "let without name", family: "malformed-let", tag: `<% let = 1 %>`},
	{name: "let without =", family: "malformed-let", tag: `<% let q 1 %>`},
	{name: "let number", family: "malformed-let", tag: `<% let 1 = 2 %>`},
	{name: "if without condition", family: "if-without-condition", tag: `<%= if () { %>`, tail: `c<% } %>`},
	{name: "if without ( )", family: "if-without-condition", tag: `<%= if { %>`, tail: `c<% } %>`},
	{name: "for without in", family: "for-without-in", tag: `<%= for (w) xs { %>`, tail: `c<% } %>`},
	{name: "break outside a loop", family: "break-outside-loop", tag: `<% break %>`, loopOnly: true},
	{name: "continue outside a loop", family: "break-outside-loop", tag: `<% continue %>`, loopOnly: true},
	{name: "over-long integer literal", family: "over-long-number", tag: `<%= 99999999999999999999 %>`, number: true},
	{name: "over-long integer literal in let", family: "over-long-number", tag: `<% let q = 123456789012345678901234567890 %>`, number: true},
	{name: "over-long float literal", family: "over-long-number", tag: `<%= 1` + strings.Repeat("9", 400) + `.5 %>`, number: true},
}

// text between the failing construct and the closing text of the context
var gaps = []string{"", " ", "\n", " \n", "\r\n"}

var suffixes = []string{
	"",
	"\n",
	"\nplain\n<%= 1 + 1 %>\n\n",
	" <%= 2 %> tail\r\n<%= if (true) { %>\ny\n<% } %>\n",
}

// layouts of the failing tag
const (
	layFlat      = iota // as written: the tag lies on one line
	layAllLF            // every space becomes a line feed
	layAllCRLF          // every space becomes CR LF
	layAfterOpen        // line feed after the opener
	layBeforeEnd        // line feed before the last token
	layStringLF         // as written, but a line feed inside the first string literal of the tag
	nLayouts
)

func layout(tag string, lay int) string {
	switch lay {
	case layAllLF:
		return strings.ReplaceAll(tag, " ", "\n")
	case layAllCRLF:
		return strings.ReplaceAll(tag, " ", "\r\n")
	case layAfterOpen:
		return strings.Replace(tag, " ", "\n", 1)
	case layBeforeEnd:
		if i := strings.LastIndex(tag, " "); i >= 0 {
			return tag[:i] + "\n" + tag[i+1:]
		}
	case layStringLF:
		if i := strings.IndexAny(tag, "\"`"); i >= 0 {
			return tag[:i+1] + "\n" + tag[i+1:]
		}
	}
	return tag
}

// ---- the case and its oracle -----------------------------------------------------------

type Case struct {
	Kind      string   `json:"kind"`
	Ctx       string   `json:"ctx"`
	Pre       vk.Text  `json:"pre"`        // everything before the failing construct
	Lead      vk.Text  `json:"lead"`       // opening tags of the same construct when the failing tag continues one (else-if, else)
	Tag       vk.Text  `json:"tag"`        // the failing tag as laid out
	Post      vk.Text  `json:"post"`       // everything after it
	ToEOF     bool     `json:"to_eof"`     // the tag is unterminated and extends to the end of the input
	Shifts    []int    `json:"shifts"`     // numbers of newlines of literal text to prepend
	ShiftText vk.Text  `json:"shift_text"` // text of each prepended line (may be empty)
	Classes   []string `json:"classes,omitempty"`
}

func (c Case) src() string { return string(c.Pre) + string(c.Lead) + string(c.Tag) + string(c.Post) }

func data() map[string]interface{} {
	return map[string]interface{}{
		"xs":   []int{1, 2, 3},
		"one":  []int{1},
		"boom": func() (string, error) { return "", errors.New("kaboom") },
		"blk": func(h plush.HelperContext) (template.HTML, error) {
			s, err := h.Block()
			return template.HTML(s), err
		},
	}
}

var apis = []struct {
	name string
	run  func(src string) (string, error)
}{
	{"Render", func(src string) (string, error) { return plush.Render(src, plush.NewContextWith(data())) }},
	{"Parse", func(src string) (string, error) { _, err := plush.Parse(src); return "", err }},
}

var lineRE = regexp.MustCompile(`^line (\d+): `)

type msgLine struct {
	n    int
	rest string
}

// splitErr splits an error text into its messages; ok is false if the text does not START with "line N: ". A
// later line without the prefix continues the message before it (a message may quote a piece of the template that
// spans lines); every line that does carry a prefix is a message of its own, whose N must move with a shift.
func splitErr(s string) (out []msgLine, bad string, ok bool) {
	for i, l := range strings.Split(s, "\n") {
		m := lineRE.FindStringSubmatch(l)
		if m == nil {
			if i == 0 {
				return nil, l, false
			}
			out[len(out)-1].rest += "\n" + l
			continue
		}
		n, err := strconv.Atoi(m[1])
		if err != nil {
			return nil, l, false
		}
		out = append(out, msgLine{n, l[len(m[0]):]})
	}
	return out, "", true
}

var noError, evaluated int64

func check(r *vk.Run, c Case) *vk.Fail {
	defer r.Watch("line", c)()
	src := c.src()
	first := 1 + strings.Count(string(c.Pre), "\n")
	// When the failing tag continues a construct opened by earlier tags (Lead), the statement does not say whether
	// "the tag containing the failing statement" is the tag where the if-statement begins or the continuation tag
	// holding the faulty part: any line from the one to the other is accepted.
	last := first + strings.Count(string(c.Lead)+string(c.Tag), "\n")
	if c.ToEOF {
		last = 1 + strings.Count(src, "\n")
	}
	fail := func(f string, a ...interface{}) *vk.Fail {
		cl := ""
		if len(c.Classes) > 0 {
			cl = c.Classes[0]
		}
		return &vk.Fail{Kind: "line", Class: cl, Case: c, Msg: fmt.Sprintf("template %q (failing tag %q on line %d..%d): ", src, string(c.Lead)+string(c.Tag), first, last) + fmt.Sprintf(f, a...)}
	}
	nt := ""
	if first > 1 {
		nt = src + "\x00" + fmt.Sprint(c.Shifts) + string(c.ShiftText)
	}
	r.Count(nt, "kind/"+c.Kind)
	r.Class("ctx/" + c.Ctx)
	atomic.AddInt64(&evaluated, 1)
	for _, api := range apis {
		res := vk.Safe(func() (string, error) { return api.run(src) })
		if res.Panicked() {
			r.Exclude("panic (subject of C03/C04)")
			return nil
		}
		if res.Err == nil {
			if api.name == "Parse" {
				continue // the fault is raised while rendering
			}
			atomic.AddInt64(&noError, 1)
			if os.Getenv("C15_TRACE") != "" {
				fmt.Printf("NOERR %s | %s | %q\n", c.Kind, c.Ctx, src)
			}
			r.Exclude("no error returned (subject of C05)")
			return nil
		}
		text := res.Err.Error()
		if api.name == "Render" {
			r.Sample(func() interface{} {
				return map[string]interface{}{"template": src, "failing_tag": string(c.Tag), "kind": c.Kind, "context": c.Ctx,
					"tag_lines": []int{first, last}, "error": text, "shifts": c.Shifts}
			})
		}
		// (1) the error starts with "line N: "
		msgs, bad, ok := splitErr(text)
		if !ok {
			return fail("%s error %q: its first line %q does not start with \"line N: \"", api.name, text, bad)
		}
		// (2) N names the failing tag
		if n := msgs[0].n; first == last && n != first {
			return fail("%s error %q names line %d, the failing tag lies on line %d", api.name, text, n, first)
		} else if n < first || n > last {
			return fail("%s error %q names line %d, the failing tag spans lines %d..%d", api.name, text, n, first, last)
		}
		// (3) shifting
		for _, k := range c.Shifts {
			shifted := strings.Repeat(string(c.ShiftText)+"\n", k) + src
			res2 := vk.Safe(func() (string, error) { return api.run(shifted) })
			if res2.Panicked() || res2.Err == nil {
				return fail("%s after prepending %d line(s) %q the result is %s, without them error %q", api.name, k, string(c.ShiftText), res2, text)
			}
			text2 := res2.Err.Error()
			var want []string
			for _, m := range msgs {
				want = append(want, fmt.Sprintf("line %d: %s", m.n+k, m.rest))
			}
			if w := strings.Join(want, "\n"); text2 != w {
				return fail("%s after prepending %d line(s) %q the error is %q, want %q (unshifted: %q)", api.name, k, string(c.ShiftText), text2, w, text)
			}
		}
	}
	return nil
}

// ---- building cases from the tables --------------------------------------------------------

type cell struct {
	kind, ctx, gap, suffix, lay int
	prefix                      string
	prefixRunsBlock             bool
	extra                       string // further suffix text (random phase)
}

// build returns the case of a cell, the generator classes it belongs to, and ok=false for cells that are not
// faulty templates by construction (break inside a loop, a layout that does not apply).
func build(cl cell) (c Case, classes []string, ok bool) {
	k, x := kinds[cl.kind], ctxs[cl.ctx]
	if k.loopOnly && x.loop {
		return c, nil, false
	}
	if k.toEOF && k.runtime && x.name == "function" {
		return c, nil, false // the unterminated tag swallows the call of the function: nothing fails
	}
	tag := layout(k.tag, cl.lay)
	if cl.lay != layFlat && tag == k.tag {
		return c, nil, false
	}
	post := k.tail + gaps[cl.gap] + x.post + suffixes[cl.suffix] + cl.extra
	c = Case{Kind: k.name, Ctx: x.name, Pre: vk.Text(cl.prefix + k.setup + x.pre), Lead: vk.Text(k.lead), Tag: vk.Text(tag), Post: vk.Text(post), ToEOF: k.toEOF}
	if k.number {
		classes = append(classes, "parse-number-literal-message")
	}
	// (an unterminated tag or string takes the following text as code: what fails, and when, depends on that text)
	if (k.runtime || k.toEOF) && x.top && cl.prefixRunsBlock {
		classes = append(classes, "runtime-error-after-block")
	}
	if k.afterCall {
		classes = append(classes, "runtime-error-after-call-in-same-statement")
	}
	if k.keyedToEnd && strings.HasPrefix(post, "\n") {
		classes = append(classes, "error-keyed-to-last-token-before-newline")
	}
	c.Classes = classes
	return c, classes, true
}

// trace (development aid): C15_TRACE=1 prints one line per failing case, beyond the eight that the kit reports.
func trace(f *vk.Fail) *vk.Fail {
	if f != nil && os.Getenv("C15_TRACE") != "" {
		c := f.Case.(Case)
		i := strings.Index(f.Msg, "): ")
		fmt.Printf("TRACE %s | %s | next=%q | %s\n", c.Kind, c.Ctx, firstByte(string(c.Post)), f.Msg[i+3:])
	}
	return f
}

func firstByte(s string) string {
	if s == "" {
		return ""
	}
	return s[:1]
}

// run evaluates a cell unless it belongs to an open class.
func runCell(r *vk.Run, cl cell, shifts []int, shiftText string) *vk.Fail {
	c, classes, ok := build(cl)
	if !ok {
		return nil
	}
	for _, name := range classes {
		if isOpen(r, name) {
			r.Exclude(name)
			return nil
		}
	}
	c.Shifts, c.ShiftText = shifts, vk.Text(shiftText)
	return check(r, c)
}

// validate renders every table entry with a harmless tag in place of the failing one: the tables themselves
// must be valid templates, otherwise the check would blame plush for the harness' own mistakes.
func validate() error {
	try := func(what, src string) error {
		res := vk.Safe(func() (string, error) { return plush.Render(src, plush.NewContextWith(data())) })
		if res.Panicked() || res.Err != nil {
			return fmt.Errorf("%s: %q does not render: %s", what, src, res)
		}
		return nil
	}
	for _, p := range prefixes {
		for _, x := range ctxs {
			for _, s := range suffixes {
				if err := try("prefix "+p.name+" / context "+x.name, p.text+x.pre+"<%= 1 %>"+x.post+s); err != nil {
					return err
				}
			}
		}
	}
	for _, k := range kinds {
		if k.setup != "" {
			if err := try("setup of "+k.name, k.setup); err != nil {
				return err
			}
		}
	}
	return nil
}

// pick returns the indexes of the named prefixes.
func pick(names ...string) []int {
	var out []int
	for _, n := range names {
		found := false
		for i, p := range prefixes {
			if p.name == n {
				out, found = append(out, i), true
			}
		}
		if !found {
			panic("no prefix named " + n)
		}
	}
	return out
}

// ---- random composition ------------------------------------------------------------------------

var textAlphabet = []string{"a", "b", "Z", "0", " ", " ", "\t", "é", "漢", "\"", "'", "`", "#", "%", ">", "%>", "=", "{", "}", "(", ")", "\\", "< ", "-"}

func genTextLine(t *rapid.T) string {
	n := rapid.IntRange(0, 12).Draw(t, "len")
	var sb strings.Builder
	for i := 0; i < n; i++ {
		sb.WriteString(rapid.SampledFrom(textAlphabet).Draw(t, "ch"))
	}
	s := sb.String()
	// a backslash directly before a tag opener is an escape; keep literal text from ending in one
	s = strings.TrimRight(s, "\\")
	return s
}

func genPrefix(t *rapid.T) (string, bool) {
	n := rapid.IntRange(0, 8).Draw(t, "pieces")
	var sb strings.Builder
	runs := false
	for i := 0; i < n; i++ {
		switch rapid.IntRange(0, 9).Draw(t, "piece") {
		case 0, 1, 2:
			eol := rapid.SampledFrom([]string{"\n", "\n", "\r\n"}).Draw(t, "eol")
			sb.WriteString(genTextLine(t) + eol)
		case 3:
			// a silent tag holding a multi-line string
			q := rapid.SampledFrom([]string{"\"", "`"}).Draw(t, "quote")
			m := rapid.IntRange(1, 4).Draw(t, "lines")
			body := ""
			for j := 0; j < m; j++ {
				l := genTextLine(t)
				l = strings.NewReplacer("\"", "", "`", "", "\\", "").Replace(l)
				body += l + rapid.SampledFrom([]string{"\n", "\r\n"}).Draw(t, "eol")
			}
			fmt.Fprintf(&sb, "<%% let s%d = %s%s%s %%>\n", i, q, body, q)
		case 4:
			// a multi-line comment tag
			m := rapid.IntRange(1, 4).Draw(t, "lines")
			body := ""
			for j := 0; j < m; j++ {
				l := strings.ReplaceAll(genTextLine(t), "%>", "% >")
				body += l + "\n"
			}
			sb.WriteString("<%# " + body + "%>\n")
		default:
			p := rapid.SampledFrom(prefixes).Draw(t, "table piece")
			sb.WriteString(p.text)
			runs = runs || p.runsBlock
		}
	}
	return sb.String(), runs
}

// ---- the check ---------------------------------------------------------------------------------------

var rule = "Templates = prefix + [setup] + context opener + ONE failing tag + tail + gap + context closer + suffix. " +
	fmt.Sprintf("Prefixes: %d table pieces", len(prefixes)) + " (text, empty lines, ok tags, silent tags holding multi-line double- and back-quoted strings incl. escaped quotes and tag delimiters, " +
	"multi-line <%# %> comments, # line comments, CRLF, multi-line code tags and hash literals, escaped openers, multi-byte text, if/else/for/function/block-helper blocks, taken and not taken) " +
	"and, in the random phase, sequences of 0..8 pieces mixed with random text lines, random multi-line strings and comments. " +
	fmt.Sprintf("Failing tags: %d kinds (", len(kinds)) + "unknown identifier, failing helper, type error, index out of range, division by zero, unbalanced ( [ {, missing { or ( ), illegal character, malformed let, " +
	"if without condition, for without in, break/continue outside a loop, over-long number literal, tag or string unterminated at the end of input, faults in else / else-if continuation tags), each in 6 layouts (one line; line feeds or CR LF between all tokens, " +
	"after the opener, before the last token, inside a string). Contexts: top level (start of line and mid-line), if, else, for, function body (called later), block helper, if-in-for on one line. " +
	"Gaps after the failing construct: none, space, LF, space LF, CR LF; 4 suffixes. " +
	"Oracle (from the statement, by counting line feeds in the generated text, never from the lexer): (1) every message line of the error starts with 'line N: '; " +
	"(2) N of the first message = line of the failing tag if it lies on one line, else within [first,last] line of the tag (to the end of input for an unterminated tag); " +
	"(3) after prepending k in 1..50 lines of literal text (empty or not) the error is byte-identical except that every leading N became N+k. Parse and Render are both judged. " +
	"Non-trivial: the failing tag does not start on line 1 (there is something to count); distinct by template text + shifts."

func setup(t *testing.T) *vk.Run {
	r := vk.Start(t, "C15", rule,
		"a line end is LF or CR LF; a lone CR is not generated (the statement does not say whether it ends a line)",
		"only N of the first message of a multi-message parse error is compared with the failing tag; follow-on messages must carry a prefix and shift, their N is not fixed by the statement",
		"a fault inside an else / else-if continuation tag: any line from the tag that opens the if-statement to the continuation tag is accepted (the statement does not say which of them 'contains the failing statement'; the tree names the opening tag for run-time faults and the continuation tag for syntax faults)",
		"when no error is returned at all the case is counted under excluded (subject of C05), a panic likewise (C03/C04)",
		"# line comments are generated only where the byte after the following token is white space (AF-05 swallows that byte; subject of C18)")
	r.Replayer("line", func(raw json.RawMessage) *vk.Fail {
		var c Case
		if f := vk.Decode(raw, &c); f != nil {
			return f
		}
		for _, k := range c.Shifts {
			if k < 0 || k > 10000 {
				return &vk.Fail{Kind: "decode", Msg: "shift out of range"}
			}
		}
		return check(r, c)
	})
	return r
}

func TestReplay(t *testing.T) { setup(t).ReplayEnv() }

func TestProp(t *testing.T) {
	r := setup(t)
	defer r.Finish()
	if err := validate(); err != nil {
		fmt.Printf("HARNESS-ERROR property=C15: a table entry is not a valid template on this tree: %v\n", err)
		r.Finish()
		os.Exit(2)
	}
	r.ReplayCommitted()

	// E: products of the tables. sweep runs kinds x contexts x the given prefixes x gaps x suffixes x layouts;
	// with rotate the gap and the suffix are not multiplied out but rotate with the cell index.
	seq := func(n int) []int {
		out := make([]int, n)
		for i := range out {
			out[i] = i
		}
		return out
	}
	sweep := func(name string, pfx, gp, sf, lays []int, rotate bool, nshift int) {
		dims := []int{len(lays), len(sf), len(gp), len(pfx), len(ctxs), len(kinds)}
		if rotate {
			dims[1], dims[2] = 1, 1
		}
		total := int64(1)
		for _, d := range dims {
			total *= int64(d)
		}
		r.Subspace(fmt.Sprintf("%s: %d failing kinds x %d contexts x %d prefixes x %d gaps x %d suffixes x %d layouts, %d shifts each (cells that are no fault by construction are skipped)",
			name, dims[5], dims[4], dims[3], dims[2], dims[1], dims[0], nshift), total, true)
		r.Parallel(total, 0, func(i int64) {
			j := i
			next := func(n int) int { v := int(j % int64(n)); j /= int64(n); return v }
			var cl cell
			cl.lay = lays[next(dims[0])]
			cl.suffix = sf[next(dims[1])]
			cl.gap = gp[next(dims[2])]
			if rotate {
				cl.suffix, cl.gap = sf[int(i/7)%len(sf)], gp[int(i)%len(gp)]
			}
			p := prefixes[pfx[next(dims[3])]]
			cl.prefix, cl.prefixRunsBlock = p.text, p.runsBlock
			cl.ctx = next(dims[4])
			cl.kind = next(dims[5])
			shiftText := ""
			if i%2 == 1 {
				shiftText = "zz <b> \\ % >"
			}
			shifts := []int{1, 2 + int(i*7%48), 50}
			if nshift == 2 {
				shifts = []int{1 + int(i%2)*49, 2 + int(i*7%48)}
			}
			r.Check(trace(runCell(r, cl, shifts, shiftText)))
		})
	}
	allLays := seq(nLayouts)
	if r.Quick() {
		sweep("every prefix", seq(len(prefixes)), seq(len(gaps)), seq(len(suffixes)), []int{layFlat, layAllLF}, true, 2)
		sweep("every gap, suffix and layout", pick("multi-line double-quoted string", "if block"), seq(len(gaps)), seq(len(suffixes)), allLays, false, 2)
	} else {
		sweep("full product", seq(len(prefixes)), seq(len(gaps)), seq(len(suffixes)), allLays, false, 3)
	}

	// E2: every shift 1..50 for every kind x context (x 2 prefixes x 2 gaps)
	e2p := pick("one text line", "multi-line double-quoted string")
	e2g := []int{0, 3}
	r.Subspace("every shift k=1..50 x failing kinds x contexts x 2 prefixes x 2 gaps", int64(len(kinds)*len(ctxs)*len(e2p)*len(e2g)), true)
	all := make([]int, 50)
	for i := range all {
		all[i] = i + 1
	}
	r.Parallel(int64(len(kinds)*len(ctxs)*len(e2p)*len(e2g)), 0, func(i int64) {
		j := int(i)
		var cl cell
		cl.gap = e2g[j%2]
		j /= 2
		p := prefixes[e2p[j%2]]
		j /= 2
		cl.prefix, cl.prefixRunsBlock = p.text, p.runsBlock
		cl.ctx = j % len(ctxs)
		cl.kind = j / len(ctxs)
		r.Check(trace(runCell(r, cl, all, "")))
	})

	if n, e := atomic.LoadInt64(&noError), atomic.LoadInt64(&evaluated); e > 0 && n*50 > e {
		fmt.Printf("HARNESS-ERROR property=C15: %d of %d generated faulty templates returned no error: the generator no longer produces faults\n", n, e)
		r.Finish()
		os.Exit(2)
	}

	// R: random prefixes, random layouts of the failing tag, random suffix text
	r.Rapid("random", r.Pick(6000, 60000), func(t *rapid.T) *vk.Fail {
		var cl cell
		cl.prefix, cl.prefixRunsBlock = genPrefix(t)
		cl.kind = rapid.IntRange(0, len(kinds)-1).Draw(t, "kind")
		cl.ctx = rapid.IntRange(0, len(ctxs)-1).Draw(t, "ctx")
		cl.gap = rapid.IntRange(0, len(gaps)-1).Draw(t, "gap")
		cl.suffix = rapid.IntRange(0, len(suffixes)-1).Draw(t, "suffix")
		// random extra suffix lines
		for i := rapid.IntRange(0, 3).Draw(t, "extra"); i > 0; i-- {
			cl.extra += genTextLine(t) + "\n"
		}
		c, classes, ok := build(cl)
		if !ok {
			r.Exclude("not a fault by construction")
			return nil
		}
		// random layout: each space of the failing tag independently stays, or becomes LF / CR LF / several LFs
		var sb strings.Builder
		for _, ch := range kinds[cl.kind].tag {
			if ch == ' ' {
				sb.WriteString(rapid.SampledFrom([]string{" ", " ", " ", "\n", "\r\n", "\n\n", " \n\t"}).Draw(t, "sep"))
			} else {
				sb.WriteRune(ch)
			}
		}
		c.Tag = vk.Text(sb.String())
		for _, name := range classes {
			if isOpen(r, name) {
				r.Exclude(name)
				return nil
			}
		}
		// the prefix must be a valid template on its own
		res := vk.Safe(func() (string, error) { return plush.Render(cl.prefix, plush.NewContextWith(data())) })
		if res.Panicked() || res.Err != nil {
			r.Exclude("random prefix does not render (not C15's subject)")
			return nil
		}
		c.Shifts = []int{rapid.IntRange(1, 50).Draw(t, "k")}
		c.ShiftText = vk.Text(rapid.SampledFrom([]string{"", "", "t", "a \\ b", "é\r"}).Draw(t, "shift text"))
		return trace(check(r, c))
	})
}
