// C17 — rendering via partial / layout / contentFor / contentOf / block helpers equals rendering inline.
//
// A case is a tree of documents (the main template, the bodies of partials, layouts, contentFor
// blocks, default blocks of contentOf and block-helper blocks). Three texts are derived from it:
//
//	composed  the real thing: partial("pN.ext", {...}), contentFor/contentOf, rec() { ... }
//	splice    the same source with every composition replaced by an oracle helper that renders the
//	          composed-in text ITSELF with plush.Render in the scope the statement names (the caller's
//	          scope extended with data, as a child scope) and leaves a placeholder; the placeholders
//	          are substituted textually afterwards (unescaped, exactly once), JavaScript escaping and
//	          layouts are applied by the oracle in Go
//	textual   (data-free cases only) the composed-in text pasted literally where the tag stands
//
// The composed render must equal both, byte for byte; errors are compared as error / no error.
package c17

import (
	"encoding/json"
	"fmt"
	"html/template"
	"os"
	"regexp"
	"sort"
	"strconv"
	"strings"
	"testing"

	"verif/internal/gen"
	"verif/internal/vk"

	plush "github.com/gobuffalo/plush/v5"
	"pgregory.net/rapid"
)

func TestMain(m *testing.M) { vk.Main(m) }

// knownOpen lists generator classes that are steered away from because of an open genuine defect.
// Empty it when the defect is fixed.
var knownOpen = map[string]bool{}

// ---- case ------------------------------------------------------------------------

type KV struct {
	K   string  `json:"k"`
	Lit *string `json:"lit,omitempty"` // string literal
	Var string  `json:"var,omitempty"` // variable reference, evaluated in the caller's scope
	Int *int    `json:"int,omitempty"`
	Nil bool    `json:"nil,omitempty"` // the literal nil: the key is bound, to nothing
}

type Lay struct {
	Pre  string `json:"pre,omitempty"`
	Ext  string `json:"ext"`
	Body []Item `json:"body"`
}

// Re (partial): the SAME partial name is called a second time right after the first call, with another data map
// written in the call, optionally after a let in the caller's scope: partial(n, d1) ~ [let x = "v"] partial(n, d2).
type Re struct {
	Data []KV   `json:"data,omitempty"`
	LetN string `json:"let_n,omitempty"`
	LetV string `json:"let_v,omitempty"`
}

// Item kinds: text | emit | tick | for | if | let | partial | cfor | cof | blk | yield
type Item struct {
	K    string `json:"k"`
	N    string `json:"n,omitempty"`   // emit: variable; for: list; if: condition; let: name; cfor/cof: content name
	V    string `json:"v,omitempty"`   // for: loop variable; let: literal value; blk: helper variant ("" twice never with arg)
	T    string `json:"t,omitempty"`   // text; blk variant arg: the label argument
	Pre  string `json:"pre,omitempty"` // partial: directory part / prefix of the name
	Ext  string `json:"ext,omitempty"`
	Data []KV   `json:"data,omitempty"`
	Body []Item `json:"body,omitempty"`
	Else []Item `json:"else,omitempty"`
	Def  bool   `json:"def,omitempty"` // cof: Body is its default block
	Lay  *Lay   `json:"lay,omitempty"`
	// Held (partial): the data map, layout entry included, is first bound to a variable and the partial is then called
	// TWICE with that variable: partial(name, held) ~ partial(name, held). Each call is what the call with a fresh
	// literal map is.
	// Held (cof): likewise contentOf(name, held) ~ contentOf(name, held).
	Held bool `json:"held,omitempty"`
	Re   *Re  `json:"re,omitempty"`
	// Alt: the other tag opener. partial / cof / blk: a silent tag <% ... %> (evaluated exactly once, nothing is
	// inserted); cfor: an output tag <%= contentFor(..) { %> (must still emit nothing).
	Alt bool `json:"alt,omitempty"`
	// Via (partial, cof without default block; not with held / re / alt): how the call is written. "let": its result
	// is bound to a variable which is inserted twice (evaluated once): <% let r = CALL %><%= r %>~<%= r %>. "fn": the call
	// is the result of a function defined and called on the spot: <% let f = fn() { return CALL } %><%= f() %>.
	Via string `json:"via,omitempty"`
}

type Texts struct {
	Main     string            `json:"main"`
	Partials map[string]string `json:"partials,omitempty"`
	Splice   string            `json:"splice_main,omitempty"`
	Textual  string            `json:"textual_main,omitempty"`
}

type Case struct {
	Mode    string             `json:"mode"`         // splice | textual
	CT      string             `json:"content_type"` // "" = contentType not set
	Strings map[string]vk.Text `json:"strings"`      // g0 g1 g2 s0 s1
	SL      []vk.Text          `json:"sl"`
	Big     int                `json:"big,omitempty"` // length of the list "bl" (many sibling compositions)
	// Cached: the composed template is rendered TWICE (fresh data each time) with plush.CacheEnabled switched on, so that
	// the second render runs on the parsed templates the first one left in the cache (main and every partial); both
	// must equal the inline render. Only in sequential phases (the switch is a global of plush).
	Cached bool   `json:"cached,omitempty"`
	Main   []Item `json:"main"`
	Texts  *Texts `json:"texts,omitempty"` // derived, informational (recomputed on replay)
}

var (
	nameRE  = regexp.MustCompile(`^[a-z][a-z0-9_]{0,11}$`)
	cnameRE = regexp.MustCompile(`^[A-Za-z0-9_ :.]{0,14}$`) // content names: any spelling a string literal takes
	extRE   = regexp.MustCompile(`^(\.[a-z]{1,4}){0,2}$`)
	preRE   = regexp.MustCompile(`^([A-Za-z0-9_.]{1,8}/){0,2}_?$`)
	litRE   = regexp.MustCompile(`^[^"\\@\x00]*$`)
)

func validItems(items []Item, depth int) error {
	if depth > 12 {
		return fmt.Errorf("too deep")
	}
	for _, it := range items {
		switch it.K {
		case "text":
			if strings.Contains(it.T, "@@") {
				return fmt.Errorf("text contains the placeholder marker")
			}
		case "cfor", "cof":
			if !cnameRE.MatchString(it.N) {
				return fmt.Errorf("bad content name %q", it.N)
			}
		case "emit", "for", "if":
			if !nameRE.MatchString(it.N) {
				return fmt.Errorf("bad name %q", it.N)
			}
			if it.K == "for" && !nameRE.MatchString(it.V) {
				return fmt.Errorf("bad loop variable %q", it.V)
			}
		case "let":
			if !nameRE.MatchString(it.N) || !litRE.MatchString(it.V) {
				return fmt.Errorf("bad let")
			}
		case "partial":
			if !extRE.MatchString(it.Ext) || (it.Lay != nil && !extRE.MatchString(it.Lay.Ext)) {
				return fmt.Errorf("bad extension")
			}
			if !preRE.MatchString(it.Pre) || (it.Lay != nil && !preRE.MatchString(it.Lay.Pre)) {
				return fmt.Errorf("bad name prefix")
			}
			if it.Re != nil {
				if it.Held {
					return fmt.Errorf("held and re exclude each other")
				}
				if it.Re.LetN != "" && (!nameRE.MatchString(it.Re.LetN) || !litRE.MatchString(it.Re.LetV)) {
					return fmt.Errorf("bad let between the calls")
				}
				if err := validData(it.Re.Data); err != nil {
					return err
				}
			}
			if it.Lay != nil {
				if err := validItems(it.Lay.Body, depth+1); err != nil {
					return err
				}
			}
		case "blk":
			switch it.V {
			case "", "twice", "never", "with", "meth":
			case "arg":
				if !litRE.MatchString(it.T) || strings.Contains(it.T, "<%") {
					return fmt.Errorf("bad label")
				}
			default:
				return fmt.Errorf("unknown block helper variant %q", it.V)
			}
		case "tick", "yield":
		default:
			return fmt.Errorf("unknown item kind %q", it.K)
		}
		if it.Held && it.Alt {
			return fmt.Errorf("held and alt exclude each other")
		}
		switch it.Via {
		case "":
		case "let", "fn":
			if (it.K != "partial" && it.K != "cof") || it.Held || it.Alt || it.Re != nil || it.Def {
				return fmt.Errorf("via does not combine with held / re / alt / a default block")
			}
		default:
			return fmt.Errorf("unknown via %q", it.Via)
		}
		if err := validData(it.Data); err != nil {
			return err
		}
		if err := validItems(it.Body, depth+1); err != nil {
			return err
		}
		if err := validItems(it.Else, depth+1); err != nil {
			return err
		}
	}
	return nil
}

func validData(kvs []KV) error {
	for _, kv := range kvs {
		if !nameRE.MatchString(kv.K) || (kv.Var != "" && !nameRE.MatchString(kv.Var)) || (kv.Lit != nil && !litRE.MatchString(*kv.Lit)) {
			return fmt.Errorf("bad data entry %q", kv.K)
		}
		if kv.K == "layout" || kv.K == "yield" || kv.K == "contentType" || kv.K == "partialFeeder" {
			return fmt.Errorf("reserved data key %q", kv.K)
		}
	}
	return nil
}

// ---- printers --------------------------------------------------------------------

func dataLit(kvs []KV, layout string) string {
	var parts []string
	for _, kv := range kvs {
		switch {
		case kv.Lit != nil:
			parts = append(parts, kv.K+`: "`+*kv.Lit+`"`)
		case kv.Int != nil:
			parts = append(parts, kv.K+": "+strconv.Itoa(*kv.Int))
		case kv.Nil:
			parts = append(parts, kv.K+": nil")
		default:
			parts = append(parts, kv.K+": "+kv.Var)
		}
	}
	if layout != "" {
		parts = append(parts, `layout: "`+layout+`"`)
	}
	if len(parts) == 0 {
		return ""
	}
	return "{" + strings.Join(parts, ", ") + "}"
}

func callArgs(first, data string) string {
	if data == "" {
		return first
	}
	return first + ", " + data
}

// common prints the items that are spelled identically in all three texts.
func common(it Item, sub func([]Item) string) (string, bool) {
	switch it.K {
	case "text":
		return it.T, true
	case "emit":
		return "<%= " + it.N + " %>", true
	case "tick":
		return "<%= tick() %>", true
	case "for":
		return "<%= for (" + it.V + ") in " + it.N + " { %>" + sub(it.Body) + "<% } %>", true
	case "if":
		s := "<%= if (" + it.N + ") { %>" + sub(it.Body)
		if it.Else != nil {
			s += "<% } else { %>" + sub(it.Else)
		}
		return s + "<% } %>", true
	case "let":
		return `<% let ` + it.N + ` = "` + it.V + `" %>`, true
	}
	return "", false
}

// composed text: the real helpers.
type realPrinter struct {
	parts map[string]string
	n     int
	nc    int
	nv    int
}

// opener returns the tag opener of a composition: an output tag, or a silent tag when Alt is set.
func opener(it Item) string {
	if it.Alt {
		return "<% "
	}
	return "<%= "
}

var blkHelper = map[string]string{"": "rec", "twice": "rec2", "never": "rec0", "with": "recw", "arg": "reca", "meth": "hx.Rec"}

// methRec: a block helper that is a method of a value in the context (hx.Rec() { ... }).
type methRec struct{ rec *[]string }

func (m methRec) Rec(help plush.HelperContext) (template.HTML, error) {
	s, err := help.Block()
	if err != nil {
		return "", err
	}
	*m.rec = append(*m.rec, s)
	return template.HTML("[" + s + "]"), nil
}

func blkCall(it Item) string {
	switch it.V {
	case "with":
		return "recw(" + dataLit(it.Data, "") + ")"
	case "arg":
		return `reca("` + it.T + `")`
	}
	return blkHelper[it.V] + "()"
}

// blkTimes: how often the helper variant renders its block.
func blkTimes(v string) int {
	switch v {
	case "twice":
		return 2
	case "never":
		return 0
	}
	return 1
}

// via writes a call (without tag delimiters) the way it.Via says; n numbers the helper variable.
func via(it Item, call string, n int) string {
	switch it.Via {
	case "let":
		v := "rv" + strconv.Itoa(n)
		return "<% let " + v + " = " + call + " %><%= " + v + " %>~<%= " + v + " %>"
	case "fn":
		v := "fv" + strconv.Itoa(n)
		return "<% let " + v + " = fn() { return " + call + " } %><%= " + v + "() %>"
	}
	return opener(it) + call + " %>"
}

func letText(n, v string) string { return `<% let ` + n + ` = "` + v + `" %>` }

func (p *realPrinter) doc(items []Item) string {
	var sb strings.Builder
	for _, it := range items {
		if s, ok := common(it, p.doc); ok {
			sb.WriteString(s)
			continue
		}
		switch it.K {
		case "yield":
			sb.WriteString("<%= yield %>")
		case "partial":
			p.n++
			name := fmt.Sprintf("%sp%d%s", it.Pre, p.n, it.Ext)
			lname := ""
			if it.Lay != nil {
				lname = fmt.Sprintf("%sl%d%s", it.Lay.Pre, p.n, it.Lay.Ext)
			}
			p.parts[name] = p.doc(it.Body)
			if it.Lay != nil {
				p.parts[lname] = p.doc(it.Lay.Body)
			}
			if it.Held {
				d := dataLit(it.Data, lname)
				if d == "" {
					d = "{}"
				}
				hv := fmt.Sprintf("held%d", p.n)
				sb.WriteString("<% let " + hv + " = " + d + " %><%= partial(\"" + name + "\", " + hv + ") %>~<%= partial(\"" + name + "\", " + hv + ") %>")
				continue
			}
			p.nv++
			sb.WriteString(via(it, "partial("+callArgs(`"`+name+`"`, dataLit(it.Data, lname))+")", p.nv))
			if it.Re != nil {
				sb.WriteString("~")
				if it.Re.LetN != "" {
					sb.WriteString(letText(it.Re.LetN, it.Re.LetV))
				}
				sb.WriteString(opener(it) + "partial(" + callArgs(`"`+name+`"`, dataLit(it.Re.Data, lname)) + ") %>")
			}
		case "cfor":
			o := "<% "
			if it.Alt {
				o = "<%= "
			}
			sb.WriteString(o + `contentFor("` + it.N + `") { %>` + p.doc(it.Body) + "<% } %>")
		case "cof":
			call := func(data string) {
				sb.WriteString(opener(it) + "contentOf(" + callArgs(`"`+it.N+`"`, data) + ")")
				if it.Def {
					sb.WriteString(" { %>" + p.doc(it.Body) + "<% }")
				}
				sb.WriteString(" %>")
			}
			if it.Held {
				p.nc++
				d := dataLit(it.Data, "")
				if d == "" {
					d = "{}"
				}
				hv := fmt.Sprintf("heldc%d", p.nc)
				sb.WriteString("<% let " + hv + " = " + d + " %>")
				call(hv)
				sb.WriteString("~")
				call(hv)
				continue
			}
			if it.Via != "" {
				p.nv++
				sb.WriteString(via(it, "contentOf("+callArgs(`"`+it.N+`"`, dataLit(it.Data, ""))+")", p.nv))
				continue
			}
			call(dataLit(it.Data, ""))
		case "blk":
			sb.WriteString(opener(it) + blkCall(it) + " { %>" + p.doc(it.Body) + "<% } %>")
		}
	}
	return sb.String()
}

type spec struct {
	kind  string // partial | cof | cofdef | blk
	text  string
	ext   string
	lay   *spec
	times int    // blk: how often the helper renders its block
	label string // blk: what the helper writes before the block's text
}

type defs map[string]*Item

func (d defs) with(name string, it *Item) defs {
	n := defs{}
	for k, v := range d {
		n[k] = v
	}
	n[name] = it
	return n
}

// splice text: compositions replaced by oracle helpers. contentFor definitions are threaded
// statically: they stand only at the top level of a document, so they execute exactly once per
// rendering of that document, in source order.
type splicePrinter struct {
	specs []*spec
	depth int
	nv    int
}

func (p *splicePrinter) add(s *spec) int {
	p.specs = append(p.specs, s)
	return len(p.specs) - 1
}

func (p *splicePrinter) doc(items []Item, d defs) string {
	p.depth++
	defer func() { p.depth-- }()
	if p.depth > 40 {
		panic("c17: content blocks recurse (generator defect)")
	}
	var sb strings.Builder
	for i := range items {
		it := items[i]
		if s, ok := common(it, func(b []Item) string { return p.doc(b, d) }); ok {
			sb.WriteString(s)
			continue
		}
		switch it.K {
		case "yield":
			sb.WriteString("<%= yield %>")
		case "partial":
			sp := &spec{kind: "partial", ext: it.Ext}
			id := p.add(sp)
			sp.text = p.doc(it.Body, d)
			lname := ""
			if it.Lay != nil {
				sp.lay = &spec{kind: "layout", ext: it.Lay.Ext, text: p.doc(it.Lay.Body, d)}
				lname = "layout" + it.Lay.Ext // only the presence of the key matters to the oracle
			}
			p.nv++
			sb.WriteString(via(it, "xsplice("+callArgs(strconv.Itoa(id), dataLit(it.Data, lname))+")", p.nv))
			if it.Held || it.Re != nil {
				// the second call: the same composition once more, with the same (fresh) data (held), or
				// with the data of the second call, after the let that stands between the calls (re)
				data2 := it.Data
				sb.WriteString("~")
				if it.Re != nil {
					data2 = it.Re.Data
					if it.Re.LetN != "" {
						sb.WriteString(letText(it.Re.LetN, it.Re.LetV))
					}
				}
				sp2 := &spec{kind: "partial", ext: it.Ext}
				id2 := p.add(sp2)
				sp2.text = p.doc(it.Body, d)
				if it.Lay != nil {
					sp2.lay = &spec{kind: "layout", ext: it.Lay.Ext, text: p.doc(it.Lay.Body, d)}
				}
				sb.WriteString(opener(it) + "xsplice(" + callArgs(strconv.Itoa(id2), dataLit(data2, lname)) + ") %>")
			}
		case "cfor":
			d = d.with(it.N, &items[i])
		case "cof":
			calls := 1
			if it.Held {
				calls = 2 // each call is what the call with a fresh literal map is
			}
			for k := 0; k < calls; k++ {
				if k > 0 {
					sb.WriteString("~")
				}
				if def := d[it.N]; def != nil {
					sp := &spec{kind: "cof"}
					id := p.add(sp)
					sp.text = p.doc(def.Body, d)
					p.nv++
					sb.WriteString(via(it, "xsplice("+callArgs(strconv.Itoa(id), dataLit(it.Data, ""))+")", p.nv))
				} else if it.Def {
					sp := &spec{kind: "cofdef"}
					id := p.add(sp)
					sp.text = p.doc(it.Body, d)
					sb.WriteString(opener(it) + "xsplice(" + callArgs(strconv.Itoa(id), dataLit(it.Data, "")) + ") %>")
				} else {
					p.nv++
					sb.WriteString(via(it, "xfail("+dataLit(it.Data, "")+")", p.nv))
				}
			}
		case "blk":
			sp := &spec{kind: "blk", times: blkTimes(it.V)}
			if it.V == "arg" {
				sp.label = it.T + ":"
			}
			id := p.add(sp)
			sp.text = p.doc(it.Body, d)
			sb.WriteString(opener(it) + "xsplice(" + callArgs(strconv.Itoa(id), dataLit(it.Data, "")) + ") %>")
		}
	}
	return sb.String()
}

// textual inline: the composed-in source pasted where the tag stands (data-free cases only).
type textPrinter struct{ depth int }

func (p *textPrinter) doc(items []Item, d defs, yield string) string {
	p.depth++
	defer func() { p.depth-- }()
	if p.depth > 40 {
		panic("c17: content blocks recurse (generator defect)")
	}
	var sb strings.Builder
	for i := range items {
		it := items[i]
		if s, ok := common(it, func(b []Item) string { return p.doc(b, d, yield) }); ok {
			sb.WriteString(s)
			continue
		}
		switch it.K {
		case "yield":
			sb.WriteString(yield)
		case "partial":
			body := p.doc(it.Body, d, yield)
			if it.Lay != nil {
				body = p.doc(it.Lay.Body, d, body)
			}
			sb.WriteString(body)
			if it.Held || it.Re != nil {
				sb.WriteString("~" + body)
			}
		case "cfor":
			d = d.with(it.N, &items[i])
		case "cof":
			var one string
			if def := d[it.N]; def != nil {
				one = p.doc(def.Body, d, "")
			} else if it.Def {
				one = p.doc(it.Body, d, yield)
			} else {
				one = "<%= xfail() %>"
			}
			sb.WriteString(one)
			if it.Held {
				sb.WriteString("~" + one)
			}
		case "blk":
			body := p.doc(it.Body, d, yield)
			label := ""
			if it.V == "arg" {
				label = it.T + ":"
			}
			var outs []string
			for k := 0; k < blkTimes(it.V); k++ {
				outs = append(outs, body)
			}
			sb.WriteString("[" + label + strings.Join(outs, "|") + "]")
		}
	}
	return sb.String()
}

// isJS: the media type (parameters such as "; charset=utf-8" put aside) is a JavaScript one.
func isJS(ct string) bool {
	mt := strings.TrimSpace(strings.SplitN(ct, ";", 2)[0])
	return mt == "application/javascript" || mt == "text/javascript"
}

// lastExt: the extension of a file name is what follows the last dot of its last path element
// ("p1.js.html" -> ".html"; the generated suffixes contain no slash).
func lastExt(ext string) string {
	if i := strings.LastIndex(ext, "."); i >= 0 {
		return ext[i:]
	}
	return ""
}

func escapes(ct, ext string) bool { return isJS(ct) && lastExt(ext) != ".js" && lastExt(ext) != "" }

// hasSureYield: the layout reaches a yield on every rendering (directly, inside a block helper's
// block or in the body of a partial it calls unconditionally). Pasting the body where the yield stands evaluates it as often as the yield is reached,
// while a partial's body is always evaluated once: with a yield that may be skipped the two differ
// in whether an error inside the body surfaces, which is no defect of the layout mechanism.
func hasSureYield(items []Item) bool {
	for _, it := range items {
		if it.K == "yield" || ((it.K == "blk" && it.V != "never" || it.K == "partial") && !it.Alt && hasSureYield(it.Body)) {
			return true
		}
	}
	return false
}

// textualOK: no data maps, no let, no tick, no JavaScript escaping anywhere, layouts always yield.
func textualOK(ct string, items []Item) bool {
	for _, it := range items {
		if len(it.Data) > 0 || it.K == "let" || it.K == "tick" {
			return false
		}
		if (it.Alt && it.K != "cfor") || it.Via != "" {
			return false // evaluated but not inserted / inserted twice: cannot be written inline
		}
		if it.Re != nil && (len(it.Re.Data) > 0 || it.Re.LetN != "") {
			return false
		}
		if it.K == "partial" {
			if escapes(ct, it.Ext) {
				return false
			}
			if it.Lay != nil && (escapes(ct, it.Lay.Ext) || !textualOK(ct, it.Lay.Body) || !hasSureYield(it.Lay.Body)) {
				return false
			}
		}
		if !textualOK(ct, it.Body) || !textualOK(ct, it.Else) {
			return false
		}
	}
	return true
}

type built struct {
	main  string
	parts map[string]string
	omain string
	specs []*spec
	tmain string
}

func build(c Case) built {
	rp := &realPrinter{parts: map[string]string{}}
	b := built{main: rp.doc(c.Main), parts: rp.parts}
	sp := &splicePrinter{}
	b.omain = sp.doc(c.Main, defs{})
	b.specs = sp.specs
	if c.Mode == "textual" {
		b.tmain = (&textPrinter{}).doc(c.Main, defs{}, "")
	}
	return b
}

// ---- contexts --------------------------------------------------------------------

func baseData(c Case) map[string]interface{} {
	m := map[string]interface{}{}
	for k, v := range c.Strings {
		m[k] = string(v)
	}
	sl := make([]string, len(c.SL))
	for i, v := range c.SL {
		sl[i] = string(v)
	}
	m["sl"] = sl
	m["el"] = []string{}
	if c.Big > 0 {
		bl := make([]string, c.Big)
		for i := range bl {
			bl[i] = "i" + strconv.Itoa(i)
		}
		m["bl"] = bl
	}
	m["n0"] = 42
	m["bt"] = true
	m["bf"] = false
	if c.CT != "" {
		m["contentType"] = c.CT
	}
	n := 0
	m["tick"] = func() int { n++; return n }
	m["xfail"] = func(data map[string]interface{}) (string, error) {
		return "", fmt.Errorf("contentOf of an undefined name without a default block")
	}
	return m
}

var tokRE = regexp.MustCompile(`@@(\d+)@@`)

type oracle struct {
	c      Case
	specs  []*spec
	tokens []string
	blocks []string
	kinds  map[string]int
	jsHits int // escapings that changed the text
	nonEmp int // spliced renderings that were non-empty
	layMax int
}

func (o *oracle) record(s string) string {
	o.tokens = append(o.tokens, s)
	return "@@" + strconv.Itoa(len(o.tokens)-1) + "@@"
}

func (o *oracle) resolve(s string) string {
	if !strings.Contains(s, "@@") {
		return s
	}
	return tokRE.ReplaceAllStringFunc(s, func(m string) string {
		i, _ := strconv.Atoi(m[2 : len(m)-2])
		if i < 0 || i >= len(o.tokens) {
			return m
		}
		return o.tokens[i]
	})
}

func (o *oracle) js(s, ext string) string {
	if !escapes(o.c.CT, ext) {
		return s
	}
	e := template.JSEscapeString(s)
	if e != s {
		o.jsHits++
	}
	return e
}

// xsplice is the inline oracle: it renders the composed-in text itself, in a child of the
// caller's scope extended with data, and leaves a placeholder for the result.
func (o *oracle) xsplice(id int, data map[string]interface{}, help plush.HelperContext) (string, error) {
	if id < 0 || id >= len(o.specs) {
		return "", fmt.Errorf("c17 oracle: bad splice id %d", id)
	}
	sp := o.specs[id]
	o.kinds[sp.kind]++
	keys := make([]string, 0, len(data))
	for k := range data {
		keys = append(keys, k)
	}
	sort.Strings(keys)
	render := func() (string, error) {
		ctx := help.New()
		if sp.kind != "cofdef" { // a default block never reads the data map (not stated whether it may)
			for _, k := range keys {
				ctx.Set(k, data[k])
			}
		}
		s, err := plush.Render(sp.text, ctx)
		if err != nil {
			return "", err
		}
		return o.resolve(s), nil
	}
	if sp.kind == "blk" {
		// the helper renders its block sp.times times; each time it receives what the block renders to
		outs := []string{}
		for k := 0; k < sp.times; k++ {
			s, err := render()
			if err != nil {
				return "", err
			}
			o.blocks = append(o.blocks, s)
			outs = append(outs, s)
		}
		o.nonEmp++
		return o.record("[" + sp.label + strings.Join(outs, "|") + "]"), nil
	}
	s, err := render()
	if err != nil {
		return "", err
	}
	switch sp.kind {
	case "partial":
		s = o.js(s, sp.ext)
		if sp.lay != nil {
			o.kinds["layout"]++
			lctx := help.New()
			lctx.Set("yield", o.record(s))
			ls, err := plush.Render(sp.lay.text, lctx)
			if err != nil {
				return "", err
			}
			s = o.js(o.resolve(ls), sp.lay.ext)
		}
	}
	if s != "" {
		o.nonEmp++
	}
	return o.record(s), nil
}

// ---- the check -------------------------------------------------------------------

func describe(c Case, b built) string {
	var sb strings.Builder
	fmt.Fprintf(&sb, "contentType=%q main=%q", c.CT, b.main)
	names := make([]string, 0, len(b.parts))
	for k := range b.parts {
		names = append(names, k)
	}
	sort.Strings(names)
	for _, k := range names {
		fmt.Fprintf(&sb, " %s=%q", k, b.parts[k])
	}
	keys := make([]string, 0, len(c.Strings))
	for k := range c.Strings {
		keys = append(keys, k)
	}
	sort.Strings(keys)
	sb.WriteString(" data{")
	for _, k := range keys {
		fmt.Fprintf(&sb, "%s=%q ", k, string(c.Strings[k]))
	}
	fmt.Fprintf(&sb, "sl=%q n0=42 bt=true bf=false", c.SL)
	if c.Big > 0 {
		fmt.Fprintf(&sb, " bl=[i0 .. i%d]", c.Big-1)
	}
	sb.WriteString("}")
	return sb.String()
}

func layoutDepth(items []Item, inLayout int) int {
	m := 0
	for _, it := range items {
		d := 0
		if it.K == "partial" && it.Lay != nil {
			d = inLayout + 1
			if x := layoutDepth(it.Lay.Body, inLayout+1); x > d {
				d = x
			}
		}
		for _, sub := range [][]Item{it.Body, it.Else} {
			if x := layoutDepth(sub, inLayout); x > d {
				d = x
			}
		}
		if d > m {
			m = d
		}
	}
	return m
}

func check(r *vk.Run, c Case) *vk.Fail {
	c.Texts = nil
	if c.Mode != "textual" {
		c.Mode = "splice"
	}
	b := build(c)
	c.Texts = &Texts{Main: b.main, Partials: b.parts, Splice: b.omain, Textual: b.tmain}
	defer r.Watch("compose", c)()
	fail := func(f string, a ...interface{}) *vk.Fail {
		return &vk.Fail{Kind: "compose", Case: c, Msg: fmt.Sprintf(f, a...) + " :: " + describe(c, b)}
	}

	// composed render
	var recorded []string
	renderReal := func() vk.Res {
		recorded = nil
		rd := baseData(c)
		rd["partialFeeder"] = func(name string) (string, error) {
			s, ok := b.parts[name]
			if !ok {
				return "", fmt.Errorf("c17: no partial %q", name)
			}
			return s, nil
		}
		rd["rec"] = func(help plush.HelperContext) (template.HTML, error) {
			s, err := help.Block()
			if err != nil {
				return "", err
			}
			recorded = append(recorded, s)
			return template.HTML("[" + s + "]"), nil
		}
		rd["rec2"] = func(help plush.HelperContext) (template.HTML, error) { // asks for its block twice
			a, err := help.Block()
			if err != nil {
				return "", err
			}
			recorded = append(recorded, a)
			b, err := help.Block()
			if err != nil {
				return "", err
			}
			recorded = append(recorded, b)
			return template.HTML("[" + a + "|" + b + "]"), nil
		}
		rd["rec0"] = func(help plush.HelperContext) (template.HTML, error) { // has a block, never renders it
			if !help.HasBlock() {
				return "", fmt.Errorf("c17: rec0 called without a block")
			}
			return template.HTML("[]"), nil
		}
		rd["recw"] = func(data map[string]interface{}, help plush.HelperContext) (template.HTML, error) { // block in a child scope with data
			ctx := help.New()
			keys := make([]string, 0, len(data))
			for k := range data {
				keys = append(keys, k)
			}
			sort.Strings(keys)
			for _, k := range keys {
				ctx.Set(k, data[k])
			}
			s, err := help.BlockWith(ctx)
			if err != nil {
				return "", err
			}
			recorded = append(recorded, s)
			return template.HTML("[" + s + "]"), nil
		}
		rd["hx"] = methRec{rec: &recorded}
		rd["reca"] = func(label string, help plush.HelperContext) (template.HTML, error) { // an argument before the block
			s, err := help.Block()
			if err != nil {
				return "", err
			}
			recorded = append(recorded, s)
			return template.HTML("[" + label + ":" + s + "]"), nil
		}
		return vk.Safe(func() (string, error) { return plush.Render(b.main, plush.NewContextWith(rd)) })
	}
	var real vk.Res
	var first *vk.Res
	if c.Cached {
		was := plush.CacheEnabled
		plush.CacheEnabled = true
		f := renderReal()
		first = &f
		real = renderReal()
		plush.CacheEnabled = was
		r.Evals(1)
		r.Class("cached: second render on the cached templates")
	} else {
		real = renderReal()
	}

	// inline render with the splice oracle
	o := &oracle{c: c, specs: b.specs, kinds: map[string]int{}}
	od := baseData(c)
	od["xsplice"] = o.xsplice
	want := vk.Safe(func() (string, error) {
		s, err := plush.Render(b.omain, plush.NewContextWith(od))
		return o.resolve(s), err
	})

	cls := "ct=" + c.CT + "/layouts=" + strconv.Itoa(layoutDepth(c.Main, 0))
	if o.jsHits > 0 {
		cls += "/js-escaped"
	}
	if want.Err != nil {
		cls += "/error"
	}
	nt := ""
	if len(o.tokens) > 0 && (o.nonEmp > 0 || want.Err != nil) || (len(b.specs) == 0 && want.Err != nil && strings.Contains(b.omain, "xfail")) {
		kb, _ := json.Marshal(Case{Mode: c.Mode, CT: c.CT, Strings: c.Strings, SL: c.SL, Big: c.Big, Main: c.Main})
		nt = string(kb)
	}
	r.Count(nt, cls)
	ks := make([]string, 0, len(o.kinds))
	for k := range o.kinds {
		ks = append(ks, k)
	}
	sort.Strings(ks)
	for _, k := range ks {
		r.Class("executed/" + k)
	}
	r.Sample(func() interface{} {
		return map[string]interface{}{"case": c, "expected": want.String(), "got": real.String()}
	})

	if want.Panicked() {
		return fail("the inline (composition-free) render panicked: %s", want)
	}
	if first != nil && (first.Panicked() || (first.Err != nil) != (real.Err != nil) || first.Out != real.Out) {
		return fail("with the template cache on, the first render gave %s, the second (on the cached templates) %s; inline render: %s", *first, real, want)
	}
	if real.Panicked() {
		return fail("composed render: %s; inline render: %s", real, want)
	}
	if (real.Err != nil) != (want.Err != nil) {
		return fail("composed render gave %s but the inline render gave %s", real, want)
	}
	if real.Err == nil {
		if real.Out != want.Out {
			return fail("composed render %q differs from the inline render %q (inline source %q)", real.Out, want.Out, b.omain)
		}
		if len(recorded) != len(o.blocks) {
			return fail("the block helper ran %d times with a block, inline %d times", len(recorded), len(o.blocks))
		}
		for i := range recorded {
			if recorded[i] != o.blocks[i] {
				return fail("block helper call %d received %q, its block renders inline to %q", i, recorded[i], o.blocks[i])
			}
		}
	}

	if c.Mode == "textual" {
		td := baseData(c)
		txt := vk.Safe(func() (string, error) { return plush.Render(b.tmain, plush.NewContextWith(td)) })
		r.Evals(1)
		r.Class("textual")
		if txt.Panicked() {
			return fail("the textually inlined source %q panicked: %s", b.tmain, txt)
		}
		if (real.Err != nil) != (txt.Err != nil) {
			return fail("composed render gave %s but the textually inlined source %q gave %s", real, b.tmain, txt)
		}
		if real.Err == nil && real.Out != txt.Out {
			return fail("composed render %q differs from the textually inlined source %q which renders %q", real.Out, b.tmain, txt.Out)
		}
	}
	return nil
}

// ---- generator -------------------------------------------------------------------

var textFrags = []string{
	"a", "b ", "word", " ", "\n", "<p>", "</p>", "<br/>", "'q'", `"dq"`, "&amp;", "& ", "x=1;", "</script>", `\'`, `\\n`, `\"`,
	"é", "漢", "\u2028", "{", "}", "%", "#", "(", ")", "<!-- c -->", "var s = '", "';\n", "`", "$", "[", "]", "\t", "\r\n", "0",
}

var litPool = []string{"x<y", "it's", "a&b", "plain", "", "</script>", "é", "1 = 2", "'", "<b>bold</b>", "a>b"}

var payloadPool = []string{
	`a<b>"'&`, `</script><script>alert('x')`, "line1\nline2\r\n", `back\slash\\`, "é漢\u2028\u2029", "\xff\xfe<", "", "plain",
	`x=1&y='2'`, "\x00\x01", "<%= g1 %>", "&lt;already&gt;", `"`, `\`, "'",
}

var exts = []string{".js", ".html", ".md", ""}
var cts = []string{"", "text/html", "application/javascript", "text/javascript"}

// wider pools of the random trees and of the name matrix: double extensions (the LAST one is the extension), names
// with a directory part (with dots, upper case, "./", a leading underscore), content types with parameters
var extsR = []string{".js", ".html", ".md", "", ".js.html", ".html.js"}
var presR = []string{"", "", "", "", "sub/", "v1.2/", "Admin/_", "./", "a.js/"}
var ctsR = []string{"", "text/html", "application/javascript", "text/javascript", "application/javascript; charset=utf-8",
	"text/html; charset=utf-8", "text/javascript;charset=UTF-8", "text/plain"}
var labels = []string{"L", "it's", "<b>", "a&b", ""}

type scope struct {
	names    []string // scalar names that may be emitted
	guarded  []string // names that may be unset (contentOf data keys inside a contentFor block)
	depth    int      // partial nesting depth
	nest     int      // block nesting inside the document
	top      bool     // directly in the document's top-level sequence
	own      []string // content names this document defines
	ownMax   int      // how many of own may be referenced (inside a contentFor block: only lower ranks)
	anc      []string // content names of enclosing documents
	yield    bool
	inLayout bool
	inBlock  bool     // somewhere below a contentFor block
	defined  []string // content names known to be defined at this point (generation bias only)
	hidden   []string // names that may not be read here or below (data keys of an enclosing contentOf default block)
	// opaque: in or below a layout or a stored block. Which enclosing scopes such a document sees is not stated, so a
	// name that is not known to be bound here is not known to be unset either: it is not read, not even guarded.
	opaque bool
}

type G struct {
	t       *rapid.T
	textual bool
	budget  int
	nextV   int
	nextDoc int
}

// newDoc returns the content names of a new document: distinct from those of every other document; not only identifiers
// (upper case, dot, inner and outer spaces, colon; the main document has the empty name).
func (g *G) newDoc() []string {
	g.nextDoc++
	if g.nextDoc == 1 {
		return []string{"n1_0", "N1.1", ""}
	}
	return []string{fmt.Sprintf("n%d_0", g.nextDoc), fmt.Sprintf("N%d.1", g.nextDoc), fmt.Sprintf(" n%d: 2 ", g.nextDoc)}
}

func with(a []string, b ...string) []string {
	out := append([]string{}, a...)
	for _, x := range b {
		dup := false
		for _, y := range out {
			if x == y {
				dup = true
			}
		}
		if !dup {
			out = append(out, x)
		}
	}
	return out
}

func without(a []string, b []string) []string {
	var out []string
	for _, x := range a {
		drop := false
		for _, y := range b {
			if x == y {
				drop = true
			}
		}
		if !drop {
			out = append(out, x)
		}
	}
	return out
}

func (g *G) intn(n int, label string) int { return rapid.IntRange(0, n-1).Draw(g.t, label) }

func (g *G) pick(xs []string, label string) string { return xs[g.intn(len(xs), label)] }

func (g *G) text() Item {
	n := 1 + g.intn(4, "tn")
	var sb strings.Builder
	for i := 0; i < n; i++ {
		sb.WriteString(g.pick(textFrags, "tf"))
	}
	return Item{K: "text", T: sb.String()}
}

func (g *G) emit(sc scope) Item {
	if len(sc.guarded) > 0 && g.intn(3, "eg") == 0 {
		n := g.pick(sc.guarded, "egn")
		if g.intn(5, "egr") == 3 {
			return Item{K: "emit", N: n} // unguarded: an error when the use site passes no such key
		}
		return Item{K: "if", N: n, Body: []Item{{K: "emit", N: n}}}
	}
	if g.intn(200, "eu") == 137 { // (rapid favours small values: a rare event must not sit at 0)
		return Item{K: "emit", N: "u0"} // unknown identifier: both sides must fail
	}
	return Item{K: "emit", N: g.pick(sc.names, "en")}
}

func (g *G) value(sc scope, label string) KV {
	switch g.intn(8, label+"_k") {
	case 0, 1:
		return KV{Var: g.pick(sc.names, label+"_v")}
	case 6:
		return KV{Var: "bf"} // false: a value, and falsy
	case 7:
		return KV{Var: "el"} // an empty list: a value, truthy, prints as nothing
	case 2:
		i := []int{0, 7, 42}[g.intn(3, label+"_i")]
		return KV{Int: &i}
	case 5:
		return KV{Nil: true}
	}
	s := g.pick(litPool, label+"_l")
	return KV{Lit: &s}
}

func (g *G) data(sc scope, keys []string, max int, label string) []KV {
	if g.textual {
		return nil
	}
	n := g.intn(max+1, label+"_n")
	var out []KV
	used := map[string]bool{}
	for i := 0; i < n; i++ {
		k := g.pick(keys, label+"_key")
		if used[k] {
			continue
		}
		used[k] = true
		kv := g.value(sc, label)
		kv.K = k
		out = append(out, kv)
	}
	return out
}

func keysOf(kvs []KV) []string {
	var out []string
	for _, kv := range kvs {
		out = append(out, kv.K)
	}
	return out
}

// boundKeys: the keys bound to a value (a key bound to nil reads as an unset name).
func boundKeys(kvs []KV) []string {
	var out []string
	for _, kv := range kvs {
		if !kv.Nil {
			out = append(out, kv.K)
		}
	}
	return out
}

func nilKeys(kvs []KV) []string {
	var out []string
	for _, kv := range kvs {
		if kv.Nil {
			out = append(out, kv.K)
		}
	}
	return out
}

func intersect(a, b []string) []string {
	var out []string
	for _, x := range a {
		for _, y := range b {
			if x == y {
				out = append(out, x)
			}
		}
	}
	return out
}

func hasYield(items []Item) bool {
	for _, it := range items {
		if it.K == "yield" {
			return true
		}
		if it.K != "partial" && it.K != "cfor" && !(it.K == "blk" && it.V == "never") && (hasYield(it.Body) || hasYield(it.Else)) {
			return true
		}
	}
	return false
}

var stable = []string{"s0", "s1", "n0"}
var partialKeys = []string{"g0", "g1", "g2", "f0", "f1"}
var cofKeys = []string{"c0", "c1", "s0"}

func (g *G) doc(sc scope, max int) []Item {
	n := 1 + g.intn(max, "dn")
	if g.intn(16, "de") == 11 {
		n = 0 // the empty document / block
	}
	out := []Item{}
	var pending []string // names defined in this document that still get a use
	for i := 0; i < n; i++ {
		if len(pending) > 0 && g.intn(2, "pu") == 0 {
			out = append(out, g.cof(&sc, pending[0]))
			pending = pending[1:]
		}
		its := g.item(&sc)
		out = append(out, its...)
		if len(its) == 1 && its[0].K == "cfor" && g.intn(3, "pd") > 0 {
			pending = append(pending, its[0].N)
		}
	}
	for _, name := range pending {
		if g.intn(3, "pf") > 0 {
			out = append(out, g.cof(&sc, name))
		}
	}
	return out
}

// item generates one item (sometimes followed by a sensor emit); it may extend sc.names (let).
func (g *G) item(sc *scope) []Item {
	g.budget--
	kinds := []string{"text", "text", "text", "emit", "emit", "emit"}
	if g.budget > 0 {
		if !g.textual {
			kinds = append(kinds, "tick")
		}
		if sc.nest < 3 {
			kinds = append(kinds, "for", "if", "blk", "blk")
		}
		if sc.top && !g.textual {
			kinds = append(kinds, "let")
		}
		if sc.depth < 3 {
			kinds = append(kinds, "partial", "partial", "partial", "partial")
			if sc.inLayout {
				kinds = append(kinds, "partial", "partial")
			}
		}
		if sc.top && sc.nest == 0 {
			kinds = append(kinds, "cfor", "cfor", "cfor")
		}
		kinds = append(kinds, "cof")
		if len(sc.defined) > 0 {
			kinds = append(kinds, "cof", "cof", "cof")
		}
	}
	if sc.yield {
		kinds = append(kinds, "yield", "yield")
	}
	switch k := g.pick(kinds, "kind"); k {
	case "text":
		return []Item{g.text()}
	case "emit":
		return []Item{g.emit(*sc)}
	case "tick", "yield":
		return []Item{{K: k}}
	case "for":
		g.nextV++
		v := fmt.Sprintf("v%d", g.nextV)
		list := "sl"
		if g.intn(5, "fl") == 0 {
			list = "el"
		}
		in := *sc
		in.names = with(sc.names, v)
		in.nest++
		in.top = false
		return []Item{{K: "for", N: list, V: v, Body: g.doc(in, 3)}}
	case "if":
		conds := with(sc.names, "bt", "bf", "u0")
		conds = with(conds, sc.guarded...)
		in := *sc
		in.nest++
		in.top = false
		it := Item{K: "if", N: g.pick(conds, "ic"), Body: g.doc(in, 3)}
		if g.intn(2, "ie") == 0 {
			if it.Else = g.doc(in, 2); len(it.Else) == 0 {
				it.Else = nil // (an empty else would not survive the JSON of a replay file)
			}
		}
		return []Item{it}
	case "blk":
		in := *sc
		in.nest++
		in.top = false
		it := Item{K: "blk", V: g.pick([]string{"", "", "", "twice", "never", "with", "arg", "meth"}, "bv")}
		switch it.V {
		case "arg":
			it.T = g.pick(labels, "bl")
		case "with":
			// the helper renders its block in a child scope holding data, like contentFor does on use: below it
			// the scope of use and the scope of definition of a stored block differ, as inside a stored block
			keys := without(cofKeys, sc.hidden)
			if len(keys) > 0 {
				it.Data = g.data(*sc, keys, 2, "bd")
			}
			it.Data = g.noNilFor(it.Data, *sc)
			in.inBlock = true
			if !g.textual {
				in.guarded = with(sc.guarded, without([]string{"c0", "c1"}, sc.hidden)...)
			}
		}
		it.Alt = !g.textual && g.intn(10, "ba") == 5
		it.Body = g.doc(in, 3)
		return []Item{it}
	case "let":
		pool := []string{"g0", "g1", "g2", "f0"}
		if sc.depth == 0 && !sc.inLayout && !sc.inBlock {
			// the main document's own scope is an ancestor of every other scope: rebinding there a name that stored
			// blocks and layouts read is seen whichever scope they are rendered in
			pool = append(pool, without([]string{"s0", "s1"}, sc.hidden)...)
		}
		name := g.pick(pool, "ln")
		sc.names = with(sc.names, name)
		return []Item{{K: "let", N: name, V: g.pick(litPool, "lv")}}
	case "partial":
		return g.partial(sc)
	case "cfor":
		j := g.intn(len(sc.own), "cj")
		in := scope{names: without(stable, sc.hidden), guarded: without([]string{"c0", "c1"}, sc.hidden), depth: sc.depth, nest: sc.nest + 1,
			own: sc.own, ownMax: j, anc: sc.anc, hidden: sc.hidden, inBlock: true, defined: sc.defined, opaque: true}
		if g.textual {
			in.guarded = nil
		}
		it := Item{K: "cfor", N: sc.own[j], Body: g.doc(in, 3), Alt: g.intn(4, "ca") == 0}
		sc.defined = with(sc.defined, sc.own[j])
		return []Item{it}
	case "cof":
		it := g.cof(sc, "")
		return append([]Item{it}, g.leakSensor(sc, it)...)
	}
	return nil
}

// leakSensor: after a contentOf that was given data, outside of stored blocks, the caller reads one of the keys
// (guarded): the data was added for the stored / default block only, the caller's scope does not hold it.
func (g *G) leakSensor(sc *scope, it Item) []Item {
	if g.textual || sc.inBlock || len(it.Data) == 0 || g.intn(2, "ls") == 0 {
		return nil
	}
	keys := without(without(intersect(keysOf(it.Data), []string{"c0", "c1"}), sc.hidden), with(sc.names, sc.guarded...))
	if len(keys) == 0 {
		return nil
	}
	k := g.pick(keys, "lsk")
	return []Item{{K: "if", N: k, Body: []Item{{K: "text", T: "LEAK:"}, {K: "emit", N: k}}}}
}

// cof generates a contentOf of the wanted name (or of a drawn one).
func (g *G) cof(sc *scope, want string) Item {
	cands := append(append([]string{"zz"}, sc.own[:sc.ownMax]...), sc.anc...)
	it := Item{K: "cof", N: g.pick(cands, "on")}
	if want != "" {
		it.N = want
	}
	var known []string
	for _, n := range sc.defined {
		for _, c := range cands {
			if n == c {
				known = append(known, n)
			}
		}
	}
	isKnown := false
	if want == "" && len(known) > 0 && g.intn(3, "ok") > 0 {
		it.N = g.pick(known, "okn")
	}
	for _, n := range known {
		isKnown = isKnown || n == it.N
	}
	it.Data = g.data(*sc, cofKeys, 2, "od")
	if sc.inBlock && it.N != "zz" && !g.textual {
		// A stored block used from inside another stored block: whether it sees the outer block's
		// data (scope of use) or not (scope of definition) is not stated. Passing every key a
		// block may read makes both readings agree.
		it.Data = nil
		for _, k := range cofKeys {
			kv := g.value(*sc, "odx")
			kv.K = k
			it.Data = append(it.Data, kv)
		}
	}
	it.Data = g.noNilFor(it.Data, *sc)
	switch g.intn(12, "oh") {
	case 3, 4:
		it.Held = true
	case 7:
		it.Alt = !g.textual
	case 9, 10:
		if !g.textual {
			it.Via = []string{"let", "fn"}[g.intn(2, "ov")]
		}
	}
	defP := 2
	if !isKnown {
		defP = 8 // mostly give an undefined name a default block, so that errors do not dominate
	}
	if it.Via == "" && g.intn(10, "odf") < defP {
		in := *sc
		in.nest++
		in.top = false
		// whether the data map is visible to the default block is not stated: it never looks
		in.names = without(sc.names, keysOf(it.Data))
		in.guarded = without(sc.guarded, keysOf(it.Data))
		in.hidden = with(sc.hidden, keysOf(it.Data)...)
		it.Def = true
		it.Body = g.doc(in, 2)
	}
	return it
}

func (g *G) partial(sc *scope) []Item {
	it := Item{K: "partial", Pre: g.pick(presR, "pp"), Ext: g.pick(extsR, "pe")}
	it.Data = g.nilForPartial(g.data(*sc, partialKeys, 3, "pd"), *sc)
	// what the body may read: a key every call binds to a value is a name; a key only some call binds (or binds to
	// nil) may be unset
	sure, maybe := boundKeys(it.Data), nilKeys(it.Data)
	switch g.intn(8, "ph") {
	case 0, 1:
		it.Held = true
	case 2, 3:
		it.Re = &Re{Data: g.nilForPartial(g.data(*sc, partialKeys, 3, "rd"), *sc)}
		if sc.top && !g.textual && g.intn(2, "rl") == 0 {
			pool := []string{"g0", "g1", "g2"}
			if sc.depth == 0 && !sc.inLayout && !sc.inBlock {
				pool = append(pool, without([]string{"s0", "s1"}, sc.hidden)...)
			}
			it.Re.LetN, it.Re.LetV = g.pick(pool, "rln"), g.pick(litPool, "rlv")
		}
		both := intersect(sure, boundKeys(it.Re.Data))
		maybe = without(with(with(maybe, sure...), keysOf(it.Re.Data)...), both)
		sure = both
	}
	// (a g* key that is not bound by every call is still a name of the caller; f* keys and names the caller does not have are not)
	callerHas := func(k string) bool {
		for _, n := range sc.names {
			if n == k {
				return true
			}
		}
		return false
	}
	var unsure []string
	for _, k := range maybe {
		if !callerHas(k) || len(intersect([]string{k}, with(nilKeys(it.Data), nilKeysRe(it.Re)...))) > 0 {
			unsure = append(unsure, k)
		}
	}
	visible := append(append([]string{}, sc.own[:sc.ownMax]...), sc.anc...)
	own := g.newDoc()
	body := scope{names: without(with(sc.names, sure...), unsure), guarded: with(without(sc.guarded, sure), unsure...), depth: sc.depth + 1, top: true,
		own: own, ownMax: len(own), anc: visible, yield: sc.yield, hidden: sc.hidden, inBlock: sc.inBlock, defined: sc.defined, opaque: sc.opaque}
	if sc.opaque {
		body.guarded = without(sc.guarded, with(sure, unsure...))
	}
	it.Body = g.doc(body, 4)
	layP := 3
	if sc.inLayout {
		layP = 6
	}
	if g.intn(10, "pl") < layP {
		lown := g.newDoc()
		// which scope a layout sees beyond the caller's is not stated: it reads only names nobody rebinds
		ls := scope{names: without(stable, sc.hidden), depth: sc.depth + 1, top: true, own: lown, ownMax: len(lown), anc: visible, yield: true,
			inLayout: true, hidden: sc.hidden, inBlock: sc.inBlock, defined: sc.defined, opaque: true}
		lb := g.doc(ls, 4)
		if !hasYield(lb) || (g.textual && !hasSureYield(lb)) {
			pos := g.intn(len(lb)+1, "py")
			lb = append(lb[:pos:pos], append([]Item{{K: "yield"}}, lb[pos:]...)...)
		}
		it.Lay = &Lay{Pre: g.pick(presR, "lp"), Ext: g.pick(extsR, "le"), Body: lb}
	}
	if !it.Held && !g.textual && g.intn(12, "pa") == 5 {
		it.Alt = true
	}
	if !it.Held && !it.Alt && it.Re == nil && !g.textual {
		it.Via = g.pick([]string{"", "", "", "", "", "", "let", "fn"}, "pv")
	}
	if it.Re != nil && it.Re.LetN != "" {
		sc.names = with(sc.names, it.Re.LetN)
	}
	out := []Item{it}
	// sensor: a name the partial may have rebound is emitted by the caller afterwards
	if g.intn(2, "ps") == 0 {
		var gs []string
		for _, n := range sc.names {
			if n == "g0" || n == "g1" || n == "g2" || n == "f0" {
				gs = append(gs, n)
			}
		}
		if len(gs) > 0 {
			out = append(out, Item{K: "emit", N: g.pick(gs, "psn")})
		}
	}
	return out
}

// nilForPartial: the data of a partial call may bind nil to a name the caller has (or may have): "in the caller's
// scope extended with data" - the entry hides the caller's variable for the partial's text, which reads the key guarded
// (it is in unsure below) and must find it unset. Not in or below layouts and stored blocks (opaque), where the keys are
// not read at all.
func (g *G) nilForPartial(kvs []KV, sc scope) []KV {
	if sc.opaque {
		return g.noNilFor(kvs, sc)
	}
	return kvs
}

// noNilFor (contentOf, BlockWith helper; partials in opaque documents): nil is passed only for keys that are no names
// of the caller; other nils become a string. (Stored blocks: scope of definition vs scope of use is not stated; nil
// shadowing through contentOf is asserted in the fixed phase 'shadow', where both are the same scope.)
func (g *G) noNilFor(kvs []KV, sc scope) []KV {
	for i := range kvs {
		if !kvs[i].Nil {
			continue
		}
		if len(intersect([]string{kvs[i].K}, with(with(sc.names, sc.guarded...), sc.hidden...))) > 0 || sc.opaque {
			v := "was-nil"
			kvs[i] = KV{K: kvs[i].K, Lit: &v}
		}
	}
	return kvs
}

func nilKeysRe(re *Re) []string {
	if re == nil {
		return nil
	}
	return nilKeys(re.Data)
}

func payload(t *rapid.T, label string) vk.Text {
	if rapid.IntRange(0, 2).Draw(t, label+"_k") == 0 {
		return vk.Text(strings.ReplaceAll(gen.Payload(t, label), "@", "a"))
	}
	return vk.Text(rapid.SampledFrom(payloadPool).Draw(t, label))
}

func genCase(t *rapid.T, textual bool) Case {
	c := Case{Mode: "splice", Strings: map[string]vk.Text{}}
	if textual {
		c.Mode = "textual"
	}
	c.CT = rapid.SampledFrom(ctsR).Draw(t, "ct")
	for _, k := range []string{"g0", "g1", "g2", "s0", "s1"} {
		c.Strings[k] = payload(t, k)
	}
	n := rapid.IntRange(1, 3).Draw(t, "sln")
	for i := 0; i < n; i++ {
		c.SL = append(c.SL, payload(t, "sl"))
	}
	g := &G{t: t, textual: textual, budget: rapid.IntRange(6, 30).Draw(t, "budget")}
	own := g.newDoc()
	sc := scope{names: []string{"g0", "g1", "g2", "s0", "s1", "n0"}, top: true, own: own, ownMax: len(own)}
	c.Main = g.doc(sc, 7)
	if textual && isJS(c.CT) && !textualOK(c.CT, c.Main) {
		// JavaScript escaping cannot be written inline in a template: keep the structure, drop the escaping
		c.CT = "text/html"
	}
	return c
}

// ---- fixed building blocks for the exhaustive spaces ----------------------------------

func tx(s string) Item                   { return Item{K: "text", T: s} }
func em(n string) Item                   { return Item{K: "emit", N: n} }
func lit(k, v string) KV                 { return KV{K: k, Lit: &v} }
func ref(k, v string) KV                 { return KV{K: k, Var: v} }
func part(ext string, body ...Item) Item { return Item{K: "partial", Ext: ext, Body: body} }

var fixedStrings = map[string]vk.Text{
	"g0": `<b>'g' & "0"</b>` + "\n\\", "g1": `</script>`, "g2": "plain", "s0": `s'0"<`, "s1": "é\u2028",
}
var fixedSL = []vk.Text{`x'<`, `y"&`}

type cell struct {
	name  string
	items []Item
}

var fixedBodies = []cell{
	{"text", []Item{tx("<b>'x' & \"y\"</b>\n\\n=")}},
	{"emit", []Item{tx("v="), em("g0"), em("n0")}},
	{"loop", []Item{{K: "for", N: "sl", V: "v1", Body: []Item{tx("("), em("v1"), tx(")")}}}},
	{"cond", []Item{{K: "if", N: "bt", Body: []Item{tx("T'"), em("g1")}, Else: []Item{tx("F")}}, {K: "if", N: "u0", Body: []Item{tx("U")}}}},
	{"nested.html", []Item{tx("<i>"), part(".html", tx("'in'"), em("g0")), tx("</i>")}},
	{"nested.js", []Item{tx("<i>"), part(".js", tx("'in'"), em("g0")), tx("</i>")}},
	{"let", []Item{{K: "let", N: "g0", V: "re<bound"}, em("g0"), {K: "let", N: "g2", V: "also"}}},
	{"block", []Item{{K: "blk", Body: []Item{tx("'b'"), em("g0"), {K: "tick"}}}, {K: "tick"}}},
	{"depth3", []Item{part(".md", tx("2'"), part(".html", tx("3'"), em("g0"), part("", tx("4'"))))}},
	// one call site executed once per element, the data taken from the loop variable
	{"inloop", []Item{{K: "for", N: "sl", V: "v1", Body: []Item{
		{K: "partial", Ext: ".html", Data: []KV{ref("f1", "v1")}, Body: []Item{tx("<"), em("f1"), em("v1"), em("g0"), tx(">")}}}}}},
	// one partial name called twice with different data maps and a let of the caller in between
	{"re", []Item{{K: "partial", Ext: ".html", Data: []KV{lit("g0", "one'")}, Re: &Re{Data: []KV{lit("f1", "two<")}, LetN: "g2", LetV: "re'let"},
		Body: []Item{tx("("), em("g0"), {K: "if", N: "f1", Body: []Item{em("f1")}}, em("g2"), {K: "let", N: "f1", V: "own"}, tx(")")}}}},
}

func fixedData(i int) []KV {
	switch i {
	case 1:
		return []KV{lit("g0", "sh<a'dow")}
	case 2:
		return []KV{ref("f0", "g0"), ref("g1", "s0")}
	case 3:
		seven := 7
		return []KV{ref("g0", "s0"), lit("f0", "lit'"), {K: "g2", Int: &seven}}
	}
	return nil
}

// fixedLayout returns the layout for mode 0 (none), 1 (layout), 2 (the layout itself wraps the
// yield in a partial that has a layout of its own).
func fixedLayout(mode int, ext string) *Lay {
	switch mode {
	case 1:
		return &Lay{Ext: ext, Body: []Item{tx("<html s='"), em("s0"), tx("'>"), {K: "yield"}, tx("</html>")}}
	case 2:
		inner := part(".html", tx("<w>"), Item{K: "yield"}, tx("</w>"))
		inner.Lay = &Lay{Ext: ext, Body: []Item{tx("<L2 '>"), {K: "yield"}, tx("</L2>")}}
		return &Lay{Ext: ext, Body: []Item{tx("<L1 \">"), inner, tx("</L1>"), {K: "tick"}}}
	}
	return nil
}

func configCase(ct, ext string, lmode int, lext string, body, data int) Case {
	return configCaseHeld(ct, ext, lmode, lext, body, data, false)
}

func configCaseHeld(ct, ext string, lmode int, lext string, body, data int, held bool) Case {
	p := Item{K: "partial", Ext: ext, Data: fixedData(data), Body: fixedBodies[body].items, Lay: fixedLayout(lmode, lext), Held: held}
	main := []Item{tx("A'"), {K: "tick"}, p, tx("B"), em("g0"), em("g2"), {K: "tick"}}
	if data >= 2 {
		p.Body = append(append([]Item{}, p.Body...), tx("|"), em("f0"))
		main[2] = p
	}
	return Case{Mode: "splice", CT: ct, Strings: fixedStrings, SL: fixedSL, Main: main}
}

func stripTicks(items []Item) []Item {
	if items == nil {
		return nil
	}
	out := []Item{}
	for _, it := range items {
		if it.K == "tick" {
			continue
		}
		it.Body = stripTicks(it.Body)
		it.Else = stripTicks(it.Else)
		if it.Lay != nil {
			it.Lay = &Lay{Ext: it.Lay.Ext, Body: stripTicks(it.Lay.Body)}
		}
		out = append(out, it)
	}
	return out
}

// content operations for the exhaustive sequence space (one name "n1_0", a second "n1_1" whose
// block uses the first, and the never defined "zz")
var c0guard = Item{K: "if", N: "c0", Body: []Item{tx("{"), em("c0"), tx("}")}}

var heldOf = Item{K: "cof", N: "n1_0", Data: []KV{lit("c0", "held'")}, Held: true}

var contentOps = []cell{
	{"def a", []Item{{K: "cfor", N: "n1_0", Body: []Item{tx("<A1 '>"), em("s0"), c0guard, {K: "tick"}}}}},
	{"redef a", []Item{{K: "cfor", N: "n1_0", Body: []Item{tx("<A2>"), {K: "for", N: "sl", V: "v9", Body: []Item{em("v9"), c0guard}}}}}},
	{"def b", []Item{{K: "cfor", N: "n1_1", Body: []Item{tx("<B>"), {K: "cof", N: "n1_0", Data: []KV{lit("c0", "via-b")}}, em("c0")}}}},
	{"of a", []Item{tx("1:"), {K: "cof", N: "n1_0"}}},
	{"of a data", []Item{tx("2:"), {K: "cof", N: "n1_0", Data: []KV{lit("c0", "d<'>"), ref("c1", "g0")}}}},
	{"of a shadow", []Item{tx("3:"), {K: "cof", N: "n1_0", Data: []KV{lit("s0", "shadow")}}}},
	{"of a default", []Item{tx("4:"), {K: "cof", N: "n1_0", Def: true, Body: []Item{tx("dflt"), em("g0")}}}},
	{"of zz default", []Item{tx("5:"), {K: "cof", N: "zz", Data: []KV{lit("c0", "unused")}, Def: true, Body: []Item{tx("zz'"), em("g1"), {K: "tick"}}}}},
	{"of zz", []Item{tx("6:"), {K: "cof", N: "zz"}}},
	{"of b", []Item{tx("7:"), {K: "cof", N: "n1_1", Data: []KV{lit("c0", "b<")}}}},
	{"of a in loop", []Item{{K: "for", N: "sl", V: "v8", Body: []Item{{K: "cof", N: "n1_0", Data: []KV{ref("c0", "v8")}}}}}},
	{"of a in partial", []Item{part(".html", tx("P:"), Item{K: "cof", N: "n1_0", Data: []KV{lit("c0", "p")}})}},
	// (round 5) the caller reads a data key after the uses; a data map held in a variable and used by two contentOf calls;
	// a name the stored blocks read is rebound in the defining scope between definition and use; contentFor in an output tag
	{"leak sensor", []Item{c0guard}},
	{"of a held", []Item{tx("8:"), heldOf}},
	{"let s0", []Item{{K: "let", N: "s0", V: "re'bound"}}},
	{"def a out", []Item{{K: "cfor", N: "n1_0", Alt: true, Body: []Item{tx("<A3>"), em("s0"), c0guard}}}},
}

func contentCase(ops []int, placement int) Case {
	var seq []Item
	for _, o := range ops {
		seq = append(seq, contentOps[o].items...)
	}
	seq = append(seq, tx("."), Item{K: "tick"})
	main := seq
	switch placement {
	case 1: // the whole sequence lives in a partial
		main = []Item{tx("["), part(".html", seq...), tx("]")}
	case 2: // inside a block helper's block the uses, definitions before it
		var defsI, uses []Item
		for _, it := range seq {
			if it.K == "cfor" || it.K == "let" { // (a let inside the block: whether a block helper's block has a scope of its own is not stated)
				defsI = append(defsI, it)
			} else {
				uses = append(uses, it)
			}
		}
		main = append(defsI, Item{K: "blk", Body: uses})
	}
	return Case{Mode: "splice", CT: "text/html", Strings: fixedStrings, SL: fixedSL, Main: main}
}

// nameCase: one partial (with or without layout) whose names are spelled in the given shapes.
func nameCase(ct, pre, ext string, lay int) Case {
	p := Item{K: "partial", Pre: pre, Ext: ext, Data: fixedData(1), Body: []Item{tx("<b>'x' & \"y\"</b>\n"), em("g0")}}
	switch lay {
	case 1:
		p.Lay = &Lay{Ext: ".html", Body: []Item{tx("<L '>"), {K: "yield"}, tx("</L>")}}
	case 2:
		p.Lay = &Lay{Pre: "v1.2/", Ext: "", Body: []Item{tx("<L '>"), {K: "yield"}, tx("</L>")}}
	case 3:
		p.Lay = &Lay{Pre: "Admin/_", Ext: ".js.html", Body: []Item{tx("<L '>"), {K: "yield"}, tx("</L>")}}
	case 4:
		p.Lay = &Lay{Pre: "./", Ext: ".html.js", Body: []Item{tx("<L '>"), {K: "yield"}, tx("</L>")}}
	}
	return Case{Mode: "splice", CT: ct, Strings: fixedStrings, SL: fixedSL, Main: []Item{tx("A'"), p, tx("B")}}
}

var presE = []string{"", "sub/", "v1.2/", "Admin/_", "./", "a.js/"}
var ctsNames = []string{"", "text/html; charset=utf-8", "application/javascript", "text/javascript; charset=utf-8", "text/javascript;charset=UTF-8", "text/plain"}

// blkCase: every block helper variant x tag opener x block body x place of the call.
var blkVariants = []string{"", "twice", "never", "with", "arg", "meth"}

func blkCase(variant string, alt bool, body, place int) Case {
	b := Item{K: "blk", V: variant, Alt: alt}
	switch variant {
	case "with":
		b.Data = []KV{lit("c0", "w'<"), ref("c1", "g1")}
	case "arg":
		b.T = "it's <L>"
	}
	switch body {
	case 0:
		b.Body = []Item{tx("'b'"), {K: "tick"}}
	case 1:
		b.Body = []Item{em("g0"), c0guard, {K: "tick"}}
	case 2:
		b.Body = []Item{part(".html", tx("P"), em("g0"), Item{K: "tick"}), {K: "blk", V: "twice", Body: []Item{tx("i"), {K: "tick"}}}}
	case 3:
		b.Body = []Item{}
	}
	main := []Item{tx("A"), {K: "tick"}, b, tx("B"), {K: "tick"}, c0guard}
	switch place {
	case 1:
		main = []Item{{K: "for", N: "sl", V: "v1", Body: []Item{em("v1"), b}}, {K: "tick"}}
	case 2:
		main = []Item{tx("["), part(".html", tx("P("), b, tx(")")), tx("]"), {K: "tick"}}
	case 3:
		main = []Item{{K: "cfor", N: "n1_0", Body: []Item{tx("<S>"), b}}, {K: "cof", N: "n1_0"}, tx("~"), {K: "cof", N: "n1_0", Data: []KV{lit("c0", "of"), lit("c1", "of1"), lit("s0", "ofs")}}, {K: "tick"}}
	}
	return Case{Mode: "splice", CT: "text/html", Strings: fixedStrings, SL: fixedSL, Main: main}
}

// ---- a layout and the blocks its partial stored ------------------------------------------------------
//
// "every later contentOf(name, data) emits what the stored block renders with data added": the layout of a partial is
// rendered after the partial's text, as part of the same partial call, so a block the text stored with contentFor is
// what the layout's contentOf emits (the page defines, the layout places: the use contentFor exists for). Fixed
// templates with outputs derived by hand; only stored blocks are asserted, not variables.
type SeesCase struct {
	Name  string `json:"name"`  // the content name
	Block int    `json:"block"` // index into seesBlocks: what the stored block holds
	Def   int    `json:"def"`   // how the partial's text defines it: 0 silent tag, 1 output tag, 2 defined twice (the later wins), 3 inside a nested partial's text whose OWN layout places it
	Use   int    `json:"use"`   // how the layout uses it: 0 contentOf(name), 1 with data, 2 with a default block, 3 twice, 4 in the layout's layout
	CT    string `json:"ct"`
	Twice bool   `json:"twice"` // the partial is called twice with different data: each call's layout places that call's block
}

var seesBlocks = []struct{ src, out1, out2 string }{
	{"T", "T", "T"},
	{"T:<%= n %>", "T:1", "T:1"},               // reads the data of contentOf
	{"<i>'q'</i>", "<i>'q'</i>", "<i>'q'</i>"}, // stored text is inserted as it is
	{"[<%= who %>]", "[first]", "[second]"},    // reads the data of the partial call that defined it
	{"<%= for (i) in [1, 2] { %><%= i %><% } %>", "12", "12"},
}

func checkSees(r *vk.Run, c SeesCase) *vk.Fail {
	defer r.Watch("sees", c)()
	b := seesBlocks[c.Block]
	nameLit := strconv.Quote(c.Name)
	def := `<% contentFor(` + nameLit + `) { %>` + b.src + `<% } %>`
	switch c.Def {
	case 1:
		def = `<%= contentFor(` + nameLit + `) { %>` + b.src + `<% } %>`
	case 2:
		def = `<% contentFor(` + nameLit + `) { %>old<% } %>` + def
	}
	use := `<%= contentOf(` + nameLit + `) %>`
	switch c.Use {
	case 1, 4:
		use = `<%= contentOf(` + nameLit + `, {n: 1}) %>`
	case 2:
		use = `<%= contentOf(` + nameLit + `, {n: 1}) { %>default<% } %>`
	case 3:
		use = `<%= contentOf(` + nameLit + `, {n: 1}) %>+<%= contentOf(` + nameLit + `, {n: 1}) %>`
	}
	if (c.Block == 1) && c.Use == 0 {
		return nil // the block reads n: contentOf must supply it
	}
	parts := map[string]string{"page.html": def + "body", "frame.html": "<h>" + use + "</h><b><%= yield %></b>"}
	call := func(who string) string {
		return `<%= partial("page.html", {layout: "frame.html", who: "` + who + `"}) %>`
	}
	one := func(blockOut string) string {
		placed := blockOut
		if c.Use == 3 {
			placed = blockOut + "+" + blockOut
		}
		return "<h>" + placed + "</h><b>body</b>"
	}
	switch {
	case c.Use == 4:
		// the layout has a layout of its own, which places the block
		parts["frame.html"] = "<f><%= yield %></f>"
		parts["outer.html"] = "<h>" + use + "</h><o><%= yield %></o>"
		parts["page.html"] = def + "body"
		call = func(who string) string {
			return `<%= partial("mid.html", {layout: "outer.html", who: "` + who + `"}) %>`
		}
		parts["mid.html"] = def + `<%= partial("inner.html", {layout: "frame.html"}) %>`
		parts["inner.html"] = "body"
		one = func(blockOut string) string { return "<h>" + blockOut + "</h><o><f>body</f></o>" }
	case c.Def == 3:
		// the block is stored by the text of a partial nested in the page; that nested partial's own layout places it
		parts["page.html"] = `<%= partial("inner.html", {layout: "frame.html", who: who}) %>!`
		parts["inner.html"] = def + "body"
		call = func(who string) string { return `<%= partial("page.html", {who: "` + who + `"}) %>` }
		one = func(blockOut string) string {
			placed := blockOut
			if c.Use == 3 {
				placed = blockOut + "+" + blockOut
			}
			return "<h>" + placed + "</h><b>body</b>!"
		}
	}
	src := "{" + call("first") + "}"
	want := "{" + one(b.out1) + "}"
	if c.Twice {
		src += "{" + call("second") + "}"
		want += "{" + one(b.out2) + "}"
	}
	data := map[string]interface{}{
		"partialFeeder": func(name string) (string, error) {
			t, ok := parts[name]
			if !ok {
				return "", fmt.Errorf("no partial %q", name)
			}
			return t, nil
		},
	}
	if c.CT != "" {
		data["contentType"] = c.CT
	}
	res := vk.Safe(func() (string, error) { return plush.Render(src, plush.NewContextWith(data)) })
	key, _ := json.Marshal(c)
	r.Count(string(key), "a layout places the blocks its partial stored")
	r.Sample(func() interface{} {
		return map[string]interface{}{"template": src, "partials": parts, "expected": want}
	})
	if res.Panicked() || res.Err != nil || res.Out != want {
		return &vk.Fail{Kind: "sees", Case: c, Msg: fmt.Sprintf("%s with partials %v gave %s, want %q (the layout's contentOf emits the block the partial's text stored)", src, parts, res, want)}
	}
	return nil
}

// ---- (E) data entries that SHADOW a variable of the caller with nil / a falsy / a zero value --------------------------
//
// "partial(name, data) inserts what the named partial's text renders to in the caller's scope extended with data ... In
// every case the text equals what the same source renders to when written inline in the equivalent scope": an entry of
// data hides the caller's variable of the same name for the partial's text (and for what that text calls), whatever
// the value is - nil, false, 0, 0.0, "", an empty list - exactly as `let x = V` does in a child scope. The same for
// contentOf(name, data) ("renders with data added"). ORACLE: the textual inline - the composed-in source pasted into the
// body of a one-turn loop (a child scope of the caller's) after one `let` per data entry. Errors as error / no error.
type ShadowCase struct {
	Val   string `json:"val"`   // nil | false | zero | fzero | empty | elist | str
	Route string `json:"route"` // lit: hash literal in the call | held: hash bound to a variable, two calls | gomap: a Go map of the context, two calls
	Outer string `json:"outer"` // what x is to the caller: none | ctx | let | loopvar | looplet | data (key of the enclosing partial's data) | plet (let of the enclosing partial)
	Read  string `json:"read"`  // how the composed-in text reads x: if | not | emit
	Where string `json:"where"` // body | nested (a partial the partial calls without data) | lay (the partial has a layout) | cof (stored block, contentOf) | layread (the layout reads x: not stated)
}

var shadowVals = []string{"nil", "false", "zero", "fzero", "empty", "elist", "str"}
var shadowRoutes = []string{"lit", "held", "gomap"}
var shadowOuters = []string{"none", "ctx", "let", "loopvar", "looplet", "data", "plet"}
var shadowReads = []string{"if", "not", "emit"}
var shadowWheres = []string{"body", "nested", "lay", "cof", "layread"}

var shadowSrc = map[string]string{"nil": "nil", "false": "false", "zero": "0", "fzero": "0.0", "empty": `""`, "elist": "el", "str": `"in"`}

func shadowGo(v string) interface{} {
	switch v {
	case "false":
		return false
	case "zero":
		return 0
	case "fzero":
		return 0.0
	case "empty":
		return ""
	case "elist":
		return []string{}
	case "str":
		return "in"
	}
	return nil
}

func inList(x string, xs []string) bool {
	for _, y := range xs {
		if x == y {
			return true
		}
	}
	return false
}

func validShadow(c ShadowCase) bool {
	if !inList(c.Val, shadowVals) || !inList(c.Route, shadowRoutes) || !inList(c.Outer, shadowOuters) || !inList(c.Read, shadowReads) || !inList(c.Where, shadowWheres) {
		return false
	}
	// a stored block: only where the scope of definition and the scope of use are the same scope
	return c.Where != "cof" || c.Outer == "none" || c.Outer == "ctx" || c.Outer == "let"
}

func buildShadow(c ShadowCase) (real, inline string, parts map[string]string) {
	// oneTurn: src rendered in a child scope of the place where it stands, after the lets
	nloop := 0
	oneTurn := func(lets, src string) string {
		nloop++
		return "<%= for (z" + strconv.Itoa(nloop) + ") in one { %>" + lets + src + "<% } %>"
	}
	read := map[string]string{
		"if":   `<%= if (x) { %>set:<%= x %><% } else { %>unset<% } %>`,
		"not":  `<%= if (!x) { %>not<% } else { %>is<% } %>`,
		"emit": `[<%= x %>]`,
	}[c.Read]
	body := read + ";<%= y %>"
	v := shadowSrc[c.Val]
	lets := "<% let x = " + v + ` %><% let y = "Y" %>`
	parts = map[string]string{}
	helper, name, layout := "partial", "p.html", ""
	var defn, inl string
	switch c.Where {
	case "body":
		parts[name] = body
		inl = oneTurn(lets, body)
	case "nested":
		parts[name] = `<<%= partial("q.html") %>><%= y %>`
		parts["q.html"] = body
		inl = oneTurn(lets, "<"+oneTurn("", body)+"><%= y %>")
	case "lay":
		parts[name] = body
		parts["l.html"] = "{<%= yield %>}"
		layout = `, layout: "l.html"`
		inl = "{" + oneTurn(lets, body) + "}"
	case "layread":
		parts[name] = body
		parts["l.html"] = "{<%= yield %>|" + read + "}"
		layout = `, layout: "l.html"`
		inl = "" // not stated: what a layout sees of the partial's data
	case "cof":
		helper, name = "contentOf", "blk"
		defn = `<% contentFor("blk") { %>` + body + `<% } %>`
		inl = oneTurn(lets, body)
	}
	hash := "{x: " + v + `, y: "Y"` + layout + "}"
	call := func(arg string) string { return "<%= " + helper + `("` + name + `", ` + arg + ") %>" }
	var rl string
	switch c.Route {
	case "lit":
		rl = call(hash)
	case "held":
		rl = "<% let hd = " + hash + " %>" + call("hd") + "~" + call("hd")
		inl = inl + "~" + inl
	case "gomap":
		rl = call("gd") + "~" + call("gd")
		inl = inl + "~" + inl
	}
	rl = defn + rl
	sensor := `|<%= if (x) { %>after:<%= x %><% } %>`
	switch c.Outer {
	case "none", "ctx":
		return rl + sensor, inl + sensor, parts
	case "let":
		pre := `<% let x = "caller" %>`
		return pre + rl + sensor, pre + inl + sensor, parts
	case "loopvar":
		return "<%= for (x) in sl { %>" + rl + sensor + "<% } %>" + sensor, "<%= for (x) in sl { %>" + inl + sensor + "<% } %>" + sensor, parts
	case "looplet":
		pre := `<%= for (zj) in one { %><% let x = "blk" %>`
		return pre + rl + sensor + "<% } %>" + sensor, pre + inl + sensor + "<% } %>" + sensor, parts
	case "data":
		parts["o.html"] = "(" + rl + sensor + ")"
		return `<%= partial("o.html", {x: "outer"}) %>` + sensor, oneTurn(`<% let x = "outer" %>`, "("+inl+sensor+")") + sensor, parts
	case "plet":
		parts["o.html"] = `<% let x = "mid" %>(` + rl + sensor + ")"
		return `<%= partial("o.html") %>` + sensor, oneTurn("", `<% let x = "mid" %>(`+inl+sensor+")") + sensor, parts
	}
	return "", "", parts
}

func checkShadow(r *vk.Run, c ShadowCase) *vk.Fail {
	defer r.Watch("shadow", c)()
	real, inline, parts := buildShadow(c)
	data := func(feeder bool) map[string]interface{} {
		m := map[string]interface{}{"one": []int{0}, "sl": []string{"a", "b"}, "el": []string{}}
		if c.Outer == "ctx" {
			m["x"] = "caller"
		}
		if feeder {
			m["partialFeeder"] = func(name string) (string, error) {
				t, ok := parts[name]
				if !ok {
					return "", fmt.Errorf("no partial %q", name)
				}
				return t, nil
			}
			gd := map[string]interface{}{"x": shadowGo(c.Val), "y": "Y"}
			if _, ok := parts["l.html"]; ok {
				gd["layout"] = "l.html"
			}
			m["gd"] = gd
		}
		return m
	}
	got := vk.Safe(func() (string, error) { return plush.Render(real, plush.NewContextWith(data(true))) })
	if c.Where == "layread" {
		r.Exclude("a layout reads a key of its partial's data: not stated")
		if got.Panicked() {
			return &vk.Fail{Kind: "shadow", Case: c, Msg: fmt.Sprintf("%s with partials %v: %s", real, parts, got)}
		}
		return nil
	}
	want := vk.Safe(func() (string, error) { return plush.Render(inline, plush.NewContextWith(data(false))) })
	key, _ := json.Marshal(c)
	cls := "shadow/value=" + c.Val + "/caller has the name"
	if c.Outer == "none" {
		cls = "shadow/value=" + c.Val + "/fresh name"
	}
	if want.Err != nil {
		cls += "/error"
	}
	r.Count(string(key), cls)
	r.Sample(func() interface{} {
		return map[string]interface{}{"case": c, "template": real, "partials": parts, "inline": inline, "expected": want.String(), "got": got.String()}
	})
	if want.Panicked() {
		return &vk.Fail{Kind: "shadow", Case: c, Msg: fmt.Sprintf("the inline source %q panicked: %s", inline, want)}
	}
	if got.Panicked() || (got.Err != nil) != (want.Err != nil) || (got.Err == nil && got.Out != want.Out) {
		return &vk.Fail{Kind: "shadow", Case: c, Msg: fmt.Sprintf("%s with partials %v gave %s, but written inline in the equivalent scope (%s) it gives %s: an entry of data hides the caller's variable of that name whatever its value", real, parts, got, inline, want)}
	}
	return nil
}

func shadowCases() []ShadowCase {
	var out []ShadowCase
	for _, v := range shadowVals {
		for _, ro := range shadowRoutes {
			for _, o := range shadowOuters {
				for _, rd := range shadowReads {
					for _, w := range shadowWheres {
						if c := (ShadowCase{Val: v, Route: ro, Outer: o, Read: rd, Where: w}); validShadow(c) {
							out = append(out, c)
						}
					}
				}
			}
		}
	}
	return out
}

// boundaryCases: empty bodies, blocks and layouts that are nothing but the yield, nil in a data map, odd content names.
func boundaryCases() []Case {
	mk := func(ct string, main ...Item) Case {
		return Case{Mode: "splice", CT: ct, Strings: fixedStrings, SL: fixedSL, Main: main}
	}
	empty := Item{K: "partial", Ext: ".html", Body: []Item{}}
	emptyLay := Item{K: "partial", Ext: ".html", Body: []Item{}, Lay: &Lay{Ext: ".html", Body: []Item{tx("<L '>"), {K: "yield"}, tx("</L>"), {K: "tick"}}}}
	emptyInLay := Item{K: "partial", Ext: ".html", Body: []Item{tx("'b'")}, Lay: &Lay{Ext: ".html", Body: []Item{tx("<L>"), part(".html"), {K: "yield"}, part(".html", Item{K: "yield"}), tx("</L>")}}}
	onlyYield := Item{K: "partial", Ext: ".html", Body: []Item{tx("'b'")}, Lay: &Lay{Ext: ".html", Body: []Item{{K: "yield"}}}}
	twoYields := Item{K: "partial", Ext: ".html", Body: []Item{tx("'b'"), {K: "tick"}}, Lay: &Lay{Ext: ".html", Body: []Item{{K: "yield"}, tx("|"), {K: "yield"}}}}
	// (nil for a name the caller HAS is not generated: whether that hides the caller's binding is not stated)
	nilData := Item{K: "partial", Ext: ".html", Data: []KV{{K: "f1", Nil: true}, {K: "f0", Nil: true}, lit("g0", "x")},
		Body: []Item{{K: "if", N: "f1", Body: []Item{tx("G")}}, {K: "if", N: "f0", Body: []Item{tx("F")}}, em("g0"), em("g1")}}
	nilRead := Item{K: "partial", Ext: ".html", Data: []KV{{K: "f0", Nil: true}}, Body: []Item{em("f0")}}
	silent := Item{K: "partial", Ext: ".html", Alt: true, Body: []Item{tx("'s'"), {K: "tick"}}}
	var out []Case
	for _, ct := range []string{"text/html", "application/javascript"} {
		out = append(out,
			mk(ct, tx("["), empty, tx("]")), mk(ct, tx("["), emptyLay, tx("]"), Item{K: "tick"}), mk(ct, tx("["), emptyInLay, tx("]")), mk(ct, tx("["), onlyYield, tx("]")), mk(ct, tx("["), twoYields, tx("]"), Item{K: "tick"}),
			mk(ct, nilData, em("g0")), mk(ct, nilRead), mk(ct, tx("["), silent, tx("]"), Item{K: "tick"}),
			mk(ct), mk(ct, empty),
			mk(ct, Item{K: "cfor", N: "n1_0", Body: []Item{}}, tx("["), Item{K: "cof", N: "n1_0"}, tx("]")),
			mk(ct, tx("["), Item{K: "cof", N: "zz", Def: true, Body: []Item{}}, tx("]")),
			mk(ct, tx("["), Item{K: "cof", N: "zz", Alt: true}, tx("]")),
			mk(ct, Item{K: "cfor", N: "n1_0", Body: []Item{tx("S"), {K: "tick"}}}, tx("["), Item{K: "cof", N: "n1_0", Alt: true}, tx("]"), Item{K: "tick"}),
		)
		for _, v := range []string{"let", "fn"} {
			pv := Item{K: "partial", Ext: ".html", Via: v, Data: []KV{ref("g0", "v1")}, Body: []Item{tx("<p '>"), em("g0"), {K: "tick"}}}
			pl := pv
			pl.Lay = &Lay{Ext: ".html", Body: []Item{tx("<L '>"), {K: "yield"}, tx("</L>")}}
			out = append(out,
				mk(ct, Item{K: "for", N: "sl", V: "v1", Body: []Item{pv}}, Item{K: "tick"}, em("g0")),
				mk(ct, Item{K: "for", N: "sl", V: "v1", Body: []Item{pl}}, Item{K: "tick"}),
				mk(ct, Item{K: "cfor", N: "n1_0", Body: []Item{tx("<A '>"), c0guard, {K: "tick"}}},
					Item{K: "for", N: "sl", V: "v1", Body: []Item{{K: "cof", N: "n1_0", Via: v, Data: []KV{ref("c0", "v1")}}}}, Item{K: "cof", N: "n1_0", Via: v}, Item{K: "tick"}),
				mk(ct, Item{K: "cof", N: "zz", Via: v}))
		}
		for _, n := range []string{"", " ", "N1.1", " n1: 2 ", "contentFor:n1_0", "a b"} {
			other := "n1_0"
			out = append(out, mk(ct, Item{K: "cfor", N: n, Body: []Item{tx("<N>"), em("s0")}}, Item{K: "cfor", N: other, Body: []Item{tx("<O>")}},
				tx("1:"), Item{K: "cof", N: n}, tx("2:"), Item{K: "cof", N: other}, tx("3:"), Item{K: "cof", N: strings.TrimSpace(n) + "x", Def: true, Body: []Item{tx("dflt")}}))
		}
	}
	return out
}

// bigCase: one call site executed c.Big times (more sibling compositions than any nesting bound of the engine).
func bigCase(kind int, held bool) Case {
	c := Case{Mode: "splice", CT: "text/html", Strings: fixedStrings, SL: fixedSL, Big: 1100}
	p := Item{K: "partial", Ext: ".html", Data: []KV{ref("g0", "v7")}, Held: held, Body: []Item{em("g0"), tx(",")}}
	switch kind {
	case 0:
		c.Main = []Item{{K: "for", N: "bl", V: "v7", Body: []Item{p}}, em("g0")}
	case 1:
		c.Main = []Item{{K: "cfor", N: "n1_0", Body: []Item{c0guard}}, {K: "for", N: "bl", V: "v7", Body: []Item{{K: "cof", N: "n1_0", Data: []KV{ref("c0", "v7")}, Held: held}}}}
	case 2:
		c.Main = []Item{{K: "for", N: "bl", V: "v7", Body: []Item{{K: "blk", Body: []Item{em("v7")}}}}}
	case 3:
		p.Lay = &Lay{Ext: ".html", Body: []Item{tx("("), {K: "yield"}, tx(")")}}
		c.Main = []Item{tx("["), part(".html", Item{K: "for", N: "bl", V: "v7", Body: []Item{p}}), tx("]")}
	}
	return c
}

// ---- the test --------------------------------------------------------------------

const rule = "A case is a tree of documents: main template, partial bodies (nesting <= 3), layouts (a layout may wrap its yield in a partial that has a layout), contentFor blocks, contentOf default blocks, blocks of recording Go block helpers. Items: literal text (HTML/JS specials), <%= %> of context strings with HTML/JS specials, of loop variables, of data keys, a tick() counter (detects double / missing / cached evaluation), for loops, if/else, let (partials: must not leak; in the main document also of the names stored blocks and layouts read, between definition and use), partial(name, data[, layout]) with name = [directory part incl. dots, upper case, './', '_'] p<N> [extension in {.js,.html,.md,none,.js.html,.html.js}] and data keys shadowing caller variables (g*) or fresh (f*), values strings / ints / caller variables / false / an empty list / nil (nil also for names the caller has: the entry hides the caller's variable, the partial's text reads the key guarded and must find it unset; in and below layouts and stored blocks nil only for names the caller lacks); in a quarter of the cases the data map, layout entry included, is HELD in a variable and used by TWO calls; in a quarter the same partial NAME is called a second time with ANOTHER data map, optionally after a let of the caller in between (keys not bound by every call are read guarded); 0-3 contentFor names per document (not only identifiers: upper case, dot, spaces, colon, the empty name) incl. redefinition, contentFor also in an output tag, contentOf before/after the definition, with/without data (c*, shadowing s0), data held in a variable and used by two calls, with default block, undefined name; after a contentOf with data the CALLER reads a data key guarded (must be unset); block helpers that render their block once / twice / never / in a child scope with data (BlockWith) / take an argument / are a method of a context value; partial, contentOf and block helper calls also in SILENT tags (evaluated once, nothing inserted); partial and contentOf calls also written as <% let r = CALL %><%= r %>~<%= r %> (evaluated once, inserted twice) and as the result of a function defined and called on the spot; empty documents and blocks. contentType in {unset,text/html,application/javascript,text/javascript, the same with '; charset=..' parameters, text/plain}. ORACLE (metamorphic): every composition is replaced by an oracle helper that renders the composed-in text itself with plush.Render in a child of the caller's scope extended with data and leaves a placeholder which is substituted textually, unescaped, exactly once; JSEscapeString is applied by the oracle once per partial (and layout) whose name has a last extension other than .js / none under a JavaScript media type; layouts get the result as yield; an undefined contentOf without default must fail. For data-free cases additionally the TEXTUAL inline: the partial/layout/block source pasted in place of the tag must render the same. Whole outputs byte for byte, errors as error/no-error, plus the list of strings the block helpers received. (E) config matrix ct x ext x layout mode x layout ext x 11 bodies (incl. a call site in a loop fed from the loop variable, a name called twice with different data) x 4 data maps; (E) name spellings x content types with parameters x layout spellings; (E) block helper variants x tag opener x bodies x places; (E) boundaries (empty bodies, yield-only / two-yield layouts, nil data, odd content names) and one call site executed 1100 times; (E) all sequences of 16 content operations up to length 3 (thorough 4) x 3 placements; (R) random trees, random data-free trees with textual inlining, random trees rendered TWICE with plush.CacheEnabled on (second render on the cached templates). (E) a layout places the blocks its partial stored: fixed page / frame templates with outputs derived by hand - a block the partial's text stores with contentFor is what the contentOf of that partial's layout (and of the layout's layout) emits, with the data of contentOf added, for each call of the partial its own; (E) 'shadow': an entry of the data of partial / contentOf whose value is nil / false / 0 / 0.0 / the empty string / an empty list / a string and whose key is a name the caller has (context value, let, loop variable, let in a loop, key of the enclosing partial's data, let of the enclosing partial) or lacks, data written as a hash literal / held in a variable and used twice / a Go map of the context used twice, read by if / if-not / a bare output tag in the partial's text / in a partial that text calls without data / under a layout / in a stored block, the caller reading the name (guarded) afterwards - ORACLE the textual inline: the composed-in source in the body of a one-turn loop (a child scope of the caller's) after one let per data entry must render the same (error / no error; a layout that itself reads the key is generated, counted as excluded and only required not to panic); Not asserted (never generated): what a layout sees of the partial's data or variables, contentFor names in generated trees, contentFor inside blocks/loops, scope of a stored block other than names nobody rebinds below the main document, visibility of the data map in a contentOf default block, let inside blocks, nil bound through contentOf / BlockWith to a name the caller has in random trees (fixed phase 'shadow' only), names that differ only by surrounding spaces. Non-trivial = at least one composition was executed and rendered non-empty text, or the case must fail. Distinct by case."

func setup(t *testing.T) *vk.Run {
	r := vk.Start(t, "C17", rule,
		"plush.Render of composition-free source (text, <%= %>, for, if, let) is the reference for inline rendering (covered by C01/C02/C07/C08/C09)",
		"html/template.JSEscapeString is the reference JavaScript escaper",
		"helper results of type string without HTML specials (the placeholders) pass through <%= %> unchanged")
	r.Replayer("sees", func(raw json.RawMessage) *vk.Fail {
		var c SeesCase
		if f := vk.Decode(raw, &c); f != nil {
			return f
		}
		if c.Block < 0 || c.Block >= len(seesBlocks) || c.Def < 0 || c.Def > 3 || c.Use < 0 || c.Use > 4 || c.Def == 3 && c.Use == 4 || strings.ContainsAny(c.Name, "\x00\n") || c.CT != "" && c.CT != "text/html" {
			return &vk.Fail{Kind: "decode", Msg: "bad case"}
		}
		return checkSees(r, c)
	})
	r.Replayer("shadow", func(raw json.RawMessage) *vk.Fail {
		var c ShadowCase
		if f := vk.Decode(raw, &c); f != nil {
			return f
		}
		if !validShadow(c) {
			return &vk.Fail{Kind: "decode", Msg: "bad case"}
		}
		return checkShadow(r, c)
	})
	r.Replayer("compose", func(raw json.RawMessage) *vk.Fail {
		var c Case
		if f := vk.Decode(raw, &c); f != nil {
			return f
		}
		if err := validItems(c.Main, 0); err != nil {
			return &vk.Fail{Kind: "decode", Msg: "bad case: " + err.Error()}
		}
		if c.Big < 0 || c.Big > 5000 {
			return &vk.Fail{Kind: "decode", Msg: "bad length of the big list"}
		}
		for _, v := range c.Strings {
			if strings.Contains(string(v), "@@") {
				return &vk.Fail{Kind: "decode", Msg: "payload contains the placeholder marker"}
			}
		}
		if c.Mode == "textual" && !textualOK(c.CT, c.Main) {
			return &vk.Fail{Kind: "decode", Msg: "case is not eligible for textual inlining"}
		}
		return check(r, c)
	})
	return r
}

func TestReplay(t *testing.T) { setup(t).ReplayEnv() }

func TestProp(t *testing.T) {
	r := setup(t)
	defer r.Finish()
	r.ReplayCommitted()

	// (E) configuration matrix
	ctsE := append(append([]string{}, cts...), "application/javascript; charset=utf-8")
	nb, nd := len(fixedBodies), 4
	type lm struct {
		mode int
		ext  string
	}
	lms := []lm{{0, ""}}
	for _, e := range exts {
		lms = append(lms, lm{1, e}, lm{2, e})
	}
	total := int64(len(ctsE) * len(exts) * len(lms) * nb * nd)
	r.Subspace(fmt.Sprintf("config matrix: %d content types x %d extensions x %d layout modes/extensions x %d bodies x %d data maps", len(ctsE), len(exts), len(lms), nb, nd), total, true)
	r.Parallel(total, 0, func(i int64) {
		d := int(i % int64(nd))
		i /= int64(nd)
		bd := int(i % int64(nb))
		i /= int64(nb)
		l := lms[i%int64(len(lms))]
		i /= int64(len(lms))
		e := exts[i%int64(len(exts))]
		i /= int64(len(exts))
		r.Check(check(r, configCase(ctsE[i], e, l.mode, l.ext, bd, d)))
		if (bd+d)%3 == 0 { // a third of the matrix again with the data map held in a variable and used by two calls
			r.Check(check(r, configCaseHeld(ctsE[i], e, l.mode, l.ext, bd, d, true)))
		}
	})
	// the same bodies without any data through the textual oracle (no JavaScript escaping)
	var nt int64
	for _, ct := range []string{"", "text/html"} {
		for _, l := range lms {
			for bd := range fixedBodies {
				if fixedBodies[bd].name == "let" || fixedBodies[bd].name == "block" {
					continue
				}
				c := configCase(ct, ".html", l.mode, l.ext, bd, 0)
				c.Mode = "textual"
				c.Main = stripTicks(c.Main)
				if !textualOK(c.CT, c.Main) {
					continue
				}
				nt++
				r.Check(check(r, c))
			}
		}
	}
	r.Subspace("config matrix, data-free part, textual inlining", nt, true)

	// (E) spellings of partial and layout names x content types with parameters
	nNames := int64(len(ctsNames) * len(presE) * len(extsR) * 5)
	r.Subspace(fmt.Sprintf("names: %d content types x %d directory parts x %d extensions (single, double, none) x 5 layout spellings", len(ctsNames), len(presE), len(extsR)), nNames, true)
	r.Parallel(nNames, 0, func(i int64) {
		lay := int(i % 5)
		i /= 5
		e := extsR[i%int64(len(extsR))]
		i /= int64(len(extsR))
		pre := presE[i%int64(len(presE))]
		i /= int64(len(presE))
		r.Check(check(r, nameCase(ctsNames[i], pre, e, lay)))
	})

	// (E) block helper variants
	nBlk := int64(len(blkVariants) * 2 * 4 * 4)
	r.Subspace(fmt.Sprintf("block helpers: %d variants (once, twice, never, in a child scope with data, with an argument, as a method) x {output, silent tag} x 4 bodies x 4 places", len(blkVariants)), nBlk, true)
	r.Parallel(nBlk, 0, func(i int64) {
		place := int(i % 4)
		i /= 4
		body := int(i % 4)
		i /= 4
		alt := i%2 == 1
		i /= 2
		r.Check(check(r, blkCase(blkVariants[i], alt, body, place)))
	})

	// (E) a layout places the blocks its partial stored
	var sees []SeesCase
	for _, name := range []string{"head", "side bar", "A.b"} {
		for bi := range seesBlocks {
			for def := 0; def < 4; def++ {
				for use := 0; use < 5; use++ {
					for _, ct := range []string{"", "text/html"} {
						for _, tw := range []bool{false, true} {
							if def == 3 && use == 4 {
								continue
							}
							sees = append(sees, SeesCase{Name: name, Block: bi, Def: def, Use: use, CT: ct, Twice: tw})
						}
					}
				}
			}
		}
	}
	r.Subspace("a layout places the blocks its partial stored: 3 content names x 5 block bodies x 4 ways of defining x 5 ways of using (plain, with data, with a default block, twice, from the layout's own layout) x content type x the partial called once / twice with different data", int64(len(sees)), true)
	r.Parallel(int64(len(sees)), 0, func(i int64) { r.Check(checkSees(r, sees[i])) })

	// (E) data entries that shadow a variable of the caller with nil / a falsy / a zero value
	shs := shadowCases()
	r.Subspace(fmt.Sprintf("data entries that shadow a caller's variable: %d values (nil, false, 0, 0.0, \"\", empty list, a string) x %d routes (hash literal, hash held in a variable and used twice, Go map used twice) x %d kinds of caller variable (none, context value, let, loop variable, let in a loop, key of the enclosing partial's data, let of the enclosing partial) x %d ways of reading x {partial's text, a partial that text calls, partial with a layout, stored block through contentOf, [layout reads: not asserted]}", len(shadowVals), len(shadowRoutes), len(shadowOuters), len(shadowReads)), int64(len(shs)), true)
	r.Parallel(int64(len(shs)), 0, func(i int64) { r.Check(checkShadow(r, shs[i])) })

	// (E) boundaries and many siblings
	bcs := boundaryCases()
	for k := 0; k < 4; k++ {
		bcs = append(bcs, bigCase(k, false))
		if k != 2 {
			bcs = append(bcs, bigCase(k, true))
		}
	}
	r.Subspace("boundaries: empty bodies / blocks / documents, yield-only layouts, nil in data maps, silent tags, content names that are no identifiers; one call site executed 1100 times (partial, contentOf, block helper, laid-out partial inside a partial)", int64(len(bcs)), true)
	r.Parallel(int64(len(bcs)), 0, func(i int64) {
		r.Check(check(r, bcs[i]))
	})

	// (E) content operation sequences
	maxLen := r.Pick(3, 4)
	nops := int64(len(contentOps))
	var seqs [][]int
	var rec func(prefix []int)
	rec = func(prefix []int) {
		if len(prefix) > 0 {
			seqs = append(seqs, append([]int{}, prefix...))
		}
		if len(prefix) == maxLen {
			return
		}
		for o := 0; o < int(nops); o++ {
			rec(append(prefix, o))
		}
	}
	rec(nil)
	r.Subspace(fmt.Sprintf("contentFor/contentOf: every sequence of 1..%d operations out of %d x 3 placements", maxLen, nops), int64(len(seqs))*3, true)
	r.Parallel(int64(len(seqs))*3, 0, func(i int64) {
		r.Check(check(r, contentCase(seqs[i/3], int(i%3))))
	})

	// (R) random trees
	r.Rapid("trees", r.Pick(15000, 60000), func(t *rapid.T) *vk.Fail {
		return check(r, genCase(t, false))
	})
	r.Rapid("textual", r.Pick(6000, 30000), func(t *rapid.T) *vk.Fail {
		return check(r, genCase(t, true))
	})
	// the same trees, each rendered twice with the template cache on (state kept in parsed templates or per process)
	r.Rapid("cached", r.Pick(2500, 12000), func(t *rapid.T) *vk.Fail {
		c := genCase(t, false)
		c.Cached = true
		return check(r, c)
	})
}

// TestShow prints a few generated cases (VERIF_SHOW=n), for eyeballing the generator.
func TestShow(t *testing.T) {
	n, _ := strconv.Atoi(os.Getenv("VERIF_SHOW"))
	if n <= 0 {
		t.Skip("VERIF_SHOW not set")
	}
	textual := os.Getenv("VERIF_SHOW_TEXTUAL") != ""
	i := 0
	rapid.Check(t, func(rt *rapid.T) {
		c := genCase(rt, textual)
		if i++; i > n {
			return
		}
		b := build(c)
		fmt.Printf("---- %s\n", describe(c, b))
		if textual {
			fmt.Printf("  textual: %q\n", b.tmain)
		}
		out, err := plush.Render(b.main, plush.NewContextWith(func() map[string]interface{} {
			d := baseData(c)
			d["partialFeeder"] = func(name string) (string, error) { return b.parts[name], nil }
			d["rec"] = func(help plush.HelperContext) (template.HTML, error) {
				s, err := help.Block()
				return template.HTML("[" + s + "]"), err
			}
			d["rec2"] = func(help plush.HelperContext) (template.HTML, error) {
				a, _ := help.Block()
				b, err := help.Block()
				return template.HTML("[" + a + "|" + b + "]"), err
			}
			d["rec0"] = func(help plush.HelperContext) (template.HTML, error) { return "[]", nil }
			d["recw"] = func(data map[string]interface{}, help plush.HelperContext) (template.HTML, error) {
				ctx := help.New()
				for k, v := range data {
					ctx.Set(k, v)
				}
				s, err := help.BlockWith(ctx)
				return template.HTML("[" + s + "]"), err
			}
			d["reca"] = func(label string, help plush.HelperContext) (template.HTML, error) {
				s, err := help.Block()
				return template.HTML("[" + label + ":" + s + "]"), err
			}
			d["hx"] = methRec{rec: new([]string)}
			return d
		}()))
		fmt.Printf("  => %q %v\n", out, err)
	})
}
