// C14 — shared templates, the cache and contexts are safe under concurrent use.
// Built with -race; GORACE=halt_on_error=1 makes the process stop at the first
// report, and the case noted last (vk.Run.Current) becomes the replay.
package c14

import (
	"encoding/json"
	"fmt"
	"html/template"
	"os"
	"reflect"
	"regexp"
	"sort"
	"strings"
	"sync"
	"sync/atomic"
	"testing"
	"time"

	"verif/internal/model"
	"verif/internal/progs"
	"verif/internal/vk"

	plush "github.com/gobuffalo/plush/v5"
	"github.com/gobuffalo/plush/v5/helpers/hctx"
	"pgregory.net/rapid"
)

func TestMain(m *testing.M) { vk.Main(m) }

// ---- A: one template, many goroutines -------------------------------------------------------------

type ExecCase struct {
	Src      string            `json:"src"`
	Partials map[string]string `json:"partials,omitempty"`
	G        int               `json:"goroutines"`
	Ctx      string            `json:"ctx"`   // own-root | child-of-shared-parent
	Cache    string            `json:"cache"` // off | cold | warm
	Rounds   int               `json:"rounds"`
	// Layout, when set, is a second template executed on the SAME context right after Src (a page and its
	// layout: blocks stored by contentFor in the first execution are rendered by contentOf in the second)
	Layout string `json:"layout,omitempty"`
	// Prelude, when set (Ctx = child-of-shared-parent only), is a template executed ONCE on the shared parent, alone,
	// before the goroutines start: what it leaves in the parent (functions, arrays, hashes, blocks stored by
	// contentFor) is then used - never written - by the executions on the children
	Prelude string `json:"prelude,omitempty"`
}

// knownOpen lists generator classes that reproduce a genuine defect of plush which is not repaired yet. A class listed
// here is not generated (its cases are counted with r.Exclude). EMPTY BY DEFAULT: the shapes run, as the LAST phase of
// TestProp because the race detector ends the process at the first report. See the final report of the widening pass.
var knownOpen = map[string]bool{
	// "stored-block-in-shared-parent": true,
}

const classStoredShared = "stored-block-in-shared-parent"

// pages that store blocks, and layouts that render them in a later execution on the same context
var pageSnippets = []string{
	`<% contentFor("side") { %>[side <%= s1 %> <%= for (i) in arr { %><%= i %><% } %>]<% } %>page body <%= s3 %>`,
	`<% let loc = "local" %><% contentFor("side") { %>[<%= loc %> <%= s1 %>]<% } %><% contentFor("foot") { %>(foot <%= len(arr) %>)<% } %>body`,
}

var layoutSnippets = []string{
	`<html><%= contentOf("side") %>|<%= contentOf("side", {s1: "override"}) %>|<%= for (i) in arr { %><%= i %><% } %><%= s3 %></html>`,
	`<%= for (i) in two { %><%= contentOf("side") %><%= i %><% } %><%= contentOf("foot") { %>no foot<% } %>`,
}

var uniq int64

var localSnippets = []string{
	`<% let la = [1, 2, 3] %><% la[1] = 9 %><%= la %>`,
	`<% let lh = {a: 1, b: 2} %><% lh["c"] = 3 %><%= lh["c"] %>`,
	`<% let cnt = 0 %><%= for (i) in arr { %><% cnt = cnt + i %><% } %><%= cnt %>`,
	`<% let mk = fn(x) { let acc = [x] return acc + 5 } %><%= mk(1) %>`,
	`<% contentFor("side") { %>[side <%= s1 %>]<% } %><%= contentOf("side") %><%= contentOf("side", {s1: "override"}) %>`,
	`<%= truncate(s3 + s3 + s3, {size: 7}) %><%= len(arr) %><%= toJSON(two) %><%= for (g) in groupBy(2, arr) { %><%= g %>|<% } %>`,
	`<%= for (i) in range(1, 4) { %><%= i %><% } %><%= for (i) in until(3) { %><%= i %><% } %>`,
	// operators whose right operand comes from the data and differs per execution (same result every time):
	// anything the engine remembers across executions, keyed by such a value, is shared mutable state
	// ASSIGNMENT (not let) to names that live in the data the execution was given - for a child context these are
	// names of the SHARED PARENT: an execution only ever writes into its own context
	`<% s3 = s3 + "!" %><%= s3 %>|<% let bump = fn() { i1 = i1 + 1 return i1 } %><%= bump() %>|<%= if (t) { %><% i7 = i7 * 2 %><%= i7 %><% } %>|<%= for (x) in two { %><% i2 = i2 + x %><% } %><%= i2 %>`,
	`<%= s3 ~= fresh %>|<%= s3 == fresh %>|<%= for (w) in words { %><%= w ~= fresh %><% } %><%= truncate(fresh, {size: 2}) == fresh %>`,
}

// ---- wider pools (widening pass) ------------------------------------------------------------------------

// Go values the wide snippets read. Everything is built afresh for every execution and is never written by a template.
type kid struct {
	Name string
	N    int
}

func (k kid) Hello() string { return "hi " + k.Name }

type inner struct{ Deep string }

type rec struct {
	Name string
	N    int
	Kids []kid
	M    map[string]kid
	P    *kid
	In   inner
}

func (r rec) Kid(i int) kid          { return r.Kids[i] }
func (r *rec) Greet(s string) string { return s + " " + r.Name }
func (r rec) Self() rec              { return r }

type car struct {
	ID   int
	Make string
}

type strg struct{ s string }

func (s strg) String() string { return "strg<" + s.s + ">" }

type htm struct{}

func (htm) HTML() template.HTML { return "<i>htm</i>" }

// dynValue returns a value of a struct type that did not exist before the call (the second field's name is new), with
// a field Name: anything the engine remembers per Go type meets a type it has never seen in every execution
func dynValue(n int64) interface{} {
	t := reflect.StructOf([]reflect.StructField{
		{Name: "Name", Type: reflect.TypeOf("")},
		{Name: fmt.Sprintf("Pad%d", n), Type: reflect.TypeOf(0)},
	})
	v := reflect.New(t).Elem()
	v.Field(0).SetString("dyn-name")
	return v.Interface()
}

// fresh is the string that is different in every execution: fst is a record whose kids are all named by it, so that a
// path evaluated with another execution's element shows in the output (the comparison with fresh becomes false)
func freshRec(fresh string) rec {
	return rec{Name: fresh, Kids: []kid{{fresh, 0}, {fresh, 1}, {fresh, 2}}, M: map[string]kid{"k": {fresh, 9}}, P: &kid{fresh, 5}, In: inner{fresh}}
}

var wideNames = regexp.MustCompile(`\b(st|pst|fst|tm|ptm|mp|strs|ints|hv|cr|sg|hm|dyn|upper|vari|opts|errh|hrender|tpl1)\b`)

func wideData(ctx *plush.Context, fresh string) {
	tm := time.Date(2021, 3, 4, 5, 6, 7, 0, time.UTC)
	r := rec{Name: "rec<1>", N: 4, Kids: []kid{{"k0", 0}, {"k<1>", 1}, {"k2", 2}}, M: map[string]kid{"k": {"mk", 9}}, P: &kid{"pk", 5}, In: inner{"deep"}}
	r2 := r
	for k, v := range map[string]interface{}{
		"st": r, "pst": &r2, "fst": freshRec(fresh), "tm": tm, "ptm": &tm, "mp": map[string]interface{}{"k": "v<"}, "strs": []string{"x<", "y"}, "ints": []int{3, 4},
		"hv": template.HTML("<b>"), "cr": car{7, "m<"}, "sg": strg{"s"}, "hm": htm{}, "dyn": dynValue(atomic.AddInt64(&uniq, 1)),
		"upper": func(s string) string { return strings.ToUpper(s) },
		"vari": func(xs ...int) int {
			n := 0
			for _, x := range xs {
				n += x
			}
			return n
		},
		"opts": func(s string, m map[string]interface{}) string { return fmt.Sprint(s, len(m)) },
		"errh": func() (string, error) { return "", fmt.Errorf("errh says no") },
		// a helper that renders a template text of its own through its helper context
		"hrender": func(s string, help plush.HelperContext) (template.HTML, error) {
			out, err := help.Render(s)
			return template.HTML(out), err
		},
		"tpl1": "[<%= s1 %><%= for (i) in two { %><%= i %><% } %>]",
	} {
		ctx.Set(k, v)
	}
}

// every snippet renders without error; together they call every built-in helper, select fields and methods through
// values, pointers, indexes and call results, print every kind of value, forgive unknown identifiers, include partials
// (nested, with data, with a layout, in a loop) and nest block helpers
var wideSnippets = []string{
	`<%= st.Name %>|<%= st.In.Deep %>|<%= st.Kids[1].Name %>|<%= st.Kid(0).Name %>|<%= pst.Greet("x") %>|<%= st.M["k"].Name %>|<%= for (k) in st.Kids { %><%= k.Hello() %><% } %>|<%= pst.Kids[i1].N + 1 %>|<%= st.P.Name %>|<%= st.Self().Kids[2].Hello() %>|<%= dyn.Name %>`,
	`<%= fst.Kids[1].Name == fresh %>|<%= fst.Kid(0).Name == fresh %>|<%= fst.Self().Kids[2].Name == fresh %>|<%= fst.M["k"].Name == fresh %>|<%= for (i) in until(3) { %><%= fst.Kids[i].Name == fresh %><%= fst.Kid(i).N %><% } %>|<%= fst.P.Name == fresh %>|<%= fst.In.Deep == fresh %>`,
	`<%= tm %>|<%= ptm %>|<% let TIME_FORMAT = "2006-01" %><%= tm %>|<%= hv %>|<%= sg %>|<%= hm %>|<%= strs %>|<%= mp["k"] %>|<%= for (k, v) in mp { %><%= k %>=<%= v %><% } %>|<%= 1.5 + 2.0 %>|<%= nil %>|<%= [s1, i2, [t]] %>|<%= for (x) in strs { %><%= x %><% } %><%= for (x) in ints { %><%= x %><% } %>`,
	`<%= htmlEscape(s1) %>|<%= htmlEscape("q") { %><b><%= s2 %></b><% } %>|<%= jsEscape(s2) %>|<%= raw(s1) %>|<%= toJSON(mp) %>|<%= json(two) %>|<%= inspect(two) %>|<%= debug(s3) %>|<%= envOr("C14_NOT_SET", "dflt") %>|<%= pathFor("a/b") %>|<%= len(words) %>|<%= truncate(s3 + s3, {size: 6, trail: "~"}) %>|<%= pathFor(cr) %>|<%= pathFor([cr, cr]) %>|<%= toJSON(cr) %>|<%= inspect(cr) %>|<%= debug(cr) %>|<%= len(st.Kids) %>`,
	`<%= camelize("a_bc") %>|<%= camelize_down_first("a_bc") %>|<%= capitalize(s3) %>|<%= dasherize("a b_c") %>|<%= downcase("ABC") %>|<%= ordinalize("3") %>|<%= pluralize("box") %>|<%= singularize("boxes") %>|<%= underscore("AbCd") %>|<%= upcase(s3) %>|<%= for (i) in between(1, 4) { %><%= i %><% } %>|<%= for (g) in groupBy(2, arr) { %><%= for (e) in g { %><%= e %><% } %>;<% } %>`,
	`<%= if (nope1) { %>a<% } else { %>b<% } %>|<%= nope2 == nil %>|<%= !nope3 %>|<%= nope4 || t %>|<%= if (f) { %>x<% } else if (nope5) { %>y<% } else { %>z<% } %>|<%= f && nope6 %>|<%= nope7 != nil %>`,
	`<%= partial("p1") %>|<%= partial("p2", {x: s3}) %>|<%= partial("p1") %>|<%= partial("p3", {layout: "lay"}) %>|<%= for (i) in two { %><%= partial("p2", {x: i}) %><% } %>`,
	`<%= blk() { %>a<%= s1 %><%= blk() { %>b<%= for (i) in two { %><%= blk() { %><%= i %><% } %><% } %><% } %><% } %>|<%= contentOf("none") { %>dflt <%= s3 %><% } %>|<%= upper(s3) %>|<%= vari(i1, i2, i7) %>|<%= vari() %>|<%= opts("o") %>|<%= opts("o", {a: 1}) %>|<%= hrender(tpl1) %>|<%= hrender("t " + s3) %>`,
	`<% let down = fn(n) { if (n == 0) { return 0 } return down(n - 1) + 1 } %><%= down(12) %>|<%= upper(upper(upper(upper(upper(upper(upper(upper(s3)))))))) %>`,
}

// calls nested 900 deep: the bound on the nesting of calls is 1000, so this is legal alone and must stay legal next to
// other executions (dear under the race detector: a matrix of its own)
var deepSnippet = `<%= ` + strings.Repeat("upcase(", 900) + `s3` + strings.Repeat(")", 900) + ` %>`

var widePartials = map[string]string{
	"p1":  `[<%= s1 %>]`,
	"p2":  `(<%= x %>)<%= partial("p1") %>`,
	"p3":  `3<%= i7 %><%= for (i) in two { %><%= i %><% } %>`,
	"lay": `<l><%= yield %></l>`,
	"bad": `x<% let = 3 %>y`,
}

// templates whose execution FAILS: the error text of every concurrent execution must be the sequential one
var failingSnippets = []string{
	`ok <%= s1 %><%= if (nopeA) { %>a<% } %><%= nopeB == nil %><%= nopeFinal %>`,
	"a\nb\n<%= for (i) in arr { %>\n<%= i %><%= nopeInLoop %><% } %>",
	`<%= 1 / i0 %>`,
	`<%= arr[9] %>`,
	`<%= s3 ~= "(" %>`,
	`<%= errh() %>`,
	`<%= partial("missing") %>`,
	`<%= partial("bad") %>`,
	`<%= blk() { %>x<%= nopeInBlock %><% } %>`,
	`<%= upper(1) %>`,
	`<%= st.Nope %>`,
	`<% let f = fn(x) { return x + nopeInFn } %><%= f(1) %>`,
}

// texts that do not parse
var brokenSnippets = []string{
	`<%= 1 + %>`,
	`a<% let = 3 %>b`,
	`<%= arr[ %>`,
	`<%= ) %>`,
}

// boundaries: nothing, text only, a comment only, one tag, deep nesting, many tags, long text
var boundarySnippets = func() []string {
	deepIf := strings.Repeat(`<%= if (t) { %>(`, 30) + "X" + strings.Repeat(`)<% } %>`, 30)
	deepFor := `<%= for (a) in two { %><%= for (b) in two { %><%= for (c) in two { %><%= for (d) in two { %><%= a + b + c + d %><% } %><% } %><% } %><% } %>`
	return []string{
		``,
		`plain text only & <b>`,
		`<%# only a comment %>`,
		`<%= 1 %>`,
		`<% let only = 1 %>`,
		deepIf,
		deepFor,
		strings.Repeat(`<%= i1 %>,`, 300),
		strings.Repeat("0123456789abcdef", 4096),
		"é\u00a0\u2028<%= \"é\" + s3 %>\r\n",
	}
}()

// preludes: executed once on the shared parent. (1) functions and values the children then call and read. Every
// function value is one object that all children share; a child's first call of each is a moment of its own, so there
// are many of them, and their bodies compute on their parameters for a while (no look-up reaches the parent's lock)
var preludeFns = func() string {
	s := `<% let twice = fn(x) { return x + x } %><% let pick = fn(a, i) { return a[i] } %><% let parr = [1, 2, 3] %><% let ph = {a: "A", b: "B"} %><% let wrap = fn(x) { let one = fn(y) { return y + 1 } return one(x) * 2 } %>`
	for i := 0; i < 16; i++ {
		s += fmt.Sprintf(`<%% let f%d = fn(x, y) { return x%s + y } %%>`, i, strings.Repeat(" + x + y", 4+i*3))
	}
	return s
}()

// the first five definitions only (the random phase)
var preludeFnsSmall = preludeFns[:strings.Index(preludeFns, "<% let f0 ")]

var preludeFnUsers = func() []string {
	calls, rev := "", ""
	for i := 0; i < 16; i++ {
		calls += fmt.Sprintf(`<%%= f%d(i1, i%d) %%>,`, i, []int{0, 1, 2, 7}[i%4])
		rev += fmt.Sprintf(`<%%= f%d(i2, %d) %%>,`, 15-i, i)
	}
	return []string{
		`<%= twice(i2) %>|<%= twice(s3) %>|<%= pick(parr, 1) %>|<%= ph["a"] %>|<%= for (x) in parr { %><%= twice(x) %><% } %>|<%= len(parr) %>|<%= wrap(i7) %>`,
		`<%= twice(fresh) == fresh + fresh %>|<%= pick(words, 0) %>|<%= for (w) in words { %><%= twice(w) %><% } %>|<%= if (twice(i1) == 2) { %>two<% } %>|<%= pick(parr, wrap(i0)) %>`,
		calls,
		rev,
	}
}()

// (2) blocks stored by contentFor, rendered by contentOf in the children (class stored-block-in-shared-parent)
var preludeBlocks = []struct {
	Prelude string
	Users   []string
}{
	{pageSnippets[0], []string{layoutSnippets[0], layoutSnippets[1], `<%= contentOf("side") %><%= contentOf("side", {s1: "override"}) %>`}},
	{pageSnippets[1], []string{layoutSnippets[0], layoutSnippets[1]}},
	{`<% contentFor("cmp") { %><%= a == b %>/<%= for (i) in arr { %><%= a == b %><% } %><% } %>`,
		[]string{`<%= contentOf("cmp", {a: fresh, b: fresh}) %>|<%= for (i) in two { %><%= contentOf("cmp", {a: i, b: i}) %><% } %>`}},
}

func runExec(r *vk.Run, c ExecCase) *vk.Fail {
	r.Current("exec", c)
	defer r.Watch("exec", c)()
	saved := plush.CacheEnabled
	defer func() { plush.CacheEnabled = saved }()
	class := ""
	if c.Prelude != "" && strings.Contains(c.Prelude, "contentFor(") && strings.Contains(c.Src+c.Layout, "contentOf(") {
		class = classStoredShared
		if knownOpen[class] {
			r.Exclude(class)
			return nil
		}
	}
	// the text of every partial starts with a comment that is new in every run (and the same for all goroutines of
	// the run): whatever the engine remembers per partial text is cold when the goroutines start
	busted := func() map[string]string {
		n := atomic.AddInt64(&uniq, 1)
		m := map[string]string{}
		for name, text := range c.Partials {
			m[name] = fmt.Sprintf("<%%# c14 partial %d %%>%s", n, text)
		}
		return m
	}
	// the Go values of the wide pool are built only for texts that name one of them
	text := c.Src + c.Layout + c.Prelude
	for _, p := range c.Partials {
		text += p
	}
	wide := wideNames.MatchString(text)
	newFresh := func() string { return fmt.Sprintf("zz-%d-never-matches", atomic.AddInt64(&uniq, 1)) } // a different string for every execution
	mkCtxWith := func(partials map[string]string) *plush.Context {
		d := progs.Data()
		fresh := newFresh()
		d["fresh"] = fresh
		ctx := progs.Context(d, progs.Helpers(nil), partials)
		if wide {
			wideData(ctx, fresh)
		}
		return ctx
	}
	// a child of a shared parent gets the values that differ per execution for itself
	child := func(parent hctx.Context, fresh string) hctx.Context {
		ctx := parent.New()
		ctx.Set("fresh", fresh)
		if wide {
			ctx.Set("fst", freshRec(fresh))
		}
		return ctx
	}
	// one execution alone: [prelude on a new parent, then] the template [and the layout] on the kind of context the case names
	alone := func() vk.Res {
		parts := busted()
		return vk.Safe(func() (string, error) {
			var ctx hctx.Context = mkCtxWith(parts)
			if c.Prelude != "" {
				if _, err := plush.Render(c.Prelude, ctx); err != nil {
					return "", fmt.Errorf("prelude: %w", err)
				}
			}
			if c.Ctx == "child-of-shared-parent" {
				ctx = child(ctx, newFresh())
			}
			a, err := plush.Render(c.Src, ctx)
			if err != nil || c.Layout == "" {
				return a, err
			}
			b, err := plush.Render(c.Layout, ctx)
			return a + "\x00" + b, err
		})
	}
	// The concurrent executions come FIRST and the sequential baseline after them: whatever the engine sets up once per
	// process, on first use, is then first used by goroutines running at once (a baseline taken first would always
	// have set it up already, alone).
	parts := busted()
	mkCtx := func() *plush.Context { return mkCtxWith(parts) }
	src, lay := c.Src, c.Layout
	var shared, sharedLay *plush.Template
	switch c.Cache {
	case "off":
		plush.CacheEnabled = false
		t, err := plush.NewTemplate(src)
		if err == nil {
			shared = t
		}
		if lay != "" {
			if t, err := plush.NewTemplate(lay); err == nil {
				sharedLay = t
			}
		}
	case "cold":
		plush.CacheEnabled = true
		src = fmt.Sprintf("<%%# c14 %d %%>%s", atomic.AddInt64(&uniq, 1), c.Src)
		lay = fmt.Sprintf("<%%# c14 %d %%>%s", atomic.AddInt64(&uniq, 1), c.Layout)
	case "warm":
		plush.CacheEnabled = true
		src = fmt.Sprintf("<%%# c14 %d %%>%s", atomic.AddInt64(&uniq, 1), c.Src)
		lay = fmt.Sprintf("<%%# c14 %d %%>%s", atomic.AddInt64(&uniq, 1), c.Layout)
		plush.Parse(src) // fill the cache first
		plush.Parse(lay)
	}
	var parent *plush.Context
	if c.Ctx == "child-of-shared-parent" {
		parent = mkCtx()
		if c.Prelude != "" {
			// once, alone, before anything runs concurrently
			if _, err := plush.Render(c.Prelude, parent); err != nil {
				r.Exclude("prelude fails")
				return nil
			}
		}
	}
	type res struct {
		out string
		err string
	}
	results := make([][]res, c.G)
	// Everything the harness itself shares is touched BEFORE the goroutines start: own root contexts are built here, the
	// strings that differ per execution are numbered here. Between the start and the end the goroutines call nothing
	// but plush (an atomic counter or a lock of the harness inside them would order their accesses for the race
	// detector and hide unsynchronised pairs inside plush)
	roots := make([][]*plush.Context, c.G)
	freshes := make([][]string, c.G)
	var built sync.WaitGroup
	for g := range roots {
		built.Add(1)
		go func(g int) {
			defer built.Done()
			for k := 0; k < c.Rounds; k++ {
				if parent == nil {
					roots[g] = append(roots[g], mkCtx())
				} else {
					freshes[g] = append(freshes[g], newFresh())
				}
			}
		}(g)
	}
	built.Wait() // all of it happens before the start
	var wg sync.WaitGroup
	start := make(chan struct{})
	for g := 0; g < c.G; g++ {
		wg.Add(1)
		go func(g int) {
			defer wg.Done()
			<-start
			for k := 0; k < c.Rounds; k++ {
				var ctx hctx.Context
				if parent != nil {
					ctx = child(parent, freshes[g][k])
				} else {
					ctx = roots[g][k]
				}
				x := vk.Safe(func() (string, error) {
					if shared != nil && k%2 == 0 {
						return shared.Exec(ctx) // the very same parsed template in every goroutine
					}
					if shared != nil {
						return shared.Clone().Exec(ctx)
					}
					return plush.Render(src, ctx) // through the cache
				})
				if c.Layout != "" && !x.Panicked() && x.Err == nil {
					first := x.Out
					x = vk.Safe(func() (string, error) {
						if sharedLay != nil {
							return sharedLay.Exec(ctx)
						}
						return plush.Render(lay, ctx)
					})
					x.Out = first + "\x00" + x.Out
				}
				rr := res{out: x.Out}
				if x.Panicked() {
					rr.err = "PANIC " + fmt.Sprint(x.Panic)
				} else if x.Err != nil {
					rr.err = x.Err.Error()
				}
				results[g] = append(results[g], rr)
			}
		}(g)
	}
	close(start)
	wg.Wait()
	// sequential baseline; a failure is taken twice: a result that is not even reproducible alone (an address in an
	// error text, say) cannot be compared
	plush.CacheEnabled = false
	base := alone()
	if base.Panicked() {
		r.Exclude("panic (subject of C03/C04)")
		return nil
	}
	if base.Err != nil {
		// an error text may name an address
		if again := alone(); base.String() != again.String() {
			r.Exclude("not reproducible alone")
			return nil
		}
	}
	if c.Prelude != "" && base.Err != nil && strings.HasPrefix(base.Err.Error(), "prelude: ") {
		r.Exclude("prelude fails")
		return nil
	}
	want := res{out: base.Out}
	if base.Err != nil {
		want.err = base.Err.Error()
	}
	key, _ := json.Marshal(c)
	nodeKinds := 0
	for _, k := range []string{"if (", "for (", "fn(", "partial(", "contentOf(", "blk()", "let ", "[", "{", ".", "==", "nope"} {
		if strings.Contains(c.Src, k) {
			nodeKinds++
		}
	}
	nt := ""
	if c.Layout != "" || c.Prelude != "" {
		nodeKinds += 3
	}
	if c.G >= 2 && nodeKinds >= 3 {
		nt = string(key)
	}
	r.Count(nt, fmt.Sprintf("exec/%s/%s", c.Ctx, c.Cache))
	r.Class(fmt.Sprintf("G=%d", c.G))
	if want.err != "" {
		r.Class("exec: the template fails alone (error texts compared)")
	}
	if c.Prelude != "" {
		r.Class("exec: prelude executed once on the shared parent")
	}
	if nt != "" {
		r.Sample(func() interface{} {
			return map[string]interface{}{"template": c.Src, "layout": c.Layout, "prelude": c.Prelude, "goroutines": c.G, "context": c.Ctx, "cache": c.Cache, "sequential_result": want}
		})
	}
	for g := range results {
		for k, got := range results[g] {
			if got != want {
				return &vk.Fail{Kind: "exec", Class: class, Case: c, Msg: fmt.Sprintf("template %q (layout %q, prelude on the shared parent %q), %d goroutines, %s, cache %s: goroutine %d round %d got out=%q err=%q; alone it gives out=%q err=%q",
					clip(c.Src), c.Layout, c.Prelude, c.G, c.Ctx, c.Cache, g, k, clip(got.out), clip(got.err), clip(want.out), clip(want.err))}
			}
		}
	}
	return nil
}

func clip(s string) string {
	if len(s) > 400 {
		return s[:200] + " ... " + s[len(s)-200:]
	}
	return s
}

// ---- A5: containers made by a LITERAL in the template and then written to ----------------------------------
//
// The value of a literal belongs to the execution (and to the evaluation: a literal in a function body or in a loop
// body is evaluated once per call / per iteration) that evaluated it. The programs below make a hash, an array or a
// string from a literal, write into it under keys / with values that differ in EVERY execution, and print its size and
// content. What they must print is known without running anything (Want: the fresh value plus what this execution
// wrote - the reference is "a literal makes a new value"), so an entry left behind by an earlier or by a simultaneous
// execution shows, whichever execution comes first in the process.

type LitCase struct {
	Shape string `json:"shape"` // kind/site/mutation/count - a label for the evidence, not used by the oracle
	Src   string `json:"src"`
	// Want is what ONE execution returns; @OWN@ stands for the value of `own`, which is different in every execution
	Want   string `json:"want"`
	G      int    `json:"goroutines"`
	Ctx    string `json:"ctx"`   // own-root | child-of-shared-parent
	Cache  string `json:"cache"` // off | cold | warm
	Rounds int    `json:"rounds"`
	Order  string `json:"order"` // seq-first: two executions one after the other, then G goroutines; conc-first: the reverse
}

type litKind struct {
	Name, Lit, Kind string
	N               int    // entries of the fresh value
	Show            string // what printing the fresh value gives (an array prints its elements, a string itself)
}

var litKinds = []litKind{
	{"hash-empty", `{}`, "hash", 0, ""},
	{"hash-one", `{a: 1}`, "hash", 1, ""},
	{"array-empty", `[]`, "array", 0, ""},
	{"array-one", `[1]`, "array", 1, "1"},
	{"string-empty", `""`, "string", 0, ""},
	{"string-one", `"s"`, "string", 1, "s"},
}

var litMuts = []string{"index", "helper", "append"}

var litSites = []string{"top", "if", "loop", "fn-result", "fn-body", "element", "entry", "argument", "options", "partial"}

const own = "@OWN@"

// litData: the Go side of the programs. The three helpers WRITE into the map / slice they are handed (an options
// helper that fills in its defaults is the everyday case).
func litData(ctx hctx.Context) {
	ctx.Set("t", true)
	ctx.Set("two", []int{1, 2})
	ctx.Set("put", func(m map[string]interface{}, k string, v interface{}) int { m[k] = v; return len(m) })
	ctx.Set("setel", func(a []interface{}, v interface{}) string { a[0] = v; return fmt.Sprint(len(a), ":", a[0]) })
	ctx.Set("dflt", func(s string, o map[string]interface{}) string {
		if _, ok := o["sep"]; !ok {
			o["sep"] = "/"
		}
		o[s] = true
		return fmt.Sprint(s, o["sep"], len(o))
	})
	ctx.Set("partialFeeder", func(name string) (string, error) {
		if t, ok := litPartials[name]; ok {
			return t, nil
		}
		return "", fmt.Errorf("no partial %q", name)
	})
}

var litPartials = map[string]string{}

func init() {
	// one partial per kind: the literal is evaluated inside the partial, written to there, printed there
	for _, k := range litKinds {
		for _, mut := range litMuts {
			for n := 1; n <= 2; n++ {
				if st, pr, _, ok := litMutate(k, mut, n, "v", "b"); ok {
					litPartials[fmt.Sprintf("lit_%s_%s_%d", k.Name, mut, n)] = "<% let v = " + k.Lit + " %>" + tags(st) + pr
				}
			}
		}
	}
}

func tags(stmts []string) string {
	s := ""
	for _, st := range stmts {
		s += "<% " + st + " %>"
	}
	return s
}

// litMutate: n writes into the container named v (of kind k) in the way mut names; the statements, the tags that print
// the container afterwards, and what those print. b names the result of an append.
func litMutate(k litKind, mut string, n int, v, b string) (stmts []string, print, want string, ok bool) {
	switch k.Kind + "/" + mut {
	case "hash/index", "hash/helper":
		set := func(key, val string) string {
			if mut == "index" {
				return v + "[" + key + "] = " + val
			}
			return "put(" + v + ", " + key + ", " + val + ")"
		}
		stmts = []string{set("own", "1")}
		print = "<%= len(" + v + ") %>,<%= " + v + "[own] %>"
		want = fmt.Sprintf("%d,1", k.N+n)
		if n == 2 {
			stmts = append(stmts, set(`"k1"`, "2"))
			print += `,<%= ` + v + `["k1"] %>`
			want += ",2"
		}
		if k.N+n == 1 { // one entry: ranging over it has one order
			print += ",<%= for (kk, xx) in " + v + " { %><%= kk %>=<%= xx %>;<% } %>"
			want += "," + own + "=1;"
		}
		return stmts, print, want, true
	case "array/index", "array/helper":
		if k.N == 0 {
			return nil, "", "", false // nothing to write to
		}
		set := func(val string) string {
			if mut == "index" {
				return v + "[0] = " + val
			}
			return "setel(" + v + ", " + val + ")"
		}
		stmts = []string{set("own")}
		want = fmt.Sprintf("%d,%s", k.N, own)
		if n == 2 {
			stmts = append(stmts, set(`own + "x"`))
			want += "x"
		}
		return stmts, "<%= len(" + v + ") %>,<%= " + v + " %>", want, true
	case "array/append":
		if n != 1 {
			return nil, "", "", false // what + gives is not an array that can be appended to again (DESIGN section 8)
		}
		return []string{"let " + b + " = " + v + " + own"}, "<%= len(" + v + ") %>,<%= " + v + " %>,<%= " + b + " %>", fmt.Sprintf("%d,%s,%s%s", k.N, k.Show, k.Show, own), true
	case "string/append":
		want = k.Show
		for i := 0; i < n; i++ {
			stmts = append(stmts, v+" = "+v+" + own")
			want += own
		}
		return stmts, "<%= " + v + " %>", want, true
	}
	return nil, "", "", false
}

// litFresh: tags that print a container of kind k nobody has written to, and what they print
func litFresh(k litKind, w string) (print, want string) {
	switch k.Kind {
	case "hash":
		return "<%= len(" + w + ") %>", fmt.Sprint(k.N)
	case "array":
		return "<%= len(" + w + ") %>,<%= " + w + " %>", fmt.Sprintf("%d,%s", k.N, k.Show)
	}
	return "<%= " + w + " %>", k.Show
}

// litProgram: one program of the family. sfx is appended to every name the program binds (programs are concatenated).
func litProgram(k litKind, site, mut string, n int, sfx string) (src, want string, ok bool) {
	v, w, b, mk, a, i := "v"+sfx, "w"+sfx, "b"+sfx, "mk"+sfx, "a"+sfx, "i"+sfx
	st, pr, wa, ok := litMutate(k, mut, n, v, b)
	if !ok {
		return "", "", false
	}
	fp, fw := litFresh(k, w)
	switch site {
	case "top":
		return "<% let " + v + " = " + k.Lit + " %>" + tags(st) + pr, wa, true
	case "if":
		return "<% let " + v + " = " + k.Lit + " %><%= if (t) { %>" + tags(st) + pr + "<% } %>", wa, true
	case "loop": // evaluated once per iteration
		return "<%= for (" + i + ") in two { %><% let " + v + " = " + k.Lit + " %>" + tags(st) + pr + ";<% } %>", wa + ";" + wa + ";", true
	case "fn-result": // evaluated once per call: the second result is untouched by what was written into the first
		return "<% let " + mk + " = fn() { return " + k.Lit + " } %><% let " + v + " = " + mk + "() %>" + tags(st) + pr + "|<% let " + w + " = " + mk + "() %>" + fp, wa + "|" + fw, true
	case "fn-body":
		if k.Kind == "array" && mut == "append" {
			return "", "", false // the appended array is a name of the function body
		}
		_, pr2, wa2, _ := litMutate(k, mut, n, w, b)
		return "<% let " + mk + " = fn() {\nlet " + v + " = " + k.Lit + "\n" + strings.Join(st, "\n") + "\nreturn " + v + "\n} %><% let " + v + " = " + mk + "() %><% let " + w + " = " + mk + "() %>" + pr + "|" + pr2, wa + "|" + wa2, true
	case "element": // two evaluations of the literal inside one array literal
		return "<% let " + a + " = [" + k.Lit + ", " + k.Lit + "] %><% let " + v + " = " + a + "[0] %>" + tags(st) + pr + "|<% let " + w + " = " + a + "[1] %>" + fp, wa + "|" + fw, true
	case "entry": // ... inside one hash literal
		return "<% let " + a + " = {x: " + k.Lit + ", y: " + k.Lit + "} %><% let " + v + " = " + a + `["x"] %>` + tags(st) + pr + "|<% let " + w + " = " + a + `["y"] %>` + fp, wa + "|" + fw, true
	case "argument": // the literal is handed straight to a Go helper that writes into it
		if mut != "helper" || n != 1 {
			return "", "", false
		}
		if k.Kind == "hash" {
			return "<%= put(" + k.Lit + ", own, 1) %>|<%= put(" + k.Lit + `, own + "x", 2) %>`, fmt.Sprintf("%d|%d", k.N+1, k.N+1), true
		}
		return "<%= setel(" + k.Lit + ", own) %>|<%= setel(" + k.Lit + `, "y") %>`, fmt.Sprintf("%d:%s|%d:y", k.N, own, k.N), true
	case "options": // the options argument of a helper that fills in its defaults
		if k.Kind != "hash" || mut != "helper" || n != 1 {
			return "", "", false
		}
		return `<%= dflt("x", ` + k.Lit + `) %>|<%= dflt(own, ` + k.Lit + `) %>`, fmt.Sprintf("x/%d|%s/%d", k.N+2, own, k.N+2), true
	case "partial": // the literal is the data of a partial, and the partial's text makes one of its own and writes to it
		name := fmt.Sprintf("lit_%s_%s_%d", k.Name, mut, n)
		_, _, pwa, _ := litMutate(k, mut, n, "v", "b")
		return `<%= partial("` + name + `", {}) %>|<%= partial("` + name + `", {own: own + "p"}) %>`, pwa + "|" + strings.ReplaceAll(pwa, own, own+"p"), true
	}
	return "", "", false
}

type litShape struct {
	K         int
	Site, Mut string
	N         int
}

// every program of the family
var litShapes = func() []litShape {
	var out []litShape
	for ki, k := range litKinds {
		for _, site := range litSites {
			for _, mut := range litMuts {
				for n := 1; n <= 2; n++ {
					if _, _, ok := litProgram(k, site, mut, n, ""); ok {
						out = append(out, litShape{ki, site, mut, n})
					}
				}
			}
		}
	}
	return out
}()

func (s litShape) String() string {
	return fmt.Sprintf("%s/%s/%s/%d", litKinds[s.K].Name, s.Site, s.Mut, s.N)
}

func runLit(r *vk.Run, c LitCase) *vk.Fail {
	r.Current("lit", c)
	defer r.Watch("lit", c)()
	saved := plush.CacheEnabled
	defer func() { plush.CacheEnabled = saved }()
	newOwn := func() string { return fmt.Sprintf("o%d", atomic.AddInt64(&uniq, 1)) }
	src := c.Src
	var shared *plush.Template
	switch c.Cache {
	case "off":
		plush.CacheEnabled = false
		t, err := plush.NewTemplate(src)
		if err != nil {
			r.Exclude("lit: the text does not parse")
			return nil
		}
		shared = t
	case "cold":
		plush.CacheEnabled = true
		src = fmt.Sprintf("<%%# c14 %d %%>%s", atomic.AddInt64(&uniq, 1), c.Src)
	default:
		plush.CacheEnabled = true
		src = fmt.Sprintf("<%%# c14 %d %%>%s", atomic.AddInt64(&uniq, 1), c.Src)
		plush.Parse(src)
	}
	var parent *plush.Context
	if c.Ctx == "child-of-shared-parent" {
		parent = plush.NewContext()
		litData(parent)
	}
	mkCtx := func(o string) hctx.Context {
		if parent != nil {
			ctx := parent.New()
			ctx.Set("own", o)
			return ctx
		}
		ctx := plush.NewContext()
		litData(ctx)
		ctx.Set("own", o)
		return ctx
	}
	exec := func(ctx hctx.Context, k int) vk.Res {
		return vk.Safe(func() (string, error) {
			if shared != nil && k%2 == 0 {
				return shared.Exec(ctx)
			}
			if shared != nil {
				return shared.Clone().Exec(ctx)
			}
			return plush.Render(src, ctx)
		})
	}
	judge := func(where, o string, x vk.Res) *vk.Fail {
		want := strings.ReplaceAll(c.Want, own, o)
		if x.Panicked() || x.Err != nil || x.Out != want {
			return &vk.Fail{Kind: "lit", Case: c, Msg: fmt.Sprintf("template %q (%s), %s, cache %s, %s, own = %q: got %s; a literal makes a new value in every evaluation, so the execution must return %q whatever ran before it or runs beside it",
				clip(c.Src), c.Shape, c.Ctx, c.Cache, where, o, clip(x.String()), want)}
		}
		return nil
	}
	seq := func() *vk.Fail {
		for k := 0; k < 2; k++ {
			o := newOwn()
			if f := judge(fmt.Sprintf("execution %d of two run one after the other", k+1), o, exec(mkCtx(o), k)); f != nil {
				return f
			}
		}
		return nil
	}
	conc := func() *vk.Fail {
		// everything of the harness is built before the start; between start and end the goroutines call only plush
		owns := make([][]string, c.G)
		roots := make([][]hctx.Context, c.G)
		results := make([][]vk.Res, c.G)
		for g := range owns {
			for k := 0; k < c.Rounds; k++ {
				owns[g] = append(owns[g], newOwn())
				if parent == nil {
					roots[g] = append(roots[g], mkCtx(owns[g][k]))
				}
			}
		}
		var wg sync.WaitGroup
		start := make(chan struct{})
		for g := 0; g < c.G; g++ {
			wg.Add(1)
			go func(g int) {
				defer wg.Done()
				<-start
				for k := 0; k < c.Rounds; k++ {
					var ctx hctx.Context
					if parent != nil {
						ctx = mkCtx(owns[g][k])
					} else {
						ctx = roots[g][k]
					}
					results[g] = append(results[g], exec(ctx, k))
				}
			}(g)
		}
		close(start)
		wg.Wait()
		for g := range results {
			for k, x := range results[g] {
				if f := judge(fmt.Sprintf("goroutine %d of %d, round %d", g, c.G, k), owns[g][k], x); f != nil {
					return f
				}
			}
		}
		return nil
	}
	key, _ := json.Marshal(c)
	nt := ""
	if c.G >= 2 {
		nt = string(key)
	}
	r.Count(nt, fmt.Sprintf("lit/%s/%s", c.Ctx, c.Cache))
	r.Class(fmt.Sprintf("G=%d", c.G))
	r.Class("lit: " + c.Order)
	for _, p := range strings.Split(c.Shape, "+") {
		if f := strings.Split(p, "/"); len(f) == 4 {
			r.Class("lit kind: " + f[0])
			r.Class("lit site: " + f[1])
			r.Class("lit write: " + f[2])
		}
	}
	if nt != "" {
		r.Sample(func() interface{} { return c })
	}
	steps := []func() *vk.Fail{seq, conc}
	if c.Order == "conc-first" {
		steps = []func() *vk.Fail{conc, seq}
	}
	for _, s := range steps {
		if f := s(); f != nil {
			return f
		}
	}
	return nil
}

// ---- B: concurrent Parse / Render of equal and different texts, cache on -------------------------------

type ParseCase struct {
	Srcs []string `json:"srcs"`
	G    int      `json:"goroutines"`
	// Set: every goroutine also stores the templates it parsed under keys of its own with CacheSet while the others parse
	Set bool `json:"cache_set,omitempty"`
}

func runParse(r *vk.Run, c ParseCase) *vk.Fail {
	r.Current("parse", c)
	defer r.Watch("parse", c)()
	saved := plush.CacheEnabled
	defer func() { plush.CacheEnabled = saved }()
	plush.CacheEnabled = true
	n := atomic.AddInt64(&uniq, 1)
	const steps = 8
	got := make([][steps]string, c.G)
	var wg sync.WaitGroup
	start := make(chan struct{})
	for g := 0; g < c.G; g++ {
		wg.Add(1)
		go func(g int) {
			defer wg.Done()
			<-start
			for k := 0; k < steps; k++ {
				i := (g + k) % len(c.Srcs)
				src := fmt.Sprintf("<%%# c14p %d %%>%s", n, c.Srcs[i]) // same text in all goroutines: cold for the first, warm for the rest
				got[g][k] = vk.Safe(func() (string, error) {
					switch (g + k/len(c.Srcs)) % 4 {
					case 0, 2:
						t, err := plush.Parse(src)
						if err != nil {
							return "", err
						}
						if c.Set {
							plush.CacheSet(fmt.Sprintf("c14 set %d %d %d", n, g, k), t)
						}
						return t.Exec(progs.Context(progs.Data(), progs.Helpers(nil), nil))
					case 1:
						return plush.RenderR(strings.NewReader(src), progs.Context(progs.Data(), progs.Helpers(nil), nil))
					}
					// the route Buffalo takes: data and helpers as maps (both new for every call)
					data := map[string]interface{}{}
					for name, v := range progs.Data() {
						data[name] = model.ToPlush(v)
					}
					return plush.BuffaloRenderer(src, data, map[string]interface{}{"id": func(args ...interface{}) (interface{}, error) { return args[0], nil }})
				}).String()
			}
		}(g)
	}
	close(start)
	wg.Wait()
	// the sequential baseline comes after the concurrent part (see runExec), cache off, twice
	plush.CacheEnabled = false
	want := make([]string, len(c.Srcs))
	fails := false
	for i, s := range c.Srcs {
		s := "<%# c14p 0 %>" + s // like the concurrent texts: behind a comment
		x := vk.Safe(func() (string, error) { return plush.Render(s, progs.Context(progs.Data(), progs.Helpers(nil), nil)) })
		want[i] = x.String()
		if x.Panicked() {
			r.Exclude("panic (subject of C03/C04)")
			return nil
		}
		if y := vk.Safe(func() (string, error) { return plush.Render(s, progs.Context(progs.Data(), progs.Helpers(nil), nil)) }); y.String() != want[i] {
			r.Exclude("not reproducible alone")
			return nil
		}
		fails = fails || x.Err != nil
	}
	key, _ := json.Marshal(c)
	r.Count(string(key), "parse-render-cache-on")
	if c.Set {
		r.Class("parse: with concurrent CacheSet")
	}
	if fails {
		r.Class("parse: a text that fails alone (error texts compared)")
	}
	for g := range got {
		for k := range got[g] {
			if i := (g + k) % len(c.Srcs); got[g][k] != want[i] {
				return &vk.Fail{Kind: "parse", Case: c, Msg: fmt.Sprintf("goroutine %d step %d: %q gave %s, alone %s", g, k, clip(c.Srcs[i]), clip(got[g][k]), clip(want[i]))}
			}
		}
	}
	return nil
}

// ---- C: reader / writer mixes on one context -----------------------------------------------------------

type CtxCase struct {
	G   int     `json:"goroutines"`
	Ops [][]int `json:"ops"` // per goroutine: op codes
}

// op codes: 0 Set(a) 1 Set(b) 2 Value(a) 3 Has(b) 4 New() 5 New().Set 6 New().Value(a) 7 Value(builtin) 8 Render a template reading a on a child
// on ONE child (kid) that all goroutines share: 9 kid.Value(a) - found in the parent 10 kid.Set(k) 11 kid.Has(b) 12 kid.New().Value(k) and the
// parent's Value(k) - nil 13 Exec a template with a loop, a let and a condition on a child of kid 14 Value of a key that is no string
const nOps = 15

func runCtx(r *vk.Run, c CtxCase) *vk.Fail {
	r.Current("ctx", c)
	defer r.Watch("ctx", c)()
	ctx := plush.NewContextWith(map[string]interface{}{"a": 0, "b": "x"})
	t, _ := plush.NewTemplate(`<%= a %>|<%= if (b) { %>b<% } %>`)
	t2, _ := plush.NewTemplate(`<%= for (i) in [1, 2] { %><%= a %>,<% } %><% let z = a %><%= z == nil %>|<%= if (b) { %>b<% } %>`)
	kid := ctx.New()
	var bad atomic.Value
	var wg sync.WaitGroup
	start := make(chan struct{})
	for g := 0; g < c.G && g < len(c.Ops); g++ {
		wg.Add(1)
		go func(g int) {
			defer wg.Done()
			<-start
			for k, op := range c.Ops[g] {
				x := vk.Safe(func() (string, error) {
					switch op % nOps {
					case 0:
						ctx.Set("a", g*1000+k)
					case 1:
						ctx.Set("b", fmt.Sprint("v", g, k))
					case 2:
						if v, ok := ctx.Value("a").(int); !ok || v < 0 {
							return "", fmt.Errorf("Value(a) = %v: neither the initial nor a written value", ctx.Value("a"))
						}
					case 3:
						if !ctx.Has("b") {
							return "", fmt.Errorf("Has(b) is false although b always holds a non-nil value")
						}
					case 4:
						_ = ctx.New()
					case 5:
						ctx.New().Set("a", -1) // must never become visible in the parent
					case 6:
						if v, ok := ctx.New().Value("a").(int); !ok || v < 0 {
							return "", fmt.Errorf("child sees a = %v", v)
						}
					case 7:
						if ctx.Value("len") == nil {
							return "", fmt.Errorf("built-in helper vanished")
						}
					case 8:
						out, err := t.Exec(ctx.New())
						if err != nil || !strings.HasSuffix(out, "|b") {
							return "", fmt.Errorf("render on a child gave %q, %v", out, err)
						}
					case 9:
						if v, ok := kid.Value("a").(int); !ok || v < 0 {
							return "", fmt.Errorf("the shared child sees a = %v: neither the initial nor a written value of the parent", kid.Value("a"))
						}
					case 10:
						kid.Set("k", g*1000+k)
					case 11:
						if !kid.Has("b") {
							return "", fmt.Errorf("the shared child: Has(b) is false although the parent always holds a non-nil b")
						}
					case 12:
						if v := kid.New().Value("k"); v != nil {
							if _, ok := v.(int); !ok {
								return "", fmt.Errorf("grandchild sees k = %v", v)
							}
						}
						if v := ctx.Value("k"); v != nil {
							return "", fmt.Errorf("a value set on the child became visible in the parent: k = %v", v)
						}
					case 13:
						out, err := t2.Exec(kid.New())
						if err != nil || !strings.HasSuffix(out, ",false|b") {
							return "", fmt.Errorf("render on a grandchild gave %q, %v", out, err)
						}
					case 14:
						// what a key that is no string yields is not stated: called, not judged
						_ = ctx.Value(42)
						_ = kid.Value(struct{}{})
					}
					return "", nil
				})
				if x.Panicked() || x.Err != nil {
					bad.Store(fmt.Sprintf("goroutine %d op %d: %s", g, k, x))
				}
			}
		}(g)
	}
	close(start)
	wg.Wait()
	key, _ := json.Marshal(c)
	r.Count(string(key), "context-readers-writers")
	if b := bad.Load(); b != nil {
		return &vk.Fail{Kind: "ctx", Case: c, Msg: b.(string)}
	}
	return nil
}

// ---- the test -----------------------------------------------------------------------------------------------

const rule = "built with the Go race detector (halt on first report; the case noted last is the replay). In every phase the CONCURRENT part runs first and the sequential baseline after it (what the engine sets up once per process, on first use, is then first used by goroutines running at once), and between their start and their end the goroutines call nothing but plush: contexts, numbered strings and Go values are built before the start (a lock or an atomic of the harness inside them would order their accesses for the detector). (A) one parsed template executed from G in {2,4,8,16,32} goroutines (enumerations start with 32) x {own root context, child of one shared parent} x cache {off: the very same *Template and its Clones; cold; warm} x 3 rounds. Templates: 9 fixed snippets (template-local arrays and hashes with index assignment, accumulating assignment in loops, assignment to names that live in the shared parent, contentFor/contentOf, built-in helpers and iterators, ~= and == against a value that differs in every execution); 9 wide snippets that select fields and methods through values, pointers, indexes, map entries and call results (of a record that is the same in every execution, of one whose strings differ in every execution, and of a value whose Go TYPE is new in every execution), print every kind of value (time with and without TIME_FORMAT, HTML, Stringer, HTMLer, typed slices, maps), call EVERY built-in helper (also with structs and with a block), application helpers (variadic, option map, one that renders a text through its helper context), forgive unknown identifiers in every tolerated position, include partials (nested, with data, with a layout, in a loop; the text of every partial starts with a comment that is new in every run, so partial texts are always cold), nest block helpers three deep and call a function of the template recursively; calls nested 900 deep (the bound is 1000); a partial that includes itself 90 deep, by up to 32 goroutines at once (what counts the nesting counts it per execution); 12 templates that FAIL (unknown identifier after forgiven ones, in a loop on line 4, in a block, in a function; division by zero; index out of bounds; bad pattern; helper error; missing partial; partial that does not parse; wrong argument type; missing member) and 4 texts that do not parse - their error texts must equal the sequential ones; 10 boundary templates (empty, text only, comment only, one tag, one silent tag, 30 nested ifs, 4 nested loops, 300 tags, 64 KB of text, non-ASCII); random all-construct programs (shared generator, with partials and block helpers) with a snippet of any pool appended. (A2) page + layout: every goroutine executes a page that stores blocks with contentFor and then, on the same context, a layout that renders them with contentOf. (A3) prelude: a template executed ONCE, alone, on the shared parent before the goroutines start leaves 21 functions, an array and a hash there; the children call and read them (4 templates; every function value is one object shared by all children). (A4, last phase, class stored-block-in-shared-parent) the prelude stores blocks with contentFor in the shared parent, the children render them with contentOf (with data that differs per execution, in loops, with a default block). (A5) containers made by a LITERAL of the template and then written to: a generated family of programs = literal {} | {a: 1} | [] | [1] | \"\" | \"s\" x site (top level; inside an if block; in a loop body - one evaluation per iteration; result of a template function called twice; local of a function body called twice; two elements of one array literal; two entries of one hash literal; argument handed straight to a Go helper; options argument of a helper that fills in its defaults; inside a partial whose data argument is {} / {own: ...}) x write (index assignment; a Go helper that writes into the map / slice it is handed; + append / string concatenation) x 1-2 writes, under keys and with values that differ in EVERY execution, printing len, the written entries, the one-entry range and the untouched sibling. The oracle is a reference, not a second run: a literal makes a new value at every evaluation, so the output is the fresh value plus this execution's own writes (Want, with a placeholder for the per-execution value) - whatever ran before or runs beside it. Each case runs two executions one after the other AND G goroutines x rounds on one parsed template, in either order, x context mode x cache mode (quick: every program once with the modes rotating; thorough: the full product, G rotating); a random phase concatenates 1-4 programs (renamed apart) in one template. [] + x is used once per array (what + returns cannot be appended to again: DESIGN section 8). A child of the shared parent is given the values that differ per execution itself. Every concurrent result must equal the sequential result; a sequential result that fails is taken twice and the case dropped if it is not reproducible alone. (B) concurrent Parse+Exec / Render / RenderR / BuffaloRenderer of 1-6 equal and different texts with the cache on (first goroutine cold, the rest warm), texts that do not parse among them, optionally with CacheSet under keys of the goroutine. (C) 2-16 goroutines running random mixes of 15 operations - Set / Value / Has / New / New().Set / New().Value / Value(built-in) / Exec on a child, all on ONE shared context, and Value / Set / Has / New().Value / Exec on a grandchild on ONE shared child of it, Value with a key that is no string (called, not judged) - with invariants on what they may observe (a value set on a child never shows in the parent). Non-trivial = G >= 2 and the template uses >= 3 kinds of construct (A; page+layout and prelude count as 3), every A5 case with G >= 2 (each has a literal, a write and a print), every B and C case; distinct by case."

// replayTimes: a saved case is run repeatedly (the schedule is not controlled), except in the child that the
// hang watchdog starts to see whether a slow case returns at all: there one run answers the question, and twenty
// runs of a heavy case under the race detector on a loaded machine look like a case that never returns.
func replayTimes(n int) int {
	if os.Getenv("VERIF_REPLAY_CHILD") != "" {
		return 1
	}
	return n
}

func setup(t *testing.T) *vk.Run {
	r := vk.Start(t, "C14", rule,
		"the Go scheduler is not controlled: assurance is 'no report and no divergence in the executions that happened'; the race detector is happens-before based, so an unsynchronised pair is reported whenever both accesses occur in a run",
		"shared context data is read-only for templates (a template that writes into a shared Go slice races in user data, not in plush)")
	r.Replayer("exec", func(raw json.RawMessage) *vk.Fail {
		var c ExecCase
		if f := vk.Decode(raw, &c); f != nil {
			return f
		}
		if c.G < 1 || c.G > 64 || c.Rounds < 1 || c.Rounds > 20 {
			return &vk.Fail{Kind: "decode", Msg: "bad case"}
		}
		for i := 0; i < replayTimes(20); i++ {
			if f := runExec(r, c); f != nil {
				return f
			}
		}
		return nil
	})
	r.Replayer("lit", func(raw json.RawMessage) *vk.Fail {
		var c LitCase
		if f := vk.Decode(raw, &c); f != nil {
			return f
		}
		if c.G < 1 || c.G > 64 || c.Rounds < 1 || c.Rounds > 20 {
			return &vk.Fail{Kind: "decode", Msg: "bad case"}
		}
		for i := 0; i < replayTimes(20); i++ {
			if f := runLit(r, c); f != nil {
				return f
			}
		}
		return nil
	})
	r.Replayer("parse", func(raw json.RawMessage) *vk.Fail {
		var c ParseCase
		if f := vk.Decode(raw, &c); f != nil {
			return f
		}
		if c.G < 1 || c.G > 64 || len(c.Srcs) == 0 {
			return &vk.Fail{Kind: "decode", Msg: "bad case"}
		}
		for i := 0; i < replayTimes(20); i++ {
			if f := runParse(r, c); f != nil {
				return f
			}
		}
		return nil
	})
	r.Replayer("ctx", func(raw json.RawMessage) *vk.Fail {
		var c CtxCase
		if f := vk.Decode(raw, &c); f != nil {
			return f
		}
		if c.G < 1 || c.G > 64 {
			return &vk.Fail{Kind: "decode", Msg: "bad case"}
		}
		for i := 0; i < replayTimes(50); i++ {
			if f := runCtx(r, c); f != nil {
				return f
			}
		}
		return nil
	})
	return r
}

func TestReplay(t *testing.T) { setup(t).ReplayEnv() }

func TestProp(t *testing.T) {
	r := setup(t)
	defer r.Finish()
	// the saved cases are replayed LAST (deferred: runs before Finish): a replay is a sequential-then-concurrent run of
	// one scenario and would otherwise be the first to touch whatever the engine sets up on first use - alone, so that
	// a race in such a one-time initialisation could never show in the phases below
	defer r.ReplayCommitted()

	gs := []int{2, 4, 8, 16, 32}
	// the enumerated spaces start with the most goroutines: the first execution of a construct in the process is the
	// only one that meets what is set up on first use, and 32 goroutines give it 496 pairs where 2 give one
	gsDesc := []int{32, 16, 8, 4, 2}
	ctxs := []string{"own-root", "child-of-shared-parent"}
	caches := []string{"off", "cold", "warm"}
	var cell int64 // numbers the cells of all enumerated spaces, for sharding
	mine := func() bool { cell++; return r.Mine(cell - 1) }
	var n int64
	for _, s := range localSnippets {
		for _, g := range gsDesc {
			for _, cx := range ctxs {
				for _, ca := range caches {
					if mine() {
						r.Check(runExec(r, ExecCase{Src: s, G: g, Ctx: cx, Cache: ca, Rounds: 3}))
					}
					n++
				}
			}
		}
	}
	r.Subspace("9 fixed snippets x G in {2,4,8,16,32} x 2 context modes x 3 cache modes", n, true)
	var m int64
	for _, s := range pageSnippets {
		for _, l := range layoutSnippets {
			for _, g := range gsDesc {
				for _, ca := range caches {
					if mine() {
						r.Check(runExec(r, ExecCase{Src: s, Layout: l, G: g, Ctx: "own-root", Cache: ca, Rounds: 3}))
					}
					m++
				}
			}
		}
	}
	r.Subspace("2 pages storing blocks x 2 layouts rendering them in a second execution on the same context x G x 3 cache modes", m, true)

	// wide pools. The thorough tier runs every G; the quick tier runs every (context mode, cache mode) with G
	// rotating through {2,4,8,16,32} from cell to cell
	matrix := func(name string, pool []string, partials map[string]string, prelude string, cxs []string) {
		var k int64
		for _, s := range pool {
			for _, cx := range cxs {
				for _, ca := range caches {
					for gi, g := range gsDesc {
						if r.Quick() && gi != int(k/int64(len(gs)))%len(gs) {
							k++
							continue
						}
						k++
						if mine() {
							r.Check(runExec(r, ExecCase{Src: s, Partials: partials, Prelude: prelude, G: g, Ctx: cx, Cache: ca, Rounds: 3}))
						}
					}
				}
			}
		}
		if r.Quick() {
			r.Subspace(name+" x context modes x 3 cache modes, G rotating through {2,4,8,16,32}", k/int64(len(gs)), true)
		} else {
			r.Subspace(name+" x context modes x 3 cache modes x G in {2,4,8,16,32}", k, true)
		}
	}
	matrix(fmt.Sprintf("%d wide snippets (paths, values, every built-in helper, forgiven unknown names, partials, nested block helpers, recursion)", len(wideSnippets)), wideSnippets, widePartials, "", ctxs)
	var dk int64
	for _, g := range gs {
		for _, cx := range ctxs {
			for _, ca := range caches {
				if r.Quick() && !((g == 2 || g == 8) && cx == ctxs[0] && ca == "off") {
					continue
				}
				if mine() {
					r.Check(runExec(r, ExecCase{Src: deepSnippet, G: g, Ctx: cx, Cache: ca, Rounds: r.Pick(2, 3)}))
				}
				dk++
			}
		}
	}
	r.Subspace("calls nested 900 deep x G x context modes x cache modes (quick: G in {2,8}, own root, cache off)", dk, true)
	// partials nested 90 deep (a partial that includes itself until its counter runs out): legal alone, so legal next to
	// other executions - whatever counts the nesting counts it per execution
	dk = 0
	deepPartials := map[string]string{"deep": `<%= if (n > 0) { %>(<%= partial("deep", {n: n - 1}) %>)<% } else { %>bottom <%= s1 %><% } %>`}
	for _, g := range gs {
		for _, cx := range ctxs {
			for _, ca := range caches {
				if r.Quick() && !(g == 32 && ca == "off") {
					continue
				}
				if mine() {
					r.Check(runExec(r, ExecCase{Src: `<%= partial("deep", {n: 90}) %>|<%= s3 %>`, Partials: deepPartials, G: g, Ctx: cx, Cache: ca, Rounds: r.Pick(3, 4)}))
				}
				dk++
			}
		}
	}
	r.Subspace("partials nested 90 deep x G x context modes x cache modes (quick: G = 32, cache off)", dk, true)
	matrix(fmt.Sprintf("%d failing templates", len(failingSnippets)), failingSnippets, widePartials, "", ctxs)
	matrix(fmt.Sprintf("%d texts that do not parse", len(brokenSnippets)), brokenSnippets, nil, "", ctxs)
	matrix(fmt.Sprintf("%d boundary templates", len(boundarySnippets)), boundarySnippets, nil, "", ctxs)
	matrix(fmt.Sprintf("%d templates calling functions and reading values a prelude left in the shared parent", len(preludeFnUsers)), preludeFnUsers, nil, preludeFns, ctxs[1:])

	// A5: containers made by a literal and then written to. Quick: every program once, with G, the context mode, the
	// cache mode and the order rotating from program to program; thorough: every program x context mode x cache mode x
	// order, G rotating
	orders := []string{"seq-first", "conc-first"}
	var lk int64
	for si, sh := range litShapes {
		src, want, _ := litProgram(litKinds[sh.K], sh.Site, sh.Mut, sh.N, "")
		for xi, cx := range ctxs {
			for ci, ca := range caches {
				for oi, or := range orders {
					if r.Quick() && (xi != si%2 || ci != (si/2)%3 || oi != (si/6)%2) {
						continue
					}
					g := gsDesc[(si+xi+ci+oi)%len(gsDesc)]
					if mine() {
						r.Check(runLit(r, LitCase{Shape: sh.String(), Src: src, Want: want, G: g, Ctx: cx, Cache: ca, Rounds: 3, Order: or}))
					}
					lk++
				}
			}
		}
	}
	if r.Quick() {
		r.Subspace(fmt.Sprintf("%d programs that make a container from a literal ({} {a: 1} [] [1] \"\" \"s\") at one of %d sites and write into it (index assignment, a Go helper that writes into what it is handed, +), 1 or 2 writes; G, context mode, cache mode and order rotating", len(litShapes), len(litSites)), lk, true)
	} else {
		r.Subspace(fmt.Sprintf("%d programs that make a container from a literal and write into it x 2 context modes x 3 cache modes x {sequence first, goroutines first}, G rotating", len(litShapes)), lk, true)
	}

	// B: fixed mixes with texts that fail, and with CacheSet
	for i, g := range gs {
		srcs := append([]string{localSnippets[i], localSnippets[i+4]}, brokenSnippets...)
		sort.Strings(srcs)
		if mine() {
			r.Check(runParse(r, ParseCase{Srcs: srcs, G: g, Set: i%2 == 0}))
		}
	}

	// C: fixed heavy mixes
	for _, g := range []int{2, 4, 8, 16} {
		ops := make([][]int, g)
		for i := range ops {
			for k := 0; k < 60; k++ {
				ops[i] = append(ops[i], (i*7+k*4)%nOps)
			}
		}
		if mine() {
			r.Check(runCtx(r, CtxCase{G: g, Ops: ops}))
		}
	}

	allSnippets := append(append(append(append([]string{}, localSnippets...), wideSnippets[:len(wideSnippets)-1]...), failingSnippets...), boundarySnippets[:5]...)
	r.Rapid("exec", r.Pick(600, 4000), func(t *rapid.T) *vk.Fail {
		g := progs.New(t, progs.Options{MaxDepth: 3})
		prog := g.Nodes(3, false)
		pr := model.Printer{Compact: rapid.Bool().Draw(t, "compact")}
		src := pr.Nodes(prog)
		if rapid.Bool().Draw(t, "snippet") {
			src += rapid.SampledFrom(allSnippets).Draw(t, "sn")
		}
		layout := ""
		if rapid.IntRange(0, 3).Draw(t, "page+layout") == 0 {
			src += rapid.SampledFrom(pageSnippets).Draw(t, "page")
			layout = rapid.SampledFrom(layoutSnippets).Draw(t, "layout")
		}
		partials := progs.PartialText(pr, g.Partials)
		for name, text := range widePartials {
			partials[name] = text
		}
		cx := rapid.SampledFrom(ctxs).Draw(t, "ctx")
		prelude := ""
		if cx == ctxs[1] && rapid.IntRange(0, 2).Draw(t, "prelude") == 0 {
			// functions and values only: stored blocks in the shared parent are the last phase
			prelude = preludeFnsSmall
			src += rapid.SampledFrom(preludeFnUsers[:2]).Draw(t, "user")
		}
		return runExec(r, ExecCase{Src: src, Layout: layout, Prelude: prelude, Partials: partials, G: rapid.SampledFrom(gs).Draw(t, "G"),
			Ctx: cx, Cache: rapid.SampledFrom(caches).Draw(t, "cache"), Rounds: rapid.IntRange(1, 3).Draw(t, "rounds")})
	})
	// 1-4 programs of the literal family in one template (every name a program binds carries the program's number)
	r.Rapid("lit", r.Pick(150, 1200), func(t *rapid.T) *vk.Fail {
		k := rapid.IntRange(1, 4).Draw(t, "programs")
		var srcs, wants, shapes []string
		for i := 0; i < k; i++ {
			sh := rapid.SampledFrom(litShapes).Draw(t, "shape")
			src, want, _ := litProgram(litKinds[sh.K], sh.Site, sh.Mut, sh.N, fmt.Sprint(i+1))
			srcs, wants, shapes = append(srcs, src), append(wants, want), append(shapes, sh.String())
		}
		return runLit(r, LitCase{Shape: strings.Join(shapes, "+"), Src: strings.Join(srcs, "#\n"), Want: strings.Join(wants, "#\n"), G: rapid.SampledFrom(gs).Draw(t, "G"),
			Ctx: rapid.SampledFrom(ctxs).Draw(t, "ctx"), Cache: rapid.SampledFrom(caches).Draw(t, "cache"), Rounds: rapid.IntRange(1, 3).Draw(t, "rounds"),
			Order: rapid.SampledFrom(orders).Draw(t, "order")})
	})
	r.Rapid("parse", r.Pick(200, 1200), func(t *rapid.T) *vk.Fail {
		k := rapid.IntRange(1, 4).Draw(t, "texts")
		var srcs []string
		for i := 0; i < k; i++ {
			g := progs.New(t, progs.Options{MaxDepth: 2, NoCompose: true})
			src := model.Printer{}.Nodes(g.Nodes(2, false))
			if rapid.IntRange(0, 4).Draw(t, "broken") == 0 {
				src += rapid.SampledFrom(brokenSnippets).Draw(t, "tail") // the text does not parse
			}
			srcs = append(srcs, src)
		}
		sort.Strings(srcs)
		return runParse(r, ParseCase{Srcs: srcs, G: rapid.SampledFrom(gs).Draw(t, "G"), Set: rapid.Bool().Draw(t, "CacheSet")})
	})
	r.Rapid("context", r.Pick(500, 3000), func(t *rapid.T) *vk.Fail {
		g := rapid.IntRange(2, 16).Draw(t, "G")
		ops := make([][]int, g)
		for i := range ops {
			ops[i] = rapid.SliceOfN(rapid.IntRange(0, nOps-1), 1, 40).Draw(t, "ops")
		}
		return runCtx(r, CtxCase{G: g, Ops: ops})
	})

	// LAST (see knownOpen): blocks stored in the shared parent by a prelude, rendered by the children
	var sb int64
	for _, pb := range preludeBlocks {
		for _, u := range pb.Users {
			for _, g := range gs {
				for _, ca := range caches {
					if mine() {
						r.Check(runExec(r, ExecCase{Src: u, Prelude: pb.Prelude, G: g, Ctx: ctxs[1], Cache: ca, Rounds: 3}))
					}
					sb++
				}
			}
		}
	}
	r.Subspace("3 preludes storing blocks in the shared parent x the layouts rendering them on the children x G x 3 cache modes", sb, true)
}
