// C14 — shared templates, the cache and contexts are safe under concurrent use.
// Built with -race; GORACE=halt_on_error=1 makes the process stop at the first
// report, and the case noted last (vk.Run.Current) becomes the replay.
package c14

import (
	"encoding/json"
	"fmt"
	"sort"
	"strings"
	"sync"
	"sync/atomic"
	"testing"

	"verif/internal/model"
	"verif/internal/progs"
	"verif/internal/vk"

	plush "github.com/gobuffalo/plush/v5"
	"github.com/gobuffalo/plush/v5/helpers/hctx"
	"pgregory.net/rapid"
)

func TestMain(m *testing.M) { vk.Main(m) }

// ---- A: one template, many goroutines -------------------------------------------------------------

type ExecCase struct {
	Src      string            `json:"src"`
	Partials map[string]string `json:"partials,omitempty"`
	G        int               `json:"goroutines"`
	Ctx      string            `json:"ctx"`   // own-root | child-of-shared-parent
	Cache    string            `json:"cache"` // off | cold | warm
	Rounds   int               `json:"rounds"`
	// Layout, when set, is a second template executed on the SAME context right after Src (a page and its
	// layout: blocks stored by contentFor in the first execution are rendered by contentOf in the second)
	Layout string `json:"layout,omitempty"`
}

// pages that store blocks, and layouts that render them in a later execution on the same context
var pageSnippets = []string{
	`<% contentFor("side") { %>[side <%= s1 %> <%= for (i) in arr { %><%= i %><% } %>]<% } %>page body <%= s3 %>`,
	`<% let loc = "local" %><% contentFor("side") { %>[<%= loc %> <%= s1 %>]<% } %><% contentFor("foot") { %>(foot <%= len(arr) %>)<% } %>body`,
}

var layoutSnippets = []string{
	`<html><%= contentOf("side") %>|<%= contentOf("side", {s1: "override"}) %>|<%= for (i) in arr { %><%= i %><% } %><%= s3 %></html>`,
	`<%= for (i) in two { %><%= contentOf("side") %><%= i %><% } %><%= contentOf("foot") { %>no foot<% } %>`,
}

var uniq int64

var localSnippets = []string{
	`<% let la = [1, 2, 3] %><% la[1] = 9 %><%= la %>`,
	`<% let lh = {a: 1, b: 2} %><% lh["c"] = 3 %><%= lh["c"] %>`,
	`<% let cnt = 0 %><%= for (i) in arr { %><% cnt = cnt + i %><% } %><%= cnt %>`,
	`<% let mk = fn(x) { let acc = [x] return acc + 5 } %><%= mk(1) %>`,
	`<% contentFor("side") { %>[side <%= s1 %>]<% } %><%= contentOf("side") %><%= contentOf("side", {s1: "override"}) %>`,
	`<%= truncate(s3 + s3 + s3, {size: 7}) %><%= len(arr) %><%= toJSON(two) %><%= for (g) in groupBy(2, arr) { %><%= g %>|<% } %>`,
	`<%= for (i) in range(1, 4) { %><%= i %><% } %><%= for (i) in until(3) { %><%= i %><% } %>`,
	// operators whose right operand comes from the data and differs per execution (same result every time):
	// anything the engine remembers across executions, keyed by such a value, is shared mutable state
	// ASSIGNMENT (not let) to names that live in the data the execution was given - for a child context these are
	// names of the SHARED PARENT: an execution only ever writes into its own context
	`<% s3 = s3 + "!" %><%= s3 %>|<% let bump = fn() { i1 = i1 + 1 return i1 } %><%= bump() %>|<%= if (t) { %><% i7 = i7 * 2 %><%= i7 %><% } %>|<%= for (x) in two { %><% i2 = i2 + x %><% } %><%= i2 %>`,
	`<%= s3 ~= fresh %>|<%= s3 == fresh %>|<%= for (w) in words { %><%= w ~= fresh %><% } %><%= truncate(fresh, {size: 2}) == fresh %>`,
}

func runExec(r *vk.Run, c ExecCase) *vk.Fail {
	r.Current("exec", c)
	defer r.Watch("exec", c)()
	saved := plush.CacheEnabled
	defer func() { plush.CacheEnabled = saved }()
	mkCtx := func() *plush.Context {
		d := progs.Data()
		d["fresh"] = fmt.Sprintf("zz-%d-never-matches", atomic.AddInt64(&uniq, 1)) // a different string for every execution
		return progs.Context(d, progs.Helpers(nil), c.Partials)
	}
	// sequential baseline
	plush.CacheEnabled = false
	base := vk.Safe(func() (string, error) { return plush.Render(c.Src, mkCtx()) })
	if base.Panicked() {
		r.Exclude("panic (subject of C03/C04)")
		return nil
	}
	if c.Layout != "" && base.Err == nil {
		bctx := mkCtx()
		base = vk.Safe(func() (string, error) {
			a, err := plush.Render(c.Src, bctx)
			if err != nil {
				return a, err
			}
			b, err := plush.Render(c.Layout, bctx)
			return a + "\x00" + b, err
		})
		if base.Panicked() {
			r.Exclude("panic (subject of C03/C04)")
			return nil
		}
	}
	src, lay := c.Src, c.Layout
	var shared, sharedLay *plush.Template
	switch c.Cache {
	case "off":
		plush.CacheEnabled = false
		t, err := plush.NewTemplate(src)
		if err == nil {
			shared = t
		}
		if lay != "" {
			if t, err := plush.NewTemplate(lay); err == nil {
				sharedLay = t
			}
		}
	case "cold":
		plush.CacheEnabled = true
		src = fmt.Sprintf("<%%# c14 %d %%>%s", atomic.AddInt64(&uniq, 1), c.Src)
		lay = fmt.Sprintf("<%%# c14 %d %%>%s", atomic.AddInt64(&uniq, 1), c.Layout)
	case "warm":
		plush.CacheEnabled = true
		src = fmt.Sprintf("<%%# c14 %d %%>%s", atomic.AddInt64(&uniq, 1), c.Src)
		lay = fmt.Sprintf("<%%# c14 %d %%>%s", atomic.AddInt64(&uniq, 1), c.Layout)
		plush.Parse(src) // fill the cache first
		plush.Parse(lay)
	}
	var parent *plush.Context
	if c.Ctx == "child-of-shared-parent" {
		parent = mkCtx()
	}
	type res struct {
		out string
		err string
	}
	results := make([][]res, c.G)
	var wg sync.WaitGroup
	start := make(chan struct{})
	for g := 0; g < c.G; g++ {
		wg.Add(1)
		go func(g int) {
			defer wg.Done()
			<-start
			for k := 0; k < c.Rounds; k++ {
				var ctx hctx.Context
				if parent != nil {
					ctx = parent.New()
				} else {
					ctx = mkCtx()
				}
				x := vk.Safe(func() (string, error) {
					if shared != nil && k%2 == 0 {
						return shared.Exec(ctx) // the very same parsed template in every goroutine
					}
					if shared != nil {
						return shared.Clone().Exec(ctx)
					}
					return plush.Render(src, ctx) // through the cache
				})
				if c.Layout != "" && !x.Panicked() && x.Err == nil {
					first := x.Out
					x = vk.Safe(func() (string, error) {
						if sharedLay != nil {
							return sharedLay.Exec(ctx)
						}
						return plush.Render(lay, ctx)
					})
					x.Out = first + "\x00" + x.Out
				}
				rr := res{out: x.Out}
				if x.Panicked() {
					rr.err = "PANIC " + fmt.Sprint(x.Panic)
				} else if x.Err != nil {
					rr.err = x.Err.Error()
				}
				results[g] = append(results[g], rr)
			}
		}(g)
	}
	close(start)
	wg.Wait()
	plush.CacheEnabled = false
	want := res{out: base.Out}
	if base.Err != nil {
		want.err = base.Err.Error()
	}
	key, _ := json.Marshal(c)
	nodeKinds := 0
	for _, k := range []string{"if (", "for (", "fn(", "partial(", "contentOf(", "blk()", "let ", "[", "{"} {
		if strings.Contains(c.Src, k) {
			nodeKinds++
		}
	}
	nt := ""
	if c.Layout != "" {
		nodeKinds += 3
	}
	if c.G >= 2 && nodeKinds >= 3 {
		nt = string(key)
	}
	r.Count(nt, fmt.Sprintf("exec/%s/%s", c.Ctx, c.Cache))
	r.Class(fmt.Sprintf("G=%d", c.G))
	if nt != "" {
		r.Sample(func() interface{} {
			return map[string]interface{}{"template": c.Src, "layout": c.Layout, "goroutines": c.G, "context": c.Ctx, "cache": c.Cache, "sequential_result": want}
		})
	}
	for g := range results {
		for k, got := range results[g] {
			if got != want {
				return &vk.Fail{Kind: "exec", Case: c, Msg: fmt.Sprintf("template %q, %d goroutines, %s, cache %s: goroutine %d round %d got out=%q err=%q; alone it gives out=%q err=%q",
					c.Src, c.G, c.Ctx, c.Cache, g, k, got.out, got.err, want.out, want.err)}
			}
		}
	}
	return nil
}

// ---- B: concurrent Parse / Render of equal and different texts, cache on -------------------------------

type ParseCase struct {
	Srcs []string `json:"srcs"`
	G    int      `json:"goroutines"`
}

func runParse(r *vk.Run, c ParseCase) *vk.Fail {
	r.Current("parse", c)
	defer r.Watch("parse", c)()
	saved := plush.CacheEnabled
	defer func() { plush.CacheEnabled = saved }()
	plush.CacheEnabled = false
	want := make([]string, len(c.Srcs))
	for i, s := range c.Srcs {
		x := vk.Safe(func() (string, error) { return plush.Render(s, progs.Context(progs.Data(), progs.Helpers(nil), nil)) })
		want[i] = x.String()
	}
	plush.CacheEnabled = true
	n := atomic.AddInt64(&uniq, 1)
	var bad atomic.Value
	var wg sync.WaitGroup
	start := make(chan struct{})
	for g := 0; g < c.G; g++ {
		wg.Add(1)
		go func(g int) {
			defer wg.Done()
			<-start
			for k := 0; k < 6; k++ {
				i := (g + k) % len(c.Srcs)
				src := fmt.Sprintf("<%%# c14p %d %%>%s", n, c.Srcs[i]) // same text in all goroutines: cold for the first, warm for the rest
				x := vk.Safe(func() (string, error) {
					if k%2 == 0 {
						t, err := plush.Parse(src)
						if err != nil {
							return "", err
						}
						return t.Exec(progs.Context(progs.Data(), progs.Helpers(nil), nil))
					}
					return plush.Render(src, progs.Context(progs.Data(), progs.Helpers(nil), nil))
				})
				if x.String() != want[i] {
					bad.Store(fmt.Sprintf("goroutine %d: %q gave %s, alone %s", g, c.Srcs[i], x, want[i]))
				}
			}
		}(g)
	}
	close(start)
	wg.Wait()
	plush.CacheEnabled = false
	key, _ := json.Marshal(c)
	r.Count(string(key), "parse-render-cache-on")
	if b := bad.Load(); b != nil {
		return &vk.Fail{Kind: "parse", Case: c, Msg: b.(string)}
	}
	return nil
}

// ---- C: reader / writer mixes on one context -----------------------------------------------------------

type CtxCase struct {
	G   int     `json:"goroutines"`
	Ops [][]int `json:"ops"` // per goroutine: op codes
}

// op codes: 0 Set(a) 1 Set(b) 2 Value(a) 3 Has(b) 4 New() 5 New().Set 6 New().Value(a) 7 Value(builtin) 8 Render a template reading a on a child
func runCtx(r *vk.Run, c CtxCase) *vk.Fail {
	r.Current("ctx", c)
	defer r.Watch("ctx", c)()
	ctx := plush.NewContextWith(map[string]interface{}{"a": 0, "b": "x"})
	t, _ := plush.NewTemplate(`<%= a %>|<%= if (b) { %>b<% } %>`)
	var bad atomic.Value
	var wg sync.WaitGroup
	start := make(chan struct{})
	for g := 0; g < c.G && g < len(c.Ops); g++ {
		wg.Add(1)
		go func(g int) {
			defer wg.Done()
			<-start
			for k, op := range c.Ops[g] {
				x := vk.Safe(func() (string, error) {
					switch op % 9 {
					case 0:
						ctx.Set("a", g*1000+k)
					case 1:
						ctx.Set("b", fmt.Sprint("v", g, k))
					case 2:
						if v, ok := ctx.Value("a").(int); !ok || v < 0 {
							return "", fmt.Errorf("Value(a) = %v: neither the initial nor a written value", ctx.Value("a"))
						}
					case 3:
						if !ctx.Has("b") {
							return "", fmt.Errorf("Has(b) is false although b always holds a non-nil value")
						}
					case 4:
						_ = ctx.New()
					case 5:
						ctx.New().Set("a", -1) // must never become visible in the parent
					case 6:
						if v, ok := ctx.New().Value("a").(int); !ok || v < 0 {
							return "", fmt.Errorf("child sees a = %v", v)
						}
					case 7:
						if ctx.Value("len") == nil {
							return "", fmt.Errorf("built-in helper vanished")
						}
					case 8:
						out, err := t.Exec(ctx.New())
						if err != nil || !strings.HasSuffix(out, "|b") {
							return "", fmt.Errorf("render on a child gave %q, %v", out, err)
						}
					}
					return "", nil
				})
				if x.Panicked() || x.Err != nil {
					bad.Store(fmt.Sprintf("goroutine %d op %d: %s", g, k, x))
				}
			}
		}(g)
	}
	close(start)
	wg.Wait()
	key, _ := json.Marshal(c)
	r.Count(string(key), "context-readers-writers")
	if b := bad.Load(); b != nil {
		return &vk.Fail{Kind: "ctx", Case: c, Msg: b.(string)}
	}
	return nil
}

// ---- the test -----------------------------------------------------------------------------------------------

const rule = "built with the Go race detector (halt on first report; the case noted last is the replay). (A) one parsed template executed from G in {2,4,8,16,32} goroutines x {own root context, child of one shared parent} x cache {off: the very same *Template and its Clones; cold; warm} x 3 rounds; templates: 9 fixed snippets exercising template-local arrays and hashes with index assignment, accumulating assignment in loops, assignment (at top level, in a function, an if and a loop) to names that live in the shared parent, contentFor/contentOf, built-in helpers and iterators, operators (~=, ==) whose right operand is a data value that differs in every execution, and random all-construct programs (shared generator, with partials and block helpers). (A2) page + layout: every goroutine executes a page that stores blocks with contentFor and then, on the same context, a layout that renders them with contentOf (inside loops, with overrides, with a default block), so evaluator state captured by a stored block outlives the execution that created it. Every concurrent result must equal the sequential result. (B) concurrent Parse+Exec / Render of 1-4 equal and different texts with the cache on (first goroutine cold, the rest warm). (C) 2-16 goroutines running random mixes of Set / Value / Has / New / New().Set / New().Value / Value(built-in) / Exec on a child, all on ONE shared context, with invariants on what they may observe. Non-trivial = G >= 2 and the template uses >= 3 kinds of construct (A), every B and C case; distinct by case."

func setup(t *testing.T) *vk.Run {
	r := vk.Start(t, "C14", rule,
		"the Go scheduler is not controlled: assurance is 'no report and no divergence in the executions that happened'; the race detector is happens-before based, so an unsynchronised pair is reported whenever both accesses occur in a run",
		"shared context data is read-only for templates (a template that writes into a shared Go slice races in user data, not in plush)")
	r.Replayer("exec", func(raw json.RawMessage) *vk.Fail {
		var c ExecCase
		if f := vk.Decode(raw, &c); f != nil {
			return f
		}
		if c.G < 1 || c.G > 64 || c.Rounds < 1 || c.Rounds > 20 {
			return &vk.Fail{Kind: "decode", Msg: "bad case"}
		}
		for i := 0; i < 20; i++ {
			if f := runExec(r, c); f != nil {
				return f
			}
		}
		return nil
	})
	r.Replayer("parse", func(raw json.RawMessage) *vk.Fail {
		var c ParseCase
		if f := vk.Decode(raw, &c); f != nil {
			return f
		}
		if c.G < 1 || c.G > 64 || len(c.Srcs) == 0 {
			return &vk.Fail{Kind: "decode", Msg: "bad case"}
		}
		for i := 0; i < 20; i++ {
			if f := runParse(r, c); f != nil {
				return f
			}
		}
		return nil
	})
	r.Replayer("ctx", func(raw json.RawMessage) *vk.Fail {
		var c CtxCase
		if f := vk.Decode(raw, &c); f != nil {
			return f
		}
		if c.G < 1 || c.G > 64 {
			return &vk.Fail{Kind: "decode", Msg: "bad case"}
		}
		for i := 0; i < 50; i++ {
			if f := runCtx(r, c); f != nil {
				return f
			}
		}
		return nil
	})
	return r
}

func TestReplay(t *testing.T) { setup(t).ReplayEnv() }

func TestProp(t *testing.T) {
	r := setup(t)
	defer r.Finish()
	r.ReplayCommitted()

	gs := []int{2, 4, 8, 16, 32}
	ctxs := []string{"own-root", "child-of-shared-parent"}
	caches := []string{"off", "cold", "warm"}
	var n int64
	for _, s := range localSnippets {
		for _, g := range gs {
			for _, cx := range ctxs {
				for _, ca := range caches {
					if r.Mine(n) {
						r.Check(runExec(r, ExecCase{Src: s, G: g, Ctx: cx, Cache: ca, Rounds: 3}))
					}
					n++
				}
			}
		}
	}
	r.Subspace("9 fixed snippets x G in {2,4,8,16,32} x 2 context modes x 3 cache modes", n, true)
	var m int64
	for _, s := range pageSnippets {
		for _, l := range layoutSnippets {
			for _, g := range gs {
				for _, ca := range caches {
					if r.Mine(n + m) {
						r.Check(runExec(r, ExecCase{Src: s, Layout: l, G: g, Ctx: "own-root", Cache: ca, Rounds: 3}))
					}
					m++
				}
			}
		}
	}
	r.Subspace("2 pages storing blocks x 2 layouts rendering them in a second execution on the same context x G x 3 cache modes", m, true)

	// C: fixed heavy mixes
	for _, g := range []int{2, 4, 8, 16} {
		ops := make([][]int, g)
		for i := range ops {
			for k := 0; k < 60; k++ {
				ops[i] = append(ops[i], (i*7+k*5)%9)
			}
		}
		r.Check(runCtx(r, CtxCase{G: g, Ops: ops}))
	}

	r.Rapid("exec", r.Pick(800, 4000), func(t *rapid.T) *vk.Fail {
		g := progs.New(t, progs.Options{MaxDepth: 3})
		prog := g.Nodes(3, false)
		pr := model.Printer{Compact: rapid.Bool().Draw(t, "compact")}
		src := pr.Nodes(prog)
		if rapid.Bool().Draw(t, "snippet") {
			src += rapid.SampledFrom(localSnippets).Draw(t, "sn")
		}
		layout := ""
		if rapid.IntRange(0, 3).Draw(t, "page+layout") == 0 {
			src += rapid.SampledFrom(pageSnippets).Draw(t, "page")
			layout = rapid.SampledFrom(layoutSnippets).Draw(t, "layout")
		}
		return runExec(r, ExecCase{Src: src, Layout: layout, Partials: progs.PartialText(pr, g.Partials), G: rapid.SampledFrom(gs).Draw(t, "G"),
			Ctx: rapid.SampledFrom(ctxs).Draw(t, "ctx"), Cache: rapid.SampledFrom(caches).Draw(t, "cache"), Rounds: rapid.IntRange(1, 3).Draw(t, "rounds")})
	})
	r.Rapid("parse", r.Pick(200, 1200), func(t *rapid.T) *vk.Fail {
		k := rapid.IntRange(1, 4).Draw(t, "texts")
		var srcs []string
		for i := 0; i < k; i++ {
			g := progs.New(t, progs.Options{MaxDepth: 2, NoCompose: true})
			srcs = append(srcs, model.Printer{}.Nodes(g.Nodes(2, false)))
		}
		sort.Strings(srcs)
		return runParse(r, ParseCase{Srcs: srcs, G: rapid.SampledFrom(gs).Draw(t, "G")})
	})
	r.Rapid("context", r.Pick(500, 3000), func(t *rapid.T) *vk.Fail {
		g := rapid.IntRange(2, 16).Draw(t, "G")
		ops := make([][]int, g)
		for i := range ops {
			ops[i] = rapid.SliceOfN(rapid.IntRange(0, 8), 1, 40).Draw(t, "ops")
		}
		return runCtx(r, CtxCase{G: g, Ops: ops})
	})
}
