// C08 — for loops visit every element once, in order; break/continue mean what they say.
package c08

import (
	"encoding/json"
	"fmt"
	"reflect"
	"regexp"
	"strings"
	"testing"

	"verif/internal/match"
	"verif/internal/model"
	"verif/internal/vk"

	plush "github.com/gobuffalo/plush/v5"
	"pgregory.net/rapid"
)

func TestMain(m *testing.M) { vk.Main(m) }

// ---- iterables --------------------------------------------------------------------

type countIter struct{ i, n int }

func (c *countIter) Next() interface{} {
	if c.i >= c.n {
		return nil
	}
	c.i++
	return c.i * 10
}

type opaque struct{ A int }

// iterable kinds: how `xs` is bound on both sides. elem/key family: "int" or "string".
type iterKind struct {
	name      string
	elem, key string
	isMap     bool
	bad       bool // non-iterable: the loop must be an error
	empty     bool // nil-like: renders nothing
	hasNil    bool // some elements are nil
	build     func(n int) (modelVal, plushVal interface{})
	expr      func(n int) model.Expr // nil: the iterable is the variable xs
}

func ints(n int) []interface{} {
	out := make([]interface{}, n)
	for i := range out {
		out[i] = (i + 1) * 10
	}
	return out
}

func strs(n int) []interface{} {
	out := make([]interface{}, n)
	for i := range out {
		out[i] = fmt.Sprintf("s%d", i)
	}
	return out
}

func toInts(v []interface{}) []int {
	out := make([]int, len(v))
	for i := range v {
		out[i] = v[i].(int)
	}
	return out
}

func toStrs(v []interface{}) []string {
	out := make([]string, len(v))
	for i := range v {
		out[i] = v[i].(string)
	}
	return out
}

func arrayOf(sl interface{}) reflect.Value {
	sv := reflect.ValueOf(sl)
	p := reflect.New(reflect.ArrayOf(sv.Len(), sv.Type().Elem()))
	reflect.Copy(p.Elem(), sv)
	return p
}

var iterKinds = []iterKind{
	{name: "[]int", elem: "int", key: "int", build: func(n int) (interface{}, interface{}) { return ints(n), toInts(ints(n)) }},
	{name: "[]string", elem: "string", key: "int", build: func(n int) (interface{}, interface{}) { return strs(n), toStrs(strs(n)) }},
	{name: "[]interface{}", elem: "int", key: "int", build: func(n int) (interface{}, interface{}) { return ints(n), ints(n) }},
	{name: "[N]int", elem: "int", key: "int", build: func(n int) (interface{}, interface{}) { return ints(n), arrayOf(toInts(ints(n))).Elem().Interface() }},
	{name: "*[]int", elem: "int", key: "int", build: func(n int) (interface{}, interface{}) { s := toInts(ints(n)); return ints(n), &s }},
	{name: "*[N]string", elem: "string", key: "int", build: func(n int) (interface{}, interface{}) { return strs(n), arrayOf(toStrs(strs(n))).Interface() }},
	{name: "array literal", elem: "int", key: "int", expr: func(n int) model.Expr {
		var els []model.Expr
		for _, v := range ints(n) {
			els = append(els, model.Lit{V: v})
		}
		return model.Arr{Els: els}
	}},
	{name: "map[string]int", elem: "int", key: "string", isMap: true, build: func(n int) (interface{}, interface{}) {
		om := &model.OrderedMap{Vals: map[interface{}]interface{}{}}
		m := map[string]int{}
		for i := 0; i < n; i++ {
			k := fmt.Sprintf("k%d", i)
			om.Keys = append(om.Keys, k)
			om.Vals[k] = (i + 1) * 10
			m[k] = (i + 1) * 10
		}
		return om, m
	}},
	{name: "map[int]string", elem: "string", key: "int", isMap: true, build: func(n int) (interface{}, interface{}) {
		om := &model.OrderedMap{Vals: map[interface{}]interface{}{}}
		m := map[int]string{}
		for i := 0; i < n; i++ {
			om.Keys = append(om.Keys, i+100)
			om.Vals[i+100] = fmt.Sprintf("s%d", i)
			m[i+100] = fmt.Sprintf("s%d", i)
		}
		return om, m
	}},
	{name: "map[string]interface{}", elem: "int", key: "string", isMap: true, build: func(n int) (interface{}, interface{}) {
		om := &model.OrderedMap{Vals: map[interface{}]interface{}{}}
		m := map[string]interface{}{}
		for i := 0; i < n; i++ {
			k := fmt.Sprintf("k%d", i)
			om.Keys = append(om.Keys, k)
			om.Vals[k] = (i + 1) * 10
			m[k] = (i + 1) * 10
		}
		return om, m
	}},
	// collections holding nil: the loop variable is bound to nil for that element (and hides an outer variable of its name)
	{name: "[]interface{} with nil elements", elem: "int", key: "int", hasNil: true, build: func(n int) (interface{}, interface{}) {
		a, b := ints(n), ints(n)
		for i := range a {
			if i%2 == 1 {
				a[i], b[i] = nil, nil
			}
		}
		return a, b
	}},
	{name: "map[string]interface{} with nil values", elem: "int", key: "string", isMap: true, hasNil: true, build: func(n int) (interface{}, interface{}) {
		om := &model.OrderedMap{Vals: map[interface{}]interface{}{}}
		m := map[string]interface{}{}
		for i := 0; i < n; i++ {
			k := fmt.Sprintf("k%d", i)
			om.Keys = append(om.Keys, k)
			var v interface{}
			if i%2 == 0 {
				v = (i + 1) * 10
			}
			om.Vals[k], m[k] = v, v
		}
		return om, m
	}},
	{name: "array literal with nil", elem: "int", key: "int", hasNil: true, expr: func(n int) model.Expr {
		var els []model.Expr
		for i, v := range ints(n) {
			if i%2 == 0 {
				v = nil
			}
			els = append(els, model.Lit{V: v})
		}
		return model.Arr{Els: els}
	}},
	{name: "custom Iterator", elem: "int", key: "int", build: func(n int) (interface{}, interface{}) { return &countIter{n: n}, &countIter{n: n} }},
	{name: "range(1,n)", elem: "int", key: "int", expr: func(n int) model.Expr {
		return model.Call{Fn: "range", Args: []model.Expr{model.Lit{V: 1}, model.Lit{V: n}}}
	}},
	{name: "between(0,n+1)", elem: "int", key: "int", expr: func(n int) model.Expr {
		return model.Call{Fn: "between", Args: []model.Expr{model.Lit{V: 0}, model.Lit{V: n + 1}}}
	}},
	{name: "until(n)", elem: "int", key: "int", expr: func(n int) model.Expr { return model.Call{Fn: "until", Args: []model.Expr{model.Lit{V: n}}} }},
	{name: "nil literal", elem: "int", key: "int", empty: true, expr: func(n int) model.Expr { return model.Lit{V: nil} }},
	{name: "helper returning nil", elem: "int", key: "int", empty: true, expr: func(n int) model.Expr { return model.Call{Fn: "hn"} }},
	{name: "int (non-iterable)", elem: "int", key: "int", bad: true, build: func(n int) (interface{}, interface{}) { return 5, 5 }},
	{name: "string (non-iterable)", elem: "int", key: "int", bad: true, build: func(n int) (interface{}, interface{}) { return "abc", "abc" }},
	{name: "bool (non-iterable)", elem: "int", key: "int", bad: true, build: func(n int) (interface{}, interface{}) { return true, true }},
	{name: "struct (non-iterable)", elem: "int", key: "int", bad: true, build: func(n int) (interface{}, interface{}) { return opaque{1}, opaque{1} }},
	{name: "float (non-iterable)", elem: "int", key: "int", bad: true, build: func(n int) (interface{}, interface{}) { return 1.5, 1.5 }},
}

// model-side counterparts of the built-in iterator helpers
type mrange struct{ cur, end int }

func (m *mrange) Next() interface{} {
	if m.cur > m.end {
		return nil
	}
	m.cur++
	return m.cur - 1
}

var modelOnly = map[string]model.Helper{
	"range":   func(a []interface{}) (interface{}, error) { return &mrange{a[0].(int), a[1].(int)}, nil },
	"between": func(a []interface{}) (interface{}, error) { return &mrange{a[0].(int) + 1, a[1].(int) - 1}, nil },
	"until":   func(a []interface{}) (interface{}, error) { return &mrange{0, a[0].(int) - 1}, nil },
}

var shared = map[string]model.Helper{
	"hn": func(a []interface{}) (interface{}, error) { return nil, nil },
}

// ---- cases ------------------------------------------------------------------------

type Case struct {
	Kind int             `json:"iterable"` // index into iterKinds
	N    int             `json:"n"`
	Src  string          `json:"src"` // informational
	Prog json.RawMessage `json:"prog"`
}

var marker = regexp.MustCompile(`\{\{([a-z0-9]+)\}\}`)

func run(r *vk.Run, kind, n int, prog []model.Node) *vk.Fail {
	ik := iterKinds[kind]
	src := model.Printer{}.Nodes(prog)
	c := Case{Kind: kind, N: n, Src: src, Prog: model.Encode(prog)}
	defer r.Watch("loop", c)()
	fail := func(f string, a ...interface{}) *vk.Fail {
		return &vk.Fail{Kind: "loop", Case: c, Msg: fmt.Sprintf("iterable %s (n=%d): %s: ", ik.name, n, src) + fmt.Sprintf(f, a...)}
	}
	// v, k and w are ALSO top-level variables: a loop variable hides them, also while it is bound to nil
	mdata := map[string]interface{}{"ys": []interface{}{1, 2}, "v": "outer-v", "k": "outer-k", "w": "outer-w"}
	pdata := map[string]interface{}{"ys": []interface{}{1, 2}, "v": "outer-v", "k": "outer-k", "w": "outer-w"}
	if ik.build != nil {
		mv, _ := ik.build(n)
		_, pv := ik.build(n)
		mdata["xs"] = mv
		pdata["xs"] = pv
	}
	ctx := model.Context(pdata, shared)
	res := vk.Safe(func() (string, error) { return plush.Render(src, ctx) })
	if res.Panicked() {
		return fail("%s", res)
	}
	if ik.isMap && ik.hasNil && res.Err != nil {
		// the visiting order cannot be read off a failed render, and with nil values the outcome depends on it
		// (an entry whose value is nil may fail the body; a break at an earlier entry hides it)
		r.Exclude("map with nil values: render failed, visiting order unknown")
		return nil
	}
	if ik.isMap && res.Err == nil {
		// read the visiting order off the output and run the model in that order
		om := mdata["xs"].(*model.OrderedMap)
		seen := map[string]bool{}
		var order []interface{}
		for _, m := range marker.FindAllStringSubmatch(res.Out, -1) {
			var key interface{}
			for _, k := range om.Keys {
				if fmt.Sprint(k) == m[1] {
					key = k
				}
			}
			if key == nil {
				return fail("output %q shows a key %q that is not in the map", res.Out, m[1])
			}
			if seen[m[1]] {
				return fail("output %q visits key %q twice", res.Out, m[1])
			}
			seen[m[1]] = true
			order = append(order, key)
		}
		for _, k := range om.Keys {
			if !seen[fmt.Sprint(k)] {
				order = append(order, k)
			}
		}
		om.Keys = order
	}
	helpers := map[string]model.Helper{}
	for k, v := range shared {
		helpers[k] = v
	}
	for k, v := range modelOnly {
		helpers[k] = v
	}
	want := model.Run(prog, mdata, helpers)
	if want.Unspec != "" {
		r.Exclude("unspecified")
		return nil
	}
	nt := ""
	if strings.Contains(src, "break") || strings.Contains(src, "continue") || strings.Count(src, "for (") > 1 || ik.isMap || ik.bad || ik.empty || strings.Contains(ik.name, "*") || strings.Contains(ik.name, "Iterator") {
		nt = fmt.Sprintf("%d|%d|%s", kind, n, src)
	}
	r.Count(nt, ik.name)
	if nt != "" {
		r.Sample(func() interface{} {
			return map[string]interface{}{"iterable": ik.name, "n": n, "template": src, "expected": want.Out, "expected_error": want.Err}
		})
	}
	if want.Err != "" {
		if res.Err == nil {
			return fail("reference says this is an error (%s), render gave %q", want.Err, res.Out)
		}
		if res.Out != "" {
			return fail("error with non-empty output %q", res.Out)
		}
		return nil
	}
	if res.Err != nil {
		return fail("render failed (%v), reference output %q", res.Err, want.Out)
	}
	if !match.SameText(res.Out, want.Out) {
		return fail("output %q, reference says %q", res.Out, want.Out)
	}
	return nil
}

// ---- body generator ---------------------------------------------------------------

type bodyGen struct {
	t     *rapid.T
	label int
	vars  int
}

func (g *bodyGen) text() model.Node {
	g.label++
	return model.Text{S: fmt.Sprintf("[%d]", g.label)}
}

func (g *bodyGen) cond(k, v string, ik iterKind, n int) model.Expr {
	t := g.t
	idx := rapid.IntRange(0, 4).Draw(t, "ci")
	var ev, kv model.Expr
	if ik.elem == "int" {
		ev = model.Lit{V: (idx + 1) * 10}
	} else {
		ev = model.Lit{V: fmt.Sprintf("s%d", idx)}
	}
	switch {
	case ik.isMap && ik.key == "string":
		kv = model.Lit{V: fmt.Sprintf("k%d", idx)}
	case ik.isMap:
		kv = model.Lit{V: idx + 100}
	default:
		kv = model.Lit{V: idx}
	}
	switch c := rapid.IntRange(0, 7).Draw(t, "cond"); {
	case c == 0:
		return model.Lit{V: true}
	case c == 1:
		return model.Lit{V: false}
	case c == 2 && k != "":
		return model.Bin{Op: "==", L: model.Var{Name: k}, R: kv}
	case c == 3 && k != "" && ik.key == "int":
		return model.Bin{Op: rapid.SampledFrom([]string{">", "<", ">=", "<="}).Draw(t, "cmp"), L: model.Var{Name: k}, R: kv}
	case c == 4:
		return model.Bin{Op: "!=", L: model.Var{Name: v}, R: ev}
	case c == 5 && ik.elem == "int":
		return model.Bin{Op: rapid.SampledFrom([]string{">", "<", ">=", "<="}).Draw(t, "cmp"), L: model.Var{Name: v}, R: ev}
	}
	return model.Bin{Op: "==", L: model.Var{Name: v}, R: ev}
}

func (g *bodyGen) ctl() model.Node {
	if rapid.Bool().Draw(g.t, "brk") {
		return model.Code{S: model.BreakS{}}
	}
	return model.Code{S: model.ContinueS{}}
}

// body generates the statements of a loop body. k may be "".
func (g *bodyGen) body(k, v string, ik iterKind, n, depth int) []model.Node {
	t := g.t
	var out []model.Node
	cnt := rapid.IntRange(0, 5).Draw(t, "stmts")
	for i := 0; i < cnt; i++ {
		switch rapid.IntRange(0, 11).Draw(t, "stmt") {
		case 0, 1:
			out = append(out, g.text())
		case 2:
			out = append(out, model.Emit{X: model.Var{Name: v}})
		case 3:
			if k != "" {
				out = append(out, model.Emit{X: model.Var{Name: k}})
			} else {
				out = append(out, g.text())
			}
		case 4, 5: // silent if carrying only a control statement
			out = append(out, model.Code{S: model.IfS{If: &model.If{Cond: g.cond(k, v, ik, n), Then: []model.Node{g.ctl()}}}})
		case 6, 7: // emitting if: text, then maybe a control statement, maybe an else branch
			f := &model.If{Cond: g.cond(k, v, ik, n)}
			f.Then = append(f.Then, g.text())
			if rapid.Bool().Draw(t, "emitv") {
				f.Then = append(f.Then, model.Emit{X: model.Var{Name: v}})
			}
			if rapid.IntRange(0, 2).Draw(t, "ctl") > 0 {
				f.Then = append(f.Then, g.ctl())
			}
			if rapid.Bool().Draw(t, "else") {
				f.HasElse = true
				f.Else = append(f.Else, g.text())
				if rapid.IntRange(0, 3).Draw(t, "ectl") == 0 {
					f.Else = append(f.Else, g.ctl())
				}
			}
			out = append(out, model.EmitIf{If: f})
		case 8: // unconditional control statement at statement level
			out = append(out, g.ctl())
		case 9: // nested loop
			if depth > 0 {
				g.vars++
				iv := fmt.Sprintf("w%d", g.vars)
				ik2 := ""
				switch rapid.IntRange(0, 5).Draw(t, "shadow") {
				case 0: // the inner loop REUSES the outer loop's value name: afterwards the outer value must be back
					iv = v
				case 1:
					if k != "" {
						ik2 = k // ... or its key name
					}
				}
				inner := iterKinds[6] // array literal of ints
				var iter model.Expr = inner.expr(rapid.IntRange(0, 3).Draw(t, "inner_n"))
				if rapid.Bool().Draw(t, "ys") {
					iter = model.Var{Name: "ys"}
				}
				ib := g.body(ik2, iv, iterKind{elem: "int", key: "int"}, 3, depth-1)
				out = append(out, model.EmitFor{For: &model.For{Key: ik2, Val: iv, Iter: iter, Body: ib}})
				if iv == v || ik2 != "" { // read the outer variables again after the inner loop
					out = append(out, model.Emit{X: model.Var{Name: v}})
					if k != "" {
						out = append(out, model.Emit{X: model.Var{Name: k}})
					}
				}
			} else {
				out = append(out, g.text())
			}
		case 10: // a function literal defined (and used) inside the body
			g.vars++
			fn := fmt.Sprintf("f%d", g.vars)
			out = append(out, model.Code{S: model.LetS{Name: fn, X: model.FnLit{Body: []model.Node{g.text()}}}})
			out = append(out, model.Emit{X: model.Call{Fn: fn}})
		case 11: // a silent nested loop (contributes nothing)
			if depth > 0 {
				g.vars++
				iv := fmt.Sprintf("w%d", g.vars)
				out = append(out, model.Code{S: model.ForS{For: &model.For{Val: iv, Iter: model.Var{Name: "ys"}, Body: []model.Node{model.Code{S: model.IfS{If: &model.If{Cond: model.Lit{V: true}, Then: []model.Node{g.ctl()}}}}}}}})
			}
		}
	}
	return out
}

func (g *bodyGen) program(kind, n int) []model.Node {
	ik := iterKinds[kind]
	k, v := "", "v"
	if ik.isMap || rapid.Bool().Draw(g.t, "twovars") {
		k = "k"
	}
	body := g.body(k, v, ik, n, 2)
	if ik.isMap {
		body = append([]model.Node{model.Text{S: "{{"}, model.Emit{X: model.Var{Name: "k"}}, model.Text{S: "}}"}}, body...)
	}
	var iter model.Expr = model.Var{Name: "xs"}
	if ik.expr != nil {
		iter = ik.expr(n)
	}
	prog := []model.Node{g.text(), model.EmitFor{For: &model.For{Key: k, Val: v, Iter: iter, Body: body}}, g.text()}
	return prog
}

// ---- fixed bodies for the exhaustive sweep ---------------------------------------------

func fixedBodies(ik iterKind) [][]model.Node {
	T := func(s string) model.Node { return model.Text{S: s} }
	v := model.Emit{X: model.Var{Name: "v"}}
	k := model.Emit{X: model.Var{Name: "k"}}
	var second model.Expr = model.Lit{V: 20}
	if ik.elem == "string" {
		second = model.Lit{V: "s1"}
	}
	is2 := model.Bin{Op: "==", L: model.Var{Name: "v"}, R: second}
	brk, cnt := model.Code{S: model.BreakS{}}, model.Code{S: model.ContinueS{}}
	sif := func(c model.Expr, n model.Node) model.Node {
		return model.Code{S: model.IfS{If: &model.If{Cond: c, Then: []model.Node{n}}}}
	}
	eif := func(c model.Expr, ns ...model.Node) model.Node { return model.EmitIf{If: &model.If{Cond: c, Then: ns}} }
	inner := func(ns ...model.Node) model.Node {
		return model.EmitFor{For: &model.For{Val: "w", Iter: model.Var{Name: "ys"}, Body: ns}}
	}
	fnlit := model.Code{S: model.LetS{Name: "f", X: model.FnLit{Body: []model.Node{T("F")}}}}
	if ik.hasNil {
		isNil := model.Bin{Op: "==", L: model.Var{Name: "v"}, R: model.Lit{V: nil}}
		show := model.EmitIf{If: &model.If{Cond: isNil, Then: []model.Node{T("nil")}, HasElse: true, Else: []model.Node{v}}}
		return [][]model.Node{
			{T("["), show, T("]")},
			{k, T("="), show, T(",")},
			{sif(isNil, cnt), v, T(",")},
			{sif(isNil, brk), v, T(",")},
			{T("a"), eif(model.Not{X: model.Var{Name: "v"}}, T("falsy")), T("b")},
			{T("a"), eif(model.Var{Name: "v"}, v), T("b")},
			{v, T(",")}, // emitting the nil-bound variable: the same outcome as any unset name, never the outer variable
			// an inner loop over the same collection under the same names; the outer element is tested again afterwards
			{model.EmitFor{For: &model.For{Val: "v", Iter: model.Var{Name: "ys"}, Body: []model.Node{T("i")}}}, show, T(",")},
			{inner(show), T("|"), show, T(",")},
		}
	}
	return [][]model.Node{
		{},
		{T("a")},
		{k, T(":"), v, T(",")},
		{T("a"), sif(is2, brk), T("b")},
		{T("a"), sif(is2, cnt), T("b")},
		{sif(is2, brk), T("b")},
		{T("a"), v, sif(is2, cnt)},
		{T("a"), eif(is2, T("x"), brk), T("b")},
		{T("a"), eif(is2, T("x"), cnt), T("b")},
		{T("a"), eif(is2, T("x"), v, brk, T("dead")), T("b")},
		{T("a"), brk, T("dead")},
		{T("a"), cnt, T("dead")},
		{inner(T("i")), sif(is2, brk), T("b")},                                      // control statement AFTER a nested loop
		{sif(is2, cnt), inner(T("i"), model.Emit{X: model.Var{Name: "w"}}), T("b")}, // nested loop after a control statement
		{inner(T("i"), sif(model.Lit{V: true}, brk), T("dead")), T("b")},            // break in the inner loop only
		{inner(T("i"), sif(model.Lit{V: true}, cnt), T("dead")), sif(is2, brk), T("b")},
		{fnlit, sif(is2, brk), model.Emit{X: model.Call{Fn: "f"}}},       // control statement after a function literal
		{eif(model.Lit{V: true}, eif(is2, T("x"), brk), T("y")), T("b")}, // break two ifs deep
		{eif(model.Lit{V: true}, sif(is2, cnt), T("y")), T("b")},
		{T("a"), model.EmitIf{If: &model.If{Cond: is2, Then: []model.Node{T("x")}, HasElse: true, Else: []model.Node{T("e"), cnt}}}, T("b")},
		{model.Code{S: model.LetS{Name: "t", X: model.Var{Name: "v"}}}, model.Emit{X: model.Var{Name: "t"}}, sif(is2, brk)},
		// an inner loop that reuses the outer loop's variable names; the outer values are read again afterwards
		{v, model.EmitFor{For: &model.For{Val: "v", Iter: model.Var{Name: "ys"}, Body: []model.Node{T("i"), v}}}, T("|"), v, sif(is2, brk), T(",")},
		{k, model.EmitFor{For: &model.For{Key: "k", Val: "v", Iter: model.Var{Name: "ys"}, Body: []model.Node{k}}}, T("|"), k, T(":"), v, sif(is2, cnt), T(",")},
		{eif(model.Lit{V: true}, model.EmitFor{For: &model.For{Val: "v", Iter: model.Var{Name: "ys"}, Body: []model.Node{T("i")}}}), v, T(",")},
	}
}

const rule = "iterables: []int, []string, []interface{}, [N]int, *[]int, *[N]string, array literal, map[string]int, map[int]string, map[string]interface{}, custom Iterator, range/between/until, []interface{} / map[string]interface{} / array literals holding nil elements (the loop variable is then bound to nil and still hides the top-level variables v, k, w that every case defines), literal nil, helper returning nil, and five non-iterables, each with 0..5 elements (thorough 0..6). (E) every iterable x length x 24 fixed bodies (break/continue at the start, middle and end of the body, inside a silent if, inside an emitting if after text, two ifs deep, in an else branch, unconditional with dead code after, in an inner loop only, AFTER a nested loop, after a function literal; inner loops that REUSE the outer loop's variable names with the outer values read again afterwards) x one-/two-variable form. (R) random bodies from the same grammar nested to depth 2. Oracle: the reference interpreter (body once per element in index order, key = index / map key / running count, continue/break keep what the iteration produced, nil renders nothing, non-iterable is an error). For maps each iteration starts with a key marker; the visiting order is read off the output, checked duplicate-free over the key set, and the model is run in that order. Non-trivial = the body has a control statement or a nested loop, or the iterable is a map / pointer / iterator / nil / non-iterable; distinct by (iterable, length, template)."

func setup(t *testing.T) *vk.Run {
	r := vk.Start(t, "C08", rule,
		"a silent <% if %> inside a loop body carries control statements only (text inside a silent if that then breaks is claimed by neither C02 nor C08)",
		"return inside loops and typed-nil iterables are not used (the statement does not cover them)")
	r.Replayer("loop", func(raw json.RawMessage) *vk.Fail {
		var c Case
		if f := vk.Decode(raw, &c); f != nil {
			return f
		}
		prog, err := model.Decode(c.Prog)
		if err != nil || c.Kind < 0 || c.Kind >= len(iterKinds) || c.N < 0 || c.N > 50 {
			return &vk.Fail{Kind: "decode", Msg: fmt.Sprint("bad case: ", err)}
		}
		return run(r, c.Kind, c.N, prog)
	})
	return r
}

func TestReplay(t *testing.T) { setup(t).ReplayEnv() }

func TestProp(t *testing.T) {
	r := setup(t)
	defer r.Finish()
	r.ReplayCommitted()

	maxN := r.Pick(5, 6)
	var cells int64
	for ki, ik := range iterKinds {
		for n := 0; n <= maxN; n++ {
			if (ik.bad || ik.empty) && n > 0 {
				continue
			}
			for bi, body := range fixedBodies(ik) {
				for _, two := range []bool{false, true} {
					uses := strings.Contains(model.Printer{}.Nodes(body), "<%= k %>")
					if !two && (uses || ik.isMap) {
						continue
					}
					b := body
					key := ""
					if two {
						key = "k"
					}
					if ik.isMap {
						b = append([]model.Node{model.Text{S: "{{"}, model.Emit{X: model.Var{Name: "k"}}, model.Text{S: "}}"}}, body...)
					}
					var iter model.Expr = model.Var{Name: "xs"}
					if ik.expr != nil {
						iter = ik.expr(n)
					}
					prog := []model.Node{model.Text{S: "<"}, model.EmitFor{For: &model.For{Key: key, Val: "v", Iter: iter, Body: b}}, model.Text{S: ">"}}
					if r.Mine(cells) {
						r.Check(run(r, ki, n, prog))
					}
					cells++
					_ = bi
				}
			}
		}
	}
	r.Subspace(fmt.Sprintf("%d iterable kinds x lengths 0..%d x 24 fixed bodies (9 nil-tolerant ones for collections holding nil) x one/two loop variables", len(iterKinds), maxN), cells, true)

	r.Rapid("bodies", r.Pick(6000, 80000), func(t *rapid.T) *vk.Fail {
		kind := rapid.IntRange(0, len(iterKinds)-1).Draw(t, "iterable")
		n := rapid.IntRange(0, 6).Draw(t, "n")
		g := &bodyGen{t: t}
		return run(r, kind, n, g.program(kind, n))
	})
}
