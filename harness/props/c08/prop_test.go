// C08 — for loops visit every element once, in order; break/continue mean what they say.
package c08

import (
	"encoding/json"
	"fmt"
	"html/template"
	"math"
	"reflect"
	"regexp"
	"strings"
	"testing"

	"verif/internal/match"
	"verif/internal/model"
	"verif/internal/vk"

	plush "github.com/gobuffalo/plush/v5"
	"github.com/gobuffalo/plush/v5/helpers/hctx"
	"pgregory.net/rapid"
)

func TestMain(m *testing.M) { vk.Main(m) }

// ---- iterables --------------------------------------------------------------------

type countIter struct{ i, n int }

func (c *countIter) Next() interface{} {
	if c.i >= c.n {
		return nil
	}
	c.i++
	return c.i * 10
}

// valIter has a VALUE receiver: it is an Iterator without being a pointer.
type valIter struct{ st *countIter }

func (v valIter) Next() interface{} { return v.st.Next() }

// funcIter is an Iterator whose kind is Func.
type funcIter func() interface{}

func (f funcIter) Next() interface{} { return f() }

// zeroIter yields zero values (0 at every even position): only nil ends an iterator.
type zeroIter struct{ i, n int }

func (z *zeroIter) Next() interface{} {
	if z.i >= z.n {
		return nil
	}
	z.i++
	if z.i%2 == 1 {
		return 0
	}
	return z.i * 10
}

type opaque struct{ A int }

// holder gives the iterable to the template as a field, through a method, and through a pointer.
type holder struct {
	Items interface{}
	Nil   interface{}
	Deep  map[string]interface{}
}

func (h holder) List() interface{}   { return h.Items }
func (h holder) Self() holder        { return h }
func (h *holder) PList() interface{} { return h.Items }

type (
	namedSlice []int
	namedMap   map[string]int
)

// wrapCtx is a context that is not a *plush.Context (Render and Exec take any hctx.Context).
type wrapCtx struct{ *plush.Context }

func (w wrapCtx) New() hctx.Context { return wrapCtx{w.Context.New().(*plush.Context)} }

// iterable kinds: how `xs` is bound on both sides. elem: "int", "string", "bool" (the bodies may read and compare the
// value), "opaque" (the bodies never read it), "slice" / "mixed" (the value is itself iterable: inner loops range over it).
// key: "int", "string", "bool" or "other" (emitted, never compared).
type iterKind struct {
	name      string
	elem, key string
	isMap     bool
	bad       bool // non-iterable: the loop must be an error
	empty     bool // nil-like: renders nothing
	hasNil    bool // some elements are nil
	build     func(n int) (modelVal, plushVal interface{})
	expr      func(n int) model.Expr // nil: the iterable is the variable xs
	keyBase   int                    // maps with int keys: key of the first entry
	byValue   bool                   // maps whose keys cannot be printed: the marker of an iteration is its VALUE
	maxN      int                    // >0: the kind has at most that many elements
	// spell: how the loop head names the iterable instead of `xs` (a field, a method call, an index expression, a Go
	// function); bind puts the plush value where that spelling finds it
	spell     string
	spellFrom string // what the printed head says instead ("" = xs)
	bind      func(pv interface{}, data map[string]interface{})
}

func (ik iterKind) readable() bool {
	return ik.elem == "int" || ik.elem == "string" || ik.elem == "bool"
}

func ints(n int) []interface{} {
	out := make([]interface{}, n)
	for i := range out {
		out[i] = (i + 1) * 10
	}
	return out
}

func strs(n int) []interface{} {
	out := make([]interface{}, n)
	for i := range out {
		out[i] = fmt.Sprintf("s%d", i)
	}
	return out
}

func toInts(v []interface{}) []int {
	out := make([]int, len(v))
	for i := range v {
		out[i] = v[i].(int)
	}
	return out
}

func toStrs(v []interface{}) []string {
	out := make([]string, len(v))
	for i := range v {
		out[i] = v[i].(string)
	}
	return out
}

func arrayOf(sl interface{}) reflect.Value {
	sv := reflect.ValueOf(sl)
	p := reflect.New(reflect.ArrayOf(sv.Len(), sv.Type().Elem()))
	reflect.Copy(p.Elem(), sv)
	return p
}

var iterKinds = []iterKind{
	{name: "[]int", elem: "int", key: "int", build: func(n int) (interface{}, interface{}) { return ints(n), toInts(ints(n)) }},
	{name: "[]string", elem: "string", key: "int", build: func(n int) (interface{}, interface{}) { return strs(n), toStrs(strs(n)) }},
	{name: "[]interface{}", elem: "int", key: "int", build: func(n int) (interface{}, interface{}) { return ints(n), ints(n) }},
	{name: "[N]int", elem: "int", key: "int", build: func(n int) (interface{}, interface{}) { return ints(n), arrayOf(toInts(ints(n))).Elem().Interface() }},
	{name: "*[]int", elem: "int", key: "int", build: func(n int) (interface{}, interface{}) { s := toInts(ints(n)); return ints(n), &s }},
	{name: "*[N]string", elem: "string", key: "int", build: func(n int) (interface{}, interface{}) { return strs(n), arrayOf(toStrs(strs(n))).Interface() }},
	{name: "array literal", elem: "int", key: "int", expr: func(n int) model.Expr {
		var els []model.Expr
		for _, v := range ints(n) {
			els = append(els, model.Lit{V: v})
		}
		return model.Arr{Els: els}
	}},
	{name: "map[string]int", elem: "int", key: "string", isMap: true, build: func(n int) (interface{}, interface{}) {
		om := &model.OrderedMap{Vals: map[interface{}]interface{}{}}
		m := map[string]int{}
		for i := 0; i < n; i++ {
			k := fmt.Sprintf("k%d", i)
			om.Keys = append(om.Keys, k)
			om.Vals[k] = (i + 1) * 10
			m[k] = (i + 1) * 10
		}
		return om, m
	}},
	{name: "map[int]string", elem: "string", key: "int", isMap: true, keyBase: 100, build: func(n int) (interface{}, interface{}) {
		om := &model.OrderedMap{Vals: map[interface{}]interface{}{}}
		m := map[int]string{}
		for i := 0; i < n; i++ {
			om.Keys = append(om.Keys, i+100)
			om.Vals[i+100] = fmt.Sprintf("s%d", i)
			m[i+100] = fmt.Sprintf("s%d", i)
		}
		return om, m
	}},
	{name: "map[string]interface{}", elem: "int", key: "string", isMap: true, build: func(n int) (interface{}, interface{}) {
		om := &model.OrderedMap{Vals: map[interface{}]interface{}{}}
		m := map[string]interface{}{}
		for i := 0; i < n; i++ {
			k := fmt.Sprintf("k%d", i)
			om.Keys = append(om.Keys, k)
			om.Vals[k] = (i + 1) * 10
			m[k] = (i + 1) * 10
		}
		return om, m
	}},
	// collections holding nil: the loop variable is bound to nil for that element (and hides an outer variable of its name)
	{name: "[]interface{} with nil elements", elem: "int", key: "int", hasNil: true, build: func(n int) (interface{}, interface{}) {
		a, b := ints(n), ints(n)
		for i := range a {
			if i%2 == 1 {
				a[i], b[i] = nil, nil
			}
		}
		return a, b
	}},
	{name: "map[string]interface{} with nil values", elem: "int", key: "string", isMap: true, hasNil: true, build: func(n int) (interface{}, interface{}) {
		om := &model.OrderedMap{Vals: map[interface{}]interface{}{}}
		m := map[string]interface{}{}
		for i := 0; i < n; i++ {
			k := fmt.Sprintf("k%d", i)
			om.Keys = append(om.Keys, k)
			var v interface{}
			if i%2 == 0 {
				v = (i + 1) * 10
			}
			om.Vals[k], m[k] = v, v
		}
		return om, m
	}},
	{name: "array literal with nil", elem: "int", key: "int", hasNil: true, expr: func(n int) model.Expr {
		var els []model.Expr
		for i, v := range ints(n) {
			if i%2 == 0 {
				v = nil
			}
			els = append(els, model.Lit{V: v})
		}
		return model.Arr{Els: els}
	}},
	{name: "custom Iterator", elem: "int", key: "int", build: func(n int) (interface{}, interface{}) { return &countIter{n: n}, &countIter{n: n} }},
	{name: "range(1,n)", elem: "int", key: "int", expr: func(n int) model.Expr {
		return model.Call{Fn: "range", Args: []model.Expr{model.Lit{V: 1}, model.Lit{V: n}}}
	}},
	{name: "between(0,n+1)", elem: "int", key: "int", expr: func(n int) model.Expr {
		return model.Call{Fn: "between", Args: []model.Expr{model.Lit{V: 0}, model.Lit{V: n + 1}}}
	}},
	{name: "until(n)", elem: "int", key: "int", expr: func(n int) model.Expr { return model.Call{Fn: "until", Args: []model.Expr{model.Lit{V: n}}} }},
	{name: "nil literal", elem: "int", key: "int", empty: true, expr: func(n int) model.Expr { return model.Lit{V: nil} }},
	{name: "helper returning nil", elem: "int", key: "int", empty: true, expr: func(n int) model.Expr { return model.Call{Fn: "hn"} }},
	{name: "int (non-iterable)", elem: "int", key: "int", bad: true, build: func(n int) (interface{}, interface{}) { return 5, 5 }},
	{name: "string (non-iterable)", elem: "int", key: "int", bad: true, build: func(n int) (interface{}, interface{}) { return "abc", "abc" }},
	{name: "bool (non-iterable)", elem: "int", key: "int", bad: true, build: func(n int) (interface{}, interface{}) { return true, true }},
	{name: "struct (non-iterable)", elem: "int", key: "int", bad: true, build: func(n int) (interface{}, interface{}) { return opaque{1}, opaque{1} }},
	{name: "float (non-iterable)", elem: "int", key: "int", bad: true, build: func(n int) (interface{}, interface{}) { return 1.5, 1.5 }},

	// ---- appended by the widening round (indexes above stay stable for stored replays) ----
	// zero values are elements like any other
	{name: "[]int holding zeros", elem: "int", key: "int", build: func(n int) (interface{}, interface{}) { return zints(n), toInts(zints(n)) }},
	{name: "[]string holding empty strings", elem: "string", key: "int", build: func(n int) (interface{}, interface{}) { return zstrs(n), toStrs(zstrs(n)) }},
	{name: "[]bool", elem: "bool", key: "int", build: func(n int) (interface{}, interface{}) {
		m, p := make([]interface{}, n), make([]bool, n)
		for i := range m {
			m[i], p[i] = i%2 == 1, i%2 == 1
		}
		return m, p
	}},
	{name: "map[int]int from key 0 holding zeros", elem: "int", key: "int", isMap: true, build: func(n int) (interface{}, interface{}) {
		om := &model.OrderedMap{Vals: map[interface{}]interface{}{}}
		m := map[int]int{}
		for i, v := range zints(n) {
			om.Keys = append(om.Keys, i)
			om.Vals[i], m[i] = v, v.(int)
		}
		return om, m
	}},
	{name: "map[bool]string", elem: "string", key: "bool", isMap: true, maxN: 2, build: func(n int) (interface{}, interface{}) {
		om := &model.OrderedMap{Vals: map[interface{}]interface{}{}}
		m := map[bool]string{}
		for i := 0; i < n && i < 2; i++ {
			om.Keys = append(om.Keys, i == 1)
			om.Vals[i == 1], m[i == 1] = fmt.Sprintf("s%d", i), fmt.Sprintf("s%d", i)
		}
		return om, m
	}},
	{name: "map[uint8]string", elem: "string", key: "other", isMap: true, build: func(n int) (interface{}, interface{}) {
		om := &model.OrderedMap{Vals: map[interface{}]interface{}{}}
		m := map[uint8]string{}
		for i := 0; i < n; i++ {
			om.Keys = append(om.Keys, i+200)
			om.Vals[i+200], m[uint8(i+200)] = fmt.Sprintf("s%d", i), fmt.Sprintf("s%d", i)
		}
		return om, m
	}},
	// named types and pointers
	{name: "named []int", elem: "int", key: "int", build: func(n int) (interface{}, interface{}) { return ints(n), namedSlice(toInts(ints(n))) }},
	{name: "named map[string]int", elem: "int", key: "string", isMap: true, build: func(n int) (interface{}, interface{}) {
		om, m := strIntMap(n)
		return om, namedMap(m)
	}},
	{name: "*map[string]int", elem: "int", key: "string", isMap: true, build: func(n int) (interface{}, interface{}) {
		om, m := strIntMap(n)
		return om, &m
	}},
	{name: "*[]interface{}", elem: "int", key: "int", build: func(n int) (interface{}, interface{}) { s := ints(n); return ints(n), &s }},
	// elements the bodies never read: typed nil pointers, structs, errors, bytes
	{name: "[]*struct with nil pointers", elem: "opaque", key: "int", build: func(n int) (interface{}, interface{}) {
		p := make([]*opaque, n)
		for i := range p {
			if i%2 == 0 {
				p[i] = &opaque{i}
			}
		}
		return strs(n), p
	}},
	{name: "[]struct", elem: "opaque", key: "int", build: func(n int) (interface{}, interface{}) { return strs(n), make([]opaque, n) }},
	{name: "[]error", elem: "opaque", key: "int", build: func(n int) (interface{}, interface{}) {
		p := make([]error, n)
		for i := range p {
			if i%2 == 1 {
				p[i] = fmt.Errorf("e%d", i)
			}
		}
		return strs(n), p
	}},
	{name: "[]byte", elem: "opaque", key: "int", build: func(n int) (interface{}, interface{}) { return strs(n), make([]byte, n) }},
	// elements that are themselves iterable: inner loops range over the outer loop's variable
	{name: "[][]int of lengths 0..3", elem: "slice", key: "int", build: func(n int) (interface{}, interface{}) {
		m, p := make([]interface{}, n), make([][]int, n)
		for i := range m {
			m[i], p[i] = ints(i%4), toInts(ints(i%4))
		}
		return m, p
	}},
	{name: "[]interface{} of slice, map, Iterator, array, empty slice", elem: "mixed", key: "int", build: func(n int) (interface{}, interface{}) {
		m, p := make([]interface{}, n), make([]interface{}, n)
		for i := range m {
			switch i % 5 {
			case 0:
				m[i], p[i] = ints(2), toInts(ints(2))
			case 1:
				m[i], p[i] = &model.OrderedMap{Keys: []interface{}{"k0"}, Vals: map[interface{}]interface{}{"k0": 10}}, map[string]int{"k0": 10}
			case 2:
				m[i], p[i] = &countIter{n: 3}, &countIter{n: 3}
			case 3:
				m[i], p[i] = ints(2), [2]int{10, 20}
			case 4:
				m[i], p[i] = ints(0), []string{}
			}
		}
		return m, p
	}},
	// the loop head names the iterable by something else than a plain variable
	{name: "struct field h.Items", elem: "int", key: "int", spell: "h.Items", build: func(n int) (interface{}, interface{}) { return ints(n), toInts(ints(n)) },
		bind: func(pv interface{}, d map[string]interface{}) { d["h"] = holder{Items: pv} }},
	{name: "field through a pointer hp.Items", elem: "string", key: "int", spell: "hp.Items", build: func(n int) (interface{}, interface{}) { return strs(n), toStrs(strs(n)) },
		bind: func(pv interface{}, d map[string]interface{}) { d["hp"] = &holder{Items: pv} }},
	{name: "method call h.List()", elem: "int", key: "int", spell: "h.List()", build: func(n int) (interface{}, interface{}) { return ints(n), toInts(ints(n)) },
		bind: func(pv interface{}, d map[string]interface{}) { d["h"] = holder{Items: pv} }},
	{name: "pointer method call hp.PList() on a map", elem: "int", key: "string", isMap: true, spell: "hp.PList()", build: func(n int) (interface{}, interface{}) {
		om, m := strIntMap(n)
		return om, m
	}, bind: func(pv interface{}, d map[string]interface{}) { d["hp"] = &holder{Items: pv} }},
	{name: "map index ms[\"a\"]", elem: "int", key: "int", spell: `ms["a"]`, build: func(n int) (interface{}, interface{}) { return ints(n), toInts(ints(n)) },
		bind: func(pv interface{}, d map[string]interface{}) {
			d["ms"] = map[string]interface{}{"a": pv, "b": []int{1}}
		}},
	{name: "slice index nn[1]", elem: "string", key: "int", spell: "nn[1]", build: func(n int) (interface{}, interface{}) { return strs(n), toStrs(strs(n)) },
		bind: func(pv interface{}, d map[string]interface{}) { d["nn"] = []interface{}{[]int{1}, pv} }},
	{name: "field of an indexed field h.Deep[\"a\"]", elem: "int", key: "int", spell: `h.Deep["a"]`, build: func(n int) (interface{}, interface{}) { return ints(n), toInts(ints(n)) },
		bind: func(pv interface{}, d map[string]interface{}) { d["h"] = holder{Deep: map[string]interface{}{"a": pv}} }},
	{name: "Go function mk()", elem: "int", key: "int", spell: "mk()", build: func(n int) (interface{}, interface{}) { return ints(n), toInts(ints(n)) },
		bind: func(pv interface{}, d map[string]interface{}) { d["mk"] = func() interface{} { return pv } }},
	{name: "Go function with arguments mk2(1, \"a\") returning an Iterator", elem: "int", key: "int", spell: `mk2(1, "a")`, build: func(n int) (interface{}, interface{}) { return &countIter{n: n}, &countIter{n: n} },
		bind: func(pv interface{}, d map[string]interface{}) { d["mk2"] = func(int, string) interface{} { return pv } }},
	{name: "parenthesised (xs)", elem: "int", key: "int", spell: "(xs)", build: func(n int) (interface{}, interface{}) { return ints(n), toInts(ints(n)) },
		bind: func(pv interface{}, d map[string]interface{}) { d["xs"] = pv }},
	{name: "hash literal", elem: "int", key: "string", isMap: true, expr: func(n int) model.Expr {
		var kvs []model.KV
		for i, v := range ints(n) {
			kvs = append(kvs, model.KV{K: fmt.Sprintf("k%d", i), V: model.Lit{V: v}})
		}
		return model.Hash{KVs: kvs}
	}},
	// more iterators
	{name: "Iterator with a value receiver", elem: "int", key: "int", build: func(n int) (interface{}, interface{}) {
		return valIter{&countIter{n: n}}, valIter{&countIter{n: n}}
	}},
	{name: "pointer to a value-receiver Iterator", elem: "int", key: "int", build: func(n int) (interface{}, interface{}) {
		return &valIter{&countIter{n: n}}, &valIter{&countIter{n: n}}
	}},
	{name: "Iterator of kind func", elem: "int", key: "int", build: func(n int) (interface{}, interface{}) {
		a, b := &countIter{n: n}, &countIter{n: n}
		return funcIter(a.Next), funcIter(b.Next)
	}},
	{name: "Iterator yielding zeros", elem: "int", key: "int", build: func(n int) (interface{}, interface{}) { return &zeroIter{n: n}, &zeroIter{n: n} }},
	// maps whose keys are not printable: the bodies never read the key, iterations are told apart by their values
	{name: "map[[2]int]string", elem: "string", key: "opaque", isMap: true, byValue: true, build: func(n int) (interface{}, interface{}) {
		m := map[[2]int]string{}
		return opaqueKeyMap(n, func(i int, v string) { m[[2]int{i, i + 1}] = v }), m
	}},
	{name: "map[struct]string", elem: "string", key: "opaque", isMap: true, byValue: true, build: func(n int) (interface{}, interface{}) {
		m := map[opaque]string{}
		return opaqueKeyMap(n, func(i int, v string) { m[opaque{i}] = v }), m
	}},
	{name: "map[*int]string", elem: "string", key: "opaque", isMap: true, byValue: true, build: func(n int) (interface{}, interface{}) {
		m := map[*int]string{}
		return opaqueKeyMap(n, func(i int, v string) { m[new(int)] = v }), m
	}},
	{name: "map[interface{}]string with keys 1, \"1\", 1.0, true, int64(1), [1]int{1}", elem: "string", key: "opaque", isMap: true, byValue: true, maxN: 6, build: func(n int) (interface{}, interface{}) {
		keys := []interface{}{1, "1", 1.0, true, int64(1), [1]int{1}}
		m := map[interface{}]string{}
		return opaqueKeyMap(n, func(i int, v string) { m[keys[i]] = v }), m
	}},
	{name: "map[float64]string with keys 0, 0.5, +Inf, -Inf, NaN, NaN", elem: "string", key: "opaque", isMap: true, byValue: true, maxN: 6, build: func(n int) (interface{}, interface{}) {
		keys := []float64{0, 0.5, math.Inf(1), math.Inf(-1), math.NaN(), math.NaN()}
		m := map[float64]string{}
		return opaqueKeyMap(n, func(i int, v string) { m[keys[i]] = v }), m
	}},
	// more nil-like and non-iterable values
	{name: "nil slice", elem: "int", key: "int", empty: true, build: func(n int) (interface{}, interface{}) { return ints(0), []int(nil) }},
	{name: "nil map", elem: "int", key: "int", empty: true, build: func(n int) (interface{}, interface{}) {
		return &model.OrderedMap{Vals: map[interface{}]interface{}{}}, map[string]int(nil)
	}},
	{name: "nil interface field h.Nil", elem: "int", key: "int", empty: true, expr: func(n int) model.Expr { return model.Lit{V: nil} }, spell: "h.Nil", spellFrom: "nil",
		bind: func(pv interface{}, d map[string]interface{}) { d["h"] = holder{} }},
	{name: "chan (non-iterable)", elem: "int", key: "int", bad: true, build: func(n int) (interface{}, interface{}) { return 5, make(chan int) }},
	{name: "func value (non-iterable)", elem: "int", key: "int", bad: true, build: func(n int) (interface{}, interface{}) { return 5, func() int { return 1 } }},
	{name: "*struct (non-iterable)", elem: "int", key: "int", bad: true, build: func(n int) (interface{}, interface{}) { return 5, &opaque{1} }},
	{name: "int64 (non-iterable)", elem: "int", key: "int", bad: true, build: func(n int) (interface{}, interface{}) { return 5, int64(5) }},
	{name: "uint8 (non-iterable)", elem: "int", key: "int", bad: true, build: func(n int) (interface{}, interface{}) { return 5, uint8(5) }},
	// non-iterables that are falsy or zero: not iterable all the same (only nil renders nothing)
	{name: "false (non-iterable)", elem: "int", key: "int", bad: true, build: func(n int) (interface{}, interface{}) { return false, false }},
	{name: "empty string (non-iterable)", elem: "int", key: "int", bad: true, build: func(n int) (interface{}, interface{}) { return "", "" }},
	{name: "empty template.HTML (non-iterable)", elem: "int", key: "int", bad: true, build: func(n int) (interface{}, interface{}) { return model.HTML(""), template.HTML("") }},
	{name: "0 (non-iterable)", elem: "int", key: "int", bad: true, build: func(n int) (interface{}, interface{}) { return 0, 0 }},
	{name: "0.0 (non-iterable)", elem: "int", key: "int", bad: true, build: func(n int) (interface{}, interface{}) { return 0.0, 0.0 }},
	{name: "empty struct (non-iterable)", elem: "int", key: "int", bad: true, build: func(n int) (interface{}, interface{}) { return 5, struct{}{} }},
	{name: "literal false (non-iterable)", elem: "int", key: "int", bad: true, expr: func(n int) model.Expr { return model.Lit{V: false} }},
	{name: "literal \"\" (non-iterable)", elem: "int", key: "int", bad: true, expr: func(n int) model.Expr { return model.Lit{V: ""} }},
	// the iterable is a method call that hangs off an indexed element, a map element, a call result or another call
	{name: "method of an indexed element hs[1].List()", elem: "int", key: "int", spell: "hs[1].List()", build: func(n int) (interface{}, interface{}) { return ints(n), toInts(ints(n)) },
		bind: func(pv interface{}, d map[string]interface{}) { d["hs"] = []holder{{Items: []int{9}}, {Items: pv}} }},
	{name: "method of a map element hm[\"a\"].List()", elem: "string", key: "int", spell: `hm["a"].List()`, build: func(n int) (interface{}, interface{}) { return strs(n), toStrs(strs(n)) },
		bind: func(pv interface{}, d map[string]interface{}) {
			d["hm"] = map[string]holder{"a": {Items: pv}, "b": {Items: []int{9}}}
		}},
	{name: "method of a call result mkh().List()", elem: "int", key: "int", spell: "mkh().List()", build: func(n int) (interface{}, interface{}) { return ints(n), toInts(ints(n)) },
		bind: func(pv interface{}, d map[string]interface{}) { d["mkh"] = func() holder { return holder{Items: pv} } }},
	{name: "method of an element of a call result mkhs()[0].List()", elem: "int", key: "int", spell: "mkhs()[0].List()", build: func(n int) (interface{}, interface{}) { return ints(n), toInts(ints(n)) },
		bind: func(pv interface{}, d map[string]interface{}) {
			d["mkhs"] = func() []holder { return []holder{{Items: pv}} }
		}},
	{name: "chained method calls h.Self().List()", elem: "int", key: "int", spell: "h.Self().List()", build: func(n int) (interface{}, interface{}) { return ints(n), toInts(ints(n)) },
		bind: func(pv interface{}, d map[string]interface{}) { d["h"] = holder{Items: pv} }},
	{name: "method after index after method h.Self().Deep[\"a\"]", elem: "int", key: "int", spell: `h.Self().Deep["a"]`, build: func(n int) (interface{}, interface{}) { return ints(n), toInts(ints(n)) },
		bind: func(pv interface{}, d map[string]interface{}) { d["h"] = holder{Deep: map[string]interface{}{"a": pv}} }},
	{name: "method of an indexed element on a map hs[0].List()", elem: "int", key: "string", isMap: true, spell: "hs[0].List()", build: func(n int) (interface{}, interface{}) {
		om, m := strIntMap(n)
		return om, m
	}, bind: func(pv interface{}, d map[string]interface{}) { d["hs"] = []holder{{Items: pv}} }},
}

func zints(n int) []interface{} {
	out := ints(n)
	for i := range out {
		if i%2 == 0 {
			out[i] = 0
		}
	}
	return out
}

func zstrs(n int) []interface{} {
	out := strs(n)
	for i := range out {
		if i%2 == 0 {
			out[i] = ""
		}
	}
	return out
}

// opaqueKeyMap is the model side of a map whose keys the bodies never read: keys K0.., values s0..
func opaqueKeyMap(n int, put func(i int, v string)) *model.OrderedMap {
	om := &model.OrderedMap{Vals: map[interface{}]interface{}{}}
	for i := 0; i < n; i++ {
		k, v := fmt.Sprintf("K%d", i), fmt.Sprintf("s%d", i)
		om.Keys = append(om.Keys, k)
		om.Vals[k] = v
		put(i, v)
	}
	return om
}

func strIntMap(n int) (*model.OrderedMap, map[string]int) {
	om := &model.OrderedMap{Vals: map[interface{}]interface{}{}}
	m := map[string]int{}
	for i := 0; i < n; i++ {
		k := fmt.Sprintf("k%d", i)
		om.Keys = append(om.Keys, k)
		om.Vals[k], m[k] = (i+1)*10, (i+1)*10
	}
	return om, m
}

// model-side counterparts of the built-in iterator helpers
type mrange struct{ cur, end int }

func (m *mrange) Next() interface{} {
	if m.cur > m.end {
		return nil
	}
	m.cur++
	return m.cur - 1
}

var modelOnly = map[string]model.Helper{
	"range":   func(a []interface{}) (interface{}, error) { return &mrange{a[0].(int), a[1].(int)}, nil },
	"between": func(a []interface{}) (interface{}, error) { return &mrange{a[0].(int) + 1, a[1].(int) - 1}, nil },
	"until":   func(a []interface{}) (interface{}, error) { return &mrange{0, a[0].(int) - 1}, nil },
}

var shared = map[string]model.Helper{
	"hn": func(a []interface{}) (interface{}, error) { return nil, nil },
}

// ---- cases ------------------------------------------------------------------------

// KN is one further execution of the same parsed template: xs bound to another iterable.
type KN struct {
	Kind int `json:"iterable"`
	N    int `json:"n"`
}

type Case struct {
	Kind    int             `json:"iterable"` // index into iterKinds
	N       int             `json:"n"`
	Src     string          `json:"src"` // informational
	Prog    json.RawMessage `json:"prog"`
	Compact bool            `json:"compact,omitempty"` // blocks of silent statements printed inside one tag
	Head    int             `json:"head,omitempty"`    // spelling of the loop heads, see source
	Ctx     string          `json:"ctx,omitempty"`     // "wrapped": the context is not a *plush.Context
	Then    []KN            `json:"then,omitempty"`    // the template is parsed once and executed again with these
	Names   int             `json:"names,omitempty"`   // >0: the variables are spelled as nameSets[Names-1] says (plush side only)
	Shape   int             `json:"shape,omitempty"`   // >0: the program is deepShapes[Shape-1](Depth) and is not stored
	Depth   int             `json:"depth,omitempty"`
}

var marker = regexp.MustCompile(`\{\{([a-z0-9]+)\}\}`)

// nameSets: other legal spellings of the five variable names every program uses. Keywords are case-sensitive whole
// words; letters, digits, _ and - make up an identifier.
var nameSets = []map[string]string{
	{"xs": "infos", "ys": "breaks", "v": "fortune", "k": "index", "w": "input"},      // keywords as prefixes
	{"xs": "For", "ys": "Break", "v": "In", "k": "Continue", "w": "If"},              // keywords but for the capital
	{"xs": "x-s", "ys": "for-each", "v": "in-v", "k": "break-k", "w": "continue-w"},  // keywords before a dash
	{"xs": "xs_2", "ys": "_ys", "v": "_v", "k": "k_", "w": "w2w"},                    // underscores and digits
	{"xs": "letters", "ys": "returns", "v": "elsewhere", "k": "iffy", "w": "truely"}, // more keyword prefixes
	{"xs": "fn_", "ys": "func1", "v": "nil_", "k": "falsey", "w": "trueish"},         // literals as prefixes
}

var plainName = regexp.MustCompile(`\b(xs|ys|v|k|w)\b`)

// source prints the program the way the case asks for.
func source(c Case, prog []model.Node) string {
	src := model.Printer{Compact: c.Compact}.Nodes(prog)
	if ik := iterKinds[c.Kind]; ik.spell != "" {
		from := ik.spellFrom
		if from == "" {
			from = "xs"
		}
		src = strings.ReplaceAll(src, " in "+from+" {", " in "+ik.spell+" {")
	}
	switch c.Head {
	case 1: // nothing between the tokens of the head
		src = strings.ReplaceAll(strings.ReplaceAll(src, "for (", "for("), ") in ", ")in ")
	case 2: // blanks inside the parentheses
		src = strings.ReplaceAll(strings.ReplaceAll(strings.ReplaceAll(src, "for (", "for ( "), ") in ", " ) in "), ", ", " , ")
	case 3: // the head over several lines
		src = strings.ReplaceAll(src, ") in ", ")\n in\n ")
	case 4: // the variables on lines of their own
		src = strings.ReplaceAll(strings.ReplaceAll(strings.ReplaceAll(src, "for (", "for (\n"), ") in ", "\n) in "), ", ", ",\n")
	}
	if c.Names > 0 {
		set := nameSets[c.Names-1]
		src = plainName.ReplaceAllStringFunc(src, func(n string) string { return set[n] })
	}
	return src
}

func run(r *vk.Run, c Case, prog []model.Node) *vk.Fail {
	src := source(c, prog)
	if c.Shape == 0 {
		c.Src, c.Prog = src, model.Encode(prog)
	}
	defer r.Watch("loop", c)()
	if len(c.Then) == 0 {
		return one(r, c, c.Kind, c.N, 0, prog, src, func(ctx hctx.Context) (string, error) { return plush.Render(src, ctx) })
	}
	// parsed once, executed several times: nothing learnt in one execution may change the next
	t, perr := plush.NewTemplate(src)
	exec := func(ctx hctx.Context) (string, error) {
		if perr != nil {
			return "", perr
		}
		return t.Exec(ctx)
	}
	for i, kn := range append([]KN{{c.Kind, c.N}}, c.Then...) {
		if f := one(r, c, kn.Kind, kn.N, i, prog, src, exec); f != nil {
			return f
		}
	}
	return nil
}

// one executes the template once with xs bound to the iterable (kind, n) and compares with the reference.
func one(r *vk.Run, c Case, kind, n, step int, prog []model.Node, src string, exec func(hctx.Context) (string, error)) *vk.Fail {
	ik := iterKinds[kind]
	fail := func(f string, a ...interface{}) *vk.Fail {
		where := ""
		if len(c.Then) > 0 {
			where = fmt.Sprintf("execution %d of one parsed template, ", step+1)
		}
		if c.Ctx != "" {
			where += "context " + c.Ctx + ", "
		}
		show := src
		if len(show) > 700 {
			show = fmt.Sprintf("%s ...(%d bytes, nesting depth %d)... %s", show[:300], len(src), c.Depth, show[len(show)-200:])
		}
		return &vk.Fail{Kind: "loop", Case: c, Msg: fmt.Sprintf("%siterable %s (n=%d): %s: ", where, ik.name, n, show) + fmt.Sprintf(f, a...)}
	}
	// v, k and w are ALSO top-level variables: a loop variable hides them, also while it is bound to nil
	mdata := map[string]interface{}{"ys": []interface{}{1, 2}, "v": "outer-v", "k": "outer-k", "w": "outer-w"}
	pdata := map[string]interface{}{"ys": []interface{}{1, 2}, "v": "outer-v", "k": "outer-k", "w": "outer-w"}
	var pv interface{}
	if ik.build != nil {
		mv, _ := ik.build(n)
		_, pv = ik.build(n)
		mdata["xs"] = mv
		if ik.bind == nil {
			pdata["xs"] = pv
		}
	}
	if ik.bind != nil {
		ik.bind(pv, pdata)
	}
	if c.Names > 0 {
		for from, to := range nameSets[c.Names-1] {
			if val, ok := pdata[from]; ok {
				delete(pdata, from)
				pdata[to] = val
			}
		}
	}
	// clob(xs, i) overwrites every element / entry of the collection it is given, in place: an element is what
	// the collection holds when its turn comes (a slice is read by index, a map entry by key)
	pdata["clob"] = func(x interface{}, i int) interface{} {
		if clobberable(ik) {
			clobber(reflect.ValueOf(x), i)
		}
		return nil
	}
	var ctx hctx.Context = model.Context(pdata, shared)
	if c.Ctx == "wrapped" {
		ctx = wrapCtx{ctx.(*plush.Context)}
	}
	res := vk.Safe(func() (string, error) { return exec(ctx) })
	if res.Panicked() {
		return fail("%s", res)
	}
	if ik.isMap && ik.hasNil && res.Err != nil {
		// the visiting order cannot be read off a failed render, and with nil values the outcome depends on it
		// (an entry whose value is nil may fail the body; a break at an earlier entry hides it)
		r.Exclude("map with nil values: render failed, visiting order unknown")
		return nil
	}
	if ik.isMap && res.Err == nil {
		// read the visiting order off the output and run the model in that order
		om, ok := mdata["xs"].(*model.OrderedMap)
		if !ok { // a hash literal: the model builds the map itself, in the order written; one entry has one order
			if n > 1 {
				panic("c08: literal maps must have at most one entry")
			}
			om = &model.OrderedMap{}
		}
		seen := map[string]bool{}
		var order []interface{}
		tag := func(k interface{}) string {
			if ik.byValue {
				return fmt.Sprint(om.Vals[k])
			}
			return fmt.Sprint(k)
		}
		for _, m := range marker.FindAllStringSubmatch(res.Out, -1) {
			if !ok {
				break
			}
			var key interface{}
			for _, k := range om.Keys {
				if tag(k) == m[1] {
					key = k
				}
			}
			if key == nil {
				return fail("output %q shows a key %q that is not in the map", res.Out, m[1])
			}
			if seen[m[1]] {
				return fail("output %q visits key %q twice", res.Out, m[1])
			}
			seen[m[1]] = true
			order = append(order, key)
		}
		for _, k := range om.Keys {
			if !seen[tag(k)] {
				order = append(order, k)
			}
		}
		om.Keys = order
	}
	helpers := map[string]model.Helper{}
	for k, v := range shared {
		helpers[k] = v
	}
	for k, v := range modelOnly {
		helpers[k] = v
	}
	helpers["clob"] = func(a []interface{}) (interface{}, error) {
		if !clobberable(ik) {
			return nil, nil
		}
		switch t := a[0].(type) {
		case []interface{}:
			for j := range t {
				t[j] = clobbered(t[j], a[1].(int))
			}
		case *model.OrderedMap:
			for _, k := range t.Keys {
				t.Vals[k] = clobbered(t.Vals[k], a[1].(int))
			}
		}
		return nil, nil
	}
	want := model.Run(prog, mdata, helpers)
	if want.Unspec != "" {
		r.Exclude("unspecified")
		return nil
	}
	nt := ""
	if strings.Contains(src, "break") || strings.Contains(src, "continue") || strings.Count(src, "for") > 1 || ik.isMap || ik.bad || ik.empty ||
		strings.Contains(ik.name, "*") || strings.Contains(ik.name, "Iterator") || kind >= firstWidened || len(c.Then) > 0 || c.Ctx != "" || c.Names > 0 {
		nt = fmt.Sprintf("%d|%d|%s|%s|%v|%d", kind, n, src, c.Ctx, c.Then, step)
	}
	r.Count(nt, ik.name)
	if nt != "" {
		r.Sample(func() interface{} {
			return map[string]interface{}{"iterable": ik.name, "n": n, "template": src, "expected": want.Out, "expected_error": want.Err}
		})
	}
	if want.Err != "" {
		if res.Err == nil && ik.bad && maybeIterable(ik) {
			// which values can be ranged over beyond slices, arrays, maps and Iterators is the engine's to say: a string
			// (its characters) or an integer (0..n-1) may be; what such a loop renders is then not this check's matter
			r.Exclude("a string or an integer ranged over: not stated to be an error")
			return nil
		}
		if res.Err == nil {
			return fail("reference says this is an error (%s), render gave %q", want.Err, res.Out)
		}
		if res.Out != "" {
			return fail("error with non-empty output %q", res.Out)
		}
		return nil
	}
	if res.Err != nil {
		if om, ok := mdata["xs"].(*model.OrderedMap); ok && ik.isMap && len(om.Keys) > 1 {
			// the visiting order cannot be read off a failed render. It is a violation only if NO order makes the
			// body fail (a break at one entry may hide a failure at another)
			failing := false
			permute(append([]interface{}(nil), om.Keys...), func(order []interface{}) bool {
				md := map[string]interface{}{}
				for k, v := range mdata {
					md[k] = v
				}
				vals := map[interface{}]interface{}{}
				for k, v := range om.Vals {
					vals[k] = v
				}
				md["xs"] = &model.OrderedMap{Keys: order, Vals: vals}
				w := model.Run(prog, md, helpers)
				failing = w.Err != "" || w.Unspec != ""
				return !failing
			})
			if failing {
				r.Exclude("map: render failed and the reference fails under some visiting order")
				return nil
			}
		}
		if c.Depth > 64 {
			// how deep constructs may nest is not stated: beyond 64 levels an engine may refuse with an error
			r.Class("deep nesting refused with an error")
			return nil
		}
		if want.Lenient != "" && strings.Contains(res.Err.Error(), "unknown identifier") {
			r.Exclude("nested unknown identifier not forgiven")
			return nil
		}
		return fail("render failed (%v), reference output %q", res.Err, want.Out)
	}
	if !match.SameText(res.Out, want.Out) {
		return fail("output %q, reference says %q", res.Out, want.Out)
	}
	return nil
}

// maybeIterable: non-iterables of string or integer kind (an engine may define ranging over them)
func maybeIterable(ik iterKind) bool {
	switch ik.name {
	case "int (non-iterable)", "string (non-iterable)", "int64 (non-iterable)", "uint8 (non-iterable)", "empty string (non-iterable)",
		"empty template.HTML (non-iterable)", "0 (non-iterable)", `literal "" (non-iterable)`:
		return true
	}
	return false
}

// clobbered is what clob(xs, i) leaves in place of the element old: a value of the same kind that no collection holds.
func clobbered(old interface{}, i int) interface{} {
	switch old.(type) {
	case int:
		return 7000 + i
	case string:
		return fmt.Sprintf("Z%d", i)
	}
	return old
}

func clobber(rv reflect.Value, i int) {
	for rv.Kind() == reflect.Ptr && !rv.IsNil() {
		rv = rv.Elem()
	}
	put := func(old reflect.Value) (reflect.Value, bool) {
		if !old.CanInterface() {
			return old, false
		}
		nv := reflect.ValueOf(clobbered(old.Interface(), i))
		if nv.IsValid() && nv.Type().ConvertibleTo(old.Type()) && (old.Kind() == reflect.Interface || nv.Kind() == old.Kind()) {
			return nv.Convert(old.Type()), true
		}
		return old, false
	}
	switch rv.Kind() {
	case reflect.Slice:
		for j := 0; j < rv.Len(); j++ {
			if nv, ok := put(rv.Index(j)); ok {
				rv.Index(j).Set(nv)
			}
		}
	case reflect.Map:
		for _, k := range rv.MapKeys() {
			if nv, ok := put(rv.MapIndex(k)); ok {
				rv.SetMapIndex(k, nv)
			}
		}
	}
}

// clobberable: the kinds whose elements clob() can overwrite so that the model sees the same (the loop head names the
// variable xs, the elements are ints or strings that the bodies print, iterations are not told apart by value)
func clobberable(ik iterKind) bool {
	return ik.build != nil && ik.expr == nil && ik.spell == "" && !ik.byValue && !ik.bad && !ik.empty && !ik.hasNil &&
		(ik.elem == "int" || ik.elem == "string") && ik.readable() && !strings.Contains(ik.name, "Iterator") && !strings.Contains(ik.name, "[N]")
}

// permute calls f with every order of keys until f returns false (at most 720 orders: maps have up to 6 entries).
func permute(keys []interface{}, f func([]interface{}) bool) {
	var rec func(i int) bool
	rec = func(i int) bool {
		if i == len(keys) {
			return f(append([]interface{}(nil), keys...))
		}
		for j := i; j < len(keys); j++ {
			keys[i], keys[j] = keys[j], keys[i]
			ok := rec(i + 1)
			keys[i], keys[j] = keys[j], keys[i]
			if !ok {
				return false
			}
		}
		return true
	}
	if len(keys) <= 6 {
		rec(0)
	}
}

// firstWidened is the index of the first iterable kind added by the widening round.
const firstWidened = 25

// ---- body generator ---------------------------------------------------------------

// frame is one enclosing loop: its variable names and what they range over.
type frame struct {
	k, v string
	ik   iterKind
}

type bodyGen struct {
	t      *rapid.T
	label  int
	vars   int
	frames []frame // enclosing loops, innermost last
}

func (g *bodyGen) text() model.Node {
	g.label++
	return model.Text{S: fmt.Sprintf("[%d]", g.label)}
}

func (g *bodyGen) top() frame { return g.frames[len(g.frames)-1] }

func (g *bodyGen) in(f frame, fn func() []model.Node) []model.Node {
	g.frames = append(g.frames, f)
	defer func() { g.frames = g.frames[:len(g.frames)-1] }()
	return fn()
}

func keyLit(ik iterKind, idx int) (model.Expr, bool) {
	switch ik.key {
	case "int":
		if ik.isMap {
			return model.Lit{V: idx + ik.keyBase}, true
		}
		return model.Lit{V: idx}, true
	case "string":
		return model.Lit{V: fmt.Sprintf("k%d", idx)}, true
	case "bool":
		return model.Lit{V: idx%2 == 1}, true
	}
	return nil, false
}

// otherLit is a literal of the family that no collection holds.
func otherLit(family string) model.Expr {
	switch family {
	case "int":
		return model.Lit{V: 7}
	case "string":
		return model.Lit{V: "z7"}
	case "bool":
		return model.Lit{V: true}
	}
	return nil
}

func elemLit(ik iterKind, idx int) model.Expr {
	switch ik.elem {
	case "int":
		return model.Lit{V: (idx + 1) * 10}
	case "string":
		return model.Lit{V: fmt.Sprintf("s%d", idx)}
	case "bool":
		return model.Lit{V: idx%2 == 1}
	}
	return nil
}

// cond is a condition on the variables of the innermost loop or, one time in four, of an enclosing one: what an
// inner loop does then changes from one execution of that loop to the next.
func (g *bodyGen) cond() model.Expr {
	t := g.t
	f := g.top()
	if len(g.frames) > 1 && rapid.IntRange(0, 3).Draw(t, "outer") == 0 {
		f = g.frames[rapid.IntRange(0, len(g.frames)-2).Draw(t, "frame")]
	}
	k, v, ik := f.k, f.v, f.ik
	idx := rapid.IntRange(0, 4).Draw(t, "ci")
	ev := elemLit(ik, idx)
	kv, kok := keyLit(ik, idx)
	kok = kok && k != ""
	switch c := rapid.IntRange(0, 7).Draw(t, "cond"); {
	case c == 0:
		return model.Lit{V: true}
	case c == 1:
		return model.Lit{V: false}
	case c == 2 && kok:
		return model.Bin{Op: "==", L: model.Var{Name: k}, R: kv}
	case c == 3 && kok && ik.key == "int":
		return model.Bin{Op: rapid.SampledFrom([]string{">", "<", ">=", "<="}).Draw(t, "cmp"), L: model.Var{Name: k}, R: kv}
	case c == 4 && ik.readable():
		return model.Bin{Op: "!=", L: model.Var{Name: v}, R: ev}
	case c == 5 && ik.elem == "int":
		return model.Bin{Op: rapid.SampledFrom([]string{">", "<", ">=", "<="}).Draw(t, "cmp"), L: model.Var{Name: v}, R: ev}
	case c == 6 && ik.elem == "bool":
		return model.Var{Name: v}
	}
	switch {
	case ik.readable():
		return model.Bin{Op: "==", L: model.Var{Name: v}, R: ev}
	case kok:
		return model.Bin{Op: "==", L: model.Var{Name: k}, R: kv}
	}
	return model.Lit{V: idx%2 == 0}
}

func (g *bodyGen) ctl() model.Node {
	if rapid.Bool().Draw(g.t, "brk") {
		return model.Code{S: model.BreakS{}}
	}
	return model.Code{S: model.ContinueS{}}
}

// emitV emits the value of the innermost loop or, one time in four, of an enclosing one.
func (g *bodyGen) emitV() model.Node {
	f := g.top()
	if len(g.frames) > 1 && rapid.IntRange(0, 3).Draw(g.t, "outer_v") == 0 {
		f = g.frames[rapid.IntRange(0, len(g.frames)-2).Draw(g.t, "frame_v")]
	}
	if f.ik.readable() {
		return model.Emit{X: model.Var{Name: f.v}}
	}
	return g.text()
}

func intLits(n int) model.Expr { return iterKinds[6].expr(n) }

// body generates the statements of the body of the innermost loop of g.frames.
func (g *bodyGen) body(depth int) []model.Node {
	t := g.t
	f := g.top()
	k, v, ik := f.k, f.v, f.ik
	var out []model.Node
	cnt := rapid.IntRange(0, 5).Draw(t, "stmts")
	for i := 0; i < cnt; i++ {
		switch rapid.IntRange(0, 15).Draw(t, "stmt") {
		case 0, 1:
			out = append(out, g.text())
		case 2:
			out = append(out, g.emitV())
		case 3:
			if k != "" && ik.key != "opaque" {
				out = append(out, model.Emit{X: model.Var{Name: k}})
			} else {
				out = append(out, g.text())
			}
		case 4, 5: // silent if carrying only a control statement
			out = append(out, model.Code{S: model.IfS{If: &model.If{Cond: g.cond(), Then: []model.Node{g.ctl()}}}})
		case 6, 7: // emitting if: text, then maybe a control statement, maybe an else branch
			f := &model.If{Cond: g.cond()}
			f.Then = append(f.Then, g.text())
			if rapid.Bool().Draw(t, "emitv") {
				f.Then = append(f.Then, g.emitV())
			}
			if rapid.IntRange(0, 2).Draw(t, "ctl") > 0 {
				f.Then = append(f.Then, g.ctl())
			}
			if rapid.Bool().Draw(t, "else") {
				f.HasElse = true
				f.Else = append(f.Else, g.text())
				if rapid.IntRange(0, 3).Draw(t, "ectl") == 0 {
					f.Else = append(f.Else, g.ctl())
				}
			}
			out = append(out, model.EmitIf{If: f})
		case 8: // unconditional control statement at statement level
			out = append(out, g.ctl())
		case 9: // nested loop
			if depth <= 0 {
				out = append(out, g.text())
				break
			}
			g.vars++
			iv := fmt.Sprintf("w%d", g.vars)
			ik2 := ""
			switch rapid.IntRange(0, 5).Draw(t, "shadow") {
			case 0: // the inner loop REUSES the outer loop's value name: afterwards the outer value must be back
				iv = v
			case 1:
				if k != "" {
					ik2 = k // ... or its key name
				}
			case 2:
				ik2 = fmt.Sprintf("j%d", g.vars)
			}
			inner := iterKind{elem: "int", key: "int"}
			var iter model.Expr
			switch rapid.IntRange(0, 5).Draw(t, "inner_iter") {
			case 0:
				iter = intLits(rapid.IntRange(0, 3).Draw(t, "inner_n"))
			case 1:
				iter = model.Var{Name: "ys"}
			case 2, 3: // what the inner loop ranges over depends on the outer loop's variables
				switch {
				case ik.elem == "slice":
					iter = model.Var{Name: v}
				case ik.elem == "mixed":
					iter, inner.key = model.Var{Name: v}, "other"
				case k != "" && ik.key == "int" && !ik.isMap:
					iter = model.Call{Fn: "until", Args: []model.Expr{model.Var{Name: k}}}
				default:
					iter = model.Call{Fn: "range", Args: []model.Expr{model.Lit{V: 1}, model.Lit{V: rapid.IntRange(0, 3).Draw(t, "inner_n")}}}
				}
			case 4: // an array literal that mentions the outer loop's variables
				if ik.elem == "int" && !ik.hasNil {
					els := []model.Expr{model.Var{Name: v}, model.Lit{V: 20}}
					if k != "" && ik.key == "int" && !ik.isMap {
						els = append(els, model.Var{Name: k})
					}
					iter = model.Arr{Els: els}
				} else {
					iter = intLits(2)
				}
			case 5:
				iter = model.Call{Fn: "until", Args: []model.Expr{model.Lit{V: rapid.IntRange(0, 3).Draw(t, "inner_n")}}}
			}
			ib := g.in(frame{ik2, iv, inner}, func() []model.Node { return g.body(depth - 1) })
			out = append(out, model.EmitFor{For: &model.For{Key: ik2, Val: iv, Iter: iter, Body: ib}})
			if iv == v || (ik2 != "" && ik2 == k) { // read the outer variables again after the inner loop
				out = append(out, g.emitV())
				if k != "" && ik.key != "opaque" {
					out = append(out, model.Emit{X: model.Var{Name: k}})
				}
			}
		case 10: // a function literal defined (and used) inside the body
			g.vars++
			fn := fmt.Sprintf("f%d", g.vars)
			out = append(out, model.Code{S: model.LetS{Name: fn, X: model.FnLit{Body: []model.Node{g.text()}}}})
			out = append(out, model.Emit{X: model.Call{Fn: fn}})
		case 11: // a silent nested loop (contributes nothing)
			if depth > 0 {
				g.vars++
				iv := fmt.Sprintf("w%d", g.vars)
				out = append(out, model.Code{S: model.ForS{For: &model.For{Val: iv, Iter: model.Var{Name: "ys"}, Body: []model.Node{model.Code{S: model.IfS{If: &model.If{Cond: model.Lit{V: true}, Then: []model.Node{g.ctl()}}}}}}}})
			}
		case 12: // an emitting if / else if / else chain; any branch may end in a control statement
			f := &model.If{Cond: g.cond(), Then: []model.Node{g.text()}}
			if rapid.IntRange(0, 2).Draw(t, "ctl") == 0 {
				f.Then = append(f.Then, g.ctl())
			}
			for j := rapid.IntRange(1, 2).Draw(t, "elseifs"); j > 0; j-- {
				ei := model.ElseIf{Cond: g.cond(), Then: []model.Node{g.text()}}
				if rapid.Bool().Draw(t, "emitv") {
					ei.Then = append(ei.Then, g.emitV())
				}
				if rapid.IntRange(0, 2).Draw(t, "eictl") > 0 {
					ei.Then = append(ei.Then, g.ctl())
				}
				f.ElseIfs = append(f.ElseIfs, ei)
			}
			if rapid.Bool().Draw(t, "else") {
				f.HasElse = true
				f.Else = append(f.Else, g.text())
				if rapid.IntRange(0, 2).Draw(t, "ectl") == 0 {
					f.Else = append(f.Else, g.ctl())
				}
			}
			out = append(out, model.EmitIf{If: f})
		case 13: // a silent if / else if / else chain carrying control statements only
			f := &model.If{Cond: g.cond(), Then: []model.Node{g.ctl()}}
			for j := rapid.IntRange(1, 2).Draw(t, "elseifs"); j > 0; j-- {
				f.ElseIfs = append(f.ElseIfs, model.ElseIf{Cond: g.cond(), Then: []model.Node{g.ctl()}})
			}
			if rapid.Bool().Draw(t, "else") {
				f.HasElse = true
				f.Else = []model.Node{g.ctl()}
			}
			out = append(out, model.Code{S: model.IfS{If: f}})
		case 14: // a function holding a loop over its parameter, called twice with different collections
			if depth <= 0 {
				out = append(out, g.text())
				break
			}
			g.vars++
			fn, p, iv := fmt.Sprintf("f%d", g.vars), fmt.Sprintf("a%d", g.vars), fmt.Sprintf("q%d", g.vars)
			ib := g.in(frame{"", iv, iterKind{elem: "int", key: "int"}}, func() []model.Node { return g.body(depth - 1) })
			fb := []model.Node{g.text(), model.EmitFor{For: &model.For{Val: iv, Iter: model.Var{Name: p}, Body: ib}}, g.text()}
			out = append(out, model.Code{S: model.LetS{Name: fn, X: model.FnLit{Params: []string{p}, Body: fb}}})
			out = append(out, model.Emit{X: model.Call{Fn: fn, Args: []model.Expr{intLits(rapid.IntRange(0, 3).Draw(t, "arg_n"))}}})
			out = append(out, model.Emit{X: model.Call{Fn: fn, Args: []model.Expr{model.Var{Name: "ys"}}}})
		case 15: // the body rebinds a loop variable; the next iteration must bind it to the next element again
			// (to a value of the same type: a comparison that follows must not fail, on a map the failure would
			// depend on the visiting order)
			name, fam := v, ik.elem
			if k != "" && rapid.Bool().Draw(t, "letk") {
				name, fam = k, ik.key
			}
			if lit := otherLit(fam); lit != nil {
				out = append(out, model.Code{S: model.LetS{Name: name, X: lit}}, model.Emit{X: model.Var{Name: name}})
			} else {
				out = append(out, g.text())
			}
		}
	}
	return out
}

func (g *bodyGen) program(kind, n int) []model.Node {
	ik := iterKinds[kind]
	k, v := "", "v"
	if ik.isMap || rapid.Bool().Draw(g.t, "twovars") {
		k = "k"
	}
	var iter model.Expr = model.Var{Name: "xs"}
	if ik.expr != nil {
		iter = ik.expr(n)
	}
	loop := func() model.Node {
		body := g.in(frame{k, v, ik}, func() []model.Node { return g.body(2) })
		if ik.isMap {
			body = append(markerOf(ik), body...)
		}
		return model.EmitFor{For: &model.For{Key: k, Val: v, Iter: iter, Body: body}}
	}
	form := rapid.IntRange(0, 6).Draw(g.t, "form")
	if ik.isMap && form != 5 { // a second loop over the same map would show every key marker twice
		form = 0
	}
	switch form {
	case 3: // two loops one after the other: nothing of the first (names, a break, an exhausted iterator) may reach the second
		return []model.Node{g.text(), loop(), g.text(), loop(), g.text()}
	case 4: // a function holding the loop, called with xs, ys and xs again
		if ik.build == nil || ik.spell != "" {
			break
		}
		iter = model.Var{Name: "a"}
		fb := []model.Node{g.text(), loop(), g.text()}
		call := func(arg string) model.Node {
			return model.Emit{X: model.Call{Fn: "f", Args: []model.Expr{model.Var{Name: arg}}}}
		}
		return []model.Node{model.Code{S: model.LetS{Name: "f", X: model.FnLit{Params: []string{"a"}, Body: fb}}}, call("xs"), g.text(), call("ys"), g.text(), call("xs")}
	case 5: // the loop stands in an else-if branch
		return []model.Node{g.text(), model.EmitIf{If: &model.If{Cond: model.Lit{V: false}, Then: []model.Node{g.text()},
			ElseIfs: []model.ElseIf{{Cond: model.Lit{V: true}, Then: []model.Node{g.text(), loop(), g.text()}}}}}, g.text()}
	case 6: // the same collection ranged over by a loop and by a loop inside it
		outer := loop().(model.EmitFor)
		k, v = "", "u"
		if rapid.Bool().Draw(g.t, "twovars2") {
			k = "j"
		}
		outer.For.Body = append(outer.For.Body, g.text(), loop(), g.text())
		return []model.Node{g.text(), outer, g.text()}
	}
	return []model.Node{g.text(), loop(), g.text()}
}

// rebound is what a body rebinds a loop variable to: a value of the variable's own type where the bodies compare it.
func rebound(family string) model.Expr {
	if lit := otherLit(family); lit != nil {
		return lit
	}
	return model.Lit{V: 7}
}

// ---- fixed bodies for the exhaustive sweep ---------------------------------------------

func fixedBodies(ik iterKind, n int) [][]model.Node {
	T := func(s string) model.Node { return model.Text{S: s} }
	var v model.Node = model.Emit{X: model.Var{Name: "v"}}
	if !ik.readable() {
		v = T("e")
	}
	var k model.Node = model.Emit{X: model.Var{Name: "k"}}
	if ik.key == "opaque" {
		k = T("key")
	}
	// conditions true at the first, the second and the last element: on the value where the bodies may read it
	// (for the kinds holding zeros "first" then means every even position), on the key otherwise
	at := func(idx int) model.Expr {
		if ik.elem == "int" || ik.elem == "string" {
			return model.Bin{Op: "==", L: model.Var{Name: "v"}, R: elemLit(ik, idx)}
		}
		kv, _ := keyLit(ik, idx)
		return model.Bin{Op: "==", L: model.Var{Name: "k"}, R: kv}
	}
	is1, is2, isLast := at(0), at(1), at(n-1)
	if n == 0 {
		isLast = at(0)
	}
	brk, cnt := model.Code{S: model.BreakS{}}, model.Code{S: model.ContinueS{}}
	sif := func(c model.Expr, n model.Node) model.Node {
		return model.Code{S: model.IfS{If: &model.If{Cond: c, Then: []model.Node{n}}}}
	}
	eif := func(c model.Expr, ns ...model.Node) model.Node { return model.EmitIf{If: &model.If{Cond: c, Then: ns}} }
	inner := func(ns ...model.Node) model.Node {
		return model.EmitFor{For: &model.For{Val: "w", Iter: model.Var{Name: "ys"}, Body: ns}}
	}
	over := func(it model.Expr, ns ...model.Node) model.Node {
		return model.EmitFor{For: &model.For{Val: "w", Iter: it, Body: ns}}
	}
	w := model.Emit{X: model.Var{Name: "w"}}
	fnlit := model.Code{S: model.LetS{Name: "f", X: model.FnLit{Body: []model.Node{T("F")}}}}
	if ik.hasNil {
		isNil := model.Bin{Op: "==", L: model.Var{Name: "v"}, R: model.Lit{V: nil}}
		show := model.EmitIf{If: &model.If{Cond: isNil, Then: []model.Node{T("nil")}, HasElse: true, Else: []model.Node{v}}}
		return [][]model.Node{
			{T("["), show, T("]")},
			{k, T("="), show, T(",")},
			{sif(isNil, cnt), v, T(",")},
			{sif(isNil, brk), v, T(",")},
			{T("a"), eif(model.Not{X: model.Var{Name: "v"}}, T("falsy")), T("b")},
			{T("a"), eif(model.Var{Name: "v"}, v), T("b")},
			{v, T(",")}, // emitting the nil-bound variable: the same outcome as any unset name, never the outer variable
			// an inner loop over the same collection under the same names; the outer element is tested again afterwards
			{model.EmitFor{For: &model.For{Val: "v", Iter: model.Var{Name: "ys"}, Body: []model.Node{T("i")}}}, show, T(",")},
			{inner(show), T("|"), show, T(",")},
		}
	}
	out := [][]model.Node{
		{},
		{T("a")},
		{k, T(":"), v, T(",")},
		{T("a"), sif(is2, brk), T("b")},
		{T("a"), sif(is2, cnt), T("b")},
		{sif(is2, brk), T("b")},
		{T("a"), v, sif(is2, cnt)},
		{T("a"), eif(is2, T("x"), brk), T("b")},
		{T("a"), eif(is2, T("x"), cnt), T("b")},
		{T("a"), eif(is2, T("x"), v, brk, T("dead")), T("b")},
		{T("a"), brk, T("dead")},
		{T("a"), cnt, T("dead")},
		{inner(T("i")), sif(is2, brk), T("b")},                           // control statement AFTER a nested loop
		{sif(is2, cnt), inner(T("i"), w), T("b")},                        // nested loop after a control statement
		{inner(T("i"), sif(model.Lit{V: true}, brk), T("dead")), T("b")}, // break in the inner loop only
		{inner(T("i"), sif(model.Lit{V: true}, cnt), T("dead")), sif(is2, brk), T("b")},
		{fnlit, sif(is2, brk), model.Emit{X: model.Call{Fn: "f"}}},       // control statement after a function literal
		{eif(model.Lit{V: true}, eif(is2, T("x"), brk), T("y")), T("b")}, // break two ifs deep
		{eif(model.Lit{V: true}, sif(is2, cnt), T("y")), T("b")},
		{T("a"), model.EmitIf{If: &model.If{Cond: is2, Then: []model.Node{T("x")}, HasElse: true, Else: []model.Node{T("e"), cnt}}}, T("b")},
		{model.Code{S: model.LetS{Name: "t", X: model.Lit{V: 3}}}, model.Emit{X: model.Var{Name: "t"}}, sif(is2, brk)},
		// an inner loop that reuses the outer loop's variable names; the outer values are read again afterwards
		{v, model.EmitFor{For: &model.For{Val: "v", Iter: model.Var{Name: "ys"}, Body: []model.Node{T("i"), model.Emit{X: model.Var{Name: "v"}}}}}, T("|"), v, sif(is2, brk), T(",")},
		{k, model.EmitFor{For: &model.For{Key: "k", Val: "v", Iter: model.Var{Name: "ys"}, Body: []model.Node{k}}}, T("|"), k, T(":"), v, sif(is2, cnt), T(",")},
		{eif(model.Lit{V: true}, model.EmitFor{For: &model.For{Val: "v", Iter: model.Var{Name: "ys"}, Body: []model.Node{T("i")}}}), v, T(",")},

		// ---- widening round ----
		// control statements in else-if branches, emitting and silent
		{T("a"), model.EmitIf{If: &model.If{Cond: is1, Then: []model.Node{T("f")}, ElseIfs: []model.ElseIf{{Cond: is2, Then: []model.Node{T("x"), brk}}}, HasElse: true, Else: []model.Node{T("e")}}}, T("b")},
		{T("a"), model.EmitIf{If: &model.If{Cond: is1, Then: []model.Node{T("f")}, ElseIfs: []model.ElseIf{{Cond: is2, Then: []model.Node{T("x"), cnt, T("dead")}}}}}, T("b")},
		{T("a"), model.EmitIf{If: &model.If{Cond: model.Lit{V: false}, Then: []model.Node{T("f")}, ElseIfs: []model.ElseIf{{Cond: model.Lit{V: false}, Then: []model.Node{T("g")}}, {Cond: isLast, Then: []model.Node{T("x"), cnt}}}, HasElse: true, Else: []model.Node{T("e")}}}, T("b")},
		{T("a"), model.Code{S: model.IfS{If: &model.If{Cond: is1, Then: []model.Node{cnt}, ElseIfs: []model.ElseIf{{Cond: is2, Then: []model.Node{brk}}}}}}, T("b")},
		{T("a"), model.Code{S: model.IfS{If: &model.If{Cond: is2, Then: []model.Node{cnt}, ElseIfs: []model.ElseIf{{Cond: isLast, Then: []model.Node{cnt}}}, HasElse: true, Else: []model.Node{brk}}}}, T("b")},
		// control statements at the first and at the last element
		{T("a"), sif(is1, brk), T("b")},
		{T("a"), sif(is1, cnt), T("b")},
		{T("a"), sif(isLast, brk), T("b")},
		{T("a"), sif(isLast, cnt), T("b")},
		{sif(is1, cnt), T("a"), sif(isLast, brk), T("b")},
		// an inner loop that breaks or not depending on the OUTER element: the same loop runs plain, then broken, then plain
		{inner(T("i"), sif(is2, brk), T("j")), T(",")},
		{inner(T("i"), sif(is2, cnt), T("j")), T(","), sif(isLast, brk), T("b")},
		{inner(T("i"), model.EmitIf{If: &model.If{Cond: is1, Then: []model.Node{T("f")}, ElseIfs: []model.ElseIf{{Cond: is2, Then: []model.Node{T("x"), brk}}}}}, T("j")), T(",")},
		// an inner loop over a helper call (its body is the call's trailing block), then a control statement of the outer loop
		{over(model.Call{Fn: "until", Args: []model.Expr{model.Lit{V: 2}}}, T("i"), w), sif(is2, brk), T("b")},
		{over(model.Call{Fn: "range", Args: []model.Expr{model.Lit{V: 1}, model.Lit{V: 2}}}, sif(model.Lit{V: true}, cnt), T("dead")), sif(is2, cnt), T("b")},
		// a function holding a loop, defined in the body and called twice; then a control statement
		{model.Code{S: model.LetS{Name: "f", X: model.FnLit{Params: []string{"a"}, Body: []model.Node{T("("), over(model.Var{Name: "a"}, w, sif(model.Bin{Op: "==", L: model.Var{Name: "w"}, R: model.Lit{V: 20}}, brk), T(".")), T(")")}}}},
			model.Emit{X: model.Call{Fn: "f", Args: []model.Expr{intLits(3)}}}, model.Emit{X: model.Call{Fn: "f", Args: []model.Expr{intLits(1)}}}, sif(is2, brk), T(",")},
		// the body rebinds the loop variables
		{v, model.Code{S: model.LetS{Name: "v", X: rebound(ik.elem)}}, model.Emit{X: model.Var{Name: "v"}}, sif(isLast, brk), T(",")},
		{k, model.Code{S: model.LetS{Name: "k", X: rebound(ik.key)}}, k, T(",")},
	}
	// an inner loop over LITERALS whose body reads the outer loop's variable at exactly one place: whatever is kept of
	// one execution of the inner loop (its result, its iterable, a verdict about its body) is wrong for the next
	rd, rdE := v, model.Expr(model.Var{Name: "v"})
	if !ik.readable() {
		rd, rdE = k, model.Var{Name: "k"}
	}
	if ik.readable() || ik.key != "opaque" {
		no, yes := model.Lit{V: false}, model.Lit{V: true}
		lits := intLits(2)
		out = append(out,
			[]model.Node{over(lits, T("i"), rd), T(",")},
			[]model.Node{over(lits, T("i"), eif(is2, T("x"))), T(",")},
			[]model.Node{over(lits, T("i"), model.EmitIf{If: &model.If{Cond: no, Then: []model.Node{T("f")}, ElseIfs: []model.ElseIf{{Cond: is2, Then: []model.Node{T("x")}}}, HasElse: true, Else: []model.Node{T("e")}}}), T(",")},
			[]model.Node{over(lits, T("i"), model.EmitIf{If: &model.If{Cond: no, Then: []model.Node{T("f")}, HasElse: true, Else: []model.Node{T("e"), rd}}}), T(",")},
			[]model.Node{over(lits, T("i"), model.EmitIf{If: &model.If{Cond: no, Then: []model.Node{T("f")}, ElseIfs: []model.ElseIf{{Cond: yes, Then: []model.Node{T("x"), rd}}}}}), T(",")},
			[]model.Node{over(lits, T("i"), eif(yes, T("x"), eif(yes, T("y"), rd))), T(",")},
			[]model.Node{over(lits, T("i"), over(model.Arr{Els: []model.Expr{model.Lit{V: 1}}}, T("j"), eif(is2, T("x")))), T(",")},
			[]model.Node{over(lits, model.Code{S: model.LetS{Name: "t", X: rdE}}, model.Emit{X: model.Var{Name: "t"}}), T(",")},
			[]model.Node{model.Code{S: model.LetS{Name: "f", X: model.FnLit{Params: []string{"a"}, Body: []model.Node{T("("), model.Emit{X: model.Var{Name: "a"}}, T(")")}}}},
				over(lits, T("i"), model.Emit{X: model.Call{Fn: "f", Args: []model.Expr{rdE}}}), T(",")},
			[]model.Node{over(lits, T("i"), sif(is2, cnt), T("j")), T(",")},
		)
	}
	if clobberable(ik) {
		// the body changes the elements the loop has not reached yet (and those it has): the value bound in a later
		// iteration is the one the collection holds then
		clob := func(i int) model.Node {
			return model.Code{S: model.ExprS{X: model.Call{Fn: "clob", Args: []model.Expr{model.Var{Name: "xs"}, model.Lit{V: i}}}}}
		}
		out = append(out,
			[]model.Node{clob(1), v, T(",")},
			[]model.Node{v, clob(2), T(","), sif(is2, brk)},
			[]model.Node{sif(is1, clob(3)), v, T(","), sif(isLast, cnt), T(";")},
		)
	}
	if ik.key == "int" && !ik.isMap {
		// what the inner loop ranges over depends on the outer key: 0, 1, 2, ... elements; then a control statement
		out = append(out, []model.Node{over(model.Call{Fn: "until", Args: []model.Expr{model.Var{Name: "k"}}}, w, sif(model.Bin{Op: "==", L: model.Var{Name: "w"}, R: model.Lit{V: 1}}, brk), T(".")), T("|"), sif(isLast, brk), T(",")})
	}
	if ik.elem == "int" {
		// an array literal that mentions the outer variable
		out = append(out, []model.Node{over(model.Arr{Els: []model.Expr{model.Var{Name: "v"}, model.Lit{V: 5}}}, w, T(".")), T(",")})
	}
	if ik.elem == "slice" || ik.elem == "mixed" {
		// the inner loop ranges over the outer element: another length, another kind every time
		out = append(out,
			[]model.Node{k, T(":"), over(model.Var{Name: "v"}, w, T(".")), T(",")},
			[]model.Node{over(model.Var{Name: "v"}, w, sif(model.Bin{Op: "==", L: model.Var{Name: "w"}, R: model.Lit{V: 20}}, brk), T(".")), sif(is2, cnt), T(",")},
			[]model.Node{model.EmitFor{For: &model.For{Key: "j", Val: "w", Iter: model.Var{Name: "v"}, Body: []model.Node{model.Emit{X: model.Var{Name: "j"}}, T("="), w, sif(model.Bin{Op: "==", L: model.Var{Name: "w"}, R: model.Lit{V: 10}}, cnt), T(".")}}}, T(",")},
			[]model.Node{model.EmitFor{For: &model.For{Val: "v", Iter: model.Var{Name: "v"}, Body: []model.Node{model.Emit{X: model.Var{Name: "v"}}}}}, T("|"), over(model.Var{Name: "v"}, T("i")), T(",")},
		)
	}
	return out
}

// ---- deep nesting ----------------------------------------------------------------------

var deepShapes = func() []func(d int) []model.Node {
	T := func(s string) model.Node { return model.Text{S: s} }
	is2 := model.Bin{Op: "==", L: model.Var{Name: "v"}, R: model.Lit{V: 20}}
	nest := func(d int, bottom []model.Node, wrap func(inner []model.Node) model.Node) []model.Node {
		for ; d > 0; d-- {
			bottom = []model.Node{wrap(bottom)}
		}
		return bottom
	}
	inLoop := func(ns []model.Node) model.Node {
		return model.EmitFor{For: &model.For{Val: "w", Iter: intLits(1), Body: ns}}
	}
	inIf := func(ns []model.Node) model.Node {
		return model.EmitIf{If: &model.If{Cond: model.Lit{V: true}, Then: ns}}
	}
	inSilentIf := func(ns []model.Node) model.Node {
		return model.Code{S: model.IfS{If: &model.If{Cond: model.Lit{V: true}, Then: ns}}}
	}
	inElse := func(ns []model.Node) model.Node {
		return model.EmitIf{If: &model.If{Cond: model.Lit{V: false}, Then: []model.Node{T("no")}, ElseIfs: []model.ElseIf{{Cond: model.Lit{V: true}, Then: ns}}}}
	}
	brk, cnt := model.Code{S: model.BreakS{}}, model.Code{S: model.ContinueS{}}
	sif := func(c model.Expr, n model.Node) model.Node {
		return model.Code{S: model.IfS{If: &model.If{Cond: c, Then: []model.Node{n}}}}
	}
	ev := model.Emit{X: model.Var{Name: "v"}}
	return []func(d int) []model.Node{
		func(d int) []model.Node { return nest(d, []model.Node{T("Z"), ev}, inLoop) }, // d+1 loops
		func(d int) []model.Node {
			return nest(d, []model.Node{T("Z"), sif(model.Lit{V: true}, brk), T("dead")}, inLoop)
		}, // break ends the innermost of d+1 loops only
		func(d int) []model.Node { return nest(d, []model.Node{T("X"), ev, sif(is2, brk), T("Y")}, inIf) }, // break under d emitting ifs
		func(d int) []model.Node { return nest(d, []model.Node{T("X"), sif(is2, cnt), T("Y")}, inElse) },   // continue under d else-if branches
		func(d int) []model.Node {
			return append([]model.Node{T("X")}, append(nest(d, []model.Node{sif(is2, brk)}, inSilentIf), T("Y"))...)
		},
		func(d int) []model.Node { // loops and ifs alternating
			return nest(d/2, []model.Node{T("X"), sif(is2, cnt), T("Y")}, func(ns []model.Node) model.Node { return inIf([]model.Node{inLoop(ns)}) })
		},
	}
}()

func deepProg(shape, d int) []model.Node {
	return []model.Node{model.Text{S: "<"}, model.EmitFor{For: &model.For{Val: "v", Iter: model.Var{Name: "xs"}, Body: deepShapes[shape-1](d)}}, model.Text{S: ">"}}
}

var usesK = regexp.MustCompile(`\bk\b`)

const rule = "iterables (68 kinds): []int, []string, []interface{}, [N]int, *[]int, *[N]string, array literal, map[string]int, map[int]string, map[string]interface{}, custom Iterator, range/between/until, []interface{} / map[string]interface{} / array literals holding nil elements (the loop variable is then bound to nil and still hides the top-level variables v, k, w that every case defines), literal nil, helper returning nil, five non-iterables; and, since the widening round: slices, maps and iterators holding ZERO values (0, \"\", false), maps with bool and uint8 keys and with key 0, maps whose keys do not print (array, struct, pointer keys; interface{} keys 1, \"1\", 1.0, true, int64(1), [1]int{1}; float keys 0, 0.5, +Inf, -Inf, NaN, NaN - iterations are then told apart by their values), named slice and map types, *map and *[]interface{}, slices of typed nil pointers / structs / errors / bytes (bodies never read the element), slices whose elements are themselves iterable ([][]int of lengths 0..3; slice, map, Iterator, array and empty slice mixed) with inner loops ranging over the outer element, loop heads that name the iterable as a struct field, a field through a pointer, a method call, a pointer-method call, a map index, a slice index, a field of an indexed field, a Go function with and without arguments (the body is then the call's trailing block), a method call that hangs off an indexed element / a map element / a call result / an element of a call result / another method call, a parenthesised variable, a hash literal, Iterators with a value receiver / behind a pointer / of kind func, nil slice, nil map, nil interface field, and chan, func, *struct, int64, uint8 as non-iterables, and non-iterables that are falsy or zero (false, \"\", empty HTML, 0, 0.0, an empty struct; false and \"\" also as literals): only nil renders nothing (a string or an integer that an engine chooses to range over is not counted as a violation: the statement lists what is iterable without saying that nothing else may be); each with 0..5 elements (thorough 0..6), and 17, 64, 65, 130, 257 elements for six kinds. (E) every iterable x length x 55+ fixed bodies (break/continue at the start, middle and end of the body, at the first, second and LAST element, inside a silent if, inside an emitting if after text, two ifs deep, in an else and in ELSE-IF branches (emitting and silent), unconditional with dead code after, in an inner loop only, AFTER a nested loop, after a nested loop over a helper call, after a function literal, after a function holding a loop that was called twice; inner loops that REUSE the outer loop's variable names with the outer values read again afterwards; inner loops whose break depends on the OUTER element, whose iterable is until(k), [v, 5] or the outer element itself; bodies that rebind the loop variables with let; inner loops over LITERALS whose body reads the outer variable at exactly one place - emitted, in an if / else-if condition, in an else / else-if block, two ifs deep, in a loop inside it, in a let, as a function argument, guarding a continue) x one-/two-variable form x canonical / compact layout (silent blocks inside one tag: `<% if (c) {⏎break⏎} %>`) ; 5 spellings of the loop head; 6 other sets of names for the variables (keywords as prefixes, capitalised keywords, keywords before a dash, underscores and digits). (T) one parsed template executed two or three times with xs bound to iterables of other kinds and lengths (also a non-iterable, then an iterable). (R) random bodies from the same grammar nested to depth 2, conditions of inner loops also on outer variables, programs with two loops in sequence, a function holding the loop called with xs, ys, xs, the loop in an else-if branch, the same collection ranged over by a loop and by a loop inside it. Oracle: the reference interpreter (body once per element in index order, key = index / map key / running count, continue/break keep what the iteration produced, nil renders nothing, non-iterable is an error). For maps each iteration starts with a key marker; the visiting order is read off the output, checked duplicate-free over the key set, and the model is run in that order. Non-trivial = the body has a control statement or a nested loop, or the iterable is a map / pointer / iterator / nil / non-iterable / one of the widened kinds, or the template is executed more than once; distinct by (iterable, length, template, executions)."

func setup(t *testing.T) *vk.Run {
	r := vk.Start(t, "C08", rule,
		"a silent <% if %> inside a loop body carries control statements only (text inside a silent if that then breaks is claimed by neither C02 nor C08)",
		"return inside loops and typed-nil POINTER iterables are not used (the statement does not cover them); nil slices and nil maps are",
		"break/continue inside a helper block or a function literal inside a loop body are not used (whether such a block is still 'inside the loop body' is not fixed by the statement)")
	r.Replayer("loop", func(raw json.RawMessage) *vk.Fail {
		var c Case
		if f := vk.Decode(raw, &c); f != nil {
			return f
		}
		var prog []model.Node
		var err error
		if c.Shape > 0 {
			if c.Shape > len(deepShapes) || c.Depth < 0 || c.Depth > 5000 {
				return &vk.Fail{Kind: "decode", Msg: "bad case: shape or depth out of range"}
			}
			prog = deepProg(c.Shape, c.Depth)
		} else {
			prog, err = model.Decode(c.Prog)
		}
		bad := func(k, n int) bool { return k < 0 || k >= len(iterKinds) || n < 0 || n > 1000 }
		for _, kn := range c.Then {
			if bad(kn.Kind, kn.N) {
				err = fmt.Errorf("bad execution %v", kn)
			}
		}
		if err != nil || bad(c.Kind, c.N) || c.Names < 0 || c.Names > len(nameSets) {
			return &vk.Fail{Kind: "decode", Msg: fmt.Sprint("bad case: ", err)}
		}
		return run(r, c, prog)
	})
	return r
}

func TestReplay(t *testing.T) { setup(t).ReplayEnv() }

// markerOf starts every iteration over a map with what tells it apart: the key, or the value where keys do not print.
func markerOf(ik iterKind) []model.Node {
	name := "k"
	if ik.byValue {
		name = "v"
	}
	return []model.Node{model.Text{S: "{{"}, model.Emit{X: model.Var{Name: name}}, model.Text{S: "}}"}}
}

// wholeProg wraps a fixed body into the loop over the iterable of the kind.
func wholeProg(ik iterKind, n int, two bool, body []model.Node) []model.Node {
	key := ""
	if two {
		key = "k"
	}
	if ik.isMap {
		body = append(markerOf(ik), body...)
	}
	var iter model.Expr = model.Var{Name: "xs"}
	if ik.expr != nil {
		iter = ik.expr(n)
	}
	return []model.Node{model.Text{S: "<"}, model.EmitFor{For: &model.For{Key: key, Val: "v", Iter: iter, Body: body}}, model.Text{S: ">"}}
}

// lengths of a kind in the sweep
func lengths(ik iterKind, maxN int) []int {
	var out []int
	for n := 0; n <= maxN; n++ {
		if (ik.bad || ik.empty) && n > 0 || ik.maxN > 0 && n > ik.maxN || ik.name == "hash literal" && n > 1 {
			continue
		}
		out = append(out, n)
	}
	return out
}

// thenable kinds can follow one another under one parsed template: the iterable is the plain variable xs
func thenable(ik iterKind) bool { return ik.build != nil && ik.spell == "" && !ik.byValue }

func TestProp(t *testing.T) {
	r := setup(t)
	defer r.Finish()
	r.ReplayCommitted()

	maxN := r.Pick(5, 6)
	var cells int64
	sweepNames := 0
	var only map[int]bool // nil: every fixed body
	sweep := func(ki, n int, heads []int) {
		ik := iterKinds[ki]
		for bi, body := range fixedBodies(ik, n) {
			if only != nil && !only[bi] {
				continue
			}
			for _, two := range []bool{false, true} {
				if !two && (ik.isMap || usesK.MatchString(model.Printer{}.Nodes(body))) {
					continue
				}
				prog := wholeProg(ik, n, two, body)
				for _, compact := range []bool{false, true} {
					if compact && (model.Printer{Compact: true}).Nodes(prog) == (model.Printer{}).Nodes(prog) {
						continue
					}
					for _, head := range heads {
						if r.Mine(cells) {
							r.Check(run(r, Case{Kind: ki, N: n, Compact: compact, Head: head, Names: sweepNames}, prog))
						}
						cells++
					}
				}
			}
		}
	}
	for ki, ik := range iterKinds {
		for _, n := range lengths(ik, maxN) {
			sweep(ki, n, []int{0})
		}
	}
	r.Subspace(fmt.Sprintf("%d iterable kinds x lengths 0..%d x 55-59 fixed bodies (9 nil-tolerant ones for collections holding nil) x one/two loop variables x canonical/compact layout", len(iterKinds), maxN), cells, true)

	// long collections (growth of whatever holds the iterations' output, chunking) and the other spellings of the head
	cells = 0
	only = map[int]bool{2: true, 3: true, 4: true, 8: true, 12: true, 14: true, 24: true, 27: true, 31: true, 32: true, 33: true, 34: true, 37: true, 40: true}
	for _, ki := range []int{0, 3, 7, 14, 15, 17} {
		for _, n := range []int{17, 64, 65, 130, 257} {
			sweep(ki, n, []int{0})
		}
	}
	only = nil
	for _, ki := range []int{0, 7, 14, 15, 48} {
		sweep(ki, 3, []int{1, 2, 3, 4})
	}
	for _, ki := range []int{0, 7, 15, 41, 48} {
		for names := 1; names <= len(nameSets); names++ {
			sweepNames = names
			sweep(ki, 3, []int{0})
		}
		sweepNames = 0
	}
	r.Subspace("6 iterable kinds x lengths {17, 64, 65, 130, 257} x 14 of the fixed bodies; 5 kinds x length 3 x fixed bodies x 4 further spellings of the loop head; 5 kinds x length 3 x fixed bodies x 6 other sets of variable names", cells, true)

	// maps in the one-variable form: bodies that read no variable render the same under every visiting order
	cells = 0
	for ki, ik := range iterKinds {
		if !ik.isMap {
			continue
		}
		T := func(s string) model.Node { return model.Text{S: s} }
		brk, cnt := model.Code{S: model.BreakS{}}, model.Code{S: model.ContinueS{}}
		plain := ik
		plain.isMap = false // no key marker
		for _, n := range lengths(ik, maxN) {
			for _, body := range [][]model.Node{
				{T("a")},
				{T("a"), brk, T("dead")},
				{T("a"), cnt, T("dead")},
				{model.EmitFor{For: &model.For{Val: "w", Iter: model.Var{Name: "ys"}, Body: []model.Node{T("i"), model.Code{S: model.IfS{If: &model.If{Cond: model.Lit{V: true}, Then: []model.Node{brk}}}}}}}, T("a")},
				{model.EmitIf{If: &model.If{Cond: model.Lit{V: false}, Then: []model.Node{T("f")}, ElseIfs: []model.ElseIf{{Cond: model.Lit{V: true}, Then: []model.Node{T("x"), cnt}}}}}, T("dead")},
			} {
				if r.Mine(cells) {
					r.Check(run(r, Case{Kind: ki, N: n}, wholeProg(plain, n, false, body)))
				}
				cells++
			}
		}
	}
	r.Subspace("map kinds x lengths x 5 bodies that read no variable, one-variable form", cells, true)

	// (T) one parsed template, several executions: every ordered pair of (kind, length in {0, 1, 3}) of the kinds
	// that bind xs directly and agree on what the bodies may compare, x 6 bodies
	cells = 0
	var tk []int
	for ki, ik := range iterKinds {
		if thenable(ik) && !ik.hasNil {
			tk = append(tk, ki)
		}
	}
	pairBodies := []int{2, 3, 8, 12, 24, 34}
	for _, a := range tk {
		for _, b := range tk {
			ia, ib := iterKinds[a], iterKinds[b]
			if a == b || !(ia.bad || ib.bad || ia.empty || ib.empty || ia.elem == ib.elem && ia.key == ib.key) {
				continue
			}
			for _, na := range []int{0, 1, 3} {
				for _, nb := range []int{0, 1, 3} {
					if (ia.bad || ia.empty) && na > 0 || (ib.bad || ib.empty) && nb > 0 {
						continue
					}
					lead := ia
					if ia.bad || ia.empty {
						lead = ib
					}
					for _, bi := range pairBodies {
						if r.Mine(cells) && (r.Thorough() || cells%int64(r.Pick(7, 1)) == 0) {
							prog := wholeProg(iterKind{isMap: ia.isMap || ib.isMap}, 0, true, fixedBodies(lead, 3)[bi])
							r.Check(run(r, Case{Kind: a, N: na, Then: []KN{{b, nb}, {a, na}}}, prog))
						}
						cells++
					}
				}
			}
		}
	}
	r.Subspace(fmt.Sprintf("one parsed template executed with A, B, A: ordered pairs of %d kinds binding xs x lengths {0,1,3}^2 x 6 bodies (quick: every 7th cell)", len(tk)), cells, r.Thorough())

	// (D) nesting depth: d loops inside one another, and a control statement under d ifs. Only the first failing
	// depth of a shape is reported.
	cells = 0
	for si := range deepShapes {
		failed := false
		depths := []int{0, 1, 2, 3, 8, 50, 250, 332, 333, 334, 499, 500, 501, 998, 999, 1000, 1001, 1500}
		if r.Thorough() {
			depths = append(depths, 5000)
		}
		for _, d := range depths {
			if r.Mine(cells) && !failed {
				failed = !r.Check(run(r, Case{Kind: 0, N: 3, Shape: si + 1, Depth: d}, deepProg(si+1, d)))
			}
			cells++
		}
	}
	r.Subspace("6 shapes (nested loops; break in the innermost of nested loops; break under nested emitting ifs / else-if branches / silent ifs; loops and ifs alternating) x 18 nesting depths 0..1500 (thorough: and 5000)", cells, true)

	// (C) Render and Exec take any hctx.Context, not only a *plush.Context. Only the first failure is reported.
	cells = 0
	failed := false
	for _, ki := range []int{0, 3, 7, 14, 15, 20, 41, 48} {
		for _, n := range []int{0, 2} {
			for _, bi := range []int{2, 3, 12} {
				if r.Mine(cells) && !failed {
					ik := iterKinds[ki]
					failed = !r.Check(run(r, Case{Kind: ki, N: n, Ctx: "wrapped"}, wholeProg(ik, n, true, fixedBodies(ik, n)[bi])))
				}
				cells++
			}
		}
	}
	r.Subspace("8 iterable kinds x lengths {0,2} x 3 bodies rendered with a context that wraps a *plush.Context", cells, true)

	r.Rapid("bodies", r.Pick(9000, 90000), func(t *rapid.T) *vk.Fail {
		kind := rapid.IntRange(0, len(iterKinds)-1).Draw(t, "iterable")
		ns := lengths(iterKinds[kind], 6)
		n := ns[rapid.IntRange(0, len(ns)-1).Draw(t, "n")]
		g := &bodyGen{t: t}
		c := Case{Kind: kind, N: n, Compact: rapid.IntRange(0, 2).Draw(t, "compact") == 0}
		if rapid.IntRange(0, 7).Draw(t, "head") == 0 {
			c.Head = rapid.IntRange(1, 4).Draw(t, "spelling")
		}
		if rapid.IntRange(0, 5).Draw(t, "rename") == 0 {
			c.Names = rapid.IntRange(1, len(nameSets)).Draw(t, "names")
		}
		return run(r, c, g.program(kind, n))
	})

	r.Rapid("executions", r.Pick(3000, 40000), func(t *rapid.T) *vk.Fail {
		var tk []int
		for ki, ik := range iterKinds {
			if thenable(ik) {
				tk = append(tk, ki)
			}
		}
		kind := tk[rapid.IntRange(0, len(tk)-1).Draw(t, "iterable")]
		ia := iterKinds[kind]
		pick := func() KN {
			var same []int
			for _, ki := range tk {
				if ib := iterKinds[ki]; ib.bad || ib.empty || ib.elem == ia.elem && ib.key == ia.key && ib.isMap == ia.isMap {
					same = append(same, ki)
				}
			}
			ki := same[rapid.IntRange(0, len(same)-1).Draw(t, "next")]
			ns := lengths(iterKinds[ki], 6)
			return KN{ki, ns[rapid.IntRange(0, len(ns)-1).Draw(t, "next_n")]}
		}
		ns := lengths(ia, 6)
		c := Case{Kind: kind, N: ns[rapid.IntRange(0, len(ns)-1).Draw(t, "n")], Compact: rapid.IntRange(0, 2).Draw(t, "compact") == 0}
		for i := rapid.IntRange(1, 2).Draw(t, "executions"); i > 0; i-- {
			c.Then = append(c.Then, pick())
		}
		g := &bodyGen{t: t}
		return run(r, c, g.program(kind, c.N))
	})
}
